#!/bin/bash
# setup_cmd: build the static Coq development (full .vo build) and the extracted OCaml driver. Offline.
set -e
cd "$(dirname "$0")"
mkdir -p build evidence replays
cd coq
coq_makefile -f _CoqProject -o Makefile >/dev/null
timeout 3000 make -j16
cd ..
export PYTHONPATH=/repo PYTHONHASHSEED=0
/venv/bin/python - <<'PY'
import sys
sys.path.insert(0, "tools")
import vlib
ctx = vlib.Ctx("setup", "quick", 1)
ctx.driver()
print("driver built")
PY
