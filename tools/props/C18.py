"""C18 — the generated Lua binding is call-equivalent to the wrapped library.

Theorems: coq/Properties/C18.v over coq/Model/LuaDispatch.v (all_calls / by-count / first-match
dispatch / argument stack indices).
Tie: for random library descriptions the REAL wrapl output is compiled (g++) against a stub of the
Lua C API (tools/cgen/lua, part of the trusted base: no Lua is installed) and an instrumented
library; every function is driven with matching and non-matching argument stacks and the observed
library calls / pushed results / errors are compared with the extracted model's prediction.
"""
import json
import os
import re

import vlib
from vlib import enc

KF_NOCHECK = "lua-single-call-unchecked"
KF_MIXRES = "lua-overloads-mixed-result"
KF_STRBOOL = "lua-string-vs-bool-overload"

TYPES = {          # name: (C++ param type, lua tag, printf fmt for the log, yaml decl type)
    "int": ("int", "N"), "long": ("long", "N"), "double": ("double", "N"), "bool": ("bool", "B"),
    "string": ("const std::string &", "S"),
}
RET = {"void": None, "int": "N", "double": "N", "bool": "B", "string": "S"}


# ----------------------------------------------------------------- library generation
def gen_library(rng, idx):
    """Returns a description: dict(funcs=[overload sets], cls=[...])  each function:
       dict(name, params=[(type, has_default)], ret, method=bool, ctor=bool)."""
    def params(maxn, universe):
        n = rng.randint(0, maxn)
        ps = [rng.choice(universe) for _ in range(n)]
        nd = rng.choice([0, 0, 1, 2, 3]) if n else 0
        return [(t, i >= n - nd) for i, t in enumerate(ps)]

    def distinct_sigs(k, maxn):
        # const char* -> bool beats const char* -> std::string in C++ overload resolution (known finding
        # lua-string-vs-bool-overload, exercised by a fixed library): an overload set uses bool or string, not both
        universe = rng.choice([["int", "long", "double", "bool"], ["int", "long", "double", "string"]]) if k > 1 else list(TYPES)
        sigs = []
        tries = 0
        while len(sigs) < k and tries < 50:
            tries += 1
            p = params(maxn, universe)
            # C++ needs overloads callable without ambiguity: all default-prefix type lists distinct
            keys = {tuple(t for t, _ in p[:m]) for m in range(len(p) - sum(1 for _, d in p if d), len(p) + 1)}
            if any(keys & s[1] for s in sigs):
                continue
            sigs.append((p, keys))
        return [s[0] for s in sigs]

    funcs = []
    for i in range(rng.randint(2, 4)):
        name = "fn%d" % i
        # one value type per overload set (differing non-void result types do not compile: that is C05's concern);
        # a void member may be mixed in (known finding lua-overloads-mixed-result)
        rt = rng.choice(list(RET))
        for j, p in enumerate(distinct_sigs(rng.choice([1, 1, 2, 3]), rng.choice([3, 5]))):
            # (a void member after a value-returning one does not compile: only the first may be void)
            funcs.append(dict(name=name, params=p, ret=rt, method=False, ctor=False))
    cls = []
    for p in distinct_sigs(rng.choice([1, 2]), 2):
        cls.append(dict(name="Cls", params=p, ret=None, method=False, ctor=True))
    for i in range(rng.randint(1, 3)):
        name = "meth%d" % i
        rt = rng.choice(list(RET))
        for j, p in enumerate(distinct_sigs(rng.choice([1, 1, 2]), rng.choice([3, 5]))):
            cls.append(dict(name=name, params=p, ret=rt, method=True, ctor=False))
    return dict(funcs=funcs, cls=cls, idx=idx)


def finding_libraries():
    """fixed libraries that exhibit the recorded findings (run on every check)."""
    mixed = dict(funcs=[dict(name="fm", params=[("int", False)], ret="void", method=False, ctor=False),
                        dict(name="fm", params=[("string", False)], ret="string", method=False, ctor=False)],
                 cls=[dict(name="Cls", params=[], ret=None, method=False, ctor=True)], idx=900)
    strbool = dict(funcs=[dict(name="fs", params=[("int", False)], ret="int", method=False, ctor=False)],
                   cls=[dict(name="Cls", params=[("string", True), ("bool", True)], ret=None, method=False, ctor=True),
                        dict(name="Cls", params=[("bool", False)], ret=None, method=False, ctor=True)], idx=901)
    return [mixed, strbool]


def directed_libraries():
    """fixed libraries (run on every check): overloads that Lua cannot tell apart by argument type (one number type),
    where a later overload has default arguments -- its shorter call forms are still reachable."""
    same = dict(funcs=[dict(name="fq", params=[("int", False), ("int", False)], ret="int", method=False, ctor=False),
                       dict(name="fq", params=[("double", False), ("double", True)], ret="int", method=False, ctor=False),
                       dict(name="fq", params=[("string", False)], ret="int", method=False, ctor=False),
                       dict(name="fr", params=[("long", False), ("int", False)], ret="double", method=False, ctor=False),
                       dict(name="fr", params=[("double", False), ("double", True), ("double", True)], ret="double", method=False, ctor=False)],
                cls=[dict(name="Cls", params=[], ret=None, method=False, ctor=True),
                     dict(name="mq", params=[("int", False)], ret="int", method=True, ctor=False),
                     dict(name="mq", params=[("double", False), ("int", True)], ret="int", method=True, ctor=False)], idx=910)
    # an overload set whose members return different types, the one with default arguments first: every call form pushes the
    # result of the overload it calls, with that overload's type
    mixedret = dict(funcs=[dict(name="fz", params=[("double", False), ("double", True)], ret="double", method=False, ctor=False),
                           dict(name="fz", params=[("string", False)], ret="int", method=False, ctor=False)],
                    cls=[dict(name="Cls", params=[], ret=None, method=False, ctor=True),
                         dict(name="mz", params=[("int", False), ("double", True), ("int", True)], ret="double", method=True, ctor=False),
                         dict(name="mz", params=[("string", False), ("string", False)], ret="bool", method=True, ctor=False)], idx=911)
    return [same, mixedret]


DEFAULTS = {"int": "7", "long": "8", "double": "2.5", "bool": "true", "string": '"dflt"'}
# default values by parameter position: odd positions take the ZERO-like value of the type (0, 0.0, false, ""), which must be
# a default like any other
ZDEFAULTS = {"int": "0", "long": "0", "double": "0.0", "bool": "false", "string": '""'}
ZLOG = {"int": "0", "long": "0", "double": "0", "bool": "false", "string": "[]"}
NLOG = {"int": "7", "long": "8", "double": "2.5", "bool": "true", "string": "[dflt]"}


def dflt(t, i):
    return ZDEFAULTS[t] if i % 2 else DEFAULTS[t]


def dlog(t, i):
    return ZLOG[t] if i % 2 else NLOG[t]
RETVAL = {"int": "41", "double": "1.25", "bool": "true", "string": 'std::string("res")'}


def cxx_params(ps, with_defaults):
    out = []
    for i, (t, d) in enumerate(ps):
        s = "%s a%d" % (TYPES[t][0], i)
        if d and with_defaults:
            s += " = " + dflt(t, i)
        out.append(s)
    return ", ".join(out)


def log_stmt(tag, ps):
    fmt = tag
    args = []
    for i, (t, _) in enumerate(ps):
        if t in ("int",):
            fmt += " %d"
            args.append("a%d" % i)
        elif t == "long":
            fmt += " %ld"
            args.append("a%d" % i)
        elif t == "double":
            fmt += " %g"
            args.append("a%d" % i)
        elif t == "bool":
            fmt += " %s"
            args.append('(a%d ? "true" : "false")' % i)
        else:
            fmt += " [%s]"
            args.append("a%d.c_str()" % i)
    return 'std::printf("LOG %s\\n"%s);' % (fmt, "".join(", " + a for a in args))


def write_library(lib, d):
    hpp = ["#pragma once", "#include <string>", "#include <cstdio>"]
    cpp = ['#include "tlib.hpp"']
    ydecl = []
    for k, f in enumerate(lib["funcs"]):
        f["tag"] = "%s#%d" % (f["name"], k)
        rt = "void" if f["ret"] == "void" else ("const std::string" if f["ret"] == "string" else f["ret"])
        hpp.append("%s %s(%s);" % (rt, f["name"], cxx_params(f["params"], True)))
        body = log_stmt(f["tag"], f["params"]) + ("" if f["ret"] == "void" else " return %s;" % RETVAL[f["ret"]])
        cpp.append("%s %s(%s) { %s }" % (rt, f["name"], cxx_params(f["params"], False), body))
        ydecl.append({"decl": "%s %s(%s)" % (rt, f["name"], cxx_params(f["params"], True))})
    hpp.append("class Cls { public:")
    cdecl = []
    for k, f in enumerate(lib["cls"]):
        f["tag"] = "%s#%d" % (f["name"], k)
        if f["ctor"]:
            hpp.append("  Cls(%s) { %s }" % (cxx_params(f["params"], True), log_stmt(f["tag"], f["params"])))
            cdecl.append({"decl": "Cls(%s)" % cxx_params(f["params"], True)})
        else:
            rt = "void" if f["ret"] == "void" else ("const std::string" if f["ret"] == "string" else f["ret"])
            body = log_stmt(f["tag"], f["params"]) + ("" if f["ret"] == "void" else " return %s;" % RETVAL[f["ret"]])
            hpp.append("  %s %s(%s) { %s }" % (rt, f["name"], cxx_params(f["params"], True), body))
            cdecl.append({"decl": "%s %s(%s)" % (rt, f["name"], cxx_params(f["params"], True))})
    hpp.append('  ~Cls() { std::printf("LOG ~Cls\\n"); }')
    cdecl.append({"decl": "~Cls()"})
    hpp.append("};")
    ydecl.append({"decl": "class Cls", "declarations": cdecl})
    open(os.path.join(d, "tlib.hpp"), "w").write("\n".join(hpp) + "\n")
    open(os.path.join(d, "tlib.cpp"), "w").write("\n".join(cpp) + "\n")
    import yaml
    y = {"library": "tlib", "cxx_header": "tlib.hpp",
         "options": {"wrap_c": False, "wrap_fortran": False, "wrap_python": False, "wrap_lua": True},
         "declarations": ydecl}
    yaml.safe_dump(y, open(os.path.join(d, "tlib.yaml"), "w"), sort_keys=False)


DRIVER = r'''
#include <cstdio>
#include <cstring>
#include <cstdlib>
#include <string>
#include "tlib.hpp"
#include "luastub.h"
#include "luatlibmodule.hpp"
static sval objs[64]; static int nobjs = 0;
int main() {
    lua_State *L = stub_newstate();
    luaopen_tlib(L);
    char line[4096];
    while (fgets(line, sizeof line, stdin)) {
        char table[64], fname[64]; int n, off = 0, used;
        if (sscanf(line, "%63s %63s %d%n", table, fname, &n, &used) != 3) continue;
        off = used;
        stub_settop0(L);
        for (int i = 0; i < n; i++) {
            char a[256];
            if (sscanf(line + off, " %255s%n", a, &used) != 1) break;
            off += used;
            sval v; memset(&v, 0, sizeof v);
            if (a[0] == 'n') { v.tag = LUA_TNUMBER; v.num = atof(a + 1); }
            else if (a[0] == 'i') { v.tag = LUA_TNUMBER; v.isint = 1; v.inum = (long long) strtoull(a + 1, NULL, 10); v.num = (double) v.inum; }
            else if (a[0] == 'b') { v.tag = LUA_TBOOLEAN; v.num = atoi(a + 1); }
            else if (a[0] == 's') { v.tag = LUA_TSTRING; strncpy(v.str, a + 1, sizeof v.str - 1); }
            else if (a[0] == 'u') { v = objs[atoi(a + 1)]; }
            else { v.tag = LUA_TNIL; }
            stub_push(L, v);
        }
        lua_CFunction f = stub_find(table, fname);
        if (!f) { std::printf("NOFUNC\n"); std::fflush(stdout); continue; }
        if (setjmp(*stub_jmp(L)) == 0) {
            int r = f(L);
            std::printf("RET %d", r);
            for (int i = stub_top(L) - r + 1; i <= stub_top(L); i++) {
                sval *v = stub_at(L, i);
                if (!v) { std::printf(" ?"); continue; }
                if (v->tag == LUA_TNUMBER && v->isint && (v->inum > 9007199254740992LL || v->inum < -9007199254740992LL)) std::printf(" i%llu", (unsigned long long) v->inum);
                else if (v->tag == LUA_TNUMBER) std::printf(" n%g", v->num);
                else if (v->tag == LUA_TBOOLEAN) std::printf(" b%d", (int) v->num);
                else if (v->tag == LUA_TSTRING) std::printf(" s%s", v->str);
                else if (v->tag == LUA_TUSERDATA) { objs[nobjs] = *v; std::printf(" u%d:%s", nobjs, v->meta); nobjs++; }
                else std::printf(" t%d", v->tag);
            }
            std::printf("\n");
        } else {
            std::printf("ERR %s\n", stub_error(L));
        }
        std::fflush(stdout);
    }
    return 0;
}
'''


def build(ctx, lib, tag):
    import corpus
    d = os.path.join(ctx.bdir, "lua", tag)
    os.makedirs(d, exist_ok=True)
    write_library(lib, d)
    od = os.path.join(d, "out")
    rc, out = corpus.run_shroud(os.path.join(d, "tlib.yaml"), od)
    if rc != 0:
        return None, "shroud failed: " + out[-1200:]
    stub = os.path.join(vlib.VERIF, "tools", "cgen", "lua")
    open(os.path.join(d, "driver.cpp"), "w").write(DRIVER)
    rc, out = vlib.sh("gcc -c -w -I%s %s/luastub.c -o luastub.o && "
                      "g++ -std=c++11 -w -fpermissive -I%s -I%s -I. driver.cpp tlib.cpp %s/luatlibmodule.cpp luastub.o -o drv"
                      % (stub, stub, stub, od, od), cwd=d, timeout=300)
    if rc != 0:
        return None, "compile failed: " + out[-2000:]
    return os.path.join(d, "drv"), ""


WIDE = [("echo_u64", "uint64_t"), ("echo_ull", "unsigned long long"), ("echo_ll", "long long"), ("echo_i64", "int64_t"),
        ("echo_l", "long"), ("echo_sz", "size_t")]


def wide_integers(ctx):
    """Integer arguments and results that a double cannot hold (above 2^53): the library receives the caller's integer and the
    caller receives the library's, bit for bit (Lua 5.3 integers are 64 bits wide; the stub keeps them so)."""
    import corpus
    import subprocess
    import yaml
    d = os.path.join(ctx.bdir, "lua", "wide")
    os.makedirs(d, exist_ok=True)
    hpp = "#pragma once\n#include <stdint.h>\n#include <stddef.h>\n" + "".join("%s %s(%s v);\n" % (t, n, t) for n, t in WIDE) + \
          "uint64_t scale64(uint64_t v, int k = 1);\n"
    cpp = '#include <cstdio>\n#include "tlib.hpp"\n' + "".join(
        '%s %s(%s v) { std::printf("CALL %s %%llu\\n", (unsigned long long) v); return v; }\n' % (t, n, t, n) for n, t in WIDE) + \
        'uint64_t scale64(uint64_t v, int k) { std::printf("CALL scale64 %llu %d\\n", (unsigned long long) v, k); return v - (uint64_t) k; }\n'
    open(os.path.join(d, "tlib.hpp"), "w").write(hpp)
    open(os.path.join(d, "tlib.cpp"), "w").write(cpp)
    yaml.safe_dump({"library": "tlib", "cxx_header": "tlib.hpp", "options": {"wrap_lua": True, "wrap_fortran": False, "wrap_c": False, "wrap_python": False},
                    "declarations": [{"decl": "%s %s(%s v)" % (t, n, t)} for n, t in WIDE] + [{"decl": "uint64_t scale64(uint64_t v, int k = 1)"}]},
                   open(os.path.join(d, "tlib.yaml"), "w"), sort_keys=False)
    od = os.path.join(d, "out")
    rc, out = corpus.run_shroud(os.path.join(d, "tlib.yaml"), od)
    if rc != 0:
        ctx.broken.append(("correspondence", "lua-wide-integers-generate", out[-1200:]))
        return
    stub = os.path.join(vlib.VERIF, "tools", "cgen", "lua")
    open(os.path.join(d, "driver.cpp"), "w").write(DRIVER)
    rc, out = vlib.sh("gcc -c -w -I%s %s/luastub.c -o luastub.o && "
                      "g++ -std=c++11 -w -fpermissive -I%s -I%s -I. driver.cpp tlib.cpp %s/luatlibmodule.cpp luastub.o -o drv"
                      % (stub, stub, stub, od, od), cwd=d, timeout=300)
    if rc != 0:
        ctx.broken.append(("correspondence", "lua-wide-integers-compile", out[-2000:]))
        return
    vals = [9007199254740993, 9007199254740995, 2 ** 62 + 1, 2 ** 63 - 1, 12345]
    for n, t in WIDE + [("scale64", "uint64_t")]:
        for v in vals:
            stacks = [["i%d" % v]] + ([["i%d" % v, "n3"]] if n == "scale64" else [])
            for st in stacks:
                p = subprocess.run([os.path.join(d, "drv")], input="module %s %d %s\n" % (n, len(st), " ".join(st)), capture_output=True, text=True)
                ctx.count(1, ("wide", n, v, len(st)))
                ctx.hist("wide-integer:" + t.replace(" ", "-"))
                k = 3 if len(st) == 2 else 1
                r = v - k if n == "scale64" else v
                exp = ["CALL %s %d" % (n, v) + ((" %d" % k) if n == "scale64" else ""), "RET 1 " + (("i%d" % r) if r > 2 ** 53 else ("n%g" % r))]
                got = p.stdout.strip().split("\n")
                if got != exp:
                    ctx.violation("failing-input", {"what": "an integer argument or result above 2^53 does not pass through the Lua binding unchanged",
                                                    "function": "%s %s(%s v%s)" % (t, n, t, ", int k = 1" if n == "scale64" else ""), "stack": st,
                                                    "expected": exp, "observed": got})
                    return


# ----------------------------------------------------------------- stacks and expectations
def sample_value(rng, tag):
    if tag == "N":
        return "n%d" % rng.choice([0, 1, 5, 12, -3])
    if tag == "B":
        return "b%d" % rng.choice([0, 1])
    if tag == "S":
        return "s" + rng.choice(["abc", "x", "hello"])
    return "-"


def tagof(val):
    return {"n": "N", "b": "B", "s": "S", "u": "U", "-": "Z"}[val[0]]


def conv(t, val):
    """what the C++ library receives for a parameter of type t from stack value val (after a type match)."""
    if t in ("int", "long"):
        return str(int(float(val[1:])))
    if t == "double":
        return "%g" % float(val[1:])
    if t == "bool":
        return "true" if val[1:] != "0" else "false"
    return "[" + val[1:] + "]"


def model_query(group, is_method, stack_tags):
    """driver line for Model/LuaDispatch: overloads as  tags:defaults:hasresult ; stack tags."""
    ovs = []
    for f in group:
        ovs.append("%s:%s:%d" % ("".join(TYPES[t][1] for t, _ in f["params"]) or "-",
                                 "".join("1" if d else "0" for _, d in f["params"]) or "-",
                                 0 if (f["ret"] in (None, "void") and not f["ctor"]) else 1))
    return "lua|%d|%s|%s" % (1 if is_method else 0, ";".join(ovs), "".join(stack_tags) or "-")


def expected_from_model(m, group, stack_vals, ctor):
    """model answer -> expected driver output lines."""
    if m.startswith("ERR"):
        return ["ERR"]
    # CALLS i:n:idx,idx,...;...  then |RET k
    calls, ret = m[6:].split("|")
    out = []
    for c in calls.split(";"):
        i, n, idxs = c.split(":")
        f = group[int(i)]
        vals = []
        for k, ix in enumerate(idxs.split(",") if idxs else []):
            t = f["params"][k][0]
            ix = int(ix)
            sv = stack_vals[ix - 1] if 0 < ix <= len(stack_vals) else "-"
            vals.append((t, sv))
        # defaults for the rest
        line = "LOG " + f["tag"]
        for (t, sv) in vals:
            line += " " + conv_any(t, sv)
        for i_, (t, _) in enumerate(f["params"]):
            if i_ >= len(vals):
                line += " " + dlog(t, i_)
        out.append(line)
    out.append("RET " + ret)
    return out


def conv_any(t, sv):
    """stub conversions for values that were NOT type checked (single-call functions, method self bug)."""
    k = sv[0]
    if t in ("int", "long"):
        return str(int(float(sv[1:]))) if k == "n" else (str(int(float(sv[1:]))) if k == "s" and re.match(r"^-?\d", sv[1:]) else "0")
    if t == "double":
        return ("%g" % float(sv[1:])) if k == "n" else "0"
    if t == "bool":
        return "false" if (k == "-" or (k == "b" and sv[1:] == "0")) else "true"
    if k == "s":
        return "[" + sv[1:] + "]"
    if k == "n":
        return "[%.14g]" % float(sv[1:])
    return None   # NULL -> std::string(NULL): undefined; such stacks are not generated


def run(ctx):
    ctx.rules.append("random libraries (free functions, a class with constructors and methods; overload sets, trailing defaults; "
                     "int/long/double/bool/std::string parameters, void/int/double/bool/string results) compiled against the Lua "
                     "API stub; per function: every exact-arity typed stack, wrong-type and wrong-arity stacks. non-trivial = "
                     "distinct (library, function, stack) executed")
    ctx.assume += ["tools/cgen/lua is a stand-in for the Lua C API (no Lua in the sandbox): trusted",
                   "conversions lua_to* on mismatched values follow the Lua manual only as far as the stub implements them"]
    ctx.hygiene()
    ctx.static_build()
    ctx.prove(os.path.join(vlib.COQ, "Properties", "C18.v"))
    drv = ctx.driver()
    quick = ctx.tier == "quick"
    nlibs = 16 if quick else 120
    from concurrent.futures import ThreadPoolExecutor
    libs = directed_libraries() + [gen_library(ctx.rng, i) for i in range(nlibs)] + finding_libraries()

    def one(lib):
        exe, err = build(ctx, lib, "L%d" % lib["idx"])
        return lib, exe, err
    with ThreadPoolExecutor(vlib.NCPU) as ex:
        built = list(ex.map(one, libs))
    import subprocess
    for lib, exe, err in built:
        if exe is None:
            ctx.broken.append(("correspondence", "lua-build", err[-1500:]))
            ctx.say("build failed: " + err[-800:])
            continue
        groups = {}
        for f in lib["funcs"]:
            groups.setdefault(("module", f["name"], False, False), []).append(f)
        for f in lib["cls"]:
            if f["ctor"]:
                groups.setdefault(("module", "Cls", False, True), []).append(f)
            else:
                groups.setdefault(("Cls.metatable", f["name"], True, False), []).append(f)
        cmds = ["module Cls 0"] if any(not f["params"] or all(d for _, d in f["params"]) for f in lib["cls"] if f["ctor"]) else []
        have_obj = bool(cmds)
        queries = []
        for (table, name, is_method, is_ctor), group in groups.items():
            if is_method and not have_obj:
                continue
            stacks = set()
            for f in group:
                nreq = sum(1 for _, d in f["params"] if not d)
                for n in range(nreq, len(f["params"]) + 1):
                    for _ in range(2):
                        stacks.add(tuple(sample_value(ctx.rng, TYPES[t][1]) for t, _ in f["params"][:n]))
                # wrong type / wrong arity (only for dispatching wrappers; unchecked single wrappers would hit UB on NULL strings)
                single = len(group) == 1 and not any(d for _, d in f["params"])
                if f["params"]:
                    bad = [sample_value(ctx.rng, TYPES[t][1]) for t, _ in f["params"]]
                    k = ctx.rng.randrange(len(bad))
                    other = [x for x in "NBS" if x != TYPES[f["params"][k][0]][1]]
                    if single and f["params"][k][0] == "string":
                        other = ["N"]      # an unchecked wrapper would build std::string from NULL (undefined behaviour)
                    bad[k] = sample_value(ctx.rng, ctx.rng.choice(other))
                    stacks.add(tuple(bad))
                stacks.add(tuple(sample_value(ctx.rng, "N") for _ in range(len(f["params"]) + 1)))
            for st in sorted(stacks):
                vals = (["u0"] if is_method else []) + list(st)
                # skip stacks that would construct std::string from NULL in unchecked code paths
                queries.append((table, name, is_method, is_ctor, group, vals))
        mres = drv.batch([model_query(g, m, [tagof(v) for v in vals]) for (_, _, m, _, g, vals) in queries])
        lines = cmds + ["%s %s %d %s" % (t, n, len(vals), " ".join(vals)) for (t, n, _, _, _, vals) in queries]
        p = subprocess.run([exe], input="\n".join(lines) + "\n", stdout=subprocess.PIPE, stderr=subprocess.PIPE, text=True, timeout=120)
        out = p.stdout.split("\n")
        # split output per command: each command ends with RET/ERR/NOFUNC line
        chunks, cur = [], []
        for l in out:
            if not l:
                continue
            cur.append(l)
            if l.startswith(("RET", "ERR", "NOFUNC")):
                chunks.append(cur)
                cur = []
        chunks = chunks[len(cmds):]
        if p.returncode != 0 or len(chunks) != len(queries):
            ctx.broken.append(("correspondence", "lua-run", "rc=%s stderr=%s chunks=%d queries=%d" % (p.returncode, p.stderr[-500:], len(chunks), len(queries))))
            continue
        for q, m, got in zip(queries, mres, chunks):
            (table, name, is_method, is_ctor, group, vals) = q
            ctx.count(1, (lib["idx"], name, tuple(vals)))
            ctx.hist(("method" if is_method else "ctor" if is_ctor else "function") + ":" + got[-1].split()[0])
            exp = expected_from_model(m, group, vals, is_ctor)
            g2 = [re.sub(r" u\d+:\S+", " u", x) for x in got]
            g2 = ["ERR" if x.startswith("ERR") else x for x in g2]
            e2 = [x for x in exp]
            if is_ctor and e2[-1].startswith("RET 1"):
                e2[-1] = "RET 1 u"
            elif e2[-1].startswith("RET"):
                # result value: from the return type of the called overload
                pass
            ok = (g2[:-1] == e2[:-1]) and g2[-1].split()[:2] == e2[-1].split()[:2]
            # property oracle on the implementation: the C++ function selected by count and types receives the stack values
            o = oracle(group, is_method, is_ctor, vals, got)
            kf = classify(o) if o else None
            explained = bool(kf and ctx.is_known(kf))
            if not ok and not (explained and kf == KF_STRBOOL):
                # (the string-vs-bool finding is decided by C++ overload resolution inside the selected branch,
                #  outside the dispatch the model describes)
                ctx.broken.append(("correspondence", "LuaDispatch.dispatch", "lib=%d fn=%s stack=%s got=%s model=%s" % (lib["idx"], name, vals, got, exp)))
                if len(ctx.broken) <= 3:
                    ctx.say("DISAGREE fn=%s stack=%s\n  got  =%s\n  model=%s (%s)" % (name, vals, got, exp, m))
            if o:
                if explained:
                    ctx.known_finding(kf, "")
                else:
                    ctx.violation("failing-input", {"what": o["what"], "input": {"library_yaml": open(os.path.join(ctx.bdir, "lua", "L%d" % lib["idx"], "tlib.yaml")).read(),
                                  "table": table, "function": name, "stack": vals}, "observed": got, "class": o.get("class")})
        ctx.traces += 1
    wide_integers(ctx)
    ctx.sample({"library": libs[0]["funcs"][:2], "note": "see tools/props/C18.py gen_library"})


def oracle(group, is_method, is_ctor, vals, got):
    """Independent statement of the property on the observed behaviour."""
    user = vals[1:] if is_method else vals
    tags = [tagof(v) for v in user]
    # candidates: overload + number of supplied args such that types match
    cands = []
    for f in group:
        nreq = sum(1 for _, d in f["params"] if not d)
        if nreq <= len(user) <= len(f["params"]) and all(TYPES[f["params"][k][0]][1] == tags[k] for k in range(len(user))):
            cands.append(f)
    if not cands:
        if got[-1].startswith("ERR"):
            return None
        return {"what": "a stack matching no wrapped signature raised no Lua error", "class": "no-error",
                "single": len(group) == 1 and not any(d for f in group for _, d in f["params"])}
    f = cands[0]
    exp = "LOG " + f["tag"] + "".join(" " + conv(f["params"][k][0], user[k]) for k in range(len(user)))
    for i_, (t, _) in enumerate(f["params"]):
        if i_ >= len(user):
            exp += " " + dlog(t, i_)
    if got[-1].startswith("ERR"):
        return {"what": "a matching call raised a Lua error: " + got[-1], "class": "error-on-match", "method": is_method}
    if exp not in got:
        # which overload was reached instead?
        strbool = False
        for l in got:
            if l.startswith("LOG "):
                tag = l.split()[1]
                for g in group:
                    if g["tag"] == tag and g is not f and len(g["params"]) >= len(user) and user:
                        diff = [k for k in range(len(user)) if TYPES[g["params"][k][0]][1] != TYPES[f["params"][k][0]][1]]
                        if diff and any(f["params"][k][0] == "string" and g["params"][k][0] == "bool" for k in diff):
                            strbool = True
        return {"what": "the library did not receive the supplied argument values: expected %r" % exp, "class": "wrong-values",
                "method": is_method, "strbool": strbool}
    want = 1 if (is_ctor or f["ret"] not in (None, "void")) else 0
    have = int(got[-1].split()[1])
    if have != want:
        mixed = len({(g["ret"] in (None, "void")) for g in group}) > 1
        return {"what": "wrong result count reported to Lua: %d instead of %d" % (have, want), "class": "result-count", "mixed": mixed}
    if want and not is_ctor:
        rv = {"int": "n41", "double": "n1.25", "bool": "b1", "string": "sres"}[f["ret"]]
        if got[-1].split()[2:] != [rv]:
            return {"what": "wrong result value pushed: %s instead of %s" % (got[-1], rv), "class": "result-value"}
    return None


def classify(o):
    if o.get("class") == "no-error" and o.get("single"):
        return KF_NOCHECK
    if o.get("class") == "result-count" and o.get("mixed"):
        return KF_MIXRES
    if o.get("class") == "wrong-values" and o.get("strbool"):
        return KF_STRBOOL
    return None


def replay(path):
    d = json.load(open(path))
    print(json.dumps(d, indent=1)[:5000])
    return 1
