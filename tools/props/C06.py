"""C06 — wrapped objects and returned memory are released exactly once, never early.

Theorems: coq/Properties/C06.v (invariant by induction over all admissible call histories of the capsule protocol; the
statement with handle copies refuted) + dyn/C06_tables.v over the statement table regenerated from /repo for c and c++
(temporaries freed by the same entry, created objects carry a matching release code).
Correspondence: the extracted Capsule.step run against the GENERATED C API of a class library (tools/cgen/cap: classes,
owner(caller)/library results, malloc'ed array result, std::string result copy-out), compiled from /repo's output with
-fsanitize=address and driven by the same operation sequences; compared: index and class of the first failing operation
(ASan verdict) and the library-side live-object counters at the end.
Search: sequences with handle copies / use after release (ASan), string/array helper calls with lengths 0 and exact fit.
"""
import collections
import json
import os
import re
import shutil
import subprocess
import sys

import vlib

KF_COPY = "copied-handle-double-release"
KF_PYDEL = "python-class-instances-never-released"
KF_PYLIST = "python-list-result-owner-caller-not-freed"
CAP = os.path.join(vlib.VERIF, "tools", "cgen", "cap")


def build(ctx):
    """generate the wrappers of cap.yaml from /repo and build the ASan driver. returns exe or None"""
    import corpus
    d = os.path.join(ctx.bdir, "cap")
    shutil.rmtree(d, ignore_errors=True)
    shutil.copytree(CAP, d)
    rc, out = corpus.run_shroud(os.path.join(d, "cap.yaml"), d)
    if rc != 0:
        ctx.broken.append(("correspondence", "shroud-run-cap", out[-1200:]))
        return None
    srcs = ["driver.cpp", "cap.cpp", "wrapcap.cpp", "wrapObj.cpp", "wrapOther.cpp", "utilcap.cpp", "wrapalpha_Item.cpp", "wrapbeta_Item.cpp", "wrapcap_beta.cpp", "wrapStamp.cpp"]
    p = subprocess.run(["g++", "-std=c++11", "-g", "-O0", "-fsanitize=address", "-fno-omit-frame-pointer", "-I", d, "-o", "drv"] + srcs,
                       cwd=d, capture_output=True, text=True)
    if p.returncode != 0:
        ctx.broken.append(("correspondence", "build-cap-driver", p.stderr[-2500:]))
        return None
    return os.path.join(d, "drv")


CAP_CORPUS = ["ownership", "classes", "strings", "vectors", "templates", "pointers-cxx", "struct-cxx", "arrayclass", "cxxlibrary", "namespace", "memdoc"]


def capsule_table(ctx):
    """release codes of the generated C++ sources (the capsule library built above + regression inputs) -> GenCapsule.v -> theorem"""
    import corpus
    import capflow
    rows = []
    c, st = capflow.extract(os.path.join(ctx.bdir, "cap"))
    rows.append(("cap", c, st))
    base = os.path.join(ctx.bdir, "capcorpus")
    for (name, y, cmd) in corpus.test_descs():
        if name not in CAP_CORPUS:
            continue
        od = os.path.join(base, name)
        rc, out = corpus.run_shroud(y, od, cmd)
        if rc != 0:
            ctx.broken.append(("correspondence", "shroud-run-" + name, out[-800:]))
            continue
        c, st = capflow.extract(od)
        rows.append((name, c, st))
    # Fortran side: a capsule a wrapper fills for the caller is a dummy with intent(OUT) — the compiler then finalises whatever the
    # caller's variable still held before the call (the capsule type has a FINAL procedure), so re-using a capsule variable for a
    # second owner(caller) result releases the first one.  (The capsule's own final / delete procedures take it INOUT.)
    import glob as _glob
    for fd in [os.path.join(ctx.bdir, "cap")] + sorted(_glob.glob(os.path.join(base, "*"))):
        for ff in sorted(_glob.glob(os.path.join(fd, "*.f")) + _glob.glob(os.path.join(fd, "*.f90"))):
            proc = ""
            for ln, line in enumerate(open(ff, errors="replace").read().split("\n")):
                t = line.strip()
                mp = re.match(r"^(?:pure\s+|elemental\s+)*(?:function|subroutine)\s+(\w+)", t, flags=re.I)
                if mp:
                    proc = mp.group(1)
                mc = re.match(r"^type\((\w*SHROUD_capsule)\)\s*,\s*intent\((\w+)\)\s*::\s*(\w+)", t, flags=re.I)
                if mc and not re.search(r"capsule_(final|delete)$", proc, flags=re.I):
                    ctx.count(1, ("capsule-dummy", os.path.basename(fd), os.path.basename(ff), proc))
                    ctx.hist("fortran-capsule-dummy:" + mc.group(2).upper())
                    if mc.group(2).upper() != "OUT":
                        ctx.violation("failing-input", {"what": "a Fortran wrapper receives the capsule for a caller-owned result as intent(%s): the memory the caller's "
                                                                "capsule variable still holds is not finalised before it is overwritten (leak when a capsule "
                                                                "variable is used for two results)" % mc.group(2).upper(),
                                                        "input": {"library": os.path.basename(fd), "file": os.path.basename(ff), "procedure": proc, "line": ln + 1, "text": t}})
    gdir = os.path.join(ctx.bdir, "gen_capsule")
    os.makedirs(gdir, exist_ok=True)
    nsites = capflow.emit_coq(rows, os.path.join(gdir, "GenCapsule.v"))
    for (label, c, st) in rows:
        for x in st:
            ctx.count(1, ("release-site", label, x[0], x[1], x[2]))
            ctx.hist("release-site:" + ("library-owned" if x[2] == 0 else c.get(x[2], ("", "missing"))[1]))
    rc, out = vlib.sh(["coqc", "-R", gdir, "ShroudGen", "-R", vlib.COQ, "Shroud", "GenCapsule.v"], cwd=gdir)
    if rc != 0:
        ctx.broken.append(("proof", "gen-capsule-compile", out[-1500:]))
        return
    shutil.copy(os.path.join(vlib.VERIF, "dyn", "C06_capsule.v"), os.path.join(gdir, "C06_capsule.v"))
    ok, out = ctx.prove(os.path.join(gdir, "C06_capsule.v"), extra_R=[(gdir, "ShroudGen")])
    ctx.extra["release_sites_in_table"] = nsites
    if not ok:
        # which site is not admitted?  (the failing input of the table obligation)
        POD = {"char", "short", "int", "long", "float", "double", "size_t", "bool"}
        for (label, c, st) in rows:
            for (fl, fn, n, typ, how) in st:
                if n == 0:
                    if how == "new":
                        ctx.violation("failing-input", {"what": "a generated wrapper creates an object with new and stores release code 0 (nothing to release): the object can never be released",
                                                        "input": {"library": label, "file": fl, "wrapper": fn, "pointer_type": typ}})
                    continue
                ct, act = c.get(n, ("", "missing"))
                bad = act == "missing" or (act != "other" and (ct != typ or (how == "new" and act != "delete") or
                                                               (typ.startswith(("std::string", "std::vector")) and act != "delete") or (typ in POD and act != "free")))
                if bad:
                    ctx.violation("failing-input", {"what": "a generated wrapper stores a release code whose case does not release the pointer's own type with the matching deallocator",
                                                    "input": {"library": label, "file": fl, "wrapper": fn, "release_code": n, "pointer_type": typ, "obtained_by": how,
                                                              "case_casts_to": ct, "case_action": act}})


def gen_seq(rng, allow_bad):
    """(model ops, driver lines). handles are numbered in creation order on both sides; 5 library objects pre-exist"""
    mops = ["L"] * 5
    lines = []
    hs = []       # per handle: dict(kind, owned, released, class)
    n = rng.randint(3, 25)
    for _ in range(n):
        r = rng.random()
        live = [i for i, h in enumerate(hs) if not h["released"]]
        if r < 0.3 or not hs:
            k = rng.choice([1, 1, 2, 3, 4, 5, 6, 7, 8, 9, 10, 10, 11, 11])
            mops.append("N:%d" % k)
            lines.append("new %d %d" % (k, rng.randint(0, 9)))
            hs.append({"kind": k, "owned": True, "released": False})
        elif r < 0.33:
            # a wrapper converting arguments through temporary buffers (no handle involved: no model operation)
            ntrim = rng.choice([0, 0, 1, 3, 7, 19, 20, 24])
            which = rng.randint(1, 6)
            if which == 6:
                # a std::vector<int> result of ntrim elements copied into a caller array that may be SHORTER, equal or longer
                lines.append("tmp 6 %d %d" % (ntrim, rng.choice([0, 1, 2, max(ntrim - 2, 0), ntrim, ntrim + 4])))
            else:
                lines.append("tmp %d %d %d" % (which, ntrim, ntrim + rng.choice([0, 0, 1, 5, 21])))
        elif r < 0.4:
            a = rng.randint(0, 4)
            mops.append("B:%d" % a)
            lines.append("borrow %d %d" % ((a, 0) if a < 4 else (0, 1)))
            hs.append({"kind": 1 if a < 4 else 3, "owned": False, "released": False})
        elif r < 0.6 and live:
            h = rng.choice(live)
            mops.append("M:%d" % h)
            lines.append("method %d" % h)
        elif r < 0.7 and live:
            # (the destructor wrapper on a pool object, kind 5, is a caller error like on a borrowed one)
            cand = [i for i in live if hs[i]["kind"] in (1, 2, 9, 10) and (hs[i]["owned"] or allow_bad)]
            if not cand:
                continue
            h = rng.choice(cand)
            mops.append("D:%d" % h)
            lines.append("dtor %d" % h)
            hs[h]["released"] = True
        elif r < 0.92:
            h = rng.randrange(len(hs))           # also an already released handle: must be a no-op
            if hs[h]["kind"] in (4, 6, 7) and not hs[h]["released"] and rng.random() < 0.7:
                mops += ["M:%d" % h, "R:%d" % h]       # ShroudCopyStringAndFree reads, then releases
                lines.append("copyfree %d" % h)
            else:
                mops.append("R:%d" % h)
                lines.append("release %d" % h)
            hs[h]["released"] = True
        elif allow_bad:
            h = rng.randrange(len(hs))
            if rng.random() < 0.6:
                mops.append("C:%d" % h)
                lines.append("copy %d" % h)
                hs.append(dict(hs[h]))
            else:
                mops.append("M:%d" % h)
                lines.append("method %d" % h)
    return mops, lines


# ----------------------------------------------------------------- the generated Python extension
def build_py(ctx):
    """generate the Python wrappers of the same library (list mode: no numpy) and build the extension with ASan. returns dir or None"""
    import corpus
    import sysconfig
    import yaml
    d = os.path.join(ctx.bdir, "pycap")
    shutil.rmtree(d, ignore_errors=True)
    shutil.copytree(CAP, d)
    y = yaml.safe_load(open(os.path.join(d, "cap.yaml")))
    y["options"] = {"wrap_python": True, "wrap_lua": False, "wrap_c": False, "wrap_fortran": False, "PY_array_arg": "list"}
    # (two classes of the same name in different namespaces do not compile in the Python wrapper: C05's finding; the Python runs
    #  do not use them)
    y["declarations"] = [d for d in y["declarations"] if not str(d.get("decl", "")).startswith("namespace ")
                         and "currentStamp" not in str(d.get("decl", ""))]          # (class result by value: C05's finding)
    yaml.safe_dump(y, open(os.path.join(d, "cap.yaml"), "w"), sort_keys=False)
    od = os.path.join(d, "pyout")
    rc, out = corpus.run_shroud(os.path.join(d, "cap.yaml"), od)
    if rc != 0:
        ctx.broken.append(("correspondence", "shroud-run-pycap", out[-1200:]))
        return None
    inc = sysconfig.get_paths()["include"]
    rc, out = vlib.sh("g++ -std=c++11 -shared -fPIC -w -g -O0 -fsanitize=address -fno-omit-frame-pointer -I%s -I. -I%s %s/py*.cpp cap.cpp -o cap.so"
                      % (inc, od, od), cwd=d, timeout=600)
    if rc != 0:
        ctx.broken.append(("correspondence", "build-pycap", out[-2500:]))
        return None
    return d


def gen_pyseq(rng):
    """(model ops, runner lines): Python references are counted by the harness; the model sees a Release when the LAST reference
    to an object is dropped (copying a Python reference is safe, unlike copying a C capsule struct)"""
    mops = ["L"] * 5
    pops = ["PL"] * 5      # the same history as Python-level operations for PyHandles.compile
    lines = []
    refs = []          # per Python slot: root handle index or None
    nref = {}          # root -> number of live references
    nh = 0
    for _ in range(rng.randint(3, 22)):
        r = rng.random()
        livei = [i for i, x in enumerate(refs) if x is not None]
        if r < 0.3 or not refs:
            k = rng.choice([1, 1, 2, 5])
            mops.append("N:%d" % k)
            pops.append("PN:%d" % k)
            lines.append("new %d %d" % (k, rng.randint(0, 9)))
            refs.append(nh)
            nref[nh] = 1
            nh += 1
        elif r < 0.4:
            a = rng.randint(0, 3)
            mops.append("B:%d" % a)
            pops.append("PB:%d" % a)
            lines.append("borrow %d" % a)
            refs.append(nh)
            nref[nh] = 1
            nh += 1
        elif r < 0.55 and livei:
            i = rng.choice(livei)
            mops.append("M:%d" % refs[i])
            pops.append("PM:%d" % i)
            lines.append("method %d" % i)
        elif r < 0.65 and livei:
            i = rng.choice(livei)
            pops.append("PA:%d" % i)
            lines.append("alias %d" % i)
            refs.append(refs[i])
            nref[refs[i]] += 1
        elif r < 0.85 and livei:
            i = rng.choice(livei)
            root = refs[i]
            refs[i] = None
            nref[root] -= 1
            lines.append("drop %d" % i)
            pops.append("PD:%d" % i)
            if nref[root] == 0:
                mops.append("R:%d" % root)
        elif r < 0.93:
            lines.append("call %d %d" % (rng.randint(0, 6), rng.randint(0, 9)))
        else:
            lines.append("bad %d %d" % (rng.randint(0, 7), rng.randint(0, 9)))
    return mops, lines, pops


def run_py(d, lines):
    asan = subprocess.run(["gcc", "-print-file-name=libasan.so"], capture_output=True, text=True).stdout.strip()
    p = subprocess.run([vlib.PY, os.path.join(d, "pyrun.py"), d], input="\n".join(lines) + "\n", capture_output=True, text=True, timeout=300,
                       env=dict(os.environ, LD_PRELOAD=asan, ASAN_OPTIONS="detect_leaks=0:abort_on_error=0:halt_on_error=1", PYTHONMALLOC="malloc"))
    out = p.stdout.splitlines()
    err = ""
    for l in p.stderr.splitlines():
        if "ERROR: AddressSanitizer:" in l:
            err = l.split("AddressSanitizer:")[1].strip()[:70]
            break
    if p.returncode != 0 and not err:
        err = "exit %d %s" % (p.returncode, (out[-1] if out else p.stderr[-200:]))
    return out, err


def python_runs(ctx, drv):
    d = build_py(ctx)
    if d is None:
        return
    quick = ctx.tier == "quick"
    rng = ctx.rng
    seqs3 = [gen_pyseq(rng) for _ in range(160 if quick else 2500)]
    # the capsule operations of each history are those of the verified compilation (theorem C06_python_reference_counting_is_admissible)
    cres = drv.pbatch(["pycompile|" + ",".join(p) for _, _, p in seqs3])
    for (m, l, p), c in zip(seqs3, cres):
        if c != ",".join(m):
            ctx.broken.append(("correspondence", "PyHandles.compile", "python ops %s: harness %s, model %s" % (p, m, c)))
    seqs = [(m, l) for m, l, _ in seqs3]
    mres = drv.pbatch(["capsule|" + ",".join(m) for m, _ in seqs])
    from concurrent.futures import ThreadPoolExecutor
    with ThreadPoolExecutor(vlib.NCPU) as ex:
        pres = list(ex.map(lambda s: run_py(d, s[1]), seqs))
    for (mops, lines), m, (out, err) in zip(seqs, mres, pres):
        ctx.count(1, ("py",) + tuple(lines))
        ctx.hist("py-history")
        parts = m.split()
        mlive = dict(x.split("=") for x in parts[2:])
        if parts[0] != "Done":
            ctx.broken.append(("correspondence", "python-history-generator", "model says %s for %s" % (m, lines)))
            continue
        if err:
            ctx.violation("failing-input", {"what": "the generated Python extension fails on a sequence of ordinary Python operations",
                                            "input": {"python_ops": lines, "asan_or_exit": err, "last_output": out[-2:]}})
            continue
        before = [l for l in out if l.startswith("before-drop ")]
        final = [l for l in out if l.startswith("final ")]
        want = "before-drop obj_live=%s other_live=%s in_use=%s" % (mlive["live1"], mlive["live2"], mlive["live5"])

        def nums(line):
            return [int(x) for x in re.findall(r"=(-?\d+)", line)]
        # known finding: nothing a Python object owns is ever released (every counter at least what the model says, and the final
        # counters equal to what was ever constructed); an EARLY release (a counter below the model) is never excused
        if before and final and ctx.is_known(KF_PYDEL):
            ob, mb, of = nums(before[0]), nums(want), nums(final[0])
            made = [sum(1 for l in lines if l.startswith("new 1 ")), sum(1 for l in lines if l.startswith("new 2 ")), sum(1 for l in lines if l.startswith("new 5 "))]
            if all(o >= m_ for o, m_ in zip(ob, mb)) and ob == made and of == made and (ob != mb or any(of)):
                ctx.known_finding(KF_PYDEL, "")
                continue
        if not before or before[0] != want:
            ctx.violation("failing-input", {"what": "objects alive in the library differ from the reference model while Python still holds references "
                                                    "(leak or early release in the Python wrapper)",
                                            "input": {"python_ops": lines, "observed": before[:1], "model": want}})
        elif not final or final[0] != "final obj_live=0 other_live=0 in_use=0":
            ctx.violation("failing-input", {"what": "after the last Python reference is gone the library still holds objects (or released too many)",
                                            "input": {"python_ops": lines, "observed": final[:1]}})
        for l in out:
            if " ok no-error" in l:
                ctx.hist("py-bad-call-accepted")
    # steady state: bytes kept per call
    out, err = run_py(d, ["steady %d" % k for k in range(10)])
    ctx.count(10, ("py-steady",))
    if err:
        ctx.violation("failing-input", {"what": "the generated Python extension fails in the steady-state loop", "input": {"asan_or_exit": err}})
    for l in out:
        mm = re.match(r"op (\d+) ok ([-\d.]+) ", l)
        if mm:
            ctx.hist("py-steady-call")
            k = int(mm.group(1))
            if float(mm.group(2)) > 4.0 and k == 0 and ctx.is_known(KF_PYLIST):
                ctx.known_finding(KF_PYLIST, "")
            elif float(mm.group(2)) > 4.0 and k in (6, 7, 8) and ctx.is_known(KF_PYDEL):
                ctx.known_finding(KF_PYDEL, "")
            elif float(mm.group(2)) > 4.0:
                ctx.violation("failing-input", {"what": "the Python wrapper keeps %s bytes per call allocated (temporary or result never released)" % mm.group(2),
                                                "input": {"steady_function_index": int(mm.group(1)), "line": l}})
    ctx.traces += len(seqs)


def run_driver(exe, lines):
    p = subprocess.run([exe], input="\n".join(lines) + "\n", capture_output=True, text=True, timeout=60,
                       env=dict(os.environ, ASAN_OPTIONS="detect_leaks=0:abort_on_error=0:halt_on_error=1"))
    done = len([l for l in p.stdout.splitlines() if l.startswith("op ") and " ok " in l])
    final = [l for l in p.stdout.splitlines() if l.startswith("final ")]
    pool = [l for l in p.stdout.splitlines() if l.startswith("pool ")]
    if final and pool:
        final = [final[0] + " " + pool[0]]
    err = ""
    for l in p.stderr.splitlines():
        if "ERROR: AddressSanitizer:" in l:
            err = l.split("AddressSanitizer:")[1].strip()[:70]
            break
    if p.returncode != 0 and not err:
        err = "exit %d" % p.returncode
    return done, (final[0] if final else ""), err


def asan_class(err):
    if not err:
        return "Done"
    if "use-after-free" in err or "double-free" in err:
        return "freed-memory"
    if "not malloc" in err or "alloc-dealloc-mismatch" in err or "bad-free" in err:
        return "bad-free"
    if "SEGV" in err:
        return "null"
    if err == "exit 6":
        return "temp-leak"           # the driver's own check: a wrapper left a temporary allocated
    if err == "exit 5":
        return "not-released"        # the driver's own check: after a release the handle is not cleared, or nothing was given back
    if err == "exit -6":
        return "freed-memory"        # the subject library's own check (release of a pool slot that is not in use, use of a released object)
    return "other:" + err


MODEL_CLASS = {"Done": "Done", "DoubleFree": "freed-memory", "UseAfterFree": "freed-memory", "FreeOfLibraryOwned": "bad-free",
               "WrongDeallocator": "bad-free", "NullHandle": "null", "BadOp": "badop"}


def run(ctx):
    ctx.rules.append("operation sequences of length 3-25 over {construct Obj/Other (3 constructors + owner(caller) functions), malloc'ed "
                     "int array result, std::string result, borrowed class object / library array, method, destructor, release, release "
                     "again, string copy-out helper}; admissible stream (no copies, no use after release) and a bad stream that adds "
                     "handle copies, use after release and destructor calls on borrowed objects. non-trivial = distinct sequence")
    ctx.assume += ["AddressSanitizer (g++ 12) is the reference for memory errors of the generated code; leak checking is done by the subject "
                   "library's own live-object counters",
                   "Fortran final / Python garbage collection timing (when a handle is released) is the caller side and not modelled; the "
                   "C API below them is what is run",
                   "tools/cgen/cap (subject library and C++ driver) is trusted test scaffolding"]
    ctx.hygiene()
    ctx.static_build()
    ctx.prove(os.path.join(vlib.COQ, "Properties", "C06.v"))
    for lang in ("c", "c++"):
        gdir = os.path.join(ctx.bdir, "gen_" + lang.replace("+", "x"))
        os.makedirs(gdir, exist_ok=True)
        rc, out = vlib.sh([vlib.PY, os.path.join(vlib.VERIF, "tools", "gen_tables.py"), "ownership", lang, os.path.join(gdir, "GenOwnership.v")])
        if rc != 0:
            ctx.broken.append(("proof", "gen-ownership-" + lang, out[-1500:]))
            continue
        rc, out = vlib.sh(["coqc", "-R", gdir, "ShroudGen", "GenOwnership.v"], cwd=gdir)
        if rc != 0:
            ctx.broken.append(("proof", "gen-ownership-compile-" + lang, out[-1500:]))
            continue
        shutil.copy(os.path.join(vlib.VERIF, "dyn", "C06_tables.v"), os.path.join(gdir, "C06_tables.v"))
        ctx.prove(os.path.join(gdir, "C06_tables.v"), extra_R=[(gdir, "ShroudGen")], name="C06_tables_%s.v" % lang.replace("+", "x"))
    # Python wrapper statements: the error exit releases what the normal exit releases
    gdir = os.path.join(ctx.bdir, "gen_pycleanup")
    os.makedirs(gdir, exist_ok=True)
    rc, out = vlib.sh([vlib.PY, os.path.join(vlib.VERIF, "tools", "gen_tables.py"), "pycleanup", "c++", os.path.join(gdir, "GenPyCleanup.v")])
    if rc != 0:
        ctx.broken.append(("proof", "gen-pycleanup", out[-1500:]))
    else:
        rc, out = vlib.sh(["coqc", "-R", gdir, "ShroudGen", "GenPyCleanup.v"], cwd=gdir)
        if rc != 0:
            ctx.broken.append(("proof", "gen-pycleanup-compile", out[-1500:]))
        else:
            shutil.copy(os.path.join(vlib.VERIF, "dyn", "C06_pycleanup.v"), os.path.join(gdir, "C06_pycleanup.v"))
            okp, out = ctx.prove(os.path.join(gdir, "C06_pycleanup.v"), extra_R=[(gdir, "ShroudGen")])
            if not okp:
                txt = open(os.path.join(gdir, "GenPyCleanup.v")).read()
                for m in re.finditer(r'\("([^"]*)", \[(.*?)\], \[(.*?)\]\)', txt):
                    c = re.findall(r'"((?:[^"]|"")*)"', m.group(2))
                    f = re.findall(r'"((?:[^"]|"")*)"', m.group(3))
                    miss = [x for x in c if x not in f]
                    if miss:
                        ctx.violation("failing-input", {"what": "a Python wrapper statement releases a temporary on the normal exit path but not on the error exit path "
                                                                "(a later argument that fails to convert leaks it)",
                                                        "input": {"statement": m.group(1), "released_on_cleanup_only": miss}})
    drv = ctx.driver()
    sys.path.insert(0, os.path.join(vlib.VERIF, "tools"))
    exe = build(ctx)
    if exe is None:
        return
    capsule_table(ctx)
    quick = ctx.tier == "quick"
    rng = ctx.rng
    n = 1500 if quick else 30000
    seqs = [gen_seq(rng, allow_bad=(i % 4 == 3)) for i in range(n)]
    # the refutation witnesses first
    seqs = [(["L"] * 5 + ["N:1", "C:0", "R:0", "R:1"], ["new 1 0", "copy 0", "release 0", "release 1"]),
            (["L"] * 5 + ["N:1", "C:0", "R:0", "M:1"], ["new 1 0", "copy 0", "release 0", "method 1"])] + seqs
    mres = drv.pbatch(["capsule|" + ",".join(m) for m, _ in seqs])
    from concurrent.futures import ThreadPoolExecutor
    with ThreadPoolExecutor(vlib.NCPU) as ex:
        dres = list(ex.map(lambda s: run_driver(exe, s[1]), seqs))
    nb = 0
    for (mops, lines), m, (done, final, err) in zip(seqs, mres, dres):
        ctx.count(1, tuple(lines))
        parts = m.split()
        mname, mi = parts[0], int(parts[1])
        mlive = dict(x.split("=") for x in parts[2:])
        # position of the failing model op in driver lines: model ops = 5 L's + ops (copyfree expands to two model ops)
        idx = 0
        pos = 5
        line_of = {}
        for li, l in enumerate(lines):
            k = 2 if l.startswith("copyfree") else 0 if l.startswith("tmp") else 1
            for j in range(k):
                line_of[pos + j] = li
            pos += k
        has_copy = any(l.startswith("copy ") for l in lines)
        ctx.hist("outcome:" + mname)
        ctx.hist("stream:" + ("with-copies" if has_copy else "no-copies"))
        ctx.hist("length", len(lines))
        mclass = MODEL_CLASS[mname]
        iclass = asan_class(err)
        agree = True
        if mclass == "Done":
            want = "final obj_live=%s other_live=%s ints_live=%s" % (mlive["live1"], mlive["live2"], mlive["live3"])
            agree = iclass == "Done" and final.startswith(want) and final.endswith("in_use=%s" % mlive["live5"]) and done == len(lines)
        else:
            # a second delete of a std::string runs libstdc++'s (uninstrumented) destructor on freed memory: ASan then sees a wild
            # access instead of a double free; the failing operation must still be the same one
            same_class = iclass == mclass or (mclass == "freed-memory" and iclass in ("null", "bad-free"))
            agree = same_class and done == line_of.get(mi, -1)
        if not agree:
            nb += 1
            ctx.broken.append(("correspondence", "Capsule.step", "ops=%s model=%s driver=(done %d, %s, %s)" % (lines, m, done, final, err)))
            if nb <= 2:
                ctx.say("DISAGREE capsule ops=%s\n model =%s\n driver=done %d final=%r asan=%r" % (lines, m, done, final, err))
        # oracle on the implementation alone
        if iclass != "Done":
            admissible = not has_copy and mclass == "Done"      # the model only says Done for admissible or harmless sequences
            if has_copy and mclass == "freed-memory" and ctx.is_known(KF_COPY):
                ctx.known_finding(KF_COPY, "")
            elif iclass == "null" or (iclass == "bad-free" and any(l.startswith("dtor") for l in lines)):
                ctx.hist("caller-error:" + iclass)       # use of a released handle / destructor on a borrowed object: the caller's fault
            elif iclass == "freed-memory" and not has_copy:
                ctx.violation("failing-input", {"what": "memory error in generated code without any handle copy", "input": {"ops": lines, "asan": err}})
            elif admissible:
                ctx.violation("failing-input", {"what": "memory error in generated code on an admissible call sequence", "input": {"ops": lines, "asan": err}})
            elif not has_copy and mclass == "Done":
                ctx.violation("failing-input", {"what": "generated code fails on a call sequence the ownership protocol admits",
                                                "input": {"ops": lines, "asan_or_exit": err}})
        elif mclass == "Done" and not (final.startswith("final obj_live=%s other_live=%s ints_live=%s" % (mlive["live1"], mlive["live2"], mlive["live3"]))
                                       and final.endswith("in_use=%s" % mlive["live5"])):
            ctx.violation("failing-input", {"what": "the library's live-object counters differ from the reference model (leak or early release)",
                                            "input": {"ops": lines, "driver": final, "model": m}})
    ctx.sample({"ops": seqs[5][1], "model": mres[5], "driver": list(dres[5])})
    ctx.traces += len(seqs)
    python_runs(ctx, drv)


def replay(path):
    d = json.load(open(path))
    print(json.dumps(d, indent=1)[:4000])
    return 1
