"""C08 — every callable C++ signature gets exactly one, distinct wrapper name.

Theorems: coq/Properties/C08.v (defaulted suffixes: one C entry point and one Fortran specific per overload x number of
defaulted arguments; pairwise distinct under a stated separability of the underscore names; full statement refuted by
two witnesses = known findings).
Correspondence: extracted Names.expand vs the function nodes Shroud builds (JSON dump of real runs): C_name, F_name_impl
and F_name_generic of every emitted function, in order, for scopes with overloads, default arguments, explicit
function_suffix / default_arg_suffix / template_suffix, function templates and fortran_generic, at library, namespace and
class level.
Search: text of the generated files of the same runs: C prototypes, Fortran specifics / bind(C) names / generic interfaces,
PyMethodDef and luaL_Reg tables: duplicates, counts per declared function, generic interface membership.
"""
import collections
import json
import os
import re
import shutil
import subprocess
import sys

import vlib
from vlib import enc

KF_EXPLICIT = "explicit-suffix-with-default-args"
KF_NUMBER = "overload-number-collides-with-name"
KF_LUA_NS = "lua-namespace-function-shares-module-table"

NAMES = ["foo", "barBaz", "getHTTPCode", "apply", "Set", "op1", "foo_1", "XMLParse", "a", "getX", "bar_baz_0", "size", "nItems", "xY", "ABc"]
TYPES = ["int", "double", "long", "float"]


def gen_fn(rng, allow_names):
    name = rng.choice(allow_names)
    nreq = rng.randint(0, 2)
    ndef = rng.choice([0, 0, 0, 1, 2])
    sig = [rng.choice(TYPES) for _ in range(nreq + ndef)]
    params = ["%s a%d%s" % (t, j, "" if j < nreq else " = %d" % j) for j, t in enumerate(sig)]
    d = {"decl": "void %s(%s)" % (name, ", ".join(params))}
    f = {"name": name, "ndef": ndef, "suffix": None, "das": [], "tmpl": [], "generic": [], "sig": sig[:nreq], "defsig": sig[nreq:]}
    f["wrap"] = (True, True)
    if rng.random() < 0.12:
        # wrapper selection on this declaration: C only, or neither C nor Fortran (a Fortran wrapper without its C wrapper needs a
        # user-supplied body: outside the usage rules).  The function still takes part in the numbering of its overload set.
        f["wrap"] = rng.choice([(True, False), (False, False)])
        d["options"] = {"wrap_fortran": False} if f["wrap"][0] else {"wrap_c": False, "wrap_fortran": False}
    if rng.random() < 0.15:
        f["suffix"] = rng.choice(["_x", "_alt", ""])         # made unique within its scope by gen_library
        d["format"] = {"function_suffix": f["suffix"]}
    if ndef and rng.random() < 0.35:
        f["das"] = ["_d%d" % k for k in range(rng.randint(1, ndef + 1))]
        d["default_arg_suffix"] = f["das"]
    if ndef == 0 and nreq >= 1 and rng.random() < 0.15:
        d["decl"] = "template<typename T> void %s(T a0%s)" % (name, "".join(", %s a%d" % (t, j) for j, t in enumerate(sig[1:], 1)))
        d["cxx_template"] = []
        # (a class of another namespace as template argument: the default suffix is the flattened QUALIFIED name, so two classes
        #  of the same name in different namespaces give different entry points)
        for t in rng.sample(["int", "double", "long", "tna::Item", "tnb::Item"], rng.randint(1, 3)):
            e = {"instantiation": "<%s>" % t}
            ex = None
            if rng.random() < 0.3:
                ex = "_T" + t.replace("::", "")
                e["format"] = {"template_suffix": ex}
            d["cxx_template"].append(e)
            f["tmpl"].append((ex, t.replace("::", "_")))
    elif nreq >= 1 and rng.random() < 0.15:
        gs = []
        d["fortran_generic"] = []
        for k, t in enumerate(rng.sample(["float", "double", "int", "long"], 2)):
            e = {"decl": "(%s a0)" % t}
            if rng.random() < 0.5:
                e["function_suffix"] = "_g" + t
                gs.append("_g" + t)
            else:
                gs.append("_%d" % k)
            d["fortran_generic"].append(e)
        f["generic"] = gs
    return f, d


def distinct_signatures(fs):
    """C++ needs distinct parameter lists for overloads (and no ambiguity through defaults): keep the first of each clash"""
    seen, out = set(), []
    for f, d in fs:
        keys = {(f["name"], tuple(f["sig"] + f["defsig"][:k])) for k in range(f["ndef"] + 1)}
        if f["tmpl"] and any(f["name"] == n for (n, _) in seen):
            continue
        if keys & seen:
            continue
        seen |= keys
        out.append((f, d))
    return out


def gen_library(rng):
    """library with three scopes: global, namespace ns, class Cls. returns (scopes, yaml dict)"""
    scopes = []
    decls = []
    flat = rng.random() < 0.3
    for kind in ("global", "namespace", "class", "class-template"):
        names = rng.sample(NAMES, rng.randint(2, 5))
        fs = distinct_signatures([gen_fn(rng, names) for _ in range(rng.randint(1, 6))])
        if kind in ("class", "class-template"):
            fs = [(f, d) for f, d in fs if not f["tmpl"]]          # member templates are not part of the model
        if kind == "class-template":
            if rng.random() < 0.5:
                continue
            fs = [(f, d) for f, d in fs if not f["generic"]]
        # explicit suffixes are the user's choice: keep them pairwise distinct within an overload set, and a blank
        # explicit suffix only on a name that is not overloaded
        cnt = collections.Counter(f["name"] for f, _ in fs)
        for k, (f, d) in enumerate(fs):
            if f["das"]:
                f["das"] = ["%s%d" % (x, k) for x in f["das"]]
                d["default_arg_suffix"] = f["das"]
            if f["suffix"] is not None:
                if f["suffix"] == "" and cnt[f["name"]] > 1:
                    f["suffix"] = "_e"
                if f["suffix"]:
                    f["suffix"] = "%s%d" % (f["suffix"], k)
                d["format"]["function_suffix"] = f["suffix"]
        # an explicit suffix that spells the default numbering (the user pins the name of ONE member of an overload set): the other
        # members keep the number of their position, so every name stays distinct
        byname = collections.defaultdict(list)
        for f, d in fs:
            byname[f["name"]].append((f, d))
        for nm, grp in byname.items():
            if (len(grp) > 1 and all(f["ndef"] == 0 and not f["tmpl"] and not f["generic"] and f["suffix"] is None for f, _ in grp)
                    and rng.random() < 0.4):
                i = rng.randrange(len(grp) - 1)
                f, d = grp[i]
                f["suffix"] = "_%d" % i
                d.setdefault("format", {})["function_suffix"] = f["suffix"]
        if not fs:
            continue
        if kind == "global":
            decls += [d for _, d in fs]
            scopes.append(("", "", "", [f for f, _ in fs]))
        elif kind == "namespace":
            decls.append({"decl": "namespace ns", "declarations": [d for _, d in fs]})
            # a namespace has its own Fortran module: no F_name_scope; with F_flatten_namespace its functions live in the library's
            # module under the scope prefix (specifics AND generic interfaces)
            scopes.append(("/ns", "ns_", "ns_" if flat else "", [f for f, _ in fs]))
        elif kind == "class":
            decls.append({"decl": "class Cls", "declarations": [d for _, d in fs]})
            scopes.append(("/Cls", "Cls_", "cls_", [f for f, _ in fs]))
        else:
            # every instantiation of a class template is a scope of its own with the same members: the names of one
            # instantiation must not depend on the other having been processed first
            decls.append({"decl": "template<typename T> class Vec", "cxx_template": [{"instantiation": "<int>"}, {"instantiation": "<double>"}],
                          "declarations": [d for _, d in fs]})
            scopes.append(("/Vec_int", "Vec_int_", "vec_int_", [f for f, _ in fs]))
            scopes.append(("/Vec_double", "Vec_double_", "vec_double_", [f for f, _ in fs]))
    # two classes of the same name for the template arguments (no members: they add no function names)
    decls = [{"decl": "namespace tna", "declarations": [{"decl": "class Item"}]}, {"decl": "namespace tnb", "declarations": [{"decl": "class Item"}]}] + decls
    lib = {"library": "nam", "cxx_header": "nam.hpp", "options": {"wrap_python": True, "wrap_lua": True}, "declarations": decls}
    if flat:
        lib["options"]["F_flatten_namespace"] = True
    return scopes, lib


def encf(f):
    def su(x):
        return "S" + enc(x)
    return ":".join([enc(f["name"]), str(f["ndef"]), "-" if f["suffix"] is None else su(f["suffix"]),
                     ",".join(su(x) for x in f["das"]) or "-",
                     ",".join(("-" if ex is None else su(ex)) + "/" + enc(fl) for ex, fl in f["tmpl"]) or "-",
                     ",".join(su(x) for x in f["generic"]) or "-"])


def run_names(ctx, texts):
    from concurrent.futures import ThreadPoolExecutor
    wd = os.path.join(ctx.bdir, "names")
    os.makedirs(wd, exist_ok=True)
    n = vlib.NCPU

    def job(i):
        chunk = texts[i::n]
        if not chunk:
            return []
        jp, rp = os.path.join(wd, "j%d.json" % i), os.path.join(wd, "r%d.json" % i)
        json.dump(chunk, open(jp, "w"))
        p = subprocess.run([vlib.PY, os.path.join(vlib.VERIF, "tools", "runnames.py"), os.path.join(wd, "w%d" % i), jp, rp],
                           env=dict(os.environ, PYTHONPATH=vlib.REPO, PYTHONHASHSEED="0"), capture_output=True, text=True, timeout=3000)
        if not os.path.exists(rp):
            raise RuntimeError("runnames failed: " + p.stderr[-800:])
        return json.load(open(rp))
    with ThreadPoolExecutor(n) as ex:
        rs = list(ex.map(job, range(n)))
    res = [None] * len(texts)
    for i, r in enumerate(rs):
        for k, x in enumerate(r):
            res[i + n * k] = x
    shutil.rmtree(wd, ignore_errors=True)
    return res


def un_camel_py(s):
    sys.path.insert(0, vlib.REPO)
    from shroud import util
    return util.un_camel(s)


def classify_dup(name, scopes):
    """known-finding key for a duplicated emitted name, from the input description"""
    low = name.lower()
    for (_, cs, fsc, fs) in scopes:
        for f in fs:
            u = un_camel_py(f["name"])
            if f["suffix"] is not None and f["ndef"] > 0 and (u + f["suffix"]).lower() in low and len(f["das"]) <= f["ndef"]:
                return KF_EXPLICIT
        unders = [un_camel_py(f["name"]) for f in fs]
        for f in fs:
            u = un_camel_py(f["name"])
            for g in unders:
                if g != u and u.startswith(g + "_") and u[len(g) + 1:].isdigit() and u.lower() in low:
                    return KF_NUMBER
    return None


def run(ctx):
    import yaml
    ctx.rules.append("libraries with a global scope, a namespace and a class, each with 1-6 functions over 12 names (CamelCase, digits, "
                     "underscores), 0-2 required and 0-2 defaulted parameters, 15% explicit function_suffix, 35% default_arg_suffix lists "
                     "(complete or partial), 15% function templates with 1-2 instantiations (30% explicit template_suffix), 15% "
                     "fortran_generic with 2 entries. overloads with clashing C++ signatures are removed. non-trivial = distinct library")
    ctx.assume += ["bufferify / CFI helper entry points (arg_to_buffer, arg_to_CFI), constructors' generic grouping and class templates are "
                   "not in the model (the text-level duplicate checks still see them)",
                   "names are ASCII (un_camel is modelled on ASCII letters)"]
    ctx.hygiene()
    ctx.static_build()
    ctx.prove(os.path.join(vlib.COQ, "Properties", "C08.v"))
    drv = ctx.driver()
    sys.path.insert(0, os.path.join(vlib.VERIF, "tools"))
    import names_obs
    quick = ctx.tier == "quick"
    rng = ctx.rng
    n = 2000 if quick else 12000
    libs = [gen_library(rng) for _ in range(n)]
    # fixed witnesses of the refutation theorems first
    w1 = ([("", "", "", [{"name": "sfx", "ndef": 1, "suffix": "_x", "das": [], "tmpl": [], "generic": [], "sig": [], "defsig": ["int"]}])],
          {"library": "nam", "cxx_header": "nam.hpp", "declarations": [{"decl": "void sfx(int a = 0)", "format": {"function_suffix": "_x"}}]})
    w2 = ([("", "", "", [{"name": "foo", "ndef": 0, "suffix": None, "das": [], "tmpl": [], "generic": [], "sig": ["int"], "defsig": []},
                         {"name": "foo", "ndef": 0, "suffix": None, "das": [], "tmpl": [], "generic": [], "sig": ["double"], "defsig": []},
                         {"name": "foo_1", "ndef": 0, "suffix": None, "das": [], "tmpl": [], "generic": [], "sig": [], "defsig": []}])],
          {"library": "nam", "cxx_header": "nam.hpp", "declarations": [{"decl": "void foo(int a)"}, {"decl": "void foo(double a)"}, {"decl": "void foo_1()"}]})
    libs = [w1, w2] + libs
    texts = [yaml.safe_dump(l, sort_keys=False) for _, l in libs]
    res = run_names(ctx, texts)
    lines, index = [], []
    for li, (scopes, _) in enumerate(libs):
        for (sc, cs, fsc, fs) in scopes:
            lines.append("namesw|%s|%s|%s|%s|%s" % (enc("NAM_"), enc(cs), enc(fsc), ";".join(encf(f) for f in fs),
                                                   ",".join(("T" if f.get("wrap", (True, True))[0] else "F") + ("T" if f.get("wrap", (True, True))[1] else "F") for f in fs)))
            index.append((li, sc))
    mres = drv.pbatch(lines)
    model = collections.defaultdict(dict)
    for (li, sc), m in zip(index, mres):
        ents = []
        for it in (m.split(";") if m else []):
            o, c, f, g = it.split(":")
            c = None if c == "-" else vlib.dec(c)
            f = None if f == "-" else vlib.dec(f)
            if c or f:
                ents.append((c, f, vlib.dec(g), o))
        model[li][sc] = ents
    nb = 0
    fails = collections.OrderedDict()
    for li, ((scopes, lib), r) in enumerate(zip(libs, res)):
        ctx.count(1, ("lib", texts[li]))
        if r["err"]:
            ctx.hist("run:error")
            ctx.broken.append(("correspondence", "shroud-run", "library=%s error=%s" % (texts[li][:400], r["err"])))
            continue
        ctx.hist("run:ok")
        # --- model vs nodes, per scope
        for (sc, cs, fsc, fs) in scopes:
            impl = [(x["c"], x["f"], x["generic"]) for x in r["nodes"]
                    if x["scope"] == sc and x["generated"] not in ("arg_to_buffer", "arg_to_cfi") and (x["c"] or x["f"])]
            mod = model[li][sc]
            ctx.hist("scope:%s" % (sc or "global"))
            ctx.hist("emitted-functions", len(impl))
            mod4 = mod
            mod = [(a, b, g) for (a, b, g, _) in mod4]
            if [(a, b) for a, b, _ in impl] != [(a, b) for a, b, _ in mod] or \
               [g for a, b, g in impl if b] != [g for a, b, g in mod if b]:
                # the first differing entry: when it belongs to a function whose suffix the user wrote, the documented template
                # (prefix, scope, underscore name, the suffix as written) fixes the name on its own: a named failing input
                for k, ((ia, ib, _), (ma, mb, _, mo)) in enumerate(zip(impl, mod4)):
                    if (ia, ib) != (ma, mb):
                        src = int(re.match(r"\d+", mo).group(0)) if re.match(r"\d+", mo) else -1
                        if 0 <= src < len(fs) and (fs[src]["suffix"] is not None or fs[src]["das"]):
                            fails.setdefault((None, "explicit suffix not honoured"), []).append({
                                "what": "a function with an explicit function_suffix / default_arg_suffix is not named by the documented template",
                                "name": "got C %r Fortran %r, documented %r / %r (function %s, suffix %r, default_arg_suffix %r)" % (
                                    ia, ib, ma, mb, fs[src]["name"], fs[src]["suffix"], fs[src]["das"]),
                                "library_yaml": texts[li]})
                        break
                nb += 1
                ctx.broken.append(("correspondence", "Names.expand", "scope=%s library=%s impl=%s model=%s" % (sc, texts[li][:600], impl, mod)))
                if nb <= 2:
                    ctx.say("DISAGREE names scope=%s\n%s impl =%s\n model=%s" % (sc, texts[li][:500], impl, mod))
        # --- text level oracle
        problems = []
        for d in names_obs.dups([x for _, x in r["protos"]]):
            problems.append(("two external C functions have the same name", d))
        for m in r["modules"]:
            for d in names_obs.dups([x.lower() for x in m["specifics"]]):
                problems.append(("two Fortran specific procedures of module %s have the same name" % m["file"], d))
            for d in names_obs.dups([x.lower() for x in m["bindc"]]):
                problems.append(("two bind(C) interfaces of module %s have the same name" % m["file"], d))
            for d in set(x.lower() for x in m["specifics"]) & set(x.lower() for x in m["bindc"]):
                problems.append(("a Fortran specific and a bind(C) interface of module %s share a name" % m["file"], d))
            # generic interfaces of this module: the library module holds the global scope, a namespace module its namespace
            flat = bool((lib.get("options") or {}).get("F_flatten_namespace"))
            msc = "" if m["file"].lower() == "wrapfnam.f" else ("/ns" if m["file"].lower() == "wrapfnam_ns.f" else None)
            mscs = ("", "/ns") if (flat and msc == "") else (msc,)
            want = collections.defaultdict(list)
            for x in r["nodes"]:
                if x["f"] and x["generic"] and x["scope"] in mscs:
                    # the generic interface of a function carries its Fortran scope prefix (empty unless the namespace is flattened)
                    want[(x.get("fscope", "") + x["generic"]).lower()].append(x["f"].lower())
            for g, procs in m["generics"].items():
                if names_obs.dups(procs):
                    problems.append(("generic interface %s lists a specific twice" % g, names_obs.dups(procs)[0]))
                if g in want and sorted(set(procs)) != sorted(set(want[g])):
                    problems.append(("generic interface %s does not list exactly the specifics of its C++ name" % g,
                                     "listed=%s expected=%s" % (sorted(set(procs)), sorted(set(want[g])))))
            for g in want:
                if len(set(want[g])) > 1 and g not in m["generics"]:
                    problems.append(("no generic interface for overloaded name", g))
            # type-bound generics of the class
            for tname, tb in (m.get("tbgenerics_by_type") or {}).items() if msc == "" else ():
                csc = {"cls": "/Cls", "vec_int": "/Vec_int", "vec_double": "/Vec_double"}.get(tname)
                if csc is None:
                    continue
                wtb = collections.defaultdict(list)
                for x in r["nodes"]:
                    if x["ffunc"] and x["generic"] and x["scope"] == csc:
                        wtb[x["generic"].lower()].append(x["ffunc"].lower())
                for g, procs in tb.items():
                    if names_obs.dups(procs):
                        problems.append(("type-bound generic %s of type %s lists a specific twice" % (g, tname), names_obs.dups(procs)[0]))
                    if g in wtb and sorted(set(procs)) != sorted(set(wtb[g])):
                        problems.append(("type-bound generic %s of type %s does not list exactly the specifics of its C++ name" % (g, tname),
                                         "listed=%s expected=%s" % (sorted(set(procs)), sorted(set(wtb[g])))))
        for (f, t, ents) in r["tables"]:
            for d in names_obs.dups(ents):
                in_scopes = [sc for (sc, _, _, fs) in scopes if any(x["name"] == d for x in fs)]
                if f.startswith("lua") and "" in in_scopes and "/ns" in in_scopes:
                    fails.setdefault((KF_LUA_NS, "lua table"), []).append({"what": "Lua module table lists a global and a namespace function under one name",
                                                                            "name": d, "library_yaml": texts[li]})
                    continue
                problems.append(("method table %s of %s has two entries with the same name" % (t, f), d))
        # count: one C entry point per callable signature
        for (sc, cs, fsc, fs) in scopes:
            want_c = sum((len(f["tmpl"]) if f["tmpl"] else f["ndef"] + 1) for f in fs if f.get("wrap", (True, True))[0])
            got_c = len([x for x in r["nodes"] if x["scope"] == sc and x["c"] and x["generated"] in (None, "has_default_arg", "cxx_template")])
            if want_c != got_c:
                problems.append(("number of C entry points differs from the number of callable signatures in scope '%s'" % sc, "%d vs %d" % (got_c, want_c)))
            # one Fortran specific per callable signature: each admissible number of trailing defaults x each fortran_generic variant
            want_f = sum((len(f["tmpl"]) if f["tmpl"] else (f["ndef"] + 1) * (len(f["generic"]) or 1)) for f in fs if f.get("wrap", (True, True))[1])
            got_f = len([x for x in r["nodes"] if x["scope"] == sc and x["f"]])
            if want_f != got_f:
                problems.append(("number of Fortran specifics differs from the number of callable signatures in scope '%s'" % sc, "%d vs %d" % (got_f, want_f)))
        for what, name in problems:
            key = classify_dup(name, scopes) if ("same name" in what or "twice" in what or "share a name" in what) else None
            fails.setdefault((key, what.split(" of module")[0]), []).append({"what": what, "name": name, "library_yaml": texts[li]})
    for (key, what), lst in fails.items():
        if key and ctx.is_known(key):
            ctx.known_finding(key, "")
            continue
        ctx.violation("failing-input", {"what": lst[0]["what"], "input": lst[0], "cases_like_this": len(lst)})
    ctx.sample({"library": texts[2][:600], "model_names": model[2]})
    ctx.traces += len(libs)


def replay(path):
    d = json.load(open(path))
    print(json.dumps(d, indent=1)[:5000])
    return 1
