"""C13 — line wrapping never alters code and respects the line limit.

Theorems: coq/Properties/C13.v over coq/Model/Text.v.
Tie: correspondence of Text.write_continue / Text.write_lines (extracted) with
/repo's util.WrapperMixin on exhaustive small scopes, random inputs and every
logical line Shroud emits on (part of) the regression corpus.
Search: python oracle of the property applied to the implementation's output.
"""
import io
import itertools
import json
import os
import sys

import vlib
from vlib import enc, dec

WS = set(chr(c) for c in list(range(9, 14)) + list(range(28, 33)) +
         [133, 160, 5760] + list(range(8192, 8203)) + [8232, 8233, 8239, 8287, 12288])


def nows(s):
    return "".join(c for c in s if not c.isspace())


# ----------------------------------------------------------------- implementation side
def make_impl():
    vlib.import_shroud()
    from shroud import util

    class W(util.WrapperMixin):
        pass
    return W()


def impl_wc(w, linelen, indent, spaces, cont, line):
    w.linelen, w.indent, w.cont = linelen, indent, cont
    fp = io.StringIO()
    try:
        w.write_continue(fp, line, spaces)
    except RuntimeError as e:
        return "REJECT|" + type(e).__name__
    except Exception as e:
        return "CRASH|" + type(e).__name__
    v = fp.getvalue()
    assert v.endswith("\n")
    return "OK|" + ";".join(enc(x) for x in v[:-1].split("\n"))


def impl_wl(w, linelen, indent, spaces, cont, items):
    w.linelen, w.indent, w.cont = linelen, indent, cont
    fp = io.StringIO()
    try:
        w.write_lines(fp, items, spaces)
    except RuntimeError as e:
        return "REJECT|" + type(e).__name__
    except Exception as e:
        return "CRASH|" + type(e).__name__
    v = fp.getvalue()
    if v == "":
        return "OK|%d|" % w.indent
    return "OK|%d|" % w.indent + ";".join(enc(x) for x in v[:-1].split("\n"))


def model_wc_line(linelen, indent, spaces, cont, line):
    return "wc|%d|%d|%s|%s|%s" % (linelen, indent, enc(spaces), enc(cont), enc(line))


def model_wl_line(linelen, indent, spaces, cont, items):
    its = ";".join(("i%d" % x) if isinstance(x, int) else ("s" + enc(x)) for x in items)
    return "wl|%d|%d|%s|%s|%s" % (linelen, indent, enc(spaces), enc(cont), its)


# ----------------------------------------------------------------- property oracle (python)
def split_parts(line):
    parts, cur = [], ""
    for ch in line:
        if ch == "\t":
            if cur:
                parts.append(cur)
                cur = ""
        elif ch == "\f":
            if cur:
                parts.append(cur)
                cur = ""
            parts.append(None)  # form feed
        else:
            cur += ch
    if cur:
        parts.append(cur)
    return parts


def oracle_wc(linelen, indent, spaces, cont, line, out):
    """None if the physical lines `out` satisfy C13 for logical `line`, else a reason."""
    if not line:
        return None
    ci = 1
    if line[0] == "\r":
        ci, line = 2, line[1:]
    parts = split_parts(line)
    payloads = []
    for idx, pl in enumerate(out):
        if idx < len(out) - 1:
            if not pl.endswith(cont):
                return "continuation marker missing on physical line %d" % idx
            if cont:
                pl = pl[:-len(cont)]
        prefix = spaces * max(indent + (0 if idx == 0 else ci), 0)
        if not pl.startswith(prefix):
            return "indentation of physical line %d" % idx
        payloads.append((len(prefix), pl[len(prefix):]))
    if nows("".join(p for _, p in payloads)) != nows(line):
        return "text altered: non-blank characters differ"
    # structural match: payloads are runs of whole parts (first of a continuation line may be
    # left-stripped), form feeds sit on line boundaries, a line longer than linelen holds one part
    sys.setrecursionlimit(10000)
    memo = {}
    nl = len(payloads)

    def go(k, j, off, cnt):
        key = (k, j, off, min(cnt, 2))
        if key in memo:
            return memo[key]
        plen, pay = payloads[j]
        rest_empty = off == len(pay)
        res = False
        if k == len(parts):
            res = rest_empty and j == nl - 1 and (cnt <= 1 or plen + len(pay) <= linelen)
        else:
            t = parts[k]
            if t is None:
                if rest_empty and j < nl - 1 and (cnt <= 1 or plen + len(pay) <= linelen):
                    res = go(k + 1, j + 1, 0, 0)
            else:
                cands = [t]
                if cnt == 0 and j > 0:
                    cands.append(t.lstrip())
                for c in cands:
                    if pay.startswith(c, off):
                        if go(k + 1, j, off + len(c), cnt + (1 if c else 0)):
                            res = True
                            break
                if not res and rest_empty and j < nl - 1 and (cnt <= 1 or plen + len(pay) <= linelen):
                    res = go(k, j + 1, 0, 0)
        memo[key] = res
        return res

    if not go(0, 0, 0, 0):
        return "physical lines are not whole break-delimited parts within the limit"
    return None


# ----------------------------------------------------------------- case generation
def exhaustive_cases(tier):
    alpha = ["a", " ", "\t", "\f", "\r"]
    maxlen = 6 if tier == "quick" else 8
    lls = [1, 2, 3, 5, 8] if tier == "quick" else [1, 2, 3, 4, 5, 6, 8, 11]
    for n in range(1, maxlen + 1):
        for tup in itertools.product(alpha, repeat=n):
            line = "".join(tup)
            for ll in lls:
                for ind in (0, 1):
                    yield (ll, ind, " ", "&", line)


def random_line(rng, maxlen):
    n = rng.randint(1, maxlen)
    style = rng.random()
    out = []
    if rng.random() < 0.15:
        out.append("\r")
    toks = ["arg%d," % i for i in range(5)] + ["integer(C_INT)", "::", "x", "=", "call foo(", ")", "&", "+", "-"]
    while len(out) < n:
        r = rng.random()
        if style < 0.6:
            if r < 0.55:
                out.append(rng.choice(toks))
            elif r < 0.75:
                out.append("\t ")
            elif r < 0.8:
                out.append("\f")
            elif r < 0.9:
                out.append(" ")
            else:
                out.append("\t")
        else:
            out.append(rng.choice(["a", "b", " ", " ", "\t", "\t", "\f", "\r", ",", " ", " ", "\x0b", "\x1c", "é", "\U0001F600"]))
    return "".join(out)


def random_cases(rng, n):
    for _ in range(n):
        line = random_line(rng, rng.choice([3, 10, 30, 60]))
        ll = rng.choice([1, 5, 10, 20, 40, 72, 80, 132])
        ind = rng.choice([0, 0, 1, 2, 5, -1])
        sp = rng.choice(["    ", "  ", " ", "", "\t"])
        ct = rng.choice(["", "&", " &", "\\"])
        yield (ll, ind, sp, ct, line)


def random_wl_cases(rng, n):
    heads = ["", "", "", "#", "@", "^", "+", "-", "--", "@-", "@+"]
    tails = ["", "", "", "+", "-", "\n", "\nx"]
    for _ in range(n):
        items = []
        for _ in range(rng.randint(0, 6)):
            if rng.random() < 0.2:
                items.append(rng.choice([1, -1, 2, -2, 0]))
            else:
                body = random_line(rng, rng.choice([1, 4, 12])) if rng.random() < 0.9 else ""
                items.append(rng.choice(heads) + body + rng.choice(tails))
        yield (rng.choice([5, 20, 72]), rng.choice([0, 1, 2]), rng.choice(["  ", " "]), rng.choice(["", "&"]), items)


# ----------------------------------------------------------------- corpus capture
SHIM = r'''
import io, json, sys
sys.path.insert(0, %(repo)r)
from shroud import util, main
LOG = []
orig = util.WrapperMixin.write_continue
def wc(self, fp, line, spaces="    "):
    buf = io.StringIO()
    orig(self, buf, line, spaces)
    v = buf.getvalue()
    LOG.append([self.linelen, self.indent, spaces, self.cont, line, v[:-1].split("\n"), type(self).__name__])
    fp.write(v)
util.WrapperMixin.write_continue = wc
sys.argv = ["shroud"] + sys.argv[2:]
try:
    main.main()
except SystemExit:
    pass
finally:
    json.dump(LOG, open(sys.argv_out, "w")) if hasattr(sys, "argv_out") else None
'''


def capture_corpus(ctx, names, extra_args=(), tag="corpus"):
    """Run Shroud on corpus entries in fresh processes with write_continue logged."""
    import corpus
    shim = os.path.join(ctx.bdir, "shim_wc.py")
    open(shim, "w").write(SHIM.replace('sys.argv = ["shroud"] + sys.argv[2:]',
                                       'sys.argv_out = sys.argv[1]\nsys.argv = ["shroud"] + sys.argv[2:]') % {"repo": vlib.REPO})
    descs = [d for d in corpus.test_descs() if names is None or d[0] in names]
    logs = []
    from concurrent.futures import ThreadPoolExecutor

    def one(d):
        name, y, cmdline = d
        od = os.path.join(ctx.bdir, tag, name)
        os.makedirs(od, exist_ok=True)
        lj = os.path.join(od, "wc.json")
        cmd = corpus.shroud_cmd(y, od, cmdline)
        cmd = [cmd[0], shim, lj] + cmd[3:-1] + list(extra_args) + cmd[-1:]
        rc, out = vlib.sh(cmd, timeout=300)
        if not os.path.exists(lj):
            return name, od, None, out
        return name, od, json.load(open(lj)), out

    with ThreadPoolExecutor(vlib.NCPU) as ex:
        logs = list(ex.map(one, descs))
    return logs


# ----------------------------------------------------------------- main
def compare(ctx, drv, w, cases, kind, label):
    """Run model and implementation on the cases; return list of disagreements."""
    cases = list(cases)
    if kind == "wc":
        mlines = [model_wc_line(*c) for c in cases]
    else:
        mlines = [model_wl_line(*c) for c in cases]
    mres = drv.pbatch(mlines)
    bad = []
    for c, m in zip(cases, mres):
        i = impl_wc(w, *c) if kind == "wc" else impl_wl(w, *c)
        key = None
        if kind == "wc":
            nl = i.count(";") + 1 if i.startswith("OK") else 0
            ctx.hist("%s:%s" % (label, "crash" if not i.startswith("OK") else ("1line" if nl == 1 else "broken")))
            if nl > 1:
                key = (label, c)
        else:
            ctx.hist("%s:%s" % (label, i.split("|")[0]))
            key = (label, json.dumps(c))
        ctx.count(1, key)
        if i != m:
            bad.append((c, i, m))
    return bad


def run(ctx):
    ctx.rules.append("write_continue/write_lines cases: exhaustive lines over {a,' ',TAB,FF,CR} up to a length bound x "
                     "linelen x indent; structured random lines; every logical line emitted on corpus runs. "
                     "non-trivial = distinct case whose output is broken into >1 physical line (wc) / distinct item list (wl)")
    ctx.assume += ["Text model covers util.WrapperMixin.write_continue and write_lines only; fp.write failures not modelled",
                   "Fortran 132-column claim is checked on the implementation's corpus output (validation, not a theorem)"]
    ctx.hygiene()
    ctx.static_build()
    ctx.prove(os.path.join(vlib.COQ, "Properties", "C13.v"))
    drv = ctx.driver()
    w = make_impl()
    quick = ctx.tier == "quick"

    disagreements = []
    # 1. corpus of earlier minimised failures
    cfile = os.path.join(vlib.VERIF, "corpus", "C13.json")
    if os.path.exists(cfile):
        cc = [tuple(x) for x in json.load(open(cfile))]
        disagreements += [("wc",) + b for b in compare(ctx, drv, w, cc, "wc", "corpus")]
    # 2. exhaustive small scope
    ex = list(exhaustive_cases(ctx.tier))
    disagreements += [("wc",) + b for b in compare(ctx, drv, w, ex, "wc", "exh")]
    ctx.exhaustive = True
    ctx.extra["exhaustive_scope"] = "all lines over {a,' ',TAB,FF,CR} of length 1..%d x linelen set x indent {0,1}" % (6 if quick else 8)
    # 3. random
    rc = list(random_cases(ctx.rng, 20000 if quick else 400000))
    disagreements += [("wc",) + b for b in compare(ctx, drv, w, rc, "wc", "rnd")]
    for c in rc[:3]:
        ctx.sample({"write_continue": {"linelen": c[0], "indent": c[1], "spaces": c[2], "cont": c[3], "line": c[4]},
                    "impl": [dec(x) for x in impl_wc(w, *c)[3:].split(";")]})
    wl = list(random_wl_cases(ctx.rng, 20000 if quick else 300000))
    disagreements += [("wl",) + b for b in compare(ctx, drv, w, wl, "wl", "wl")]
    for c in wl[:2]:
        ctx.sample({"write_lines": {"linelen": c[0], "indent": c[1], "spaces": c[2], "cont": c[3], "items": c[4]},
                    "impl": impl_wl(w, *c)})
    # 4. every logical line Shroud emits on corpus runs (fresh processes)
    names = {"tutorial", "strings", "classes", "vectors", "generic", "struct-cxx"} if quick else None
    logs = capture_corpus(ctx, names)
    ncorp = 0
    f132 = []
    for name, od, log, out in logs:
        if log is None:
            ctx.broken.append(("correspondence", "corpus-run-" + name, out[-1500:]))
            continue
        cs = [(l[0], l[1], l[2], l[3], l[4]) for l in log]
        uniq = list(dict.fromkeys(cs))
        ncorp += len(uniq)
        disagreements += [("wc",) + b for b in compare(ctx, drv, w, uniq, "wc", "corpus-run")]
        # in-process impl == captured output of the real run
        for l in log:
            o = oracle_wc(l[0], l[1], l[2], l[3], l[4], l[5])
            if o and not (len(l[4]) == 0):
                disagreements.append(("oracle", (l[0], l[1], l[2], l[3], l[4]), "OK|" + ";".join(enc(x) for x in l[5]), o))
        # Fortran line limit on the files actually written
        for root, _, fs in os.walk(od):
            for f in fs:
                if f.lower().endswith((".f", ".f90")):
                    for ln, t in enumerate(open(os.path.join(root, f), encoding="utf-8", errors="replace").read().split("\n")):
                        if len(t) > 132 and not t.lstrip().startswith("!"):
                            f132.append((name, f, ln + 1, len(t)))
        ctx.traces += 1
    # 5. each writer wraps at the limit documented for ITS language: runs with C_line_length and F_line_length set to different
    #    values; the Fortran writer must use F_line_length, the C / Python / Lua writers C_line_length
    limits = {"C_line_length": 100, "F_line_length": 60}
    lim_args = []
    for k, v in limits.items():
        lim_args += ["--option", "%s=%d" % (k, v)]
    for name, od, log, out in capture_corpus(ctx, {"tutorial", "strings"} if quick else {"tutorial", "strings", "classes", "vectors", "generic"},
                                             extra_args=lim_args, tag="limits"):
        if log is None:
            ctx.broken.append(("correspondence", "limits-run-" + name, out[-1500:]))
            continue
        seen_cls = set()
        for l in log:
            cls = l[6]
            if cls not in ("Wrapf", "Wrapc", "Wrapp", "Wrapl"):
                continue            # (the types-file writer TypeOut is no language wrapper: it has a fixed width of its own)
            want = limits["F_line_length"] if cls == "Wrapf" else limits["C_line_length"]
            ctx.count(1, None)
            if (cls, l[0]) in seen_cls:
                continue
            seen_cls.add((cls, l[0]))
            ctx.count(0, ("limit", name, cls, l[0]))
            ctx.hist("limit-run:" + cls)
            if l[0] != want:
                ctx.violation("failing-input", {"what": "the %s writer wraps at %d columns although the documented limit for its language is %d"
                                                        % (cls, l[0], want),
                                                "input": {"corpus": name, "options": limits, "writer": cls, "line": l[4][:200]}})
        # and the written Fortran obeys F_line_length wherever a line had a break point
        for l in log:
            if l[6] == "Wrapf":
                o = oracle_wc(limits["F_line_length"], l[1], l[2], l[3], l[4], l[5])
                if o and l[4]:
                    ctx.violation("failing-input", {"what": "Fortran output does not respect F_line_length=%d: %s" % (limits["F_line_length"], o),
                                                    "input": {"corpus": name, "options": limits, "line": l[4][:200]}, "observed": l[5][:4]})
                    break
    ctx.extra["corpus_logical_lines"] = ncorp
    ctx.extra["fortran_lines_over_132"] = f132[:5]

    # ---- decide
    seen = 0
    for d in disagreements:
        seen += 1
        if d[0] == "oracle":
            ctx.violation("failing-input", {"what": d[3], "input": {"linelen": d[1][0], "indent": d[1][1], "spaces": d[1][2],
                          "cont": d[1][3], "line": d[1][4]}, "observed": d[2], "source": "corpus run"})
            continue
        kind, c, i, m = d
        if seen <= 3:
            ctx.say("DISAGREE %s case=%r impl=%s model=%s" % (kind, c, i[:200], m[:200]))
        ctx.broken.append(("correspondence", "Text.%s" % ("write_continue" if kind == "wc" else "write_lines"),
                           "case=%r impl=%s model=%s" % (c, i, m)))
    for (name, f, ln, n) in f132[:3]:
        ctx.violation("failing-input", {"what": "non-comment Fortran line longer than 132 columns",
                                        "input": {"corpus": name, "file": f, "line": ln, "length": n}})
    # search for a failing input with the oracle when anything is broken
    if ctx.broken:
        found = 0
        pool = [(k, c, i) for (k, c, i, m) in [d for d in disagreements if d[0] in ("wc",)]]
        pool += [("wc", c, impl_wc(w, *c)) for c in ex[:: max(1, len(ex) // 200000)]] + [("wc", c, impl_wc(w, *c)) for c in rc]
        for k, c, i in pool:
            if not i.startswith("OK|"):
                if c[4] != "":  # an internal exception on a non-empty line
                    ctx.violation("failing-input", {"what": "write_continue raised " + i, "input": list(c)})
                    found += 1
            else:
                out = [dec(x) for x in i[3:].split(";")]
                o = oracle_wc(c[0], c[1], c[2], c[3], c[4], out)
                if o:
                    ctx.violation("failing-input", {"what": o, "input": {"linelen": c[0], "indent": c[1], "spaces": c[2],
                                  "cont": c[3], "line": c[4]}, "observed": out})
                    found += 1
            if found >= 3:
                break
        # write_lines: plain lines must equal write_continue of each line
        if found == 0:
            for c in wl:
                ll, ind, sp, ct, items = c
                if all(isinstance(x, str) and x and x[0] not in "#@^+-" and x[-1] != "+" and "\n" not in x for x in items) and items:
                    got = impl_wl(w, *c)
                    exp = []
                    ok = True
                    for x in items:
                        r = impl_wc(w, ll, ind, sp, ct, x)
                        if not r.startswith("OK|"):
                            ok = False
                            break
                        exp.append(r[3:])
                    if ok and got != "OK|%d|%s" % (ind, ";".join(exp)):
                        ctx.violation("failing-input", {"what": "write_lines altered a plain line", "input": list(c), "observed": got})
                        found += 1
                        break
        # write_lines: a literal line ('@' + text, the documented way to write text that begins with a formatting character) is
        # written as write_continue writes the text after the '@' (whatever it ends with) and leaves the indentation where it was
        if found == 0:
            lits = [["@x = a +", "y;"], ["@int r = a +", "@    b +", "@    c;", "return r;"], ["@+", "next"], ["@-z+", "w"], ["@# not a directive +"]]
            for ind0 in (0, 1, 3):
                for items in lits:
                    c = (72, ind0, "  ", "", items)
                    got = impl_wl(w, *c)
                    exp = []
                    for x in items:
                        r = impl_wc(w, 72, ind0, "  ", "", x[1:] if x.startswith("@") else x)
                        exp.append(r[3:])
                    if got != "OK|%d|%s" % (ind0, ";".join(exp)):
                        ctx.violation("failing-input", {"what": "write_lines altered a literal ('@') line or moved the indentation after it", "input": list(c), "observed": got,
                                                        "expected": "OK|%d|%s" % (ind0, ";".join(exp))})
                        found += 1
                        break
                if found:
                    break


def replay(path):
    d = json.load(open(path))
    w = make_impl()
    inp = d.get("input")
    if isinstance(inp, dict) and "line" in inp:
        r = impl_wc(w, inp["linelen"], inp["indent"], inp["spaces"], inp["cont"], inp["line"])
        print("implementation:", r)
        if r.startswith("OK|"):
            o = oracle_wc(inp["linelen"], inp["indent"], inp["spaces"], inp["cont"], inp["line"], [dec(x) for x in r[3:].split(";")])
            print("oracle:", o or "property holds on this input")
            return 1 if o else 0
        return 1
    print(json.dumps(d, indent=1)[:3000])
    return 1
