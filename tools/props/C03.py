"""C03 — the generated Python extension is call-equivalent to the wrapped library.

Theorems: coq/Properties/C03.v over coq/Model/PyDispatch.v (argument parsing abstraction,
default-argument switch on the argument count, multi_dispatch for overloads).
Tie: for random library descriptions the REAL wrapp output is compiled (g++) against the CPython 3.12
headers together with an instrumented library, imported in a fresh interpreter and called with every
positional/keyword split, keyword-skipping calls and malformed calls; the observed library calls /
exceptions are compared with the extracted model's prediction.
"""
import json
import os
import re
import subprocess

import vlib

KF_SKIP = "py-keyword-skips-default"

TYPES = {"int": ("int", "i", "I"), "long": ("long", "i", "I"), "double": ("double", "d", "F"), "bool": ("bool", "b", "B"),
         "string": ("const std::string &", "s", "S"),
         # an int passed by pointer, intent(inout): taken from the call like an int, the library adds 1000, the new value comes
         # back in the result after the function value, in declaration order with the output parameters
         "ioint": ("int *", "i", "I")}
RET = ["void", "int", "double", "bool", "string"]
DEFAULTS = {"int": "7", "long": "8", "double": "2.5", "bool": "true", "string": '"dflt"'}
DEFLOG = {"int": "7", "long": "8", "double": "2.5", "bool": "true", "string": "[dflt]"}
# odd parameter positions take the ZERO-like default of the type
ZDEFAULTS = {"int": "0", "long": "0", "double": "0.0", "bool": "false", "string": '""'}
ZLOG = {"int": "0", "long": "0", "double": "0", "bool": "false", "string": "[]"}


def dflt(t, i):
    return ZDEFAULTS[t] if i % 2 else DEFAULTS[t]


def dlog(t, i):
    return ZLOG[t] if i % 2 else DEFLOG[t]
RETVAL = {"int": "41", "double": "1.25", "bool": "true", "string": 'std::string("res")'}
PYRET = {"void": "None", "int": "41", "double": "1.25", "bool": "True", "string": "'res'"}


def gen_library(rng, idx):
    def params(maxn, universe):
        n = rng.randint(0, maxn)
        ps = [rng.choice(universe) for _ in range(n)]
        nd = rng.choice([0, 0, 1, 2, 3]) if n else 0
        return [(("int" if (t == "ioint" and i >= n - nd) else t), i >= n - nd) for i, t in enumerate(ps)]

    def distinct_sigs(k, maxn):
        universe = list(TYPES)
        sigs = []
        tries = 0
        while len(sigs) < k and tries < 50:
            tries += 1
            p = params(maxn, universe)
            keys = {tuple(t for t, _ in p[:m]) for m in range(len(p) - sum(1 for _, d in p if d), len(p) + 1)}
            if any(keys & s[1] for s in sigs):
                continue
            sigs.append((p, keys))
        return [s[0] for s in sigs]

    def outs_for(p):
        """positions (in the list of Python-visible parameters) before which an `int * +intent(out)` parameter is inserted:
        never after a defaulted parameter (C++ requires defaults to be trailing)"""
        if rng.random() > 0.35:
            return []
        req = next((i for i, (_, d) in enumerate(p) if d), len(p))
        return sorted(rng.randint(0, req) for _ in range(rng.choice([1, 1, 2])))

    def cxx_keys(p, outs):
        """the C++ argument type lists of every call form (output and inout parameters are `int *`)"""
        full, k = [], 0
        for i in range(len(p) + 1):
            while k < len(outs) and outs[k] == i:
                full.append(("int*", None))
                k += 1
            if i < len(p):
                full.append((("int*" if p[i][0] == "ioint" else p[i][0]), i))
        req = next((i for i, (_, d) in enumerate(p) if d), len(p))
        return {tuple(t for t, vi in full if vi is None or vi < n) for n in range(req, len(p) + 1)}

    def group(name, k, maxn, method):
        """an overload set that C++ can resolve: no two call forms with the same C++ argument types"""
        out, seen = [], set()
        for p in distinct_sigs(k, maxn):
            outs = outs_for(p)
            if cxx_keys(p, outs) & seen:
                outs = []
                p = [(("int" if t == "ioint" else t), d) for t, d in p]
            if cxx_keys(p, outs) & seen:
                continue
            seen |= cxx_keys(p, outs)
            out.append(dict(name=name, params=p, ret=None, method=method, ctor=False, outs=outs))
        return out

    funcs = []
    for i in range(rng.randint(2, 4)):
        rt = rng.choice(RET)
        for f in group("fn%d" % i, rng.choice([1, 1, 2, 3]), 3, False):
            f["ret"] = rt
            funcs.append(f)
    cls = [dict(name="Cls", params=[], ret=None, method=False, ctor=True, outs=[])]
    for i in range(rng.randint(1, 3)):
        rt = rng.choice(RET)
        for f in group("meth%d" % i, rng.choice([1, 1, 2]), 3, True):
            f["ret"] = rt
            cls.append(f)
    return dict(funcs=funcs, cls=cls, idx=idx)


def cxx_params(ps, with_defaults, outs=(), yaml=False):
    """the C++ parameter list: Python-visible parameters a<i> and, before visible position j for each j in outs, an
    output parameter o<k> (not supplied by the Python caller; its value comes back in the result)"""
    out = []
    k = 0
    for i in range(len(ps) + 1):
        while k < len(outs) and outs[k] == i:
            out.append("int *o%d%s" % (k, " +intent(out)" if yaml else ""))
            k += 1
        if i == len(ps):
            break
        t, d = ps[i]
        s = "%s a%d" % (TYPES[t][0], i) + (" +intent(inout)" if (yaml and t == "ioint") else "")
        if d and with_defaults:
            s += " = " + dflt(t, i)
        out.append(s)
    return ", ".join(out)


def set_outs(f):
    return "".join(" *o%d = %d;" % (k, 100 + k) for k in range(len(f.get("outs", [])))) + \
        "".join(" *a%d += 1000;" % i for i, (t, _) in enumerate(f["params"]) if t == "ioint")


def pyret(f, passed=None):
    """repr of what Python receives: the result followed by the output / inout parameters in declaration order (a tuple when
    more than one value). passed: the Python values of the visible parameters (for the inout ones)"""
    vals = [] if f["ret"] == "void" else [PYRET[f["ret"]]]
    outs = f.get("outs", [])
    k = 0
    for i in range(len(f["params"]) + 1):
        while k < len(outs) and outs[k] == i:
            vals.append(str(100 + k))
            k += 1
        if i < len(f["params"]) and f["params"][i][0] == "ioint":
            vals.append(str(int(passed[i]) + 1000) if passed is not None and passed[i] is not None else "?")
    return "None" if not vals else vals[0] if len(vals) == 1 else "(" + ", ".join(vals) + ")"


def log_stmt(tag, ps):
    fmt = tag
    args = []
    for i, (t, _) in enumerate(ps):
        if t == "ioint":
            fmt += " %d"
            args.append("*a%d" % i)
        elif t == "int":
            fmt += " %d"
            args.append("a%d" % i)
        elif t == "long":
            fmt += " %ld"
            args.append("a%d" % i)
        elif t == "double":
            fmt += " %g"
            args.append("a%d" % i)
        elif t == "bool":
            fmt += " %s"
            args.append('(a%d ? "true" : "false")' % i)
        else:
            fmt += " [%s]"
            args.append("a%d.c_str()" % i)
    return 'std::printf("LOG %s\\n"%s);' % (fmt, "".join(", " + a for a in args))


def write_library(lib, d):
    hpp = ["#pragma once", "#include <string>", "#include <cstdio>"]
    cpp = ['#include "tlib.hpp"', "static struct Init { Init() { setvbuf(stdout, NULL, _IONBF, 0); } } init_;"]
    ydecl = []

    def rtype(f):
        # (a `const std::string` result combined with default arguments is assigned to in the generated switch and
        #  does not compile: that is C05's concern; the plain value type is used here)
        return "void" if f["ret"] == "void" else ("std::string" if f["ret"] == "string" else f["ret"])
    for k, f in enumerate(lib["funcs"]):
        f["tag"] = "%s#%d" % (f["name"], k)
        hpp.append("%s %s(%s);" % (rtype(f), f["name"], cxx_params(f["params"], True, f["outs"])))
        body = log_stmt(f["tag"], f["params"]) + set_outs(f) + ("" if f["ret"] == "void" else " return %s;" % RETVAL[f["ret"]])
        cpp.append("%s %s(%s) { %s }" % (rtype(f), f["name"], cxx_params(f["params"], False, f["outs"]), body))
        ydecl.append({"decl": "%s %s(%s)" % (rtype(f), f["name"], cxx_params(f["params"], True, f["outs"], yaml=True))})
    # a fixed function with a list argument and an IMPLIED argument (computed from the list, not passed by the caller)
    hpp.append("#include <vector>")
    hpp.append("int vsum(const std::vector<int> &a0, int a1, int a2 = 7);")
    cpp.append('int vsum(const std::vector<int> &a0, int a1, int a2) { long t = 0; for (size_t i = 0; i < a0.size(); ++i) t += a0[i]; '
               'std::printf("LOG vsum %d %ld %d %d\\n", (int)a0.size(), t, a1, a2); return 41; }')
    ydecl.append({"decl": "int vsum(const std::vector<int> &a0, int a1 +implied(size(a0)), int a2 = 7)"})
    # array results / output arrays whose extents are EXPRESSIONS of the arguments (rank 1 and rank 2)
    hpp.append("int *get_table(int nrow, int ncol); void fill_table(int nrow, int ncol, int *out); int *get_row(int ncol);")
    cpp.append('static int tbl_[64]; int *get_table(int nrow, int ncol) { std::printf("LOG get_table %d %d\\n", nrow, ncol); '
               'for (int i = 0; i < 64; ++i) tbl_[i] = 300 + i; return tbl_; }')
    cpp.append('void fill_table(int nrow, int ncol, int *out) { std::printf("LOG fill_table %d %d\\n", nrow, ncol); '
               'for (int i = 0; i < (nrow + 1) * ncol; ++i) out[i] = 500 + i; }')
    cpp.append('int *get_row(int ncol) { std::printf("LOG get_row %d\\n", ncol); for (int i = 0; i < 64; ++i) tbl_[i] = 700 + i; return tbl_; }')
    ydecl.append({"decl": "int *get_table(int nrow, int ncol) +dimension(nrow+1,ncol)"})
    ydecl.append({"decl": "void fill_table(int nrow, int ncol, int *out +intent(out)+dimension(nrow+1,ncol))"})
    ydecl.append({"decl": "int *get_row(int ncol) +dimension(ncol+1)"})
    # list arguments of narrow element types: an element that is not a number is a TypeError, never a silent value
    hpp.append("#include <cstdint>")
    hpp.append("int sum_u16(const uint16_t *a0, int a1); int sum_u8(const uint8_t *a0, int a1); double sum_d(const double *a0, int a1);")
    cpp.append('int sum_u16(const uint16_t *a0, int a1) { long t = 0; for (int i = 0; i < a1; ++i) t += a0[i]; std::printf("LOG sum_u16 %d %ld\\n", a1, t); return 41; }')
    cpp.append('int sum_u8(const uint8_t *a0, int a1) { long t = 0; for (int i = 0; i < a1; ++i) t += a0[i]; std::printf("LOG sum_u8 %d %ld\\n", a1, t); return 41; }')
    cpp.append('double sum_d(const double *a0, int a1) { double t = 0; for (int i = 0; i < a1; ++i) t += a0[i]; std::printf("LOG sum_d %d %g\\n", a1, t); return 1.25; }')
    ydecl.append({"decl": "int sum_u16(const uint16_t *a0 +rank(1), int a1 +implied(size(a0)))"})
    ydecl.append({"decl": "int sum_u8(const uint8_t *a0 +rank(1), int a1 +implied(size(a0)))"})
    ydecl.append({"decl": "double sum_d(const double *a0 +rank(1), int a1 +implied(size(a0)))"})
    # std::string values with a NUL byte inside: alone and as one element of a result tuple they keep their whole length
    hpp.append("int get_record(int n, std::string &rec); void two_records(std::string &a, std::string &b); std::string record_only(int n);")
    cpp.append('int get_record(int n, std::string &rec) { std::printf("LOG get_record %d\\n", n); rec = std::string("key\\0val", 7); return 41; }')
    cpp.append('void two_records(std::string &a, std::string &b) { std::printf("LOG two_records\\n"); a = std::string("k\\0", 2); b = "plain"; }')
    cpp.append('std::string record_only(int n) { std::printf("LOG record_only %d\\n", n); return std::string("a\\0b\\0", 4); }')
    ydecl.append({"decl": "int get_record(int n, std::string &rec +intent(out))"})
    ydecl.append({"decl": "void two_records(std::string &a +intent(out), std::string &b +intent(out))"})
    ydecl.append({"decl": "std::string record_only(int n)"})
    hpp.append("class Cls { public:")
    cdecl = []
    for k, f in enumerate(lib["cls"]):
        f["tag"] = "%s#%d" % (f["name"], k)
        if f["ctor"]:
            hpp.append("  Cls(%s) { %s }" % (cxx_params(f["params"], True), log_stmt(f["tag"], f["params"])))
            cdecl.append({"decl": "Cls(%s)" % cxx_params(f["params"], True)})
        else:
            body = log_stmt(f["tag"], f["params"]) + set_outs(f) + ("" if f["ret"] == "void" else " return %s;" % RETVAL[f["ret"]])
            hpp.append("  %s %s(%s) { %s }" % (rtype(f), f["name"], cxx_params(f["params"], True, f["outs"]), body))
            cdecl.append({"decl": "%s %s(%s)" % (rtype(f), f["name"], cxx_params(f["params"], True, f["outs"], yaml=True))})
    hpp.append("};")
    ydecl.append({"decl": "class Cls", "declarations": cdecl})
    open(os.path.join(d, "tlib.hpp"), "w").write("\n".join(hpp) + "\n")
    open(os.path.join(d, "tlib.cpp"), "w").write("\n".join(cpp) + "\n")
    import yaml
    y = {"library": "tlib", "cxx_header": "tlib.hpp",
         "options": {"wrap_c": False, "wrap_fortran": False, "wrap_python": True, "wrap_lua": False, "PY_array_arg": "list"},
         "declarations": ydecl}
    yaml.safe_dump(y, open(os.path.join(d, "tlib.yaml"), "w"), sort_keys=False)


RUNNER = r'''
import json, sys
sys.path.insert(0, sys.argv[1])
import tlib
obj = tlib.Cls()
VAL = {"I": [5, 0, -3, 12], "F": [1.5, 2.0, -0.25], "B": [True, False], "S": ["abc", "x", ""]}
import collections
def decode(v):
    # iterables that are neither list nor tuple (JSON cannot carry them): {"__iter__": kind, "items": [...]}
    if isinstance(v, dict) and "__iter__" in v:
        items = v["items"]
        k = v["__iter__"]
        if k == "range":
            return range(*items)
        if k == "deque":
            return collections.deque(items)
        if k == "gen":
            return (x for x in items)
        if k == "set1":
            return set(items)
    return v
for line in sys.stdin:
    q = json.loads(line)
    q["pos"] = [decode(v) for v in q["pos"]]
    q["kw"] = {k: decode(v) for k, v in q["kw"].items()}
    f = getattr(obj, q["name"]) if q["method"] else getattr(tlib, q["name"])
    args = list(q["pos"]) + list(q["kw"].values())
    before = [sys.getrefcount(a) for a in args]
    try:
        r = f(*q["pos"], **q["kw"])
        line = "RET " + repr(r)
        del r
    except BaseException as e:
        line = "EXC " + type(e).__name__
        del e
    after = [sys.getrefcount(a) for a in args]
    if before != after:
        # the caller's arguments are borrowed: a call must neither keep nor give away a reference to them
        print("REFS", json.dumps([before, after]), flush=True)
    print(line, flush=True)
'''

PST_YAML = {"library": "pst", "cxx_header": "pst.hpp",
            "options": {"wrap_c": False, "wrap_fortran": False, "wrap_python": True, "wrap_lua": False, "PY_struct_arg": "class", "PY_array_arg": "list"},
            "declarations": [{"decl": "struct Pair { int ifield; double dfield; };"},
                             {"decl": "int bumpPair(Pair *arg +intent(inout))"}, {"decl": "void fillPair(Pair *arg +intent(out))"},
                             {"decl": "int sumPair(const Pair *arg)"}, {"decl": "Pair makePair(int i, double d)"},
                             {"decl": "int twoPairs(Pair *a +intent(inout), Pair *b +intent(inout))"}]}
PST_HPP = """#pragma once
struct Pair { int ifield; double dfield; };
int bumpPair(Pair *arg); void fillPair(Pair *arg); int sumPair(const Pair *arg); Pair makePair(int i, double d); int twoPairs(Pair *a, Pair *b);
"""
PST_CPP = """#include "pst.hpp"
int bumpPair(Pair *arg) { arg->ifield += 1; arg->dfield *= 2; return 3; }
void fillPair(Pair *arg) { arg->ifield = 9; arg->dfield = 0.5; }
int sumPair(const Pair *arg) { return arg->ifield + (int)arg->dfield; }
Pair makePair(int i, double d) { Pair p = {i, d}; return p; }
int twoPairs(Pair *a, Pair *b) { a->ifield += b->ifield; b->ifield = 0; return 1; }
"""
PST_RUN = r'''
import json, sys
sys.path.insert(0, sys.argv[1])
import pst
def obs(label, fn, *objs):
    before = [sys.getrefcount(o) for o in objs]
    r = fn(*objs)
    shown = repr([x if isinstance(x, (int, float)) else (type(x).__name__, x.ifield, x.dfield, any(x is o for o in objs)) for x in (r if isinstance(r, tuple) else (r,))])
    del r
    after = [sys.getrefcount(o) for o in objs]
    print(json.dumps({"label": label, "result": shown, "refs_before": before, "refs_after": after,
                      "fields": [(o.ifield, o.dfield) for o in objs]}), flush=True)
s = pst.Pair(1, 2.5)
t = pst.Pair(5, 1.0)
for k in range(3):
    obs("bumpPair", pst.bumpPair, s)
obs("sumPair", pst.sumPair, s)
obs("twoPairs", pst.twoPairs, s, t)
obs("fillPair", pst.fillPair)
obs("makePair", lambda: pst.makePair(4, 1.5))
obs("bumpPair", pst.bumpPair, s)
print(json.dumps({"label": "end", "fields": [(s.ifield, s.dfield), (t.ifield, t.dfield)]}), flush=True)
'''
PST_WANT = [("bumpPair", "[3, ('Pair', 2, 5.0, True)]", [(2, 5.0)]), ("bumpPair", "[3, ('Pair', 3, 10.0, True)]", [(3, 10.0)]),
            ("bumpPair", "[3, ('Pair', 4, 20.0, True)]", [(4, 20.0)]), ("sumPair", "[24]", [(4, 20.0)]),
            ("twoPairs", "[1, ('Pair', 9, 20.0, True), ('Pair', 0, 1.0, True)]", [(9, 20.0), (0, 1.0)]),
            ("fillPair", "[('Pair', 9, 0.5, False)]", []), ("makePair", "[('Pair', 4, 1.5, False)]", []),
            ("bumpPair", "[3, ('Pair', 10, 40.0, True)]", [(10, 40.0)]), ("end", None, [(10, 40.0), (0, 1.0)])]


def struct_library(ctx):
    """a struct wrapped as a Python class (PY_struct_arg: class): intent(inout) / intent(out) struct arguments come back in the
    result tuple; the values reach and leave the library, and no call keeps or gives away a reference to the caller's object"""
    import corpus
    import sysconfig
    import yaml
    d = os.path.join(ctx.bdir, "py", "pst")
    os.makedirs(d, exist_ok=True)
    yaml.safe_dump(PST_YAML, open(os.path.join(d, "pst.yaml"), "w"), sort_keys=False)
    open(os.path.join(d, "pst.hpp"), "w").write(PST_HPP)
    open(os.path.join(d, "pst.cpp"), "w").write(PST_CPP)
    od = os.path.join(d, "out")
    rc, out = corpus.run_shroud(os.path.join(d, "pst.yaml"), od)
    if rc != 0:
        ctx.broken.append(("correspondence", "py-struct-shroud", out[-1200:]))
        return
    rc, out = vlib.sh("g++ -std=c++11 -shared -fPIC -w -I%s -I. -I%s %s/py*.cpp pst.cpp -o pst.so" % (sysconfig.get_paths()["include"], od, od), cwd=d, timeout=300)
    if rc != 0:
        ctx.broken.append(("correspondence", "py-struct-build", out[-2000:]))
        return
    open(os.path.join(d, "run.py"), "w").write(PST_RUN)
    p = subprocess.run([vlib.PY, os.path.join(d, "run.py"), d], stdout=subprocess.PIPE, stderr=subprocess.PIPE, text=True, timeout=120)
    rows = [json.loads(l) for l in p.stdout.split("\n") if l.startswith("{")]
    yml = open(os.path.join(d, "pst.yaml")).read()
    for k, (label, result, fields) in enumerate(PST_WANT):
        ctx.count(1, ("pst", k))
        ctx.hist("struct:" + label)
        if k >= len(rows):
            ctx.violation("failing-input", {"what": "the extension crashed the interpreter or stopped (rc %s) in a sequence of calls with struct arguments" % p.returncode,
                                            "input": {"library_yaml": yml, "call_number": k, "call": label}, "stderr": p.stderr[-600:]})
            return
        r = rows[k]
        bad = None
        if r["label"] != label or (result is not None and r.get("result") != result) or [tuple(x) for x in r["fields"]] != fields:
            bad = "a struct argument or result did not carry the documented values"
        elif r.get("refs_before") != r.get("refs_after"):
            bad = "a call changed the reference count of the caller's struct object (the argument is borrowed: the result tuple must own its own reference)"
        if bad:
            ctx.violation("failing-input", {"what": bad, "input": {"library_yaml": yml, "call_number": k, "call": label}, "observed": r,
                                            "expected": {"result": result, "fields": fields}})
            return


def build(ctx, lib, tag):
    import corpus
    d = os.path.join(ctx.bdir, "py", tag)
    os.makedirs(d, exist_ok=True)
    write_library(lib, d)
    od = os.path.join(d, "out")
    rc, out = corpus.run_shroud(os.path.join(d, "tlib.yaml"), od)
    if rc != 0:
        return None, "shroud failed: " + out[-1200:]
    import sysconfig
    inc = sysconfig.get_paths()["include"]
    rc, out = vlib.sh("g++ -std=c++11 -shared -fPIC -w -I%s -I. -I%s %s/py*.cpp tlib.cpp -o tlib.so" % (inc, od, od), cwd=d, timeout=300)
    if rc != 0:
        return None, "compile failed: " + out[-2000:]
    open(os.path.join(d, "runner.py"), "w").write(RUNNER)
    return d, ""


VALS = {"I": [5, 0, -3, 12], "F": [1.5, 2.0, -0.25], "B": [True, False], "S": ["abc", "x", "hello"]}


def pyval(rng, tag):
    return rng.choice(VALS[tag])


def tag_of(v):
    return "B" if isinstance(v, bool) else "I" if isinstance(v, int) else "F" if isinstance(v, float) else "S"


def conv(t, v):
    """what the library logs for C++ parameter type t given python value v (accepted conversions only)."""
    if t in ("int", "long", "ioint"):
        return str(int(v))
    if t == "double":
        return "%g" % float(v)
    if t == "bool":
        return "true" if v else "false"
    return "[" + v + "]"


def gen_calls(rng, group):
    """calls for one overload group: list of (pos values, kw dict by param index or 'zz')."""
    calls = []
    for f in group:
        ps = f["params"]
        req = next((i for i, (_, d) in enumerate(ps) if d), len(ps))
        for n in range(req, len(ps) + 1):
            for k in range(0, n + 1):            # k positional, n-k by keyword (prefix of parameters supplied)
                pos = [pyval(rng, TYPES[ps[i][0]][2]) for i in range(k)]
                kwi = list(range(k, n))
                rng.shuffle(kwi)
                kw = {i: pyval(rng, TYPES[ps[i][0]][2]) for i in kwi}
                calls.append((pos, kw, "prefix"))
        # keyword skipping a defaulted parameter
        if len(ps) - req >= 2 and all(t not in ("string", "bool") for t, _ in ps[req:-1]):
            # (a skipped std::string / bool is converted from an uninitialised pointer: the interpreter crashes
            #  -- observed: SIGSEGV for `void meth0(bool a0 = true, bool a1 = true)` called as meth0(a1=False) --
            #  so only numeric parameters are skipped here)
            pos = [pyval(rng, TYPES[ps[i][0]][2]) for i in range(req)]
            calls.append((pos, {len(ps) - 1: pyval(rng, TYPES[ps[-1][0]][2])}, "skip"))
        # malformed: too many, unknown keyword, duplicate, missing required, wrong type
        full = [pyval(rng, TYPES[t][2]) for t, _ in ps]
        calls.append((full + [1], {}, "toomany"))
        calls.append((full[:req], {"zz": 1}, "unknown"))
        if ps:
            calls.append((full[:1], {0: full[0]}, "dup"))
            k = rng.randrange(len(ps))
            bad = list(full)
            wrong = [x for x in "IFBS" if not accepts(TYPES[ps[k][0]][1], x)]
            if wrong:
                bad[k] = pyval(rng, rng.choice(wrong))
                calls.append((bad, {}, "wrongtype"))
        if req > 0:
            calls.append((full[:req - 1], {}, "missing"))
    return calls


def accepts(fmt, tag):
    return {"i": tag in "IB", "d": tag in "IFB", "b": tag == "B", "s": tag == "S"}[fmt]


def model_query(group, pos, kw):
    ovs = ";".join("%s:%s" % ("".join(TYPES[t][1] for t, _ in f["params"]) or "-",
                              "".join("1" if d else "0" for _, d in f["params"]) or "-") for f in group)
    kws = ",".join("%s=%s" % ("-" if k == "zz" else k, tag_of(v)) for k, v in kw.items()) or "-"
    return "py|%s|%s|%s" % (ovs, "".join(tag_of(v) for v in pos) or "-", kws)


def expected(m, group, pos, kw):
    if m in ("TypeError", "ValueError"):
        return ["EXC " + m], None
    _, i, n, srcs = (m.split(" ") + [""])[:4]
    f = group[int(i)]
    kwl = list(kw.items())
    line = "LOG " + f["tag"]
    uninit = False
    srcl = srcs.split(",") if srcs else []
    passed = [None] * len(f["params"])
    for k in range(int(n)):
        t = f["params"][k][0]
        s = srcl[k]
        if s[0] == "P":
            passed[k] = pos[int(s[1:])]
            line += " " + conv(t, passed[k])
        elif s[0] == "K":
            passed[k] = kwl[int(s[1:])][1]
            line += " " + conv(t, passed[k])
        else:
            line += " <uninit>"
            uninit = True
    for i_, (t, _) in enumerate(f["params"]):
        if i_ >= int(n):
            line += " " + dlog(t, i_)
    return [line, "RET " + pyret(f, passed)], (line if uninit else None)


def oracle(group, pos, kw, kind, got):
    """independent statement of C03 on the observation."""
    if kind in ("toomany", "unknown", "dup", "wrongtype", "missing"):
        # is there any overload this call is valid for?
        for f in group:
            if valid_for(f, pos, kw) is not None:
                break
        else:
            if got[-1] in ("EXC TypeError", "EXC ValueError"):
                return None
            return {"what": "a call matching no wrapped signature did not raise TypeError/ValueError: " + got[-1], "class": "bad-call"}
    for f in group:
        vals = valid_for(f, pos, kw)
        if vals is None:
            continue
        line = "LOG " + f["tag"] + "".join(" " + (conv(t, v) if v is not None else dlog(t, i_)) for i_, ((t, _), v) in enumerate(zip(f["params"], vals)))
        if line not in got:
            skipped = any(v is None for v in vals[:max([i for i, v in enumerate(vals) if v is not None] + [-1]) + 1])
            return {"what": "the library did not receive the documented argument values: expected %r" % line, "class": "values",
                    "skip": skipped}
        if got[-1] != "RET " + pyret(f, vals):
            return {"what": "wrong result returned to Python: %s (expected %s)" % (got[-1], pyret(f, vals)), "class": "result"}
        return None
    return None


def valid_for(f, pos, kw):
    """python call semantics against the documented signature: values per parameter (None = library default) or None."""
    ps = f["params"]
    if len(pos) > len(ps):
        return None
    vals = [None] * len(ps)
    for i, v in enumerate(pos):
        vals[i] = v
    for k, v in kw.items():
        if k == "zz" or k >= len(ps) or k < len(pos):
            return None
        vals[k] = v
    for i, (t, d) in enumerate(ps):
        if vals[i] is None:
            if not d:
                return None
        elif not accepts(TYPES[t][1], tag_of(vals[i])):
            return None
    return vals


def classify(o):
    if o.get("class") == "values" and o.get("skip"):
        return KF_SKIP
    return None


def run(ctx):
    ctx.rules.append("random libraries (functions and methods; overload sets; trailing defaults; int/long/double/bool/std::string "
                     "parameters) compiled against CPython 3.12; per overload group: every (count, positional/keyword split) of a "
                     "parameter prefix with shuffled keyword order, a keyword call skipping defaulted parameters, and malformed calls "
                     "(too many, unknown keyword, name and position, wrong type, missing required). non-trivial = distinct call executed")
    ctx.assume += ["CPython's PyArg_ParseTupleAndKeywords is abstracted (positional then keyword assignment, one unit per parameter); "
                   "validated by execution", "Python-visible arguments are scalars and std::string; `int * +intent(out)` parameters are placed "
                   "before the first defaulted parameter in a third of the signatures (invisible to the caller, returned in the result); "
                   "arrays, structs, numpy not modelled"]
    ctx.hygiene()
    ctx.static_build()
    ctx.prove(os.path.join(vlib.COQ, "Properties", "C03.v"))
    drv = ctx.driver()
    quick = ctx.tier == "quick"
    nlibs = 12 if quick else 100
    libs = [gen_library(ctx.rng, i) for i in range(nlibs)]
    from concurrent.futures import ThreadPoolExecutor

    def one(lib):
        d, err = build(ctx, lib, "L%d" % lib["idx"])
        return lib, d, err
    with ThreadPoolExecutor(vlib.NCPU) as ex:
        built = list(ex.map(one, libs))
    for lib, d, err in built:
        if d is None:
            ctx.broken.append(("correspondence", "py-build", err[-1500:]))
            ctx.say("build failed: " + err[-600:])
            continue
        groups = {}
        for f in lib["funcs"]:
            groups.setdefault((f["name"], False), []).append(f)
        for f in lib["cls"]:
            if not f["ctor"]:
                groups.setdefault((f["name"], True), []).append(f)
        queries = []
        for (name, is_method), group in groups.items():
            for (pos, kw, kind) in gen_calls(ctx.rng, group):
                queries.append((name, is_method, group, pos, kw, kind))
        mres = drv.batch([model_query(g, pos, kw) for (_, _, g, pos, kw, _) in queries])
        # the implied-argument function: (positional, keywords, expected output)
        extra = [("vsum", [[1, 2, 3]], {}, ["LOG vsum 3 6 3 7", "RET 41"]), ("vsum", [[], 5], {}, ["LOG vsum 0 0 0 5", "RET 41"]),
                 ("vsum", [], {0: [4, 4], 2: 1}, ["LOG vsum 2 8 2 1", "RET 41"]), ("vsum", [[9] * 11], {2: -2}, ["LOG vsum 11 99 11 -2", "RET 41"]),
                 ("vsum", [3], {}, ["EXC"]), ("vsum", [[1], 2, 3], {}, ["EXC"]),
                 ("get_table", [2, 3], {}, ["LOG get_table 2 3", "RET " + repr([300 + i for i in range(9)])]),
                 ("get_table", [1, 4], {}, ["LOG get_table 1 4", "RET " + repr([300 + i for i in range(8)])]),
                 ("fill_table", [2, 3], {}, ["LOG fill_table 2 3", "RET " + repr([500 + i for i in range(9)])]),
                 ("fill_table", [0, 2], {}, ["LOG fill_table 0 2", "RET " + repr([500, 501])]),
                 ("get_row", [4], {}, ["LOG get_row 4", "RET " + repr([700 + i for i in range(5)])]),
                 ("sum_u16", [[1, 2, 65535]], {}, ["LOG sum_u16 3 65538", "RET 41"]), ("sum_u16", [[1, "two", 3]], {}, ["EXC"]),
                 ("sum_u16", [], {0: [None]}, ["EXC"]), ("sum_u8", [[255, 1]], {}, ["LOG sum_u8 2 256", "RET 41"]),
                 ("sum_u8", [[7, [], 3]], {}, ["EXC"]), ("sum_d", [[0.5, 2]], {}, ["LOG sum_d 2 2.5", "RET 1.25"]),
                 ("sum_d", [[0.5, "x"]], {}, ["EXC"]), ("vsum", [[1, "two", 3]], {}, ["EXC"]),
                 # any iterable is a sequence argument: a range, a deque, a generator, a one-element set and a tuple deliver their items
                 ("vsum", [{"__iter__": "range", "items": [2, 5]}], {}, ["LOG vsum 3 9 3 7", "RET 41"]),
                 ("sum_u8", [{"__iter__": "range", "items": [3]}], {}, ["LOG sum_u8 3 3", "RET 41"]),
                 ("sum_u16", [{"__iter__": "deque", "items": [7, 8, 9]}], {}, ["LOG sum_u16 3 24", "RET 41"]),
                 ("sum_d", [{"__iter__": "gen", "items": [0.5, 1.5]}], {}, ["LOG sum_d 2 2", "RET 1.25"]),
                 ("vsum", [{"__iter__": "set1", "items": [6]}, ], {2: 1}, ["LOG vsum 1 6 1 1", "RET 41"]),
                 ("sum_u16", [], {0: {"__iter__": "range", "items": [10, 13]}}, ["LOG sum_u16 3 33", "RET 41"]),
                 ("get_record", [7], {}, ["LOG get_record 7", "RET " + repr((41, "key\x00val"))]),
                 ("two_records", [], {}, ["LOG two_records", "RET " + repr(("k\x00", "plain"))]),
                 ("record_only", [3], {}, ["LOG record_only 3", "RET " + repr("a\x00b\x00")])]
        inp = "\n".join(json.dumps({"name": n, "method": m, "pos": pos, "kw": {("zz" if k == "zz" else "a%d" % k): v for k, v in kw.items()}})
                        for (n, m, _, pos, kw, _) in queries + [(n_, False, None, p_, k_, "extra") for (n_, p_, k_, _) in extra]) + "\n"
        p = subprocess.run([vlib.PY, os.path.join(d, "runner.py"), d], input=inp, stdout=subprocess.PIPE, stderr=subprocess.PIPE,
                           text=True, timeout=300, env=dict(os.environ, PYTHONUNBUFFERED="1"))
        out = [l for l in p.stdout.split("\n") if l]
        chunks, cur = [], []
        refs = {}
        for l in out:
            if l.startswith("REFS "):
                refs[len(chunks)] = l[5:]
                continue
            cur.append(l)
            if l.startswith(("RET", "EXC")):
                chunks.append(cur)
                cur = []
        # the first chunk belongs to the Cls() constructor call of the runner (LOG only, no RET): drop its LOG line
        if chunks and chunks[0] and chunks[0][0].startswith("LOG Cls#"):
            chunks[0] = chunks[0][1:]
        allq_ = queries + [(n_, False, None, p_, k_, "extra") for (n_, p_, k_, _) in extra]
        for ci, rf in sorted(refs.items())[:2]:
            if ci < len(allq_):
                ctx.violation("failing-input", {"what": "a call changed the reference count of one of its arguments (arguments are borrowed references)",
                                                "input": {"library_yaml": open(os.path.join(d, "tlib.yaml")).read(), "function": allq_[ci][0],
                                                          "positional": allq_[ci][3], "keywords": {str(k): v for k, v in allq_[ci][4].items()}},
                                                "refcounts_before_after": rf})
        xchunks = chunks[len(queries):]
        complete = p.returncode == 0 and len(chunks) == len(queries) + len(extra)
        if len(chunks) >= len(queries):
            # (the calls that completed are judged even when a later one brought the interpreter down)
            if complete:
                chunks = chunks[:len(queries)]
            for (n_, p_, k_, want), got in zip(extra, xchunks):
                ctx.count(1, (lib["idx"], n_, json.dumps(p_), json.dumps(sorted(k_.items()))))
                ctx.hist("implied:" + got[-1].split()[0])
                okx = (got[-1].startswith("EXC TypeError") or got[-1].startswith("EXC ValueError")) if want == ["EXC"] else got == want
                if not okx:
                    ctx.violation("failing-input", {"what": "a function with list / array arguments or results did not deliver the documented values (implied "
                                                            "arguments are computed from their expression; an array result has the extent its dimension "
                                                            "expression gives)",
                                                    "input": {"library_yaml": open(os.path.join(d, "tlib.yaml")).read(), "function": n_,
                                                              "positional": p_, "keywords": {"a%d" % k: v for k, v in k_.items()}},
                                                    "observed": got, "expected": want})
        if p.returncode != 0 or len(chunks) != len(queries):
            allq = queries + [(n_, False, None, p_, k_, "extra") for (n_, p_, k_, _) in extra]
            nxt = allq[len(chunks)] if len(chunks) < len(allq) else None
            ctx.broken.append(("correspondence", "py-run", "rc=%s stderr=%s chunks=%d queries=%d next=%r yaml=%s" % (
                p.returncode, p.stderr[-600:], len(chunks), len(queries), nxt and (nxt[0], nxt[3], nxt[4], nxt[5]),
                open(os.path.join(d, "tlib.yaml")).read()[-900:])))
            if p.returncode < 0 and nxt:
                ctx.violation("failing-input", {"what": "the extension crashed the interpreter (signal %d)" % -p.returncode,
                              "input": {"library_yaml": open(os.path.join(d, "tlib.yaml")).read(), "function": nxt[0],
                                        "positional": nxt[3], "keywords": {str(k): v for k, v in nxt[4].items()}, "kind": nxt[5]}})
            continue
        for q, m, got in zip(queries, mres, chunks):
            (name, is_method, group, pos, kw, kind) = q
            ctx.count(1, (lib["idx"], name, json.dumps(pos), json.dumps(sorted((str(k), v) for k, v in kw.items()))))
            ctx.hist(kind + ":" + got[-1].split()[0] + ("" if got[-1].startswith("RET") else ":" + got[-1].split()[1]))
            exp, uninit_line = expected(m, group, pos, kw)
            if uninit_line:
                # a C variable is read uninitialised: compare everything except that value
                pat = re.escape(exp[0]).replace(re.escape("<uninit>"), r"\S+")
                ok = len(got) == 2 and re.fullmatch(pat, got[0]) and got[1] == exp[1]
            else:
                ok = got == exp
            o = oracle(group, pos, kw, kind, got)
            kf = classify(o) if o else None
            if not ok:
                ctx.broken.append(("correspondence", "PyDispatch.py_dispatch", "lib=%d fn=%s pos=%r kw=%r got=%s model=%s (%s)" % (lib["idx"], name, pos, kw, got, exp, m)))
                if len(ctx.broken) <= 3:
                    ctx.say("DISAGREE fn=%s pos=%r kw=%r kind=%s\n  got  =%s\n  model=%s (%s)" % (name, pos, kw, kind, got, exp, m))
            if o:
                if kf and ctx.is_known(kf):
                    ctx.known_finding(kf, "")
                else:
                    ctx.violation("failing-input", {"what": o["what"], "class": o.get("class"), "input": {
                        "library_yaml": open(os.path.join(d, "tlib.yaml")).read(), "function": name, "method": is_method,
                        "positional": pos, "keywords": {("zz" if k == "zz" else "a%d" % k): v for k, v in kw.items()}}, "observed": got})
        ctx.traces += 1
    struct_library(ctx)
    ctx.sample({"library_functions": [(f["name"], f["params"], f["ret"]) for f in libs[0]["funcs"]][:4]})


def replay(path):
    d = json.load(open(path))
    print(json.dumps(d, indent=1)[:5000])
    return 1
