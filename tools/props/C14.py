"""C14 — equivalent ways of stating the same customisation give identical output.

Theorems: coq/Properties/C14.v over coq/Model/Scope.v (scoped lookup algebra) and
coq/Model/Options.v (command-line option values).
Tie: correspondence of Scope operation sequences (extracted model vs util.Scope);
correspondence of the option-value parser with main_with_args.
Search: whole-run relations on the implementation (byte comparison of output directories).
"""
import copy
import json
import os
import re
import shutil

import vlib
from vlib import enc

KF_NUMOPT = "cli-numeric-option"
KF_CREATE = "create-wrapper-attrs"


# ----------------------------------------------------------------- Scope correspondence
def gen_ops(rng, n):
    ops = []
    nobj = 0
    for _ in range(n):
        r = rng.random()
        if nobj == 0 or r < 0.18:
            p = None if nobj == 0 or rng.random() < 0.2 else rng.randrange(nobj)
            kw = [(rng.randrange(4), rng.randrange(50)) for _ in range(rng.choice([0, 0, 1, 2]))]
            ops.append(("new", p, kw))
            nobj += 1
            continue
        i = rng.randrange(nobj)
        k = rng.randrange(4)
        v = rng.randrange(50)
        if r < 0.38:
            ops.append(("set", i, k, v))
        elif r < 0.58:
            ops.append(("get", i, k))
        elif r < 0.64:
            ops.append(("has", i, k))
        elif r < 0.69:
            ops.append(("getd", i, k, v))
        elif r < 0.74:
            ops.append(("setdefault", i, k, v))
        elif r < 0.82:
            d = [(rng.randrange(4), rng.randrange(50)) for _ in range(rng.randint(0, 3))]
            ops.append(("update", i, d, rng.random() < 0.5))
        elif r < 0.86:
            ops.append(("inlocal", i, k))
        elif r < 0.90:
            ops.append(("del", i, [rng.randrange(4) for _ in range(rng.randint(0, 2))]))
        elif r < 0.96:
            ops.append(("clone", i))
            nobj += 1
        else:
            # reparent to an older object or None (no cycles: those are RecursionError in Python)
            p = None if i == 0 or rng.random() < 0.2 else rng.randrange(i)
            ops.append(("reparent", i, p))
    return ops


def impl_run(util, ops):
    objs = []
    out = []
    K = lambda k: "k%d" % k
    for op in ops:
        t = op[0]
        try:
            if t == "new":
                s = util.Scope(None if op[1] is None else objs[op[1]], **{K(k): v for k, v in _lastwins(op[2])})
                objs.append(s)
                out.append("I%d" % (len(objs) - 1))
            elif t == "set":
                setattr(objs[op[1]], K(op[2]), op[3])
                out.append("N")
            elif t == "get":
                out.append("V%d" % getattr(objs[op[1]], K(op[2])))
            elif t == "has":
                out.append("B%d" % (1 if K(op[2]) in objs[op[1]] else 0))
            elif t == "getd":
                out.append("V%d" % objs[op[1]].get(K(op[2]), op[3]))
            elif t == "setdefault":
                out.append("V%d" % objs[op[1]].setdefault(K(op[2]), op[3]))
            elif t == "update":
                objs[op[1]].update(_odict(op[2], K), replace=op[3])
                out.append("N")
            elif t == "inlocal":
                out.append("B%d" % (1 if objs[op[1]].inlocal(K(op[2])) else 0))
            elif t == "del":
                objs[op[1]].delattrs([K(k) for k in op[2]])
                out.append("N")
            elif t == "clone":
                objs.append(objs[op[1]].clone())
                out.append("I%d" % (len(objs) - 1))
            elif t == "reparent":
                objs[op[1]].reparent(None if op[2] is None else objs[op[2]])
                out.append("N")
        except AttributeError:
            out.append("A")
        except RecursionError:
            out.append("R")
    return " ".join(out)


def _lastwins(kw):
    d = {}
    for k, v in kw:
        d[k] = v
    return list(d.items())


def _odict(pairs, K):
    # python dict: later duplicates overwrite but keep first position
    d = {}
    for k, v in pairs:
        d[K(k)] = v
    return d


def model_line(ops):
    f = []
    for op in ops:
        t = op[0]
        al = lambda ps: ",".join("%d=%d" % (k, v) for k, v in ps)
        if t == "new":
            f.append("new:%s:%s" % ("-" if op[1] is None else op[1], al(_lastwins(op[2]))))
        elif t == "update":
            f.append("update:%d:%s:%d" % (op[1], al(list(_odict(op[2], lambda k: k).items())), 1 if op[3] else 0))
        elif t == "del":
            f.append("del:%d:%s" % (op[1], ",".join(str(k) for k in op[2])))
        elif t == "reparent":
            f.append("reparent:%d:%s" % (op[1], "-" if op[2] is None else op[2]))
        else:
            f.append(":".join(str(x) for x in op))
    return "scope|" + ";".join(f)


# ----------------------------------------------------------------- whole-run relations
BASE_LIB = {
    "library": "optlib",
    "cxx_header": "optlib.hpp",
    "options": {"wrap_python": True, "wrap_lua": True},
    "declarations": [
        {"decl": "void f0(int a)"},
        {"decl": "const std::string getName()"},
        {"decl": "namespace ns", "declarations": [
            {"decl": "int f1(const char *s, int n = 1)"},
            {"decl": "class C", "declarations": [
                {"decl": "C()"},
                {"decl": "void m(int i)"},
                {"decl": "void m(double d)"},                     # an overload set beside the constructor (generic bindings)
                {"decl": "const std::string &name() const"},
            ]},
            {"block": True, "declarations": [
                {"decl": "double m2(double x, bool flag = true)"},
                {"decl": "void m3(const std::string &name)"},
                {"decl": "enum Shade { DARK, LIGHT = 4, PALE }"},          # an enumeration takes its options from the block too
            ]},
            {"decl": "void f2(double *x +intent(in)+rank(1), int n +implied(size(x)))"},
            {"decl": "namespace deep", "declarations": [
                {"decl": "enum Level { LOW = 1, HIGH }"},
                {"decl": "void work(int a)"},
                {"decl": "int count(const std::string &s)"},
                {"decl": "int sumValues(const int *values +dimension(..), int nvalues)"},
                {"decl": "int *getPtr(int n) +dimension(n)"},
            ]},
        ]},
        {"decl": "void f3(std::string &s +intent(out))"},
        {"decl": "int sumAll(const int *values +dimension(..), int nvalues)"},
    ],
}

# function-level options / format fields and a non-default value
FUNC_OPTIONS = [("F_string_len_trim", False), ("F_force_wrapper", True), ("C_force_wrapper", True),
                ("F_create_bufferify_function", False),
                ("C_name_template", "XX_{C_prefix}{C_name_scope}{underscore_name}{function_suffix}{template_suffix}"),
                ("F_C_name_template", "yy_{F_C_prefix}{F_name_scope}{underscore_name}{function_suffix}{template_suffix}"),
                ("return_scalar_pointer", "scalar"),
                # more options consumed per function: the rank range of assumed-rank generics, the variable name templates of a
                # wrapper's hidden arguments, the generic and bufferify switches
                ("F_assumed_rank_min", 1), ("F_assumed_rank_max", 2), ("F_create_generic", False), ("F_return_fortran_pointer", False),
                ("C_var_len_template", "NN{c_var}"), ("C_var_trim_template", "LL{c_var}"), ("C_var_size_template", "SS{c_var}"),
                # selection of wrappers: stated on a container or on each of its members
                # (the library has the wrapper OFF for these runs: switching it ON for a namespace equals switching it ON for each
                #  member, because a container of a selected member is itself selected)
                # name templates of enumerations and their members (consumed by the enumeration node)
                ("C_enum_member_template", "{C_prefix}K_{enum_member_name}"), ("F_enum_member_template", "k_{enum_member_lower}"),
                ("C_enum_template", "{C_prefix}E_{enum_name}"),
                ("wrap_python", True), ("wrap_lua", True)]
# F_this / literalinclude are also consumed by the class itself (derived type code), so they are not function-level
FUNC_FORMATS = [("C_result", "rvc"), ("F_result", "rvf"), ("C_this", "me"), ("c_temp", "tmp_"),
                ("C_string_result_as_arg", "outstr"), ("F_string_result_as_arg", "outstr"), ("PY_result", "rvpy"),
                ("LUA_result", "rvl")]


def containers(lib):
    """paths to container dicts: [] = library, else list of indices into nested 'declarations'."""
    res = [[]]

    def walk(node, path):
        for i, d in enumerate(node.get("declarations") or []):
            if "declarations" in d:
                res.append(path + [i])
                walk(d, path + [i])
    walk(lib, [])
    return res


def node_at(lib, path):
    n = lib
    for i in path:
        n = n["declarations"][i]
    return n


def put(node, sect, k, v):
    node.setdefault(sect, {})
    node[sect][k] = v


def run_lib(ctx, lib, tag, extra=(), lang=None):
    import corpus
    import yaml
    d = os.path.join(ctx.bdir, "rel", tag)
    os.makedirs(d, exist_ok=True)
    yp = os.path.join(d, "optlib.yaml")
    yaml.safe_dump(lib, open(yp, "w"), sort_keys=False)
    od = os.path.join(d, "out")
    rc, out = corpus.run_shroud(yp, od, extra=list(extra))
    files = corpus.read_dir(od, skip_ext=(".log",)) if rc == 0 else None
    return rc, out, files, yp


def diff_files(a, b, ignore_json=True):
    names = sorted(set(a) | set(b))
    bad = []
    for n in names:
        if ignore_json and n.endswith(".json"):
            continue
        if a.get(n) != b.get(n):
            bad.append(n)
    return bad


def relations(ctx, quick):
    """Run the whole-run relations on the implementation. Returns failures."""
    fails = []
    rng = ctx.rng
    # --- R1 container == each direct child ; sibling frame
    combos = [("options", k, v) for k, v in FUNC_OPTIONS] + [("format", k, v) for k, v in FUNC_FORMATS]
    conts = containers(BASE_LIB)
    todo = [(c, s) for c in conts for s in combos]
    # a wrap_* switch on a CLASS also selects the class's own type (not only its members), and on the library the module itself:
    # "container == each child" is claimed for the wrapper selection only where the container is a namespace
    todo = [(c, s) for (c, s) in todo if not s[1].startswith("wrap_") or (c and str(node_at(BASE_LIB, c).get("decl", "")).startswith("namespace"))]
    todo_all = list(todo)
    if quick:
        # every key once (random container) + a few extra random placements
        byk = {}
        for t in todo:
            byk.setdefault(t[1][1], []).append(t)
        # every key: once at the library (all functions are below it), once at a random inner container; a few extra placements
        todo = [t for v in byk.values() for t in v if t[0] == []] + [rng.choice([t for t in v if t[0] != []] or v) for v in byk.values()] \
            + rng.sample(todo, 6) + [t for t in todo if t[1][1].startswith("wrap_")]
        # always: the switches the generator itself writes into a function's options (F_create_generic for constructors, wrap_fortran
        # in the CFI path), placed on the CLASS: a member's own value must not reach its siblings
        todo += [t for t in todo_all if str(node_at(BASE_LIB, t[0]).get("decl", "")).startswith("class") and t[1][1] in ("F_create_generic", "F_force_wrapper")]
        todo = list(dict((str(t), t) for t in todo).values())
    from concurrent.futures import ThreadPoolExecutor

    def r1(job):
        (path, (sect, k, v)) = job
        tag = "r1_%s_%s" % ("_".join(map(str, path)) or "lib", k)
        A = copy.deepcopy(BASE_LIB)
        B = copy.deepcopy(BASE_LIB)
        if k.startswith("wrap_"):
            A["options"][k] = not v
            B["options"][k] = not v
        put(node_at(A, path), sect, k, v)
        for ch in node_at(B, path)["declarations"]:
            put(ch, sect, k, v)
        ra = run_lib(ctx, A, tag + "_A")
        rb = run_lib(ctx, B, tag + "_B")
        if ra[0] != 0 or rb[0] != 0:
            return {"relation": "container==each-child", "where": path, "section": sect, "key": k, "value": v,
                    "what": "run failed", "output": (ra[1] if ra[0] else rb[1])[-600:], "yaml_A": open(ra[3]).read(), "yaml_B": open(rb[3]).read()}
        bad = diff_files(ra[2], rb[2])
        if bad:
            return {"relation": "container==each-child", "where": path, "section": sect, "key": k, "value": v,
                    "what": "outputs differ", "files": bad, "yaml_A": open(ra[3]).read(), "yaml_B": open(rb[3]).read()}
        return None

    with ThreadPoolExecutor(vlib.NCPU) as ex:
        for job, res in zip(todo, ex.map(r1, todo)):
            ctx.count(1, ("r1", str(job)))
            ctx.hist("rel:container==each")
            if res:
                fails.append(res)

    # --- R1b options written on a class-template instantiation == the same options on every method of the class
    TLIB = {"library": "optlib", "cxx_header": "optlib.hpp", "options": {"wrap_python": False, "wrap_lua": False},
            "declarations": [
                {"decl": "template<typename T> class Box", "cxx_template": [{"instantiation": "<int>"}],
                 "declarations": [{"decl": "Box()"}, {"decl": "void put(T v)"}, {"decl": "T get() const"},
                                  {"decl": "const std::string &name() const"}, {"decl": "void fill(T *a +rank(1), int n +implied(size(a)))"}]},
                {"decl": "void other(int a)"}]}
    topts = [(k, v) for k, v in FUNC_OPTIONS if not k.startswith("wrap_")] + [("debug", True)]     # (wrapper selection: R1 on namespaces)

    def r1b(kv):
        k, v = kv
        A = copy.deepcopy(TLIB)
        A["declarations"][0]["cxx_template"][0]["options"] = {k: v}
        B = copy.deepcopy(TLIB)
        for ch in B["declarations"][0]["declarations"]:
            put(ch, "options", k, v)
        ra = run_lib(ctx, A, "r1b_%s_A" % k)
        rb = run_lib(ctx, B, "r1b_%s_B" % k)
        if ra[0] != 0 or rb[0] != 0:
            return {"relation": "instantiation==each-method", "key": k, "value": v, "what": "run failed",
                    "output": (ra[1] if ra[0] else rb[1])[-600:], "yaml_A": open(ra[3]).read(), "yaml_B": open(rb[3]).read()}
        bad = diff_files(ra[2], rb[2])
        if bad:
            return {"relation": "instantiation==each-method", "key": k, "value": v, "what": "outputs differ", "files": bad,
                    "yaml_A": open(ra[3]).read(), "yaml_B": open(rb[3]).read()}
        return None
    with ThreadPoolExecutor(vlib.NCPU) as ex:
        for kv, res in zip(topts, ex.map(r1b, topts)):
            ctx.count(1, ("r1b", str(kv)))
            ctx.hist("rel:instantiation==each-method")
            if res:
                fails.append(res)
    # --- R1c options consumed by a CLASS node itself (its C name prefix, its file names): written in the class's own options ==
    #         written on a block that holds only that class
    CLIB = {"library": "caselib", "cxx_header": "caselib.hpp", "options": {"wrap_python": False, "wrap_lua": False},
            "declarations": [{"decl": "class Class1", "declarations": [{"decl": "Class1()"}, {"decl": "void Member1()"}, {"decl": "int Member2(int arg)"}]},
                             {"decl": "void Other(int a)"}]}
    copts = [("C_API_case", "lower"), ("C_API_case", "upper"), ("C_header_filename_class_template", "cw{file_scope}.{C_header_filename_suffix}"),
             ("C_impl_filename_class_template", "cw{file_scope}.{C_impl_filename_suffix}"), ("F_API_case", "lower")]
    copts = [(k, v) for (k, v) in copts if k != "F_API_case"]

    def r1c(kv):
        k, v = kv
        A = copy.deepcopy(CLIB)
        A["declarations"][0]["options"] = {k: v}
        B = copy.deepcopy(CLIB)
        B["declarations"][0] = {"block": True, "options": {k: v}, "declarations": [B["declarations"][0]]}
        tag = "r1c_%s_%s" % (k, re.sub(r"\W+", "", str(v))[:12])
        ra = run_lib(ctx, A, tag + "_A")
        rb = run_lib(ctx, B, tag + "_B")
        if ra[0] != 0 or rb[0] != 0:
            return {"relation": "class-options==block-around-class", "key": k, "value": v, "what": "run failed",
                    "output": (ra[1] if ra[0] else rb[1])[-600:], "yaml_A": open(ra[3]).read(), "yaml_B": open(rb[3]).read()}
        bad = diff_files(ra[2], rb[2])
        if bad:
            return {"relation": "class-options==block-around-class", "key": k, "value": v, "what": "outputs differ", "files": bad,
                    "yaml_A": open(ra[3]).read(), "yaml_B": open(rb[3]).read()}
        return None
    with ThreadPoolExecutor(vlib.NCPU) as ex:
        for kv, res in zip(copts, ex.map(r1c, copts)):
            ctx.count(1, ("r1c", str(kv)))
            ctx.hist("rel:class-options==block-around-class")
            if res:
                fails.append(res)
    ctx.sample({"relation": "container==each-child", "container_path": todo[0][0], "setting": todo[0][1]})

    # --- R1b sibling frame (through the json dump of per-node options/fmtdict)
    base = run_lib(ctx, BASE_LIB, "base")
    if base[0] != 0:
        fails.append({"relation": "baseline", "what": "run failed", "output": base[1][-600:]})
        return fails

    # --- R2 inline attributes == attrs: dictionary
    pairs = [
        ("void g(int *a +intent(in)+rank(1))", "void g(int *a)", {"a": {"intent": "in", "rank": 1}}, None),
        ("void g(double *x +intent(out)+dimension(3))", "void g(double *x)", {"x": {"intent": "out", "dimension": "3"}}, None),
        ("void g(const char *s +len_trim(n), int n +implied(len_trim(s)))", "void g(const char *s, int n)",
         {"s": {"len_trim": "n"}, "n": {"implied": "len_trim(s)"}}, None),
        ("int *g(int n) +dimension(n)+deref(pointer)", "int *g(int n)", None, {"dimension": "n", "deref": "pointer"}),
        ("void g(char *s +intent(out)+charlen(20))", "void g(char *s)", {"s": {"intent": "out", "charlen": 20}}, None),
        ("void g(int v +value)", "void g(int v)", {"v": {"value": True}}, None),
        ("Cx *g() +owner(caller)", "Cx *g()", None, {"owner": "caller"}),
        # function-level attributes that feed the generated NAMES (read when the format dictionary is filled)
        ("int getValue() +name(value)", "int getValue()", None, {"name": "value"}),
        ("void initLibrary(int flag) +name(setup)", "void initLibrary(int flag)", None, {"name": "setup"}),
        ("int g(int a +intent(in)) +pure", "int g(int a)", {"a": {"intent": "in"}}, {"pure": True}),
        ("const char *g() +len(30)", "const char *g()", None, {"len": 30}),
        ("@Cx() +name(new)", "@Cx()", None, {"name": "new"}),
        ("@~Cx() +name(delete)", "@~Cx()", None, {"name": "delete"}),
        ("@int getIt() const +name(it)", "@int getIt() const", None, {"name": "it"}),
    ]
    for (inline, plain, attrs, fattrs) in pairs:
        A = {"library": "optlib", "cxx_header": "o.hpp", "options": {"wrap_python": True, "wrap_lua": True},
             "declarations": [{"decl": "class Cx"}, {"decl": inline}]}
        if inline.startswith("@"):          # a member of the class
            A["declarations"] = [{"decl": "class Cx", "declarations": [{"decl": inline[1:]}]}]
        B = copy.deepcopy(A)
        tgt = B["declarations"][0]["declarations"] if inline.startswith("@") else B["declarations"]
        tgt[-1] = {"decl": plain.lstrip("@")}
        if attrs:
            tgt[-1]["attrs"] = attrs
        if fattrs:
            tgt[-1]["fattrs"] = fattrs
        tag = "r2_%d" % pairs.index((inline, plain, attrs, fattrs))
        ra = run_lib(ctx, A, tag + "_A")
        rb = run_lib(ctx, B, tag + "_B")
        ctx.count(1, ("r2", inline))
        ctx.hist("rel:inline==attrs")
        if ra[0] != 0 or rb[0] != 0:
            fails.append({"relation": "inline-attrs==attrs-dict", "decl": inline, "what": "run failed",
                          "output": (ra[1] if ra[0] else rb[1])[-600:]})
        else:
            bad = diff_files(ra[2], rb[2])
            if bad:
                fails.append({"relation": "inline-attrs==attrs-dict", "decl": inline, "what": "outputs differ", "files": bad})

    # --- R3 YAML field == command line
    cli = [("wrap_lua", False, "false"), ("wrap_python", False, "False"), ("F_force_wrapper", True, "true"),
           ("C_line_length", 60, "60"), ("F_line_length", 100, "100"), ("debug", True, "True"),
           ("F_module_name_library_template", "mymod_{library_lower}", "mymod_{library_lower}"),
           ("C_header_filename_suffix", "hh", "hh"), ("F_standard", 2008, "2008"),
           ("F_assumed_rank_max", 3, "3")]
    for (k, yv, cv) in cli:
        A = copy.deepcopy(BASE_LIB)
        put(A, "options", k, yv)
        ra = run_lib(ctx, A, "r3_%s_A" % k)
        rb = run_lib(ctx, BASE_LIB, "r3_%s_B" % k, extra=["--option", "%s=%s" % (k, cv)])
        ctx.count(1, ("r3", k))
        ctx.hist("rel:yaml==cli")
        if ra[0] != 0 or rb[0] != 0:
            fails.append({"relation": "yaml-option==--option", "key": k, "value": cv, "numeric": isinstance(yv, int) and not isinstance(yv, bool),
                          "what": "run failed", "which": "yaml" if ra[0] else "cli", "output": (ra[1] if ra[0] else rb[1])[-700:]})
        else:
            bad = diff_files(ra[2], rb[2])
            if bad:
                fails.append({"relation": "yaml-option==--option", "key": k, "value": cv, "numeric": isinstance(yv, int) and not isinstance(yv, bool),
                              "what": "outputs differ", "files": bad})
    # the same with a description that has NO options section of its own (and several options at once)
    bare = {"library": "bareopt", "cxx_header": "b.hpp", "declarations": [{"decl": "void f0(int a)"}, {"decl": "int f1(const char *s)"},
                                                                           {"decl": "class Cb", "declarations": [{"decl": "int get() const"}]}]}
    multi = [("wrap_python", True, "true"), ("wrap_fortran", False, "false"), ("debug", True, "true"), ("C_line_length", 60, "60")]
    for sub in ([multi[0]], [multi[1], multi[3]], multi):
        A = copy.deepcopy(bare)
        for (k, yv, _) in sub:
            put(A, "options", k, yv)
        tag = "r3bare_" + "_".join(k for k, _, _ in sub)
        ra = run_lib(ctx, A, tag + "_A")
        rb = run_lib(ctx, bare, tag + "_B", extra=[x for (k, _, cv) in sub for x in ("--option", "%s=%s" % (k, cv))])
        ctx.count(1, ("r3bare", tag))
        ctx.hist("rel:yaml==cli:no-options-section")
        if ra[0] != 0 or rb[0] != 0:
            fails.append({"relation": "yaml-option==--option", "key": tag, "value": "description without an options section", "numeric": False,
                          "what": "run failed", "which": "yaml" if ra[0] else "cli", "output": (ra[1] if ra[0] else rb[1])[-700:]})
        else:
            bad = diff_files(ra[2], rb[2])
            if bad:
                fails.append({"relation": "yaml-option==--option", "key": tag, "value": "description without an options section", "numeric": False,
                              "what": "outputs differ", "files": bad})
    for lang in ("c", "c++"):
        A = copy.deepcopy(BASE_LIB)
        A["language"] = lang
        A["declarations"] = [{"decl": "void f0(int a)"}, {"decl": "int f1(const char *s)"}]
        B = copy.deepcopy(A)
        del B["language"]
        ra = run_lib(ctx, A, "r3_lang_%s_A" % lang.replace("+", "x"))
        rb = run_lib(ctx, B, "r3_lang_%s_B" % lang.replace("+", "x"), extra=["--language", lang])
        ctx.count(1, ("r3lang", lang))
        if ra[0] != 0 or rb[0] != 0 or diff_files(ra[2], rb[2]):
            fails.append({"relation": "yaml-language==--language", "language": lang,
                          "what": "run failed" if (ra[0] or rb[0]) else "outputs differ"})

    # --- R4 create_wrapper() == command line
    d = os.path.join(ctx.bdir, "rel", "r4")
    os.makedirs(os.path.join(d, "api"), exist_ok=True)
    os.makedirs(os.path.join(d, "cli"), exist_ok=True)
    yp = base[3]
    code = ("import sys, os; sys.path.insert(0, %r); os.chdir(%r); import shroud.main as m; "
            "m.create_wrapper(%r, outdir=%r)") % (vlib.REPO, os.path.join(d, "api"), yp, os.path.join(d, "api"))
    rc, out = vlib.sh([vlib.PY, "-c", code], timeout=120)
    rc2, out2 = vlib.sh([vlib.PY, "-m", "shroud.main", "--outdir", os.path.join(d, "cli"), "--logdir", os.path.join(d, "cli"), yp], timeout=120)
    ctx.count(1, ("r4",))
    ctx.hist("rel:create_wrapper==cli")
    if rc != 0 or rc2 != 0:
        fails.append({"relation": "create_wrapper==cli", "what": "run failed", "which": "create_wrapper" if rc else "cli",
                      "output": (out if rc else out2)[-700:]})
    else:
        import corpus
        # the output directory name is embedded in setup.py: compare modulo that name
        fa = {n: b.replace(os.path.join(d, "api").encode(), b"<OUT>") for n, b in corpus.read_dir(os.path.join(d, "api"), skip_ext=(".log",)).items()}
        fb = {n: b.replace(os.path.join(d, "cli").encode(), b"<OUT>") for n, b in corpus.read_dir(os.path.join(d, "cli"), skip_ext=(".log",)).items()}
        bad = diff_files(fa, fb)
        if bad:
            fails.append({"relation": "create_wrapper==cli", "what": "outputs differ", "files": bad})
    return fails


def classify(f):
    if f.get("relation") == "yaml-option==--option" and f.get("numeric") and f.get("which") == "cli" and "TypeError" in f.get("output", ""):
        return KF_NUMOPT
    if f.get("relation") == "create_wrapper==cli" and f.get("which") == "create_wrapper" and "AttributeError" in f.get("output", ""):
        return KF_CREATE
    return None


def run(ctx):
    ctx.rules.append("Scope: random operation sequences (new/set/get/has/get-default/setdefault/update/inlocal/delattrs/clone/"
                     "reparent) over <=4 keys; whole-run relations on a generated nested library: container vs each child for "
                     "function-level options and format fields, inline vs dictionary attributes, YAML vs --option/--language, "
                     "create_wrapper vs CLI. non-trivial = distinct sequence with >=1 lookup through a parent / distinct relation instance")
    ctx.assume += ["which options each emitter reads is not modelled; the theorems are the lookup algebra every reader goes through",
                   "name-mangled private slots of util.Scope (_Scope__parent/_Scope__hidden) are not modelled"]
    ctx.hygiene()
    ctx.static_build()
    ctx.prove(os.path.join(vlib.COQ, "Properties", "C14.v"))
    drv = ctx.driver()
    vlib.import_shroud()
    from shroud import util
    quick = ctx.tier == "quick"

    seqs = [gen_ops(ctx.rng, ctx.rng.choice([5, 15, 40])) for _ in range(4000 if quick else 60000)]
    cf = os.path.join(vlib.VERIF, "corpus", "C14.json")
    if os.path.exists(cf):
        seqs = [[tuple(o) for o in s] for s in json.load(open(cf))] + seqs
    mres = drv.pbatch([model_line(s) for s in seqs])
    nbad = 0
    for s, m in zip(seqs, mres):
        i = impl_run(util, s)
        ctx.count(1, json.dumps(s) if any(o[0] in ("get", "has", "getd") for o in s) else None)
        for o in s:
            ctx.hist("op:" + o[0])
        if i != m:
            nbad += 1
            ctx.broken.append(("correspondence", "Scope.srun", "ops=%r impl=%s model=%s" % (s, i, m)))
            if nbad <= 3:
                ctx.say("DISAGREE scope ops=%r\n impl =%s\n model=%s" % (s, i, m))
    ctx.sample({"scope_ops": seqs[-1][:12], "impl": impl_run(util, seqs[-1][:12])})

    # option value parser correspondence
    vals = ["true", "True", "false", "False", "TRUE", "0", "1", "80", "-3", "abc", "", "a=b", "2003", "tRue", " true", "1.5"]
    ml = ["optval|" + enc(v) for v in vals]
    mres = drv.batch(ml)
    for v, m in zip(vals, mres):
        i = impl_optval(v)
        ctx.count(1, ("optval", v))
        if i != m:
            ctx.broken.append(("correspondence", "Options.cli_value", "value=%r impl=%s model=%s" % (v, i, m)))

    fails = relations(ctx, quick)
    for f in fails:
        ctx.say("relation failure: " + json.dumps({x: f[x] for x in f if x not in ("yaml_A", "yaml_B", "output")})[:300])
        k = classify(f)
        if k and ctx.is_known(k):
            ctx.known_finding(k, "")
            continue
        ctx.violation("failing-input", {"what": "two equivalent ways of stating a customisation give different results", "input": f})


def impl_optval(v):
    """The value main_with_args stores for --option k=<v> (driver code re-executed on a stub)."""
    import argparse
    import tempfile
    from shroud import main as smain
    # run the real option merge by calling main_with_args up to the merge: we re-use its code path
    # through a tiny YAML and read the option back from the library node via the json dump.
    d = tempfile.mkdtemp(dir=os.path.join(vlib.BUILD, "C14"))
    yp = os.path.join(d, "o.yaml")
    open(yp, "w").write("library: o\noptions:\n  wrap_fortran: false\n  wrap_c: false\ndeclarations: []\n")
    args = argparse.Namespace(cmake="", cfiles="", ffiles="", filename=[yp], logdir=d, outdir=d, outdir_c_fortran="",
                              outdir_lua="", outdir_python="", outdir_yaml="", path=[], write_helpers="", write_statements="",
                              yaml_types="", write_version=False, option=["zz_probe=" + v], language=None)
    import io
    import contextlib
    with contextlib.redirect_stdout(io.StringIO()):
        try:
            smain.main_with_args(args)
        except BaseException as e:
            shutil.rmtree(d, ignore_errors=True)
            return "EXC|" + type(e).__name__
    j = json.load(open(os.path.join(d, "o.json")))
    shutil.rmtree(d, ignore_errors=True)
    val = j["library"]["options"].get("zz_probe")
    if isinstance(val, bool):
        return "B%d" % (1 if val else 0)
    if isinstance(val, int):
        return "I%d" % val
    return "S" + enc(val)


def replay(path):
    d = json.load(open(path))
    print(json.dumps(d, indent=1)[:6000])
    return 1
