"""C01 — Fortran wrapper calls are equivalent to calling the library directly.

Theorems: coq/Properties/C01.v (a specific that passes the check hands every parameter of its bind(C) interface the
documented value, for ALL values of the dummy arguments; character input reaches C as the buffer or its trimmed,
NUL-terminated copy; trimming removes only trailing blanks) + dyn/C01_tables.v: translation validation of every
bind(C) call in the Fortran modules generated on this run (generated libraries x {F_CFI off} x {debug off, on} and
regression inputs).  The chain to the C++ callee is closed by C04 (bind(C) interface = C prototype) and C02 (C wrapper
delivers its arguments to the callee), the string helpers by C10.
Correspondence / search: each generated library is built two ways from /repo's output — a C++ program calling the C++
API directly (character input right-trimmed: the documented conversion) and a Fortran program using only the generated
module, with the same argument values, under AddressSanitizer; callee-side trace and caller-side results must be
identical.  Repeated with F_CFI on and with the library declared as C where the declarations allow it.
"""
import json
import os
import shutil
import subprocess
import sys

import vlib

CORPUS = ["classes", "strings", "pointers-cxx", "namespace", "types", "defaultarg", "templates", "ownership", "generic", "struct-cxx", "scope", "vectors"]


def build_and_run(ctx, tag, lib, options):
    import yaml
    import corpus
    import eqgen
    d = os.path.join(ctx.bdir, "eqf", tag)
    shutil.rmtree(d, ignore_errors=True)
    os.makedirs(d)
    l = dict(lib["lib"])
    l["options"] = dict(l.get("options", {}), **options)
    yaml.safe_dump(l, open(d + "/eq.yaml", "w"), sort_keys=False)
    open(d + "/eq.hpp", "w").write(lib["hpp"])
    open(d + "/eq.cpp", "w").write(lib["cpp"])
    open(d + "/eqshow.cpp", "w").write(eqgen.SHOW_CPP)
    open(d + "/eqshow.h", "w").write(eqgen.SHOW_H)
    rc, out = corpus.run_shroud(d + "/eq.yaml", d)
    if rc != 0:
        return {"status": "shroud-failed", "detail": out[-800:]}
    open(d + "/direct.cpp", "w").write(eqgen.direct_driver(eqgen.trimmed_copy(lib)))
    open(d + "/viaf.f90", "w").write(eqgen.f_driver(lib))
    gen = sorted(f for f in os.listdir(d) if f.startswith(("wrap", "util")) and f.endswith(".cpp"))
    flags = ["-g", "-O0", "-fsanitize=address", "-fno-omit-frame-pointer"]
    p = subprocess.run(["g++", "-std=c++11"] + flags + ["-I", d, "-o", "direct", "eq.cpp", "eqshow.cpp", "direct.cpp"], cwd=d, capture_output=True, text=True)
    if p.returncode != 0:
        return {"status": "build-failed:direct", "detail": p.stderr[-1200:]}
    for src in ["eq.cpp", "eqshow.cpp"] + gen:
        p = subprocess.run(["g++", "-std=c++11"] + flags + ["-I", d, "-c", src], cwd=d, capture_output=True, text=True)
        if p.returncode != 0:
            return {"status": "build-failed:" + src, "detail": p.stderr[-1200:], "yaml": open(d + "/eq.yaml").read()}
    fmods = sorted(f for f in os.listdir(d) if f.startswith("wrapf") and f.endswith(".f"))
    p = subprocess.run(["gfortran"] + flags + ["-ffree-form", "-ffree-line-length-none", "-cpp", "-o", "viaf"] + fmods + ["viaf.f90"] +
                       [s[:-4] + ".o" for s in ["eq.cpp", "eqshow.cpp"] + gen] + ["-lstdc++"], cwd=d, capture_output=True, text=True)
    if p.returncode != 0:
        gen_err = any(m in p.stderr for m in fmods)
        return {"status": "build-failed:" + ("module" if gen_err else "viaf"), "detail": p.stderr[-1800:], "yaml": open(d + "/eq.yaml").read()}
    env = dict(os.environ, ASAN_OPTIONS="detect_leaks=0")
    o1 = subprocess.run([d + "/direct"], capture_output=True, text=True, env=env, timeout=60)
    o2 = subprocess.run([d + "/viaf"], capture_output=True, text=True, env=env, timeout=60)
    a, b = o1.stdout.splitlines(), o2.stdout.splitlines()
    diffs = [(i, x, y) for i, (x, y) in enumerate(zip(a, b)) if x != y]
    st = "ok"
    if o1.returncode != 0:
        st = "direct-crashed"
    elif o2.returncode != 0:
        st = "viaf-crashed"
    elif diffs or len(a) != len(b):
        st = "differs"
    res = {"status": st, "diffs": diffs[:4], "lines": (len(a), len(b)), "detail": (o2.stderr or o1.stderr)[-900:],
           "yaml": open(d + "/eq.yaml").read(), "calls": len(lib["funcs"]) + 14}
    if st == "ok":
        shutil.rmtree(d, ignore_errors=True)
    return res


def run(ctx):
    ctx.rules.append("generated libraries as for C02 (8 functions: global, const / non-const / static methods; 0-4 parameters over native "
                     "values, pointers in/out/inout, references, const std::string&, const char*, std::string& out/inout, arrays with "
                     "implied extent, class arguments; results void / numeric / bool / enum / std::string / const std::string& / const "
                     "char*; plus default-argument functions and a method at every arity, two template instantiations, allocatable rank-1 / "
                     "rank-2 and pointer rank-1 array results whose extent, shape and every element are printed); values incl. INT_MIN/MAX, empty, blank-containing and trailing-blank strings, zero-length arrays; option "
                     "sets {}, {debug}, {F_CFI}. non-trivial = distinct (library, option set, call)")
    ctx.assume += ["the flow extractor tools/fflow.py (regular expressions over the generated module text) is trusted; what it does not "
                   "recognise fails the check (fail closed)",
                   "gfortran 12 / g++ 12 with AddressSanitizer execute the generated code; result and output-argument passing is covered "
                   "by the runs, the theorem covers the arguments handed to the C interface",
                   "fortran_generic / assumed-rank / template variants reach the intended entry point: names are C08's theorems; their "
                   "calls are in the validated table when the regression inputs contain them"]
    ctx.hygiene()
    ctx.static_build()
    ctx.prove(os.path.join(vlib.COQ, "Properties", "C01.v"))
    sys.path.insert(0, os.path.join(vlib.VERIF, "tools"))
    import yaml
    import corpus
    import eqgen
    import fflow
    quick = ctx.tier == "quick"
    rng = ctx.rng
    nlib = 24 if quick else 300
    libs = [eqgen.gen_library(rng, 8) for _ in range(nlib)]
    optsets = [("plain", {}), ("debug", {"debug": True}), ("cfi", {"F_CFI": True})]
    jobs = []
    for i, l in enumerate(libs):
        for tag, o in optsets[:2]:
            ll = dict(l["lib"])
            ll["options"] = dict(ll.get("options", {}), **o)
            jobs.append({"label": "gen%d-%s" % (i, tag), "yaml": yaml.safe_dump(ll, sort_keys=False)})
    for (name, y, cmd) in corpus.test_descs():
        if name in CORPUS and not cmd:
            jobs.append({"label": name, "yaml": open(y).read()})
    wd = os.path.join(ctx.bdir, "fflow")
    os.makedirs(wd, exist_ok=True)
    from concurrent.futures import ThreadPoolExecutor
    n = vlib.NCPU

    def fjob(i):
        chunk = jobs[i::n]
        if not chunk:
            return []
        jp, rp = os.path.join(wd, "j%d.json" % i), os.path.join(wd, "r%d.json" % i)
        json.dump(chunk, open(jp, "w"))
        p = subprocess.run([vlib.PY, os.path.join(vlib.VERIF, "tools", "runfflow.py"), os.path.join(wd, "w%d" % i), jp, rp],
                           env=dict(os.environ, PYTHONPATH=vlib.REPO, PYTHONHASHSEED="0"), capture_output=True, text=True, timeout=3000)
        if not os.path.exists(rp):
            raise RuntimeError("runfflow failed: " + p.stderr[-800:])
        return json.load(open(rp))
    with ThreadPoolExecutor(n) as ex:
        rs = list(ex.map(fjob, range(n)))
    fres = [None] * len(jobs)
    for i, r in enumerate(rs):
        for k, x in enumerate(r):
            fres[i + n * k] = x
    rows = []
    for j, r in zip(jobs, fres):
        if r["err"]:
            ctx.broken.append(("correspondence", "shroud-run-" + j["label"], r["err"]))
            continue
        for row in r["rows"]:
            row["lib"] = j["label"]
            rows.append(row)
            for c in row["calls"]:
                ctx.count(1, ("fcall", j["label"], row["name"], c["cname"]))
    gdir = os.path.join(ctx.bdir, "gen")
    os.makedirs(gdir, exist_ok=True)
    ncalls = fflow.emit_coq(rows, os.path.join(gdir, "GenFCalls.v"))
    rc, out = vlib.sh(["coqc", "-R", gdir, "ShroudGen", "-R", vlib.COQ, "Shroud", "GenFCalls.v"], cwd=gdir)
    if rc != 0:
        ctx.broken.append(("proof", "gen-fcalls-compile", out[-1500:]))
    else:
        shutil.copy(os.path.join(vlib.VERIF, "dyn", "C01_tables.v"), os.path.join(gdir, "C01_tables.v"))
        ctx.prove(os.path.join(gdir, "C01_tables.v"), extra_R=[(gdir, "ShroudGen")])
    ctx.extra["calls_in_table"] = ncalls
    # ---- run direct vs Fortran
    runs = [(i, tag, o) for i in range(len(libs)) for (tag, o) in (optsets if not quick else [optsets[i % 3]])]

    def rjob(t):
        i, tag, o = t
        return t, build_and_run(ctx, "g%d_%s" % (i, tag), libs[i], o)
    with ThreadPoolExecutor(vlib.NCPU) as ex:
        for (i, tag, o), r in ex.map(rjob, runs):
            ctx.count(r.get("calls", 0), None)
            ctx.nontrivial.update(("call", i, tag, k) for k in range(r.get("calls", 0)))
            ctx.hist("run:%s:%s" % (tag, r["status"]))
            ctx.traces += 1
            if r["status"] == "ok":
                continue
            if r["status"] == "build-failed:viaf":
                # the direct program of the same library built: the caller's program, which uses only the documented generic names of
                # the generated module, does not compile (a specific is missing from a generic, an interface is wrong ...)
                ctx.violation("failing-input", {"what": "a Fortran program that calls the documented generic names of the generated module does not compile or link "
                                                        "(options %s)" % o,
                                                "input": {"library_yaml": r.get("yaml", "")}, "compiler_output": r.get("detail", "")[-1500:]})
                continue
            if r["status"] in ("shroud-failed", "build-failed:direct", "direct-crashed"):
                ctx.broken.append(("correspondence", "eqf-harness", "%s (%s): %s" % (r["status"], tag, r.get("detail", "")[-900:])))
                continue
            ctx.violation("failing-input", {"what": "calling through the generated Fortran module is not equivalent to the direct call (%s, options %s)" % (r["status"], o),
                                            "input": {"library_yaml": r.get("yaml", ""), "first_differences": r.get("diffs"), "lines": r.get("lines")},
                                            "detail": r.get("detail", "")})
    if rows:
        ctx.sample({"specific": rows[0]["name"], "calls": rows[0]["calls"][:1]})


def replay(path):
    d = json.load(open(path))
    print(json.dumps(d, indent=1)[:5000])
    return 1
