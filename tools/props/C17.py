"""C17 — invalid input is rejected with a diagnostic, never by an internal failure.

Theorems: coq/Properties/C17.v (parser and attribute validation never end in an internal exception; acceptance
consumes the whole text; illegal attribute names/values/combinations are rejected) + dyn/C17_tables.v over tables
regenerated from /repo (exception class of every raise statement; VerifyAttrs constant lists = the model's).
Correspondence: extracted Decl.parse_statement vs declast.check_decl (full AST, 5 scopes) and
Attrs.parse_and_verify vs generate.VerifyAttrs (classification), on generated / mutated / random declarations.
Search: the whole program (shroud.main) on two finite, fully enumerated spaces: attribute x form x position x type,
and every single-point mutation of a YAML description; oracle = outcome class (OK / diagnostic / internal).
"""
import collections
import json
import os
import shutil
import signal
import subprocess
import sys

import vlib
from vlib import enc

SRC_SUFFIX = (".c", ".cpp", ".h", ".hpp", ".f", ".F", ".lua")


def run_main(ctx, texts, tag):
    """shroud.main on every YAML text (16 fresh processes), returns outcome dicts in order"""
    from concurrent.futures import ThreadPoolExecutor
    wd = os.path.join(ctx.bdir, "main_" + tag)
    os.makedirs(wd, exist_ok=True)
    n = vlib.NCPU

    def job(i):
        chunk = texts[i::n]
        if not chunk:
            return []
        jp = os.path.join(wd, "j%d.json" % i)
        rp = os.path.join(wd, "r%d.json" % i)
        json.dump(chunk, open(jp, "w"))
        p = subprocess.run([vlib.PY, os.path.join(vlib.VERIF, "tools", "runmain.py"), os.path.join(wd, "w%d" % i), jp, rp],
                           env=dict(os.environ, PYTHONPATH=vlib.REPO, PYTHONHASHSEED="0"), capture_output=True, text=True,
                           timeout=1800)
        if not os.path.exists(rp):
            raise RuntimeError("runmain failed: " + p.stderr[-800:])
        return json.load(open(rp))
    with ThreadPoolExecutor(n) as ex:
        rs = list(ex.map(job, range(n)))
    res = [None] * len(texts)
    for i, r in enumerate(rs):
        for k, x in enumerate(r):
            res[i + n * k] = x
    shutil.rmtree(wd, ignore_errors=True)
    return res


def judge(ctx, label, text, r, fails):
    """oracle on one whole-program outcome"""
    if r["cls"] == "INTERNAL":
        key = "internal:%s@%s:%s" % (r["exc"], r["where"], r.get("line", ""))
        fails[key].append((label, text, r))
    elif r["cls"] == "DIAG" and any(f.endswith(SRC_SUFFIX) for f in r["files"]):
        key = "late-diagnostic:%s@%s" % (r["exc"], r["where"])
        fails[key].append((label, text, r))


def run(ctx):
    ctx.rules.append("correspondence: declarations from a grammar-based generator (functions, variables, classes, structs, templates, "
                     "enums, ctors/dtors, typedefs; valid and invalid type names, attributes, initialisers) in 5 scopes, 30% single-token "
                     "mutations, 10% random token soup. search: the complete attribute space (position x name x 27 value forms x type) and "
                     "every single-point mutation of a YAML description through shroud.main. non-trivial = distinct input")
    ctx.assume += ["diagnostic = RuntimeError (incl. NotImplementedError), SystemExit with a message, DeprecationWarning, or an exception "
                   "raised by an explicit raise statement of that class; anything else (AttributeError, TypeError, KeyError, IndexError, "
                   "ValueError, OverflowError ...) is an internal failure",
                   "termination is a theorem about the model (fuel adequacy); for the implementation every case runs under a 20 s alarm and a hang is reported as a failing input",
                   "floating point attribute values: only their truth value is modelled (rank=<real> is excluded from the correspondence)"]
    ctx.hygiene()
    ctx.static_build()
    ctx.prove(os.path.join(vlib.COQ, "Properties", "C17.v"))
    gdir = os.path.join(ctx.bdir, "gen")
    os.makedirs(gdir, exist_ok=True)
    rc, out = vlib.sh([vlib.PY, os.path.join(vlib.VERIF, "tools", "gen_tables.py"), "validation", "x", os.path.join(gdir, "GenValidation.v")])
    if rc != 0:
        ctx.broken.append(("proof", "gen-validation", out[-1500:]))
    else:
        rc, out = vlib.sh(["coqc", "-R", gdir, "ShroudGen", "GenValidation.v"], cwd=gdir)
        if rc != 0:
            ctx.broken.append(("proof", "gen-validation-compile", out[-1500:]))
        else:
            shutil.copy(os.path.join(vlib.VERIF, "dyn", "C17_tables.v"), os.path.join(gdir, "C17_tables.v"))
            ctx.prove(os.path.join(gdir, "C17_tables.v"), extra_R=[(gdir, "ShroudGen")])
    drv = ctx.driver()
    vlib.import_shroud()
    sys.path.insert(0, os.path.join(vlib.VERIF, "tools"))
    import declcmp
    import c17gen
    from props import C11
    from shroud import ast, declast, typemap, generate
    quick = ctx.tier == "quick"
    rng = ctx.rng
    lib, ctxs = declcmp.make_contexts(ast)
    ex = declcmp.CtxExport(ast, declast, typemap)
    cstr = {k: ex.export(v) for k, v in ctxs.items()}

    def sexp(n):
        return C11.sexp(n, declast)

    class Hang(Exception):
        pass

    def on_alarm(sig, frm):
        raise Hang()
    signal.signal(signal.SIGALRM, on_alarm)

    def guarded(f):
        signal.alarm(20)
        try:
            return f()
        except Hang:
            return "HANG|"
        except RuntimeError:
            return "REJECT|"
        except Exception as e:
            return "CRASH|" + type(e).__name__ + ": " + str(e)[:120]
        finally:
            signal.alarm(0)

    # ---------------- 1. parser: full AST correspondence
    n = 8000 if quick else 150000
    cases = []
    for i in range(n):
        k = rng.choice(sorted(ctxs))
        r = rng.random()
        d = declcmp.gen_decl(rng)
        kind = "generated"
        if r < 0.3:
            d = declcmp.mutate(rng, d, declast)
            kind = "mutated"
        elif r < 0.4:
            d = declcmp.soup(rng)
            kind = "soup"
        cases.append((k, d, kind))
    mres = drv.pbatch(["decl|%s|%s" % (cstr[k], enc(d)) for k, d, _ in cases])
    nb = 0
    for (k, d, kind), m in zip(cases, mres):
        i = guarded(lambda: "OK|" + declcmp.ser_stmt(declast.check_decl(d, namespace=ctxs[k]), sexp))
        m = declcmp.norm_model(m)
        if m.startswith("REJECT|"):
            m = "REJECT|"
        ctx.count(1, ("decl", k, d))
        ctx.hist("parser:%s:%s" % (kind, i.split("|")[0]))
        if i.startswith(("CRASH|", "HANG|")):
            ctx.violation("failing-input", {"what": "declast.check_decl ends in an internal failure instead of a diagnostic",
                                            "input": {"scope": k, "decl": d, "outcome": i}})
        if i.split(": ")[0] != m.split(": ")[0] if i.startswith("CRASH") else i != m:
            nb += 1
            ctx.broken.append(("correspondence", "Decl.parse_statement", "scope=%s decl=%r impl=%s model=%s" % (k, d, i[:500], m[:500])))
            if nb <= 2:
                ctx.say("DISAGREE parser scope=%s decl=%r\n impl =%s\n model=%s" % (k, d, i[:400], m[:400]))
    ctx.sample({"scope": cases[0][0], "decl": cases[0][1], "model": mres[0][:200]})

    # ---------------- 1b. implementation-level oracle: text after a complete statement is never accepted
    ctx.rules.append("trailing-text oracle: for every accepted generated declaration d, the texts d+'; zzz', d+' )', d+';;', d+'; )' and "
                     "d+' ]' must be rejected by declast.check_decl")
    acc = [(k, d) for (k, d, kind) in cases if kind == "generated" and not d.rstrip().endswith((";", ",", "="))][: (3000 if quick else 30000)]
    nacc = 0
    for k, d in acc:
        if not guarded(lambda: "OK|" if declast.check_decl(d, namespace=ctxs[k]) else "OK|").startswith("OK"):
            continue
        nacc += 1
        for tail in ("; zzz", " )", ";;", "; )", " ]"):
            r = guarded(lambda: "OK|" if declast.check_decl(d + tail, namespace=ctxs[k]) is not None else "OK|")
            ctx.count(1, ("tail", k, d, tail))
            if r.startswith("OK"):
                ctx.violation("failing-input", {"what": "text after a complete declaration is silently accepted",
                                                "input": {"scope": k, "decl": d + tail, "accepted_prefix": d}})
            elif not r.startswith("REJECT"):
                ctx.violation("failing-input", {"what": "declast.check_decl ends in an internal failure instead of a diagnostic",
                                                "input": {"scope": k, "decl": d + tail, "outcome": r}})
    ctx.hist("trailing-oracle:accepted-bases", nacc)

    # ---------------- 2. attribute validation: classification correspondence
    FORMS = c17gen.FORMS + ["+%s(size(a,b))", "+%s(len(zz))", "+%s(f(size(a))+1)", "+%s(0)", "+%s(-1)", "+%s(1_0)", "+%s=0.0", "+%s(library)",
                            "+%s(inout)", "+%s(n m)", "+%s(out)", "+%s(scalar)", "+%s(pat1)", "+%s(20)"]
    ANAMES = c17gen.AATTR + ["_x"]
    ATYPES = ["int %s", "int *%s", "const int *%s", "char *%s", "const char *%s", "std::string &%s", "std::vector<int> &%s", "void *%s", "int **%s",
              "ns::Cls *%s", "double %s[3]", "int &%s", "char **%s", "void (*%s)(int i %s)", "Color %s", "std::vector &%s", "int<int> *%s",
              "std::string %s", "int *"]

    def attrs_for(names, lo):
        return "".join(" " + rng.choice(FORMS) % (rng.choice(names) if rng.random() < 0.85 else rng.choice(ANAMES))
                       for _ in range(rng.choice(lo)))

    def garg(name):
        t = rng.choice(ATYPES)
        at = attrs_for(c17gen.AATTR[:19], [0, 1, 1, 1, 2, 3])
        if t.count("%s") == 2:
            return t % (name, attrs_for(c17gen.AATTR[:19], [0, 1, 1])) + at
        return (t % name if "%s" in t else t) + at
    vcases = []
    for i in range(6000 if quick else 100000):
        if rng.random() < 0.15:
            t = rng.choice(ATYPES[:13])
            vcases.append(("var", (t % "m") + attrs_for(["name", "readonly", "dimension"], [0, 1, 1, 2])))
        else:
            np_ = rng.choice([0, 1, 2, 3])
            vcases.append(("fcn", "%s fun(%s)%s" % (rng.choice(["void", "int", "int *", "const char *", "std::string", "std::vector<int>"]),
                                                    ", ".join(garg("abc"[j]) for j in range(np_)), attrs_for(c17gen.FATTR[:10], [0, 0, 1, 2]))))
    glob, cls = ctxs["global"], ctxs["class:Top"]
    cg, cc = ex.export(glob), ex.export(cls)
    if not getattr(lib, "patterns", None):
        lib.patterns = {"pat1": "x"}
    env = declcmp.export_aenv(typemap, sorted(lib.patterns))
    va = generate.VerifyAttrs(lib, None)

    class Node:
        pass

    def impl_verify(kind, d):
        a = declast.check_decl(d, namespace=cls if kind == "var" else glob)
        if type(a).__name__ != "Declaration":
            return "OK|"
        nd = Node()
        nd.ast, nd.linenumber, nd.options, nd.fortran_generic, nd.decl = a, 3, lib.options, None, d
        if kind == "var":
            va.check_var_attrs(cls, nd)
        else:
            if a.params is None:
                return "SKIP"
            va.check_fcn_attrs(nd)
        return "OK|"
    mres = drv.pbatch(["verify|%s|%s|%s|%s" % (cc if k == "var" else cg, env, k, enc(d)) for k, d in vcases])
    nb = 0
    for (k, d), m in zip(vcases, mres):
        i = guarded(lambda: impl_verify(k, d))
        if i == "SKIP":
            continue
        ctx.count(1, ("verify", k, d))
        ctx.hist("validation:%s:%s" % (k, i.split("|")[0]))
        if i.startswith(("CRASH|", "HANG|")):
            ctx.violation("failing-input", {"what": "attribute validation ends in an internal failure instead of a diagnostic",
                                            "input": {"kind": k, "decl": d, "outcome": i}})
        if m == "REJECT|" + enc("UNMODELLED"):
            ctx.hist("validation:unmodelled-real-rank")
            continue
        rule = ""
        if m.startswith("REJECT|"):
            rule = vlib.dec(m[7:])
            m = "REJECT|"
        if i.startswith("OK") and m == "REJECT|" and rule not in ("Parse Error",):
            # the model (for which acceptance => every documented rule holds is a theorem) rejects by a documented rule
            ctx.violation("failing-input", {"what": "attribute validation accepts what the documented rule rejects: " + rule,
                                            "input": {"kind": k, "decl": d, "rule": rule}})
        if i.split(": ")[0].split("|")[0] != m.split("|")[0]:
            nb += 1
            ctx.broken.append(("correspondence", "Attrs.parse_and_verify", "kind=%s decl=%r impl=%s model=%s" % (k, d, i[:300], m[:300])))
            if nb <= 2:
                ctx.say("DISAGREE validation kind=%s decl=%r\n impl =%s\n model=%s" % (k, d, i[:300], m[:300]))
    ctx.sample({"kind": vcases[0][0], "decl": vcases[0][1], "model": mres[0][:80]})

    # ---------------- 3. whole program on the enumerated spaces
    fails = collections.defaultdict(list)
    for tag, space in (("attr", c17gen.attr_space()), ("yaml", c17gen.yaml_space())):
        res = run_main(ctx, [t for _, t in space], tag)
        for (label, text), r in zip(space, res):
            ctx.count(1, (tag, label))
            ctx.hist("main:%s:%s" % (tag, r["cls"]))
            judge(ctx, label, text, r, fails)
            if label.startswith("combo:") and r["cls"] == "OK":
                ctx.violation("failing-input", {"what": "a documented illegal declaration / attribute combination is accepted without a diagnostic",
                                                "input": {"case": label, "yaml": text, "outcome": r}})
        ctx.traces += len(space)
    # documented grammar is never rejected: every description of the regression corpus is accepted
    import corpus
    from concurrent.futures import ThreadPoolExecutor
    descs = [d for d in corpus.test_descs()]

    def one(d):
        name, y, cmd = d
        od = os.path.join(ctx.bdir, "corp", name)
        rc, out = corpus.run_shroud(y, od, cmd)
        shutil.rmtree(od, ignore_errors=True)
        return name, rc, out
    with ThreadPoolExecutor(vlib.NCPU) as exr:
        for name, rc, out in exr.map(one, descs):
            ctx.count(1, ("corpus", name))
            ctx.hist("corpus:" + ("accepted" if rc == 0 else "rejected"))
            if rc != 0:
                ctx.violation("failing-input", {"what": "a description of the regression corpus (documented grammar) is rejected",
                                                "input": {"test": name, "output": out[-1200:]}})
    for key, lst in sorted(fails.items()):
        label, text, r = lst[0]
        if ctx.is_known(key):
            ctx.known_finding(key, "")
            continue
        ctx.violation("failing-input", {"what": ("an internal exception instead of a diagnostic" if key.startswith("internal:")
                                                 else "the diagnostic comes after wrapper files were written"),
                                        "input": {"case": label, "cases_with_this_signature": len(lst), "signature": key, "outcome": r, "yaml": text}})
    ctx.extra["whole_program_signatures"] = {k: len(v) for k, v in fails.items()}


def replay(path):
    d = json.load(open(path))
    print(json.dumps(d, indent=1)[:5000])
    inp = d.get("input", {})
    if "yaml" in inp:
        import tempfile
        wd = tempfile.mkdtemp(prefix="c17r")
        json.dump([inp["yaml"]], open(wd + "/j.json", "w"))
        subprocess.run([vlib.PY, os.path.join(vlib.VERIF, "tools", "runmain.py"), wd + "/w", wd + "/j.json", wd + "/r.json"],
                       env=dict(os.environ, PYTHONPATH=vlib.REPO))
        r = json.load(open(wd + "/r.json"))[0]
        shutil.rmtree(wd)
        print("outcome now:", r)
        return 1 if r["cls"] == "INTERNAL" else 0
    return 1
