"""C04 — Fortran bind(C) interfaces agree with the C functions and structs they bind to.

Theorems: coq/Properties/C04.v (parameter layout: same count and order for every signature) +
dyn/C04_tables.v over tables regenerated from /repo for c and c++ on every run (typemaps, implied
argument declaration pairs scanned from wrapc/wrapf source, c_arg_decl/f_arg_decl pairs, helper structs,
SH_TYPE constants).
Search / specification validation: for corpus entries and generated libraries the C prototypes that
gfortran derives from the generated modules' bind(C) interfaces (gfortran -fc-prototypes) are compared
with the prototypes / definitions in the generated C files (and the user's headers where available).
"""
import glob
import json
import os
import re
import shutil
import subprocess
import sys

import vlib

GEN = {
    "library": "iop", "cxx_header": "iop.hpp",
    "declarations": [
        {"decl": "int scal(short a, long b, long long c, size_t d, float e, double f, bool g)"},
        {"decl": "void ptrs(int *a +intent(inout), const double *b +rank(1), int nb +implied(size(b)), long *c +intent(out))"},
        {"decl": "const std::string name(const std::string &s, char *buf +intent(out)+charlen(20), const char *t)"},
        {"decl": "void vec(std::vector<int> &v +intent(out), const std::vector<double> &w)"},
        {"decl": "int *retp(int n) +dimension(n)+deref(pointer)"},
        {"decl": "class Thing", "declarations": [{"decl": "Thing()"}, {"decl": "~Thing()"}, {"decl": "double val(int i) const"},
                                               {"decl": "Thing *self() +owner(library)"}, {"decl": "void names(const std::string &a, std::string &b +intent(out))"}]},
        {"decl": "struct Pt { int x; double y; long z; };"},
        {"decl": "void usept(Pt *p, const Pt &q)"},
        {"decl": "enum Mode { ONE, TWO }"},
        {"decl": "Mode mode(Mode m)"},
        # the C return type changed by the user's statements (function and subroutine): the interface declares that type
        {"decl": "int count_items(int n)", "fstatements": {"c": {"return_type": "long", "ret": ["return 4000000000L + SHC_rv;"]}}},
        {"decl": "void fill_items(int n)", "fstatements": {"c": {"return_type": "long", "ret": ["return 7L;"]}}},
    ],
}


def check_dir(ctx, od, name, user_headers):
    """run gfortran -fc-prototypes on every module in od and compare. returns (checked, undecided, failures)."""
    import protocmp
    fs = sorted(glob.glob(od + "/*.f") + glob.glob(od + "/*.F"))
    fs = [f for f in fs if os.path.basename(f) not in ("helpers.f",)]
    if not fs:
        return 0, 0, [], []
    texts = []
    for pat in ("*.h", "*.hpp", "*.c", "*.cpp"):
        for h in glob.glob(od + "/" + pat):
            b = os.path.basename(h)
            if b.startswith(("py", "lua")):
                continue
            texts.append(open(h, errors="replace").read())
    texts += [open(h, errors="replace").read() for h in user_headers]
    base = ["gfortran", "-ffree-form", "-ffree-line-length-none", "-cpp", "-fsyntax-only", "-J", od]
    for _ in range(3):      # module dependency order: iterate
        for f in fs:
            subprocess.run(base + [f], capture_output=True, cwd=od)
    checked = undec = 0
    fails, notes = [], []
    prefix = None
    # the paired type-code tables: the SH_TYPE_* parameters of a Fortran module and the SH_TYPE_* macros of the C header name the
    # same codes (the Fortran side stores them in the array descriptor, the C side dispatches on them)

    def table(text, pat):
        raw = dict((m.group(1), m.group(2).strip()) for m in re.finditer(pat, text, flags=re.M))
        val = {}

        def ev(name, depth=0):
            if name in val:
                return val[name]
            e = raw.get(name)
            if e is None or depth > 8:
                return None
            tot = 0
            for term in e.split("+"):
                term = term.strip()
                tv = int(term) if re.match(r"^\d+$", term) else ev(term, depth + 1)
                if tv is None:
                    return None
                tot += tv
            val[name] = tot
            return tot
        for k in raw:
            ev(k)
        return val
    ctab = {}
    for t in texts:
        ctab.update(table(t, r"^#define\s+(SH_TYPE_\w+)\s+([\w+ ]+?)\s*$"))
    for f in fs:
        ftab = table(open(f, errors="replace").read().replace("&", ""), r"^\s*(SH_TYPE_\w+)\s*=\s*([\w+ ]+?)\s*,?\s*$")
        for k, v in sorted(ftab.items()):
            if k in ctab:
                ctx.count(1, ("typecode", name, k))
                ctx.hist("type-code-pair")
                if ctab[k] != v:
                    fails.append({"input": name, "module": os.path.basename(f), "what": "a type code differs between the Fortran module and the C header",
                                  "code": k, "fortran": v, "c": ctab[k]})
    for f in fs:
        p0 = subprocess.run(base + [f], capture_output=True, text=True, cwd=od)
        if p0.returncode != 0:
            fails.append({"input": name, "module": os.path.basename(f), "what": "the generated Fortran module does not compile",
                          "gfortran": p0.stderr.strip()[-600:]})
            continue
        # numeric / logical dummies and results of a bind(C) interface carry an interoperable kind: a default-kind LOGICAL, INTEGER or
        # REAL gets the same C rendering from -fc-prototypes as the C_BOOL / C_INT / C_FLOAT kind but need not have its size
        # (gfortran reports these under -Wc-binding-type; assumed-length CHARACTER of the CFI interfaces is legal Fortran 2018)
        in_bindc = False
        stmts = []           # (first line number, statement with continuation lines joined)
        for ln, t in enumerate(open(f, errors="replace").read().split("\n")):
            if stmts and stmts[-1][1].rstrip().endswith("&"):
                stmts[-1] = (stmts[-1][0], stmts[-1][1].rstrip()[:-1] + " " + t.strip().lstrip("&"))
            else:
                stmts.append((ln + 1, t))
        for ln, t in stmts:
            low = t.strip().lower()
            if re.match(r"^(?:pure\s+|elemental\s+)*(?:function|subroutine)\b", low):
                in_bindc = "bind(c" in low.replace(" ", "")
                continue
            if low.startswith(("end function", "end subroutine")):
                in_bindc = False
                continue
            if in_bindc and re.match(r"^(logical|integer|real|complex|double\s+precision)\s*(,|::)", low):
                fails.append({"input": name, "module": os.path.basename(f), "line": ln, "text": t.strip()[:160],
                              "what": "a bind(C) interface declares a variable of default kind (not C interoperable: no C_BOOL / C_INT / C_FLOAT ... kind)"})
        # a dummy of a bind(C) interface that is assumed-rank, assumed-shape or of assumed length is passed by C descriptor: the bound C
        # function's parameter at that position must be a CFI_cdesc_t pointer (gfortran -fc-prototypes prints both as plain pointers)
        cur = None
        for ln, t in stmts:
            low = t.strip()
            mh = re.match(r"^(?:pure\s+|elemental\s+)*(?:function|subroutine)\s+\w+\s*\(([^)]*)\).*bind\(C,\s*name=\"(\w+)\"", low, flags=re.I)
            if mh:
                cur = {"args": [a.strip().lower() for a in mh.group(1).split(",") if a.strip()], "cname": mh.group(2), "desc": {}}
                continue
            if cur is not None and re.match(r"^end\s+(function|subroutine)", low, flags=re.I):
                proto = None
                for tx in texts:
                    mp = re.search(r"\b%s\s*\(([^;{]*?)\)\s*[;{]" % re.escape(cur["cname"]), tx, flags=re.S)
                    if mp:
                        proto = [x.strip() for x in mp.group(1).replace("\n", " ").split(",")]
                        break
                if proto is not None and len(proto) == len(cur["args"]):
                    for k, a in enumerate(cur["args"]):
                        if a in cur["desc"]:
                            ctx.count(1, ("descriptor-dummy", name, cur["cname"], a))
                            ctx.hist("descriptor-dummy")
                            if "CFI_cdesc_t" not in proto[k]:
                                fails.append({"input": name, "module": os.path.basename(f), "function": cur["cname"], "argument": a,
                                              "what": "a dummy passed by C descriptor (%s) is bound to a C parameter that is not a CFI_cdesc_t pointer" % cur["desc"][a],
                                              "fortran": cur["desc"][a], "c": proto[k]})
                cur = None
                continue
            if cur is not None:
                md = re.match(r"^(?:integer|real|logical|complex|character|type)\b(.*?)::\s*(.+)$", low, flags=re.I)
                if md:
                    for ent in re.split(r",(?![^()]*\))", md.group(2)):
                        nm = re.match(r"^\s*(\w+)", ent)
                        if not nm:
                            continue
                        if "(..)" in ent or re.search(r"\(\s*:", ent) or re.search(r"len\s*=\s*[*:]", md.group(1)):
                            cur["desc"][nm.group(1).lower()] = low[:120]
        p = subprocess.run(base + ["-fc-prototypes", f], capture_output=True, text=True, cwd=od)
        if p.returncode != 0:
            notes.append("%s/%s: gfortran could not process the module (%s)" % (name, os.path.basename(f), p.stderr.strip().split("\n")[-1][:120]))
            continue
        chk, und, mism, unb, smism = protocmp.compare(p.stdout, texts, open(f, errors="replace").read())
        checked += chk
        undec += und
        for m in mism:
            m.update({"input": name, "module": os.path.basename(f)})
            fails.append(m)
        for m in smism:
            m.update({"input": name, "module": os.path.basename(f), "what": "bind(C) derived type and C struct differ"})
            fails.append(m)
        for u in unb:
            notes.append("%s/%s: bind(C) name %s has no prototype/definition in the generated C files or available user headers" % (name, os.path.basename(f), u))
    return checked, undec, fails, notes


def run(ctx):
    ctx.rules.append("for each corpus entry / generated library: every bind(C) interface of every generated module is turned into a C "
                     "prototype by gfortran -fc-prototypes and compared with the generated C prototype of the same name (count, order, "
                     "scalar kind and size, value vs reference, struct layout). non-trivial = distinct (input, function) compared")
    ctx.assume += ["interoperability rules in dyn/C04_tables.v are the specification (trusted), validated against gfortran's own mapping",
                   "gfortran 12 -fc-prototypes does not render descriptor (CFI) arguments: those pairs are counted as undecided",
                   "tools/protocmp.py (a small C declaration normaliser) is trusted for the comparison"]
    ctx.hygiene()
    ctx.static_build()
    ctx.prove(os.path.join(vlib.COQ, "Properties", "C04.v"))
    for lang in ("c", "c++"):
        gdir = os.path.join(ctx.bdir, "gen_" + lang.replace("+", "x"))
        os.makedirs(gdir, exist_ok=True)
        rc, out = vlib.sh([vlib.PY, os.path.join(vlib.VERIF, "tools", "gen_tables.py"), "interop", lang, os.path.join(gdir, "GenInterop.v")])
        if rc != 0:
            ctx.broken.append(("proof", "gen-interop-" + lang, out[-1500:]))
            continue
        rc, out = vlib.sh(["coqc", "-R", gdir, "ShroudGen", "GenInterop.v"], cwd=gdir)
        if rc != 0:
            ctx.broken.append(("proof", "gen-interop-compile-" + lang, out[-1500:]))
            continue
        shutil.copy(os.path.join(vlib.VERIF, "dyn", "C04_tables.v"), os.path.join(gdir, "C04_tables.v"))
        ctx.prove(os.path.join(gdir, "C04_tables.v"), extra_R=[(gdir, "ShroudGen")], name="C04_tables_%s.v" % lang.replace("+", "x"))

    import corpus
    import yaml
    sys.path.insert(0, os.path.join(vlib.VERIF, "tools"))
    descs = corpus.test_descs()
    quick = ctx.tier == "quick"
    pick = {"tutorial", "classes", "strings", "strings-cfi", "struct-c", "struct-cxx", "vectors", "pointers-c", "pointers-cxx", "generic",
            "ownership", "templates", "arrayclass", "clibrary", "cdesc"}
    todo = [d for d in descs if (not quick or d[0] in pick)]
    # deliberately invalid splicer text / no wrappers / modules that use modules of other libraries
    skip = {"example", "wrap", "none", "forward", "include"}
    todo = [d for d in todo if d[0] not in skip]
    from concurrent.futures import ThreadPoolExecutor

    def one(d):
        name, y, cmd = d
        od = os.path.join(ctx.bdir, "runs", name)
        rc, out = corpus.run_shroud(y, od, cmd)
        if rc != 0:
            return name, None, out
        uh = glob.glob(os.path.join(vlib.REPO, "regression", "run", name, "*.h*")) + \
            glob.glob(os.path.join(vlib.REPO, "regression", "run", os.path.basename(y)[:-5], "*.h*"))
        if name == "gen-c-generic":
            uh = [os.path.join(os.path.dirname(y), "gentot.h")]
        if name == "gen-c-cfi":
            uh = [os.path.join(os.path.dirname(y), "gencfi.h")]
        return name, check_dir(ctx, od, name, uh), out
    jobs = list(todo)
    # generated library in both languages and with F_CFI
    gd = os.path.join(ctx.bdir, "genlib")
    os.makedirs(gd, exist_ok=True)
    for tag, extra in (("gen-cxx", {}), ("gen-cfi", {"options": {"F_CFI": True}})):
        lib = dict(GEN)
        lib.update(extra)
        yp = os.path.join(gd, tag + ".yaml")
        yaml.safe_dump(lib, open(yp, "w"), sort_keys=False)
        jobs.append((tag, yp, []))
    # a C library (Fortran binds the user's functions directly) whose fortran_generic entries change the TYPE and the RANK of an
    # argument: every extra interface bound to the same C function must still declare the C function's own parameter types
    open(os.path.join(gd, "gentot.h"), "w").write("double total(const double *values, int nvalues);\nvoid scale(float *values, int nvalues, float by);\n"
                                                  "#include <complex.h>\nvoid conj_f(float complex *z);\nvoid conj_f2(float complex *z);\nvoid conj_d(double complex *z);\nvoid conj_d2(double complex *z);\n"
                                                  "struct Particle { int id; long cookie; double mass; };\ntypedef struct Particle Particle;\n"
                                                  "void fill_particle(Particle *p, int id, double mass);\ndouble particle_mass(const Particle *p);\n"
                                                  "struct Grid { int id; double plane[2][3]; double cube[2][3][4]; double t[2][3][4][5]; int v[6]; };\ntypedef struct Grid Grid;\n"
                                                  "double grid_probe(const Grid *g);\n")
    totlib = {"library": "gentot", "language": "c", "c_header": "gentot.h", "options": {"wrap_python": False, "wrap_lua": False},
              "declarations": [{"decl": "double total(const double *values, int nvalues)",
                                "fortran_generic": [{"decl": "(const float *values+rank(1))"}, {"decl": "(const double *values+rank(1))"},
                                                    {"decl": "(const double *values+rank(2))"}]},
                               # a struct given member by member, one member without a Fortran API of its own: the bind(C) derived
                               # type still has every member of the C struct, in order
                               {"decl": "struct Particle", "declarations": [{"decl": "int id"}, {"decl": "long cookie", "options": {"wrap_fortran": False}},
                                                                            {"decl": "double mass"}]},
                               # both spellings of the complex types
                               {"decl": "void conj_f(complex float *z)"}, {"decl": "void conj_f2(float complex *z)"},
                               {"decl": "void conj_d(complex double *z)"}, {"decl": "void conj_d2(double complex *z)"},
                               {"decl": "void fill_particle(Particle *p +intent(out), int id, double mass)"},
                               {"decl": "double particle_mass(const Particle *p)"},
                               # array members up to rank 4: the derived type's extents are the C extents in reverse order
                               {"decl": "struct Grid { int id; double plane[2][3]; double cube[2][3][4]; double t[2][3][4][5]; int v[6]; };"},
                               {"decl": "double grid_probe(const Grid *g)"},
                               {"decl": "void scale(float *values +intent(inout), int nvalues, float by)",
                                "fortran_generic": [{"decl": "(float *values+rank(1)+intent(inout))"}, {"decl": "(float *values+rank(2)+intent(inout))"}]}]}
    yp = os.path.join(gd, "gen-c-generic.yaml")
    yaml.safe_dump(totlib, open(yp, "w"), sort_keys=False)
    jobs.append(("gen-c-generic", yp, []))
    # the same C library idea with F_CFI: assumed-rank arguments of every intent
    open(os.path.join(gd, "gencfi.h"), "w").write("int SumValues(const int *values, int nvalues);\nvoid ScaleValues(int *values, int nvalues);\nvoid FillValues(int *values, int nvalues);\n")
    cfilib = {"library": "gencfi", "language": "c", "c_header": "gencfi.h", "options": {"wrap_python": False, "wrap_lua": False, "F_CFI": True},
              "declarations": [{"decl": "int SumValues(const int *values +dimension(..), int nvalues)"},
                               {"decl": "void ScaleValues(int *values +dimension(..)+intent(inout), int nvalues)"},
                               {"decl": "void FillValues(int *values +dimension(..)+intent(out), int nvalues)"}]}
    yp = os.path.join(gd, "gen-c-cfi.yaml")
    yaml.safe_dump(cfilib, open(yp, "w"), sort_keys=False)
    jobs.append(("gen-c-cfi", yp, []))
    allnotes = []
    with ThreadPoolExecutor(vlib.NCPU) as ex:
        for name, res, out in ex.map(one, jobs):
            if res is None:
                ctx.broken.append(("correspondence", "shroud-run-" + name, out[-800:]))
                continue
            checked, undec, fails, notes = res
            ctx.count(checked, None)
            ctx.nontrivial.update((name, i) for i in range(checked))
            ctx.hist("interfaces:" + name, checked)
            ctx.hist("undecided", undec)
            allnotes += notes
            for f in fails:
                ctx.violation("failing-input", {"what": "a bind(C) interface does not agree with the C function it binds to", "input": f})
            ctx.traces += 1
    ctx.extra["notes"] = allnotes[:40]
    ctx.extra["unbound_or_unprocessed"] = len(allnotes)
    ctx.sample({"input": "tutorial", "example": "TUT_pass_by_value: C 'double TUT_pass_by_value(double arg1, int arg2)' vs gfortran "
                "'double TUT_pass_by_value (double arg1, int arg2)'"})


def replay(path):
    d = json.load(open(path))
    print(json.dumps(d, indent=1)[:5000])
    return 1
