"""C07 — output is a pure, repeatable function of the inputs and command line.

Theorems: coq/Properties/C07.v (abstract: if what a run reads is rebuilt from its input, outputs are history
independent) + dyn/C07_tables.v over tables regenerated on every run: a python-ast scan of /repo/shroud for
nondeterminism sources / open() modes / set iteration, and the list of process-wide mutable registries with
flags measured by a dynamic probe (tools/regprobe.py).
Search: relations between whole runs on the implementation, byte-compared:
  hash seed, in-process histories (C / C++ mixes, same class names), pre-populated output directory, cwd + environment.
"""
import json
import os
import shutil

import vlib

KF_HELPERS = "write-helpers-dump-accumulates"
POOL_Q = ["tutorial", "clibrary", "strings", "struct-c", "struct-cxx", "classes", "enum-c", "enum-cxx", "pointers-c", "pointers-cxx", "vectors"]
ARGS0 = ["--option", "debug_testsuite=true", "--nowrite-version"]


def fresh_run(ctx, tag, yaml_path, args, env=None, cwd=None, pre=None):
    import corpus
    od = os.path.join(ctx.bdir, "runs", tag)
    os.makedirs(od, exist_ok=True)
    if pre:
        for n, b in pre.items():
            p = os.path.join(od, n)
            os.makedirs(os.path.dirname(p), exist_ok=True)
            open(p, "wb").write(b)
    rc, out = vlib.sh([vlib.PY, "-m", "shroud.main", "--logdir", od, "--outdir", od] + list(args) + [yaml_path], env=env, cwd=cwd, timeout=300)
    if rc != 0:
        return None, out
    return corpus.read_dir(od, skip_ext=(".log",)), out


MANY_YAML = """\
library: many
cxx_header: many.hpp
options:
  wrap_python: true
  wrap_lua: true
declarations:
- decl: typedef int LengthId
  fields: {c_header: length_types.h, cxx_header: length_types.h}
- decl: typedef int MassId
  fields: {c_header: mass_types.h, cxx_header: mass_types.h}
- decl: typedef long TimeId
  fields: {c_header: time_types.h, cxx_header: time_types.h}
- decl: typedef int AreaId
  fields: {c_header: area_types.h, cxx_header: area_types.h}
- decl: enum Color { RED, GREEN, BLUE }
- decl: enum Shape { ROUND, SQUARE }
- decl: void convert(LengthId len, MassId mass, TimeId tm, AreaId ar)
- decl: MassId heavier(MassId a, MassId b)
- decl: const std::string name(const std::string &s, const char *t)
- decl: void fill(std::vector<int> &v +intent(out), std::vector<double> &w +intent(out))
- decl: int *ints(int n) +dimension(n)+deref(allocatable)
- decl: class Alpha
  declarations:
  - decl: Alpha()
  - decl: ~Alpha()
  - decl: Color paint(Shape s)
  - decl: const std::string &label() const
- decl: class Beta
  declarations:
  - decl: Beta()
  - decl: void use(Alpha *a, LengthId l)
- decl: namespace one
  declarations:
  - decl: void f1(TimeId t)
  - decl: class Gamma
    declarations:
    - decl: Gamma()
    - decl: MassId m() const
- decl: namespace two
  declarations:
  - decl: void f2(AreaId a, const std::string &s)
"""


def job_for(descs, name):
    _, y, cmd = descs[name]
    return y, ["--path", os.path.join(vlib.REPO, "regression", "input")] + ARGS0 + cmd


def gen_registry_tables(ctx, gdir, descs):
    """Regenerate GenNondet.v and GenRegistry.v."""
    import sys
    sys.path.insert(0, os.path.join(vlib.VERIF, "tools"))
    import importlib
    import scan_src
    importlib.reload(scan_src)
    regs = scan_src.registries()
    nd = scan_src.nondeterminism()
    q = lambda s: '"' + str(s).replace('"', '""') + '"'
    with open(os.path.join(gdir, "GenNondet.v"), "w") as fp:
        fp.write("(* GENERATED from /repo/shroud/*.py by tools/scan_src.py *)\nFrom Coq Require Import List String.\nImport ListNotations.\nOpen Scope string_scope.\n")
        fp.write("Record nondet_row := { nd_module : string; nd_line : nat; nd_what : string }.\n")
        fp.write("Definition nondet_rows : list nondet_row := [\n" +
                 ";\n".join("  {| nd_module := %s; nd_line := %d; nd_what := %s |}" % (q(m), l, q(w)) for m, l, w in nd) + "\n].\n")
    # dynamic probe: two histories ending in the same library, per observed library
    probes = []
    po = os.path.join(ctx.bdir, "probe")
    os.makedirs(po, exist_ok=True)
    jobs = [("a", ["clibrary"]), ("b", ["tutorial", "classes", "clibrary"]), ("c", ["classes"]), ("d", ["strings", "struct-c", "classes"])]
    from concurrent.futures import ThreadPoolExecutor

    def one(j):
        tag, names = j
        out = os.path.join(po, tag + ".json")
        rc, o = vlib.sh([vlib.PY, os.path.join(vlib.VERIF, "tools", "regprobe.py"), out] + names, env={"PROBE_OUT": os.path.join(po, tag)}, timeout=600)
        return tag, (json.load(open(out)) if os.path.exists(out) else None), o
    with ThreadPoolExecutor(4) as ex:
        res = {t: (r, o) for t, r, o in ex.map(one, jobs)}
    for t, (r, o) in res.items():
        if r is None:
            ctx.broken.append(("proof", "registry-probe-" + t, o[-1500:]))
            return None
    rows = []
    for (mod, name, line, kind) in regs:
        key = mod + "." + name
        mutated = any(res[t][0]["import"].get(key) != res[t][0]["after"].get(key) for t in res)
        accum = res["a"][0]["after"].get(key) != res["b"][0]["after"].get(key) or res["c"][0]["after"].get(key) != res["d"][0]["after"].get(key)
        rows.append((key, kind, mutated, accum))
    with open(os.path.join(gdir, "GenRegistry.v"), "w") as fp:
        fp.write("(* GENERATED: registries found by tools/scan_src.py, flags measured by tools/regprobe.py *)\nFrom Coq Require Import List String Bool.\nImport ListNotations.\nOpen Scope string_scope.\n")
        fp.write("Record reg_row := { rr_name : string; rr_kind : string; rr_mutated : bool; rr_accumulates : bool }.\n")
        fp.write("Definition reg_rows : list reg_row := [\n" +
                 ";\n".join("  {| rr_name := %s; rr_kind := %s; rr_mutated := %s; rr_accumulates := %s |}" % (q(k), q(kd), str(m).lower(), str(a).lower())
                            for k, kd, m, a in rows) + "\n].\n")
    ctx.extra["registries"] = len(rows)
    ctx.extra["registries_mutated"] = [k for k, _, m, _ in rows if m]
    ctx.extra["registries_accumulating"] = [k for k, _, m, a in rows if m and a]
    ctx.extra["nondeterminism_sites"] = ["%s:%d %s" % r for r in nd]
    return rows


def run(ctx):
    ctx.rules.append("whole-run relations, byte comparison of every generated file: two hash seeds; in-process histories (ordered "
                     "pairs/triples over a pool mixing C and C++ libraries, incl. the same description in both languages and two "
                     "generated libraries with the same class name but different options) vs fresh process; output directory "
                     "pre-populated with different content under the same file names; different cwd + environment; the same absolute "
                     "paths from two current directories without the test-suite option. "
                     "non-trivial = distinct (relation, input, history) compared")
    ctx.assume += ["Python dict insertion order (guaranteed >= 3.7) is trusted",
                   "the body of a run is opaque in the Coq model; which registries it reads before rebuilding them is evidenced "
                   "dynamically (probe + history oracle), not proved"]
    ctx.hygiene()
    ctx.static_build()
    ctx.prove(os.path.join(vlib.COQ, "Properties", "C07.v"))
    import corpus
    descs = {d[0]: d for d in corpus.test_descs()}
    # a generated description with several of everything that is collected in containers on the way to the output:
    # typedef'd types with their own headers (shared between C and C++), classes, namespaces, enums, helper users
    many = os.path.join(ctx.bdir, "many.yaml")
    open(many, "w").write(MANY_YAML)
    descs["gen-many"] = ("gen-many", many, [])
    # a struct wrapped as a Python class, with the debug comments on: the documentation of every statement is written out
    # (attribute values are rendered into comments; none of them may be an object's default repr)
    sc = os.path.join(ctx.bdir, "structclass.yaml")
    open(sc, "w").write("library: structclass\nlanguage: c\nc_header: structclass.h\n"
                        "options:\n  debug: true\n  wrap_python: true\n  wrap_lua: false\n  PY_struct_arg: class\n  PY_array_arg: list\n"
                        "declarations:\n- decl: struct Pair { int ifield; double dfield; };\n- decl: int sumPair(const Pair *arg)\n"
                        "- decl: void bumpPair(Pair *arg +intent(inout))\n- decl: struct Arr { int n; double vals[3]; };\n- decl: double total(const Arr *a)\n")
    descs["gen-structclass"] = ("gen-structclass", sc, [])
    # a description whose `typemap:` section adjusts BUILT-IN types (the documented way to put mpi.h under a guard), and one
    # that uses the same types untouched: the adjustment belongs to the first library only
    tmo, tmu = os.path.join(ctx.bdir, "tmover.yaml"), os.path.join(ctx.bdir, "tmuser.yaml")
    open(tmo, "w").write("library: tmover\ncxx_header: tmover.hpp\noptions:\n  wrap_python: false\n  wrap_lua: false\n"
                         "typemap:\n- type: MPI_Comm\n  fields:\n    cpp_if: ifdef USE_MPI\n- type: int64_t\n  fields:\n    cpp_if: ifdef HAVE_INT64\n"
                         "declarations:\n- decl: void set_comm(MPI_Comm comm)\n  cpp_if: ifdef USE_MPI\n- decl: int64_t big(int64_t a)\n  cpp_if: ifdef HAVE_INT64\n- decl: int small(int a)\n")
    open(tmu, "w").write("library: tmuser\ncxx_header: tmuser.hpp\noptions:\n  wrap_python: false\n  wrap_lua: false\n"
                         "declarations:\n- decl: void use_comm(MPI_Comm comm)\n- decl: int64_t wide(int64_t a)\n- decl: int narrow(int a)\n")
    descs["gen-tm-override"] = ("gen-tm-override", tmo, [])
    descs["gen-tm-user"] = ("gen-tm-user", tmu, [])
    quick = ctx.tier == "quick"
    gdir = os.path.join(ctx.bdir, "gen")
    os.makedirs(gdir, exist_ok=True)
    rows = gen_registry_tables(ctx, gdir, descs)
    if rows is not None:
        ok = True
        for f in ("GenNondet.v", "GenRegistry.v"):
            rc, out = vlib.sh(["coqc", "-R", gdir, "ShroudGen", f], cwd=gdir)
            if rc != 0:
                ctx.broken.append(("proof", "gen-compile-" + f, out[-1500:]))
                ok = False
        if ok:
            shutil.copy(os.path.join(vlib.VERIF, "dyn", "C07_tables.v"), os.path.join(gdir, "C07_tables.v"))
            okp, out = ctx.prove(os.path.join(gdir, "C07_tables.v"), extra_R=[(gdir, "ShroudGen")], name="C07_tables.v")
            if not okp:
                ctx.say("table obligations broken: nondeterminism sites %s ; accumulating registries %s" %
                        (ctx.extra.get("nondeterminism_sites"), ctx.extra.get("registries_accumulating")))

    fails = []
    from concurrent.futures import ThreadPoolExecutor
    pool = [n for n in POOL_Q + ["gen-many", "gen-structclass", "gen-tm-override", "gen-tm-user"] if n in descs]
    names_all = sorted(descs)
    # ---- fresh reference runs
    ref_names = pool if quick else names_all
    refs = {}

    def ref(n):
        y, a = job_for(descs, n)
        return n, fresh_run(ctx, "ref_" + n, y, a)
    with ThreadPoolExecutor(vlib.NCPU) as ex:
        for n, (files, out) in ex.map(ref, ref_names):
            if files is None:
                ctx.broken.append(("correspondence", "fresh-run-" + n, out[-800:]))
            else:
                refs[n] = files
    # ---- R1 hash seed
    def r1(n):
        y, a = job_for(descs, n)
        # the reference ran with seed 0; any of several other seeds must give the same bytes
        for sd in ("4242", "1", "2", "3"):
            files, out = fresh_run(ctx, "seed%s_%s" % (sd, n), y, a, env={"PYTHONHASHSEED": sd})
            if files is None or files != refs[n]:
                return n, (files, out)
        return n, (files, out)
    with ThreadPoolExecutor(vlib.NCPU) as ex:
        for n, (files, out) in ex.map(r1, list(refs)):
            ctx.count(1, ("seed", n))
            ctx.hist("rel:hashseed")
            if files is None or files != refs[n]:
                fails.append({"relation": "PYTHONHASHSEED 0 vs 4242/1/2/3", "input": n,
                              "files": sorted(k for k in set(refs[n]) | set(files or {}) if (files or {}).get(k) != refs[n].get(k))[:6]})
    # ---- R2 in-process histories
    hist = []
    rng = ctx.rng
    base_pool = [n for n in pool if n in refs]
    if quick:
        for _ in range(8):
            hist.append(rng.sample(base_pool, rng.choice([2, 3])))
        if "none" in descs and "forward" in descs:
            for nn in ("none", "forward"):
                if nn not in refs:
                    refs[nn] = fresh_run(ctx, "ref_" + nn, *job_for(descs, nn))[0]
            hist.append(["forward", "none"])
            hist.append(["forward", "forward"])          # the same description twice: nothing of the first run is remembered
            hist.append(["none", "forward", "forward"])
        for nn in ("vectors", "arrayclass"):
            if nn in descs and nn not in refs:
                refs[nn] = fresh_run(ctx, "ref_" + nn, *job_for(descs, nn))[0]
        if "vectors" in refs:
            hist.append(["tutorial", "vectors"])          # per-library helper text (prefixes) built again for every library
            hist.append(["gen-many", "vectors", "arrayclass"] if "arrayclass" in refs else ["gen-many", "vectors"])
        hist.append(["gen-tm-override", "gen-tm-user"])
        hist.append(["gen-tm-user", "gen-tm-override", "gen-tm-user"])
        hist.append(["tutorial", "clibrary"])
        hist.append(["pointers-cxx", "pointers-c", "pointers-cxx"])
        # the same description in both languages, both orders (language specific statement clauses)
        hist.append(["struct-c", "struct-cxx"])
        hist.append(["struct-cxx", "struct-c"])
        hist.append(["classes", "clibrary", "strings"])
    else:
        for a in base_pool:
            for b in base_pool:
                if a != b:
                    hist.append([a, b])
        for _ in range(40):
            hist.append(rng.sample(sorted(refs), 3))
        # the directed histories of the quick tier (recorded findings are reproduced in both tiers)
        for h in (["tutorial", "vectors"], ["gen-many", "vectors", "arrayclass"], ["forward", "none"], ["forward", "forward"], ["none", "forward", "forward"], ["gen-tm-override", "gen-tm-user"],
                  ["gen-tm-user", "gen-tm-override", "gen-tm-user"], ["tutorial", "clibrary"], ["pointers-cxx", "pointers-c", "pointers-cxx"],
                  ["struct-c", "struct-cxx"], ["struct-cxx", "struct-c"], ["classes", "clibrary", "strings"]):
            if all(n in refs for n in h):
                hist.append(h)

    hist = [list(x) for x in dict.fromkeys(tuple(h) for h in hist)]       # no duplicates: one directory per history

    def r2(h):
        tag = "hist_%03d_" % hist.index(h) + "_".join(h)[:80]
        bd = os.path.join(ctx.bdir, "runs", tag)
        os.makedirs(bd, exist_ok=True)
        job = []
        for i, n in enumerate(h):
            y, a = job_for(descs, n)
            job.append({"yaml": y, "args": a, "out": "%d_%s" % (i, n)})
        jp = os.path.join(bd, "job.json")
        json.dump(job, open(jp, "w"))
        rc, out = vlib.sh([vlib.PY, os.path.join(vlib.VERIF, "tools", "seqrun.py"), bd, jp], timeout=900)
        res = []
        st = json.load(open(os.path.join(bd, "status.json"))) if os.path.exists(os.path.join(bd, "status.json")) else None
        for i, n in enumerate(h):
            files = corpus.read_dir(os.path.join(bd, "%d_%s" % (i, n)), skip_ext=(".log",))
            res.append((i, n, files, st[i] if st else "no status: " + out[-300:]))
        return h, res
    with ThreadPoolExecutor(vlib.NCPU) as ex:
        for h, res in ex.map(r2, hist):
            for (i, n, files, st) in res:
                ctx.count(1, ("hist", tuple(h), i))
                ctx.hist("rel:history")
                if st or files != refs[n]:
                    fails.append({"relation": "in-process history vs fresh process", "history": h[:i], "input": n, "status": st,
                                  "files": sorted(k for k in set(refs[n]) | set(files) if files.get(k) != refs[n].get(k))[:6]})
    # generated pair: same class name, different options
    import yaml
    gd = os.path.join(ctx.bdir, "runs", "samecls")
    os.makedirs(gd, exist_ok=True)
    la = {"library": "liba", "cxx_header": "a.hpp", "declarations": [{"decl": "class Foo", "declarations": [{"decl": "Foo()"}, {"decl": "int get()"}]}]}
    lb = {"library": "libb", "cxx_header": "b.hpp", "declarations": [{"decl": "class Foo", "cpp_if": "ifdef USE_FOO", "options": {"literalinclude": True},
                                                                     "declarations": [{"decl": "Foo()"}, {"decl": "void set(int v)"}]}]}
    yaml.safe_dump(la, open(os.path.join(gd, "liba.yaml"), "w"))
    yaml.safe_dump(lb, open(os.path.join(gd, "libb.yaml"), "w"))
    fb, out = fresh_run(ctx, "samecls_fresh_b", os.path.join(gd, "libb.yaml"), ARGS0)
    json.dump([{"yaml": os.path.join(gd, "liba.yaml"), "args": ARGS0, "out": "0_a"}, {"yaml": os.path.join(gd, "libb.yaml"), "args": ARGS0, "out": "1_b"}],
              open(os.path.join(gd, "job.json"), "w"))
    vlib.sh([vlib.PY, os.path.join(vlib.VERIF, "tools", "seqrun.py"), gd, os.path.join(gd, "job.json")], timeout=300)
    sb = corpus.read_dir(os.path.join(gd, "1_b"), skip_ext=(".log",))
    ctx.count(1, ("samecls",))
    if fb is None or sb != fb:
        fails.append({"relation": "in-process history vs fresh process", "history": ["generated liba (class Foo)"], "input": "generated libb (class Foo, cpp_if, literalinclude)",
                      "files": sorted(k for k in set(fb or {}) | set(sb) if sb.get(k) != (fb or {}).get(k))[:6], "yaml_a": la, "yaml_b": lb})
    # ---- R3 pre-populated output directory
    for n in (base_pool[:4] if quick else sorted(refs)):
        y, a = job_for(descs, n)
        pre = {k: b"STALE CONTENT THAT MUST DISAPPEAR\n" + v + b"\ntrailing stale bytes\n" for k, v in refs[n].items()}
        files, out = fresh_run(ctx, "pre_" + n, y, a, pre=pre)
        ctx.count(1, ("prepop", n))
        ctx.hist("rel:prepopulated")
        if files is None or files != refs[n]:
            fails.append({"relation": "pre-populated output directory vs empty", "input": n,
                          "files": sorted(k for k in set(refs[n]) | set(files or {}) if (files or {}).get(k) != refs[n].get(k))[:6]})
    # ---- R4 cwd + environment
    other = os.path.join(ctx.bdir, "othercwd")
    os.makedirs(other, exist_ok=True)
    for n in (base_pool[:4] if quick else sorted(refs)):
        y, a = job_for(descs, n)
        files, out = fresh_run(ctx, "env_" + n, y, a, cwd=other,
                               env={"HOME": other, "LANG": "de_DE.UTF-8", "TZ": "Asia/Tokyo", "USER": "someone", "COLUMNS": "40", "PYTHONHASHSEED": "7"})
        ctx.count(1, ("env", n))
        ctx.hist("rel:cwd-env")
        if files is None or files != refs[n]:
            fails.append({"relation": "different cwd and environment", "input": n,
                          "files": sorted(k for k in set(refs[n]) | set(files or {}) if (files or {}).get(k) != refs[n].get(k))[:6]})
    # ---- R5 the same absolute paths from two different current directories, without the test-suite option
    #         (debug_testsuite makes the writers use base names, which hides what they do with real paths)
    deep = os.path.join(ctx.bdir, "cwd_a", "deeper", "still")
    os.makedirs(deep, exist_ok=True)
    for n in (base_pool[:4] + ["gen-many"] if quick else sorted(refs)):
        if n not in descs:
            continue
        y, a = job_for(descs, n)
        a2 = [x for i, x in enumerate(a) if not (x == "debug_testsuite=true" or (x == "--option" and i + 1 < len(a) and a[i + 1] == "debug_testsuite=true"))]
        res = []
        for cwd in (other, deep):
            od = os.path.join(ctx.bdir, "runs", "abs_" + n)
            shutil.rmtree(od, ignore_errors=True)
            files, out = fresh_run(ctx, "abs_" + n, y, a2, cwd=cwd)
            res.append(files)
        ctx.count(1, ("abs-cwd", n))
        ctx.hist("rel:abs-paths-two-cwds")
        if res[0] is None or res[0] != res[1]:
            fails.append({"relation": "same absolute input / output paths, two current directories", "input": n, "arguments": a2,
                          "files": sorted(k for k in set(res[0] or {}) | set(res[1] or {}) if (res[0] or {}).get(k) != (res[1] or {}).get(k))[:6]})
    for f in fails:
        if (f.get("relation") == "in-process history vs fresh process" and f.get("files") and not f.get("status")
                and all(os.path.basename(x) in ("helpers.c", "helpers.f") for x in f["files"]) and ctx.is_known(KF_HELPERS)):
            ctx.known_finding(KF_HELPERS, "")
            continue
        ctx.violation("failing-input", {"what": "two runs with the same inputs and arguments wrote different files", "input": f})
    ctx.sample({"relation": "in-process history vs fresh process", "history": hist[0]})
    ctx.traces = len(refs)


def replay(path):
    d = json.load(open(path))
    print(json.dumps(d, indent=1)[:5000])
    return 1
