"""C05 — every accepted input yields wrapper sources that compile and link (PARTIAL).

Theorems: coq/Properties/C05.v (helper code gathered once / closed / in dependency order, for every
ranked table and every request list) + dyn/C05_tables.v over tables regenerated from /repo for c and c++
(rank certificates for the C, Fortran and Lua helper tables; every template block keeps the indentation
balanced under the verified model of util.write_lines).
Tie: correspondence of HelperDeps.gather with the real Wrapc._gather_helper_code on random dependency tables.
Search / validation: the compilers (gcc, g++, gfortran; CPython headers; the Lua API stub): every file generated
for corpus entries that ship their library headers and for generated libraries over an option matrix.
"""
import copy
import glob
import itertools
import json
import os
import shutil
import sys

import vlib

KF_CONST_STR = "py-const-string-result-with-defaults"
KF_LUA_CHARP = "lua-char-pointer-argument"
KF_C_VECTOR = "c-only-vector-argument"
KF_PYVECSTR = "python-vector-of-strings-argument"
KF_LUA_CPPIF = "lua-ignores-cpp-if"
KF_PY_SAMENAME = "python-same-class-name-in-two-namespaces"
KF_PY_CLASSVAL = "python-class-result-by-value"
KF_PY_PTRREF_LIST = "python-list-mode-pointer-reference-out"
FINDING_LIBS = [
    # (key, library, header name, header text, options, file expected not to compile)
    (KF_LUA_CHARP, {"library": "fl1", "cxx_header": "fl1.hpp", "declarations": [{"decl": "int cstr(const char *t)"}]},
     "fl1.hpp", "#pragma once\nint cstr(const char *t);\n", dict(wrap_c=False, wrap_fortran=False, wrap_python=False, wrap_lua=True), "luafl1module.cpp"),
    (KF_CONST_STR, {"library": "fl2", "cxx_header": "fl2.hpp", "declarations": [{"decl": "const std::string cs(int a = 1)"}]},
     "fl2.hpp", "#pragma once\n#include <string>\nconst std::string cs(int a = 1);\n",
     dict(wrap_c=False, wrap_fortran=False, wrap_python=True, wrap_lua=False), "pyfl2module.cpp"),
    (KF_C_VECTOR, {"library": "fl3", "cxx_header": "fl3.hpp", "declarations": [{"decl": "void ids(std::vector<int> &v +intent(out))"}]},
     "fl3.hpp", "#pragma once\n#include <vector>\nvoid ids(std::vector<int> &v);\n",
     dict(wrap_c=True, wrap_fortran=False, wrap_python=False, wrap_lua=False), "wrapfl3.cpp"),
    (KF_LUA_CPPIF, {"library": "fl4", "cxx_header": "fl4.hpp",
                    "declarations": [{"decl": "void upd()"}, {"decl": "void upd(int flag)", "cpp_if": "ifdef USE_FLAG"}]},
     "fl4.hpp", "#pragma once\nvoid upd();\n#ifdef USE_FLAG\nvoid upd(int flag);\n#endif\n",
     dict(wrap_c=False, wrap_fortran=False, wrap_python=False, wrap_lua=True), "luafl4module.cpp"),
    (KF_PY_SAMENAME, {"library": "fl5", "cxx_header": "fl5.hpp",
                      "declarations": [{"decl": "namespace alpha", "declarations": [{"decl": "class Item", "declarations": [{"decl": "Item()"}, {"decl": "int get() const"}]}]},
                                       {"decl": "namespace beta", "declarations": [{"decl": "class Item", "declarations": [{"decl": "Item()"}, {"decl": "int get() const"}]}]}]},
     "fl5.hpp", "#pragma once\nnamespace alpha { class Item { public: Item(); int get() const; }; }\nnamespace beta { class Item { public: Item(); int get() const; }; }\n",
     dict(wrap_c=True, wrap_fortran=True, wrap_python=True, wrap_lua=False), None),
    (KF_PY_CLASSVAL, {"library": "fl6", "cxx_header": "fl6.hpp",
                      "declarations": [{"decl": "class Stamp", "declarations": [{"decl": "Stamp()"}, {"decl": "int get() const"}]}, {"decl": "Stamp currentStamp()"}]},
     "fl6.hpp", "#pragma once\nclass Stamp { public: Stamp(); int get() const; };\nStamp currentStamp();\n",
     dict(wrap_c=True, wrap_fortran=True, wrap_python=True, wrap_lua=False), "pyfl6module.cpp"),
    (KF_PY_PTRREF_LIST, {"library": "fl7", "cxx_header": "fl7.hpp",
                         "declarations": [{"decl": "void fetchArrayRef(double *&array +intent(out)+dimension(isize), int &isize +hidden)"}]},
     "fl7.hpp", "#pragma once\nvoid fetchArrayRef(double *&array, int &isize);\n",
     dict(wrap_c=False, wrap_fortran=False, wrap_python=True, wrap_lua=False, PY_array_arg="list"), "pyfl7module.cpp"),
]

GEN = {
    "library": "cmp", "cxx_header": "cmp.hpp",
    "declarations": [
        {"decl": "int scal(short a, long b, size_t d, float e, double f, bool g)"},
        # (the Lua wrapper documents no support for out / array arguments: switched off there, as the corpus does)
        {"decl": "void ptrs(int *a +intent(inout), const double *b +rank(1), int nb +implied(size(b)), long *c +intent(out))",
         "options": {"wrap_lua": False}},
        {"decl": "std::string name(const std::string &s, const char *t, int n = 2)", "options": {"wrap_lua": False}},
        {"decl": "std::string name2(const std::string &s, int n = 2)"},
        {"decl": "void outstr(std::string &o +intent(out), char *buf +intent(out)+charlen(20))", "options": {"wrap_lua": False}},
        {"decl": "void over(int a)"}, {"decl": "void over(double a)"}, {"decl": "void over(const std::string &a, int b = 1)"},
        {"decl": "class Thing", "declarations": [{"decl": "Thing()"}, {"decl": "Thing(int n, int fill = 3)"}, {"decl": "~Thing()"},
                                                 {"decl": "double val(int i) const"}, {"decl": "void set(int v, bool flag = true)"},
                                                 # const methods with output arguments before / after an input one (interface prefixes)
                                                 {"decl": "int stats(int *count +intent(out), int scale) const", "options": {"wrap_lua": False}},
                                                 {"decl": "int last(int scale, int *count +intent(out)) const", "options": {"wrap_lua": False}},
                                                 {"decl": "int tally(int *total +intent(inout), int step) const", "options": {"wrap_lua": False}},
                                                 {"decl": "const std::string &label() const"}]},
        {"decl": "enum Mode { ONE, TWO = 5 }"},
        {"decl": "Mode mode(Mode m)"},
        # an assumed-rank argument: one Fortran specific per rank (rank 0 passes the scalar to the scalar interface)
        {"decl": "int sumValues(const int *values +dimension(..), int nvalues)", "options": {"wrap_lua": False, "wrap_python": False, "F_assumed_rank_max": 2}},
        # an enumeration with a member defined by an expression over earlier members, followed by members without a value
        {"decl": "enum Level { QUIET, INFO = 4, WARN, NOISY = INFO + WARN, DEBUGL, TRACE }"},
        # defaulted arguments whose conversion declares a C++ local (enum cast, std::string): one scope per case of the Python switch
        {"decl": "int paint(int n, Mode c = ONE)"},
        {"decl": "int label2(int n, const std::string &name = \"x\")"},
        {"decl": "int both(Mode c = TWO, const std::string &name = \"y\", int k = 3)"},
        {"decl": "namespace inner", "declarations": [{"decl": "int deep(int x)"}]},
    ],
}
# a nested namespace (its own Fortran module and C file) whose functions need helpers shared with the C side
GENNS = {
    "library": "nsl", "cxx_header": "nsl.hpp", "options": {"wrap_lua": False, "wrap_python": False},
    "declarations": [
        {"decl": "int base(int x)"},
        {"decl": "namespace inner", "declarations": [{"decl": "const std::string &tag()"}, {"decl": "void ids(std::vector<int> &v +intent(out))"},
                                                      {"decl": "int *arr(int n) +dimension(n)+deref(allocatable)"}]},
    ],
}
GENNS_HPP = "#pragma once\n#include <string>\n#include <vector>\nint base(int x);\nnamespace inner { const std::string &tag(); void ids(std::vector<int> &v); int *arr(int n); }\n"
# libraries with ONE feature each: a helper / include / declaration that only this function asks for must still be there
LONELY = [
    ("chararr", "int countTags(char **tags +intent(in))", "int countTags(char **tags);", ""),
    ("strres", "std::string onlyResult()", "std::string onlyResult();", "#include <string>\n"),
    ("cstrres", "const char *onlyCstr()", "const char *onlyCstr();", ""),
    ("strvec", "void names(std::vector<std::string> &v +intent(in))", "void names(std::vector<std::string> &v);", "#include <string>\n#include <vector>\n"),
    ("vecout", "void fillv(std::vector<double> &v +intent(out))", "void fillv(std::vector<double> &v);", "#include <vector>\n"),
    ("boolp", "void flags(bool *f +intent(inout), bool *g +intent(out))", "void flags(bool *f, bool *g);", ""),
    ("chout", "void getbuf(char *buf +intent(out)+charlen(20))", "void getbuf(char *buf);", ""),
    ("intalloc", "int *mk(int n) +dimension(n)+deref(allocatable)", "int *mk(int n);", ""),
    ("strio", "void twist(std::string &s +intent(inout))", "void twist(std::string &s);", "#include <string>\n"),
    # element types that need their own header in the C prototype of the bufferify wrapper
    ("vec64", "int count_nonzero(const std::vector<int64_t> &arg)", "int count_nonzero(const std::vector<int64_t> &arg);", "#include <vector>\n#include <cstdint>\n"),
    ("vecu64", "void fill64(std::vector<uint64_t> &v +intent(out))", "void fill64(std::vector<uint64_t> &v);", "#include <vector>\n#include <cstdint>\n"),
    ("vecsz", "size_t total(const std::vector<size_t> &v)", "size_t total(const std::vector<size_t> &v);", "#include <vector>\n#include <cstddef>\n"),
    ("arr32", "void scale32(int32_t *v +rank(1)+intent(inout), int n +implied(size(v)))", "void scale32(int32_t *v, int n);", "#include <cstdint>\n"),
    # non-const std::string results by pointer / reference, caller-owned results of several element types
    ("strptr", "std::string *newstr(int v)", "std::string *newstr(int v);", "#include <string>\n"),
    ("strref", "std::string &refstr(int v)", "std::string &refstr(int v);", "#include <string>\n"),
    ("strown", "std::string *ownstr(int v) +owner(caller)", "std::string *ownstr(int v);", "#include <string>\n"),
    ("cstrown", "char *dupname(int v) +owner(caller)", "char *dupname(int v);", ""),
    ("dblown", "double *newdbls(int n) +owner(caller)+dimension(n)+deref(pointer)", "double *newdbls(int n);", ""),
    # an array extent named through a by-reference / by-pointer hidden argument
    ("dimref", "void fetchArrayRef(double *&array +intent(out)+dimension(isize), int &isize +hidden)", "void fetchArrayRef(double *&array, int &isize);", ""),
    ("dimptr", "void fetchArrayPtr(double **array +intent(out)+dimension(isize), int *isize +hidden)", "void fetchArrayPtr(double **array, int *isize);", ""),
    ("vecimpl", "int vsum(const std::vector<int> &a0, int a1 +implied(size(a0)))", "int vsum(const std::vector<int> &a0, int a1);", "#include <vector>\n"),
]

GEN_HPP = r'''#pragma once
#include <string>
#include <vector>
#include <cstddef>
int scal(short a, long b, size_t d, float e, double f, bool g);
void ptrs(int *a, const double *b, int nb, long *c);
std::string name(const std::string &s, const char *t, int n = 2);
std::string name2(const std::string &s, int n = 2);
void outstr(std::string &o, char *buf);
void over(int a); void over(double a); void over(const std::string &a, int b = 1);
class Thing { public: Thing(); Thing(int n, int fill = 3); ~Thing(); double val(int i) const; void set(int v, bool flag = true); const std::string &label() const;
  int stats(int *count, int scale) const; int last(int scale, int *count) const; int tally(int *total, int step) const; };
enum Mode { ONE, TWO = 5 };
Mode mode(Mode m);
int sumValues(const int *values, int nvalues);
enum Level { QUIET, INFO = 4, WARN, NOISY = INFO + WARN, DEBUGL, TRACE };
int paint(int n, Mode c = ONE); int label2(int n, const std::string &name = "x"); int both(Mode c = TWO, const std::string &name = "y", int k = 3);
namespace inner { int deep(int x); }
'''
GENC = {
    "library": "cmpc", "language": "c", "c_header": "cmpc.h",
    "declarations": [
        {"decl": "int scal(short a, long b, size_t d, float e, double f, bool g)"},
        {"decl": "void ptrs(int *a +intent(inout), const double *b +rank(1), int nb +implied(size(b)), long *c +intent(out))"},
        {"decl": "const char *name(const char *t, int n)"},
        {"decl": "void outstr(char *buf +intent(out)+charlen(20))"},
        {"decl": "struct Pt { int x; double y; };"},
        {"decl": "void usept(Pt *p)"},
        {"decl": "enum Mode { ONE, TWO = 5 }"},
        {"decl": "int mode(int m)"},
    ],
}
GENC_H = r'''#pragma once
#include <stddef.h>
#include <stdbool.h>
int scal(short a, long b, size_t d, float e, double f, bool g);
void ptrs(int *a, const double *b, int nb, long *c);
const char *name(const char *t, int n);
void outstr(char *buf);
struct Pt { int x; double y; };
typedef struct Pt Pt;
void usept(Pt *p);
enum Mode { ONE, TWO = 5 };
int mode(int m);
'''


# ----------------------------------------------------------------- gather correspondence
def impl_gather(wrapc, whelpers, table, roots):
    """emission order of the real Wrapc._gather_helper_code on a synthetic helper table."""
    saved = whelpers.CHelpers
    try:
        fake = {}
        for i, ds in enumerate(table):
            fake["h%d" % i] = {"source": "h%d" % i, "dependent_helpers": ["h%d" % d for d in ds]}
        whelpers.CHelpers = fake
        w = wrapc.Wrapc.__new__(wrapc.Wrapc)
        w.language = "c"
        w.helper_include = {"file": {}}
        w.helper_source = {"file": []}
        done = {}
        for r in roots:
            w._gather_helper_code("h%d" % r, done)
        return " ".join(x[1:] for x in w.helper_source["file"])
    except RecursionError:
        return "RECURSION"
    except KeyError:
        return "KEYERROR"
    finally:
        whelpers.CHelpers = saved


def rand_table(rng):
    n = rng.randint(1, 8)
    dag = rng.random() < 0.8
    t = []
    for i in range(n):
        cand = list(range(i + 1, n)) if dag else [j for j in range(n) if j != i]
        k = rng.randint(0, min(3, len(cand)))
        t.append(rng.sample(cand, k))
    roots = [rng.randrange(n) for _ in range(rng.randint(1, 4))]
    return t, roots


# ----------------------------------------------------------------- compile validation
def gen_matrix(quick, rng):
    combos = []
    wrapsets = [dict(wrap_c=True, wrap_fortran=True, wrap_python=True, wrap_lua=True),
                dict(wrap_c=True, wrap_fortran=True, wrap_python=False, wrap_lua=False),
                dict(wrap_c=True, wrap_fortran=False, wrap_python=False, wrap_lua=False),
                dict(wrap_c=False, wrap_fortran=False, wrap_python=True, wrap_lua=False),
                dict(wrap_c=False, wrap_fortran=False, wrap_python=False, wrap_lua=True)]
    docs = [dict(), dict(debug=True), dict(doxygen=False, show_splicer_comments=False), dict(literalinclude=True, debug=True)]
    lens = [dict(), dict(C_line_length=40, F_line_length=40), dict(C_line_length=120, F_line_length=132)]
    cfi = [dict(), dict(F_CFI=True)]
    for ws, dc, ln, cf in itertools.product(wrapsets, docs, lens, cfi):
        if cf and not ws["wrap_fortran"]:
            continue
        o = {}
        o.update(ws)
        o.update(dc)
        o.update(ln)
        o.update(cf)
        if ws["wrap_python"]:
            # numpy is not installed here: sources that use it are skipped by the compile step, so the Python wrappers are
            # generated in list mode (every Python source of the generated libraries is then compiled)
            o["PY_array_arg"] = "list"
        combos.append(o)
    if quick:
        combos = [combos[0]] + rng.sample(combos[1:], 9)
    return combos


def build_and_compile(ctx, tag, lib, header_name, header_text, opts, defsets=((),)):
    import corpus
    import compilecheck
    import yaml
    d = os.path.join(ctx.bdir, "gen", tag)
    os.makedirs(d, exist_ok=True)
    l = copy.deepcopy(lib)
    l.setdefault("options", {}).update(opts)
    if l.get("language") == "c":
        l["options"]["wrap_lua"] = False          # the Lua wrapper is C++ only
    yp = os.path.join(d, "lib.yaml")
    yaml.safe_dump(l, open(yp, "w"), sort_keys=False)
    open(os.path.join(d, header_name), "w").write(header_text)
    od = os.path.join(d, "out")
    rc, out = corpus.run_shroud(yp, od)
    if rc != 0:
        return [{"file": "(shroud)", "message": out[-700:]}], {}, yp
    fails, done = [], {}
    for defs in defsets:
        f1, d1 = compilecheck.compile_dir(od, [d], defines=defs)
        for f in f1:
            if defsets != ((),):
                f["message"] = "[compiled with %s] " % (" ".join(defs) or "no definitions") + f["message"]
        fails += f1
        for k, v in d1.items():
            done[k] = done.get(k, 0) + v
    if not fails:
        lf, n = compilecheck.link_check(od, [d])
        fails += lf
        done["linked"] = n
    return fails, done, yp


def run(ctx):
    ctx.rules.append("random helper dependency tables (DAGs and cyclic) x request lists for the gather correspondence; compile "
                     "validation: every generated file of corpus entries that ship their library headers, and of two generated "
                     "libraries (C++ and C) over {wrapper subsets} x {debug/doxygen/literalinclude/show_splicer_comments} x {line "
                     "lengths} x {F_CFI}: C headers alone from C and C++, sources, Fortran modules in dependency order, Python "
                     "sources against CPython 3.12 headers, Lua sources against the API stub. non-trivial = distinct case / distinct "
                     "(input, options) compiled")
    ctx.assume += ["PARTIAL: acceptance of the emitted text by gcc/g++/gfortran is validated by compiling, not proved; linking is not "
                   "exercised in this tier", "numpy-dependent Python sources are skipped (numpy is not installed)"]
    ctx.hygiene()
    ctx.static_build()
    ctx.prove(os.path.join(vlib.COQ, "Properties", "C05.v"))
    for lang in ("c", "c++"):
        gdir = os.path.join(ctx.bdir, "gen_" + lang.replace("+", "x"))
        os.makedirs(gdir, exist_ok=True)
        rc, out = vlib.sh([vlib.PY, os.path.join(vlib.VERIF, "tools", "gen_tables.py"), "helpers", lang, os.path.join(gdir, "GenHelpers.v")])
        if rc != 0:
            ctx.broken.append(("proof", "gen-helpers-" + lang, out[-1500:]))
            continue
        rc, out = vlib.sh(["coqc", "-R", gdir, "ShroudGen", "GenHelpers.v"], cwd=gdir, timeout=600)
        if rc != 0:
            ctx.broken.append(("proof", "gen-helpers-compile-" + lang, out[-1500:]))
            continue
        shutil.copy(os.path.join(vlib.VERIF, "dyn", "C05_tables.v"), os.path.join(gdir, "C05_tables.v"))
        ctx.prove(os.path.join(gdir, "C05_tables.v"), extra_R=[(gdir, "ShroudGen")], name="C05_tables_%s.v" % lang.replace("+", "x"))
    # ---- gather correspondence
    drv = ctx.driver()
    vlib.import_shroud()
    from shroud import wrapc, whelpers
    quick = ctx.tier == "quick"
    cases = [rand_table(ctx.rng) for _ in range(3000 if quick else 40000)]
    mres = drv.pbatch(["gather|%s|%s" % (";".join(",".join(map(str, ds)) for ds in t), ",".join(map(str, r))) for t, r in cases])
    for (t, r), m in zip(cases, mres):
        i = impl_gather(wrapc, whelpers, t, r)
        ctx.count(1, ("gather", json.dumps(t), tuple(r)))
        ctx.hist("gather:" + ("dag" if all(d > k for k, ds in enumerate(t) for d in ds) else "cyclic"))
        if i != m:
            ctx.broken.append(("correspondence", "HelperDeps.gather", "table=%r roots=%r impl=%s model=%s" % (t, r, i, m)))
            # property oracle on the implementation: once, closed, after dependencies (only meaningful for DAGs)
            if all(d > k for k, ds in enumerate(t) for d in ds) and i not in ("RECURSION", "KEYERROR"):
                o = [int(x) for x in i.split()] if i else []
                bad = len(set(o)) != len(o) or any(d not in o[:o.index(n)] for n in o for d in t[n]) or any(x not in o for x in r)
                if bad:
                    ctx.violation("failing-input", {"what": "helper code not emitted once / closed / after its dependencies",
                                                    "input": {"table": t, "requested": r}, "observed": i})
    ctx.sample({"helper_table": cases[0][0], "requested": cases[0][1], "impl_order": impl_gather(wrapc, whelpers, *cases[0])})
    # ---- compile validation
    sys.path.insert(0, os.path.join(vlib.VERIF, "tools"))
    import corpus
    import compilecheck
    descs = corpus.test_descs()
    with_hdr = []
    for (name, y, cmd) in descs:
        dirs = [d for d in (os.path.join(vlib.REPO, "regression", "run", name), os.path.join(vlib.REPO, "regression", "run", os.path.basename(y)[:-5]))
                if os.path.isdir(d) and glob.glob(d + "/*.h*")]
        if dirs and name not in ("forward",):        # forward uses classes of another library (needs its modules/headers)
            with_hdr.append((name, y, cmd, dirs))
    if quick:
        pick = {"tutorial", "classes", "strings", "struct-cxx", "struct-c", "vectors", "clibrary", "ownership", "preprocess", "templates"}
        with_hdr = [w for w in with_hdr if w[0] in pick]
    from concurrent.futures import ThreadPoolExecutor

    def one(w):
        name, y, cmd, dirs = w
        od = os.path.join(ctx.bdir, "corp", name)
        rc, out = corpus.run_shroud(y, od, cmd)
        if rc != 0:
            return name, [{"file": "(shroud)", "message": out[-600:]}], {}
        fails, done = compilecheck.compile_dir(od, dirs)
        if not fails:
            lf, n = compilecheck.link_check(od, dirs)
            fails += lf
            done["linked"] = n
        return name, fails, done
    tot = {}
    with ThreadPoolExecutor(vlib.NCPU) as ex:
        for name, fails, done in ex.map(one, with_hdr):
            ctx.count(sum(done.values()), None)
            ctx.nontrivial.update((name, k, i) for k, v in done.items() for i in range(v))
            for k, v in done.items():
                tot[k] = tot.get(k, 0) + v
            for f in fails:
                if "redefinition of" in f["message"] and "/regression/run/" in f["message"]:
                    continue      # the corpus library header has no include guard and is included twice: not Shroud's text
                ctx.violation("failing-input", {"what": "a generated file does not compile or link", "input": {"corpus": name, "file": f["file"]},
                                                "compiler_output": f["message"]})
            ctx.traces += 1
    jobs = [("cxx_%d" % i, GEN, "cmp.hpp", GEN_HPP, o) for i, o in enumerate(gen_matrix(quick, ctx.rng))] + \
           [("c_%d" % i, GENC, "cmpc.h", GENC_H, o) for i, o in enumerate(gen_matrix(quick, ctx.rng)[: (4 if quick else 1000)])] + \
           [("ns_%d" % i, GENNS, "nsl.hpp", GENNS_HPP, o) for i, o in enumerate([dict(), dict(F_CFI=True), dict(debug=True, F_flatten_namespace=True)])] + \
           [("lone_%s_%d" % (nm, i), {"library": "lo" + nm, "cxx_header": "lo.hpp", "options": {"wrap_lua": False, "wrap_python": False},
                                      "declarations": [{"decl": decl}]}, "lo.hpp", "#pragma once\n" + inc + proto + "\n", o)
            for (nm, decl, proto, inc) in LONELY
            for i, o in enumerate([dict(), dict(F_CFI=True), dict(wrap_python=True, PY_array_arg="list")] if not quick
                                  else [dict(), dict(wrap_python=True, PY_array_arg="list")])
            if not (nm in ("dimref", "dimptr") and o.get("wrap_python"))]        # (Python list mode: recorded finding fl7)

    # an overload set whose LATER member is under a preprocessor guard (the documented cpp_if pattern): compiles without the macro
    guard_lib = {"library": "grd", "cxx_header": "grd.hpp", "options": {"wrap_lua": False, "wrap_python": True},
                 "declarations": [{"decl": "class Widget", "declarations": [{"decl": "Widget()"}, {"decl": "void update()"},
                                                                            {"decl": "void update(int flag)", "cpp_if": "ifdef USE_FLAG"}]},
                                  {"decl": "void work(int comm)", "format": {"function_suffix": "_par"}, "cpp_if": "ifdef HAVE_PAR"},
                                  {"decl": "void work()", "format": {"function_suffix": "_ser"}, "cpp_if": "ifndef HAVE_PAR"}]}
    guard_hpp = ("#pragma once\nclass Widget { public: Widget(); void update();\n#ifdef USE_FLAG\n  void update(int flag);\n#endif\n};\n"
                 "#ifdef HAVE_PAR\nvoid work(int comm);\n#else\nvoid work();\n#endif\n")
    jobs += [("guard_%d" % i, guard_lib, "grd.hpp", guard_hpp, o) for i, o in enumerate([dict(), dict(debug=True)])]
    # a conditional TYPE beside an unconditional one from the same system header: the header's #include must not inherit the guard.
    # Every file is compiled with the macro defined and undefined.
    tguard_lib = {"library": "wide", "cxx_header": "wide.hpp", "options": {"wrap_lua": False, "wrap_python": False},
                  "typemap": [{"type": "int64_t", "fields": {"cpp_if": "ifdef HAVE_INT64"}}],
                  "declarations": [{"decl": "int32_t total32(int32_t a, int32_t b)"},
                                   {"decl": "int64_t total64(int64_t a, int64_t b)", "cpp_if": "ifdef HAVE_INT64"}]}
    tguard_hpp = "#pragma once\n#include <stdint.h>\nint32_t total32(int32_t a, int32_t b);\n#ifdef HAVE_INT64\nint64_t total64(int64_t a, int64_t b);\n#endif\n"
    tguard_c = dict(tguard_lib, language="c", cxx_header="wide.h")
    jobs += [("tguard_cxx", tguard_lib, "wide.hpp", tguard_hpp, {}, ((), ("-DHAVE_INT64",))),
             ("tguard_c", tguard_c, "wide.h", tguard_hpp, {}, ((), ("-DHAVE_INT64",)))]

    # a C struct wrapped as a class under a class-level guard: its own header opens and closes the conditional, with and without
    # the macro (language c and c++)
    cguard_h = "#ifdef HAVE_POINT\nstruct Point { int x; int y; };\ntypedef struct Point Point;\n#endif\nint origin(void);\n"
    cguard_c = {"library": "geom", "language": "c", "cxx_header": "geom.h", "options": {"wrap_lua": False, "wrap_python": False},
                "declarations": [{"decl": "struct Point { int x; int y; };", "cpp_if": "ifdef HAVE_POINT", "options": {"wrap_struct_as": "class"}},
                                 {"decl": "int origin(void)"}]}
    cguard_cxx = dict(cguard_c, language="c++", cxx_header="geom.hpp")
    jobs += [("cguard_c", cguard_c, "geom.h", cguard_h, {}, ((), ("-DHAVE_POINT",))),
             ("cguard_cxx", cguard_cxx, "geom.hpp", "#pragma once\n" + cguard_h.replace("(void)", "()"), {}, ((), ("-DHAVE_POINT",)))]

    def two(j):
        return j, build_and_compile(ctx, *j)
    with ThreadPoolExecutor(vlib.NCPU) as ex:
        for j, (fails, done, yp) in ex.map(two, jobs):
            ctx.count(sum(done.values()), None)
            ctx.nontrivial.update((j[0], k, i) for k, v in done.items() for i in range(v))
            for k, v in done.items():
                tot[k] = tot.get(k, 0) + v
            ctx.hist("matrix:" + j[0].split("_")[0])
            for f in fails:
                if (j[0].startswith("lone_strvec") and f["file"] == "(shroud)" and "create_from_PyObject_vector_std::string" in f["message"]
                        and ctx.is_known(KF_PYVECSTR)):
                    ctx.known_finding(KF_PYVECSTR, "")
                    continue
                ctx.violation("failing-input", {"what": "a generated file does not compile or link", "input": {"library_yaml": open(yp).read(), "options": j[4], "file": f["file"]},
                                                "compiler_output": f["message"]})
    # fixed libraries exhibiting the recorded findings
    for (key, lib, hn, ht, opts, badfile) in FINDING_LIBS:
        fails, done, yp = build_and_compile(ctx, "finding_" + key, lib, hn, ht, opts)
        ctx.count(1, ("finding", key))
        for f in fails:
            if (f["file"] == badfile or (badfile is None and f["file"].startswith("py"))) and ctx.is_known(key):
                ctx.known_finding(key, "")
            else:
                ctx.violation("failing-input", {"what": "a generated file does not compile or link", "input": {"library_yaml": open(yp).read(), "file": f["file"]},
                                                "compiler_output": f["message"]})
    ctx.extra["files_compiled"] = tot


def replay(path):
    d = json.load(open(path))
    print(json.dumps(d, indent=1)[:6000])
    return 1
