"""C09 — declarations are understood exactly as a C++ compiler understands them.

Theorems: coq/Properties/C09.v (pointer / reference / cv chains and declarators to any depth are recorded exactly as
written; the C rendering of a declarator is the rendering of its pointer form) + dyn/C09_tables.v over tables
regenerated from /repo (every accepted list of type-specifier words denotes, by the C++ rules, the type of the typemap
it resolves to; the model's canonical map is the source's).
Correspondence: extracted Decl.parse_statement and Render.render_decl vs declast.check_decl / Declaration.gen_decl.
Search: (1) parse(render(parse d)) = parse d on the implementation for generated declarations without default values;
(2) g++ static_assert(std::is_same<...>) between the original declaration and Shroud's C++ renderings, and the recorded
pointer depth / reference / const flags against the compiler's type traits; gcc for the C rendering of native types.
"""
import json
import os
import re
import subprocess
import sys

import vlib
from vlib import enc

KF_RVALUE = "rvalue-reference-rendered-as-two-references"
KF_CTORLIKE = "class-type-before-parenthesis-in-class-scope"

HDR = r'''#pragma once
#include <string>
#include <vector>
#include <cstddef>
#include <cstdint>
#include <type_traits>
typedef int MyInt;
enum Color { RED, GREEN };
struct Pt { int x; double y; };
class Top { public: enum Inner { A, B }; Top(); };
class Dev { public: Dev(); };
namespace ns { class Cls { public: Cls(); ~Cls(); int get() const; }; typedef long NsLong; namespace deep { class Leaf {}; } class Leaf { public: int other; }; }
template<class T> struct pdepth { static const int value = 0; };
template<class T> struct pdepth<T*> { static const int value = 1 + pdepth<typename std::remove_cv<T>::type>::value; };
template<class T> struct pbase { typedef T type; };
template<class T> struct pbase<T*> { typedef typename pbase<T>::type type; };
template<class T> struct pbase<T* const> { typedef typename pbase<T>::type type; };
template<class T> struct pbase<T* volatile> { typedef typename pbase<T>::type type; };
template<class T> struct pbase<T* const volatile> { typedef typename pbase<T>::type type; };
template<class T> struct shape {
  typedef typename std::remove_all_extents<typename std::remove_reference<T>::type>::type noref;
  static const int depth = pdepth<typename std::remove_cv<noref>::type>::value;
  static const bool isref = std::is_reference<T>::value;
  static const bool base_const = std::is_const<typename pbase<noref>::type>::value;
  static const bool base_volatile = std::is_volatile<typename pbase<noref>::type>::value;
};
'''

TYPES = ["int", "long", "double", "char", "bool", "unsigned int", "long long", "unsigned", "short int", "float", "size_t", "std::string",
         "std::vector<int>", "std::vector<double>", "MyInt", "Color", "Pt", "Top", "ns::Cls", "ns::deep::Leaf", "ns::Leaf", "int64_t", "Dev",
         "unsigned long long int", "long int", "unsigned short int", "unsigned long", "short", "uint8_t", "ns::NsLong", "Top::Inner"]
NATIVE = {"signed char", "char signed", "signed int", "int signed", "signed long", "long signed", "signed", "unsigned char", "char unsigned", "void", "int", "long", "double", "char", "unsigned int", "long long", "unsigned", "short int", "float", "unsigned long long int", "long int",
          "unsigned short int", "unsigned long", "short"}
PTRS = ["", "", "", "*", "*", "&", "**", "*&", "* const", "* const *", "* volatile", "***", "* const * volatile", "const *", "* const &", "&&"]


def gen_var(rng, name, depth=0):
    """(text declaring `name`, uses only native types?)"""
    t = rng.choice(TYPES)
    cv = rng.choice(["", "", "", "const ", "volatile ", "const volatile ", "volatile const "])
    post = rng.choice(["", "", "", "", " const", " volatile"]) if not cv else ""
    p = rng.choice(PTRS)
    if rng.random() < 0.06:
        t, p = "void", rng.choice(["*", "*", "**", "* const", "*&", "* const *"])      # void only behind a pointer
    elif rng.random() < 0.08:
        # the words of a multi-word built-in type in any order, possibly with a word repeated: C++ accepts every order of
        # e.g. {unsigned, long, long, int}; what Shroud accepts must denote that type, what it cannot resolve it rejects
        ws = rng.choice([["unsigned", "long", "long"], ["long", "long", "int"], ["unsigned", "long", "long", "int"], ["unsigned", "long", "int"],
                         ["unsigned", "short", "int"], ["long", "int"], ["signed", "long", "long"], ["long", "double"], ["unsigned", "char"],
                         # explicit 'signed': rejected today (no such typemap); if accepted it must denote the C++ type
                         # ('signed char' is a type of its own, not 'char')
                         ["signed", "char"], ["signed", "char"], ["signed", "int"], ["signed"], ["signed", "short", "int"], ["signed", "long"]])
        ws = list(ws)
        rng.shuffle(ws)
        t = " ".join(ws)
    s = cv + t + post + " " + p
    native = t in NATIVE
    r = rng.random()
    if depth < 2 and r < 0.1:
        params, nat = [], True
        for j in range(rng.randint(0, 2)):
            ptxt, pn = gen_var(rng, "a%d" % j if rng.random() < 0.7 else "", depth + 1)
            params.append(ptxt)
            nat = nat and pn
        if rng.random() < 0.15:
            # a REFERENCE to a function inside the parentheses: in the C rendering it is a pointer to the function
            s += " (&%s)(%s)" % (name, ", ".join(params))
        else:
            s += " (*%s%s)(%s)" % (rng.choice(["", "", "* ", "* const "]), name, ", ".join(params))
        native = native and nat
    elif r < 0.14 and name:
        # a pointer to an array: the parentheses bind the * to the name, not to the element type
        s += " (*%s)%s" % (name, "".join("[%d]" % rng.randint(1, 4) for _ in range(rng.choice([1, 1, 2]))))
    else:
        s += " " + name
        if rng.random() < 0.15:
            s += "".join("[%d]" % rng.randint(1, 4) for _ in range(rng.choice([1, 1, 2])))
        elif rng.random() < 0.06:
            # an extent written as an expression: the rendering must denote the same number (grouping matters)
            s += "[%s]" % rng.choice(["24/(2*3)", "9*(7/2)", "(2+1)*4", "24/2*3", "20-(4-1)", "2*(3+1)", "48/(8/2)", "7-(2+1)*2", "(6)", "2+3*2"])
    return re.sub(r"\s+", " ", s).strip(), native


def gen_fun(rng, name):
    rt = rng.choice(TYPES + ["void", "void"])
    cv = rng.choice(["", "", "const "])
    p = rng.choice(["", "", "", "*", "&", "* const", "**"])
    params, native = [], rt in NATIVE or rt == "void"
    for j in range(rng.choice([0, 0, 1, 2, 3])):
        ptxt, pn = gen_var(rng, "a%d" % j if rng.random() < 0.8 else "", 1)
        params.append(ptxt)
        native = native and pn
    if not params and rng.random() < 0.3:
        params = ["void"]
    elif not params and rng.random() < 0.2:
        params = [rng.choice(["void *", "const void *", "void **", "void * p", "void * const"])]      # a sole pointer-to-void is a parameter
    return re.sub(r"\s+", " ", "%s%s %s %s(%s)" % (cv, rt, p, name, ", ".join(params))).strip(), native


def run_gxx(cmd, cwd):
    p = subprocess.run(cmd, cwd=cwd, capture_output=True, text=True)
    return p.returncode, p.stderr


def compile_cases(ctx, cases, tag):
    """cases: list of dict(orig, rend:{label: text}, asserts:[...]).  returns list of (case, kind, message)"""
    from concurrent.futures import ThreadPoolExecutor
    d = os.path.join(ctx.bdir, "cc_" + tag)
    os.makedirs(d, exist_ok=True)
    open(os.path.join(d, "hdr.hpp"), "w").write(HDR)

    def unit(i, c, only_orig=False):
        body = ["namespace k%d {" % i, "extern %s;" % c["orig"]]
        if not only_orig:
            for lab, txt in c["rend"].items():
                body.append("namespace %s { extern %s; }" % (lab, txt))
                body.append("static_assert(std::is_same<decltype(v), decltype(%s::w)>::value, \"%s differs\");" % (lab, lab))
            body += c["asserts"]
        body.append("}")
        return "\n".join(body)

    def try_compile(name, text):
        p = os.path.join(d, name + ".cpp")
        open(p, "w").write("#include \"hdr.hpp\"\n" + text + "\n")
        rc, err = run_gxx(["g++", "-std=c++11", "-fsyntax-only", "-w", "-I", d, p], d)
        return rc, err
    out = []
    B = 40
    batches = [cases[i:i + B] for i in range(0, len(cases), B)]

    def do_batch(bi):
        batch = batches[bi]
        rc, err = try_compile("b%d" % bi, "\n".join(unit(bi * B + j, c) for j, c in enumerate(batch)))
        res = []
        if rc == 0:
            return res
        for j, c in enumerate(batch):
            rc1, err1 = try_compile("b%d_%d" % (bi, j), unit(j, c))
            if rc1 == 0:
                continue
            rc0, err0 = try_compile("b%d_%do" % (bi, j), unit(j, c, only_orig=True))
            if rc0 != 0:
                res.append((c, "original-not-c++", err0[-300:]))
            else:
                res.append((c, "differs", err1[-900:]))
        return res
    with ThreadPoolExecutor(vlib.NCPU) as ex:
        for r in ex.map(do_batch, range(len(batches))):
            out += r
    return out


def run(ctx):
    ctx.rules.append("declarations: cv-qualified base types (30 type names incl. multi-word specifier lists, typedef, enum, struct, class, nested "
                     "names, std::string, std::vector) x pointer/reference chains with qualifiers x arrays x function pointers (depth 2) x "
                     "functions with 0-3 parameters; attributes from the C17 pools for the round trip. non-trivial = distinct accepted declaration")
    ctx.assume += ["g++ 12 (-std=c++11) is the reference for 'as a C++ compiler understands' (std::is_same on decltype, type traits)",
                   "gcc __builtin_types_compatible_p for the C rendering of declarations over native types; documented C counterpart = the "
                   "declaration with every & replaced by *",
                   "the full parse/render/parse round trip is evaluated, not proved (see Properties/C09.v)"]
    ctx.hygiene()
    ctx.static_build()
    ctx.prove(os.path.join(vlib.COQ, "Properties", "C09.v"))
    import shutil
    gdir = os.path.join(ctx.bdir, "gen")
    os.makedirs(gdir, exist_ok=True)
    rc, out = vlib.sh([vlib.PY, os.path.join(vlib.VERIF, "tools", "gen_tables.py"), "types", "x", os.path.join(gdir, "GenTypes.v")])
    if rc != 0:
        ctx.broken.append(("proof", "gen-types", out[-1500:]))
    else:
        rc, out = vlib.sh(["coqc", "-R", gdir, "ShroudGen", "GenTypes.v"], cwd=gdir)
        if rc != 0:
            ctx.broken.append(("proof", "gen-types-compile", out[-1500:]))
        else:
            shutil.copy(os.path.join(vlib.VERIF, "dyn", "C09_tables.v"), os.path.join(gdir, "C09_tables.v"))
            ctx.prove(os.path.join(gdir, "C09_tables.v"), extra_R=[(gdir, "ShroudGen")])
    drv = ctx.driver()
    vlib.import_shroud()
    sys.path.insert(0, os.path.join(vlib.VERIF, "tools"))
    import declcmp
    from props import C11
    from shroud import ast, declast, typemap
    quick = ctx.tier == "quick"
    rng = ctx.rng
    lib, ctxs = declcmp.make_contexts(ast)
    ex = declcmp.CtxExport(ast, declast, typemap)
    cstr = {k: ex.export(v) for k, v in ctxs.items()}

    def sexp(n):
        return C11.sexp(n, declast)

    def parse(k, d):
        try:
            return declast.check_decl(d, namespace=ctxs[k])
        except RuntimeError:
            return None

    def norm_attrs(a):
        """attribute values as text, order-insensitive (gen_decl prints values through str and sorts the names);
        None = unset"""
        return repr(sorted((k, "True" if v is True else str(v)) for k, v in a.attrs.items() if v is not None))

    def canon(a):
        if type(a).__name__ != "Declaration":
            return declcmp.ser_stmt(a, sexp)
        # an empty '()' declarator denotes the same as no declarator
        return declcmp.ser_decl(a, sexp, norm_attrs).replace("T(;None;None)", "None")

    def has_default(a):
        return a.init is not None or any(has_default(p) for p in (a.params or []))

    # ---------------- 1. model vs implementation: parse and render
    n = 5000 if quick else 80000
    # the corpus of minimised earlier failures runs first (known findings are re-confirmed on every run; repaired ones must stay repaired)
    cases = [(k, d) for k in sorted(ctxs) if k.startswith("class:")
             for d in ("%s volatile (** const a2)(double const *)" % k.split(":", 1)[1], "%s (*fp)(int)" % k.split(":", 1)[1])]
    cases += [(k, d) for k in sorted(ctxs) for d in ("int f(void *)", "int f(void)", "volatile int * volatile v", "const void * const * p",
                                                      "int *constraint", "double constant", "long *volatile_count", "const char *constname", "int f(int unsigned_total, long structure)",
                                                      "int (*a)[3]", "const char *(*names)[4]", "double (*m)[2][5]", "int sum_rows(int (*a)[3], int n)")]
    for i in range(n):
        k = rng.choice(sorted(ctxs))
        d = declcmp.gen_decl(rng) if rng.random() < 0.6 else (gen_var(rng, "v")[0] if rng.random() < 0.6 else gen_fun(rng, "f")[0])
        if re.search(r"\d\.\d|\de\d|=\s*1\.5|1\.5e3", d):
            continue              # floating point values print through repr(float): not modelled
        cases.append((k, d))
    mres = drv.pbatch(["reparse|%s|%s" % (cstr[k], enc(d)) for k, d in cases])
    # how many of the cases meet the hypotheses of the round-trip theorems (C09_reparse_of_rendering_is_identity)?
    fres = drv.pbatch(["frag|%s|%s" % (cstr[k], enc(d)) for k, d in cases])
    infrag = {}
    for (k, d), fr in zip(cases, fres):
        ctx.hist("fragment:" + {"IN": "in", "OUT": "out"}.get(fr, "not-a-declaration"))
        infrag[(k, d)] = fr == "IN"
    nb = 0
    for (k, d), m in zip(cases, mres):
        a = parse(k, d)
        ctx.count(1, ("render", k, d) if a is not None else None)
        if a is None or type(a).__name__ != "Declaration":
            ctx.hist("render:" + ("rejected" if a is None else "other-statement"))
            if (a is None) != (not m.startswith("OK|")):
                nb += 1
                ctx.broken.append(("correspondence", "Decl.parse_statement", "scope=%s decl=%r impl=%s model=%s" % (k, d, a, m[:200])))
            continue
        ctx.hist("render:declaration")
        # the name Shroud records is an identifier of the text (a whole token, not a piece of one)
        try:
            rn = a.get_name(use_attr=False)
        except Exception:
            rn = None
        if rn and not re.search(r"(?<![A-Za-z0-9_])%s(?![A-Za-z0-9_])" % re.escape(rn), d):
            ctx.violation("failing-input", {"what": "the name recorded for the declaration is not an identifier of its text (a token was split)",
                                            "input": {"scope": k, "decl": d, "recorded_name": rn, "rendering": a.gen_decl()}})
        parts = m.split("|")
        itext = a.gen_decl()
        mtext = vlib.dec(parts[2]) if len(parts) > 2 and parts[0] == "OK" else "<%s>" % m[:80]
        if itext != mtext:
            nb += 1
            ctx.broken.append(("correspondence", "Render.render_decl", "scope=%s decl=%r impl=%r model=%r" % (k, d, itext, mtext)))
            if nb <= 2:
                ctx.say("DISAGREE render scope=%s decl=%r\n impl =%r\n model=%r" % (k, d, itext, mtext))
            continue
        # round trip on the implementation (declarations without default values)
        if has_default(a):
            ctx.hist("roundtrip:skipped-default-value")
            continue
        b = parse(k, itext)
        ctx.hist("roundtrip:" + ("ok" if b is not None and canon(a) == canon(b) else "differs"))
        if b is None and k.startswith("class:") and re.search(r"\b(?:\w+::)*%s \(" % re.escape(k.split(":", 1)[1]), itext) and ctx.is_known(KF_CTORLIKE):
            ctx.known_finding(KF_CTORLIKE, "")
            continue
        if b is None or canon(a) != canon(b):
            ctx.violation("failing-input", {"what": "re-parsing Shroud's own rendering does not give the same declaration"
                                                    + (" (inside the fragment of theorem C09_reparse_of_rendering_is_identity)" if infrag.get((k, d)) else ""),
                                            "input": {"scope": k, "decl": d, "rendering": itext,
                                                      "first": canon(a)[:600], "second": (canon(b)[:600] if b is not None else "rejected")}})
    ctx.sample({"decl": cases[0][1], "model": mres[0][:300]})

    # ---------------- 2. the compiler as reference
    glob = ctxs["global"]
    nv = 1200 if quick else 20000
    ccases, ncases = [], []
    seen = set()
    while len(ccases) < nv:
        isfun = rng.random() < 0.3
        d, native = gen_fun(rng, "v") if isfun else gen_var(rng, "v")
        if d in seen:
            continue
        seen.add(d)
        a = parse("global", d)
        if a is None or type(a).__name__ != "Declaration":
            ctx.hist("compile:shroud-rejects")
            ccases.append(None)
            if len([c for c in ccases if c is None]) > nv:
                break
            continue
        rend = {"gen_decl": a.gen_decl(name="w", attrs=False)}
        if not ("std::vector" in d and (isfun or "(" in d)):
            # gen_arg_as_lang deliberately writes a std::vector<T> PARAMETER as its documented C counterpart T (see its docstring)
            rend["gen_arg_as_cxx"] = a.gen_arg_as_cxx(name="w", with_template_args=True)
        asserts = []
        if not isfun and not (a.declarator and a.declarator.func):
            asserts = ["static_assert(shape<decltype(v)>::depth == %d, \"recorded pointer depth %d\");" % (a.is_pointer(), a.is_pointer()),
                       "static_assert(shape<decltype(v)>::isref == %s, \"recorded reference\");" % ("true" if a.is_reference() else "false"),
                       "static_assert(shape<decltype(v)>::base_const == %s, \"recorded const\");" % ("true" if a.const else "false"),
                       "static_assert(shape<decltype(v)>::base_volatile == %s, \"recorded volatile\");" % ("true" if a.volatile else "false")]
        ccases.append({"orig": d, "rend": rend, "asserts": asserts, "native": native, "c": a.gen_arg_as_c(name="w")})
    ccases = [c for c in ccases if c]
    for c, kind, msg in compile_cases(ctx, ccases, "cxx"):
        if kind == "original-not-c++":
            ctx.hist("compile:accepted-but-not-c++")
            if "&&" in c["orig"].replace(" ", "") or "& &" in c["orig"]:
                pass
            continue
        key = KF_RVALUE if "&&" in c["orig"].replace(" ", "") else None
        if key and ctx.is_known(key):
            ctx.known_finding(key, "")
            continue
        ctx.violation("failing-input", {"what": "the compiler derives a different type / structure from the declaration than Shroud records or renders",
                                        "input": {"decl": c["orig"], "renderings": c["rend"], "asserts": c["asserts"]}, "compiler_output": msg})
    for c in ccases:
        ctx.count(1, ("cc", c["orig"]))
    ctx.hist("compile:cases", len(ccases))
    # C rendering of native declarations
    nat = [c for c in ccases if c["native"] and "&&" not in c["orig"].replace(" ", "")]
    d = os.path.join(ctx.bdir, "cc_c")
    os.makedirs(d, exist_ok=True)

    def cunit(i, c):
        o = c["orig"].replace("&", "*")
        o = re.sub(r"\bv\b", "v%d" % i, o)
        w = re.sub(r"\bw\b", "w%d" % i, c["c"])
        return "extern %s;\nextern %s;\n_Static_assert(__builtin_types_compatible_p(__typeof__(v%d), __typeof__(w%d)), \"c rendering differs\");" % (o, w, i, i)
    p = os.path.join(d, "all.c")
    open(p, "w").write("#include <stddef.h>\n#include <stdint.h>\n" + "\n".join(cunit(i, c) for i, c in enumerate(nat)) + "\n")
    rc, err = run_gxx(["gcc", "-std=c99", "-fsyntax-only", "-w", p], d)
    if rc != 0:
        for i, c in enumerate(nat):
            pi = os.path.join(d, "one.c")
            open(pi, "w").write("#include <stddef.h>\n#include <stdint.h>\n" + cunit(i, c) + "\n")
            rc1, err1 = run_gxx(["gcc", "-std=c99", "-fsyntax-only", "-w", pi], d)
            if rc1 != 0:
                ctx.violation("failing-input", {"what": "the C rendering does not denote the documented C counterpart of the declaration",
                                                "input": {"decl": c["orig"], "c_rendering": c["c"]}, "compiler_output": err1[-600:]})
    ctx.hist("compile:c-native-cases", len(nat))
    ctx.traces += len(ccases)


def replay(path):
    d = json.load(open(path))
    print(json.dumps(d, indent=1)[:5000])
    return 1
