"""C11 — enumeration constants keep their C++ values in C and Fortran.

Theorems: coq/Properties/C11.v over Model/Lexer.v, Model/Expr.v, Model/Enum.v.
Tie: correspondence of tokenize / check_expr / enum parsing / print_node / the EnumNode value loop
(extracted model vs /repo), on random enum declarations and expressions.
Search / validation of the specification side: the same enums compiled with g++ (original),
gcc (generated C header) and gfortran (generated module); values compared.
"""
import json
import os
import re

import vlib
from vlib import enc, dec

KF_OCTAL = "enum-octal-literal"


# ----------------------------------------------------------------- generators
def gen_expr(rng, names, depth, weird):
    r = rng.random()
    if depth <= 0 or r < 0.35:
        r2 = rng.random()
        if names and r2 < 0.4:
            return rng.choice(names)
        if weird and r2 < 0.5:
            return rng.choice(["010", "007", "00", "1.5", "2e3", "f(1)", "g()", "0x10", "08"])
        return str(rng.choice([0, 1, 2, 3, 5, 7, 10, 12, 100, 255]))
    if r < 0.65:
        op = rng.choice(["+", "-", "*", "/", "+", "-"])
        sp = rng.choice(["", " ", " "])
        return gen_expr(rng, names, depth - 1, weird) + sp + op + sp + gen_expr(rng, names, depth - 1, weird)
    if r < 0.8:
        return "(" + gen_expr(rng, names, depth - 1, weird) + ")"
    return rng.choice(["-", "+", "-", "- "]) + gen_expr(rng, names, depth - 1, weird)


def gen_enum(rng, idx, weird=False):
    n = rng.randint(1, 7)
    scope = rng.choice(["", "", "class ", "struct "])
    names = []
    ms = []
    for j in range(n):
        nm = "%s%d_%d" % (rng.choice(["RED", "m", "Val", "x"]), idx, j)
        if rng.random() < 0.55:
            ms.append(nm)
        else:
            ms.append(nm + " = " + gen_expr(rng, names, rng.choice([0, 1, 2, 3]), weird))
        names.append(nm)
    return "enum %sE%d { %s }%s" % (scope, idx, ", ".join(ms), rng.choice([";", "", " ;"])), names


# directed enumerations (run first): every value depends on how the expression is grouped, so that printing an expression with
# a parenthesis dropped, an operator changed or operands swapped changes a value the compilers compute
DIRECTED = [
    ("enum Layout { L_UNIT = 2, L_ROW = 3, L_TOTAL = 48, L_PER = L_TOTAL / (L_UNIT * L_ROW), L_NEXT, "
     "L_RATIO = L_TOTAL / (L_ROW / L_UNIT), L_SCALE = L_UNIT * (L_ROW / L_UNIT), L_LAST };",
     ["L_UNIT", "L_ROW", "L_TOTAL", "L_PER", "L_NEXT", "L_RATIO", "L_SCALE", "L_LAST"]),
    ("enum class Tile { W = 5, H = 4, AREA = 100 / (W * H), MORE, DIFF = 100 - (W - H), NEG = -(W - H) * 2, SUM = (W + H) * (W - H), "
     "MIX = 100 - W * H / (H - 2), AFTER };", ["W", "H", "AREA", "MORE", "DIFF", "NEG", "SUM", "MIX", "AFTER"]),
    ("enum Deep { D_A = 7, D_B = 2, D_C = ((D_A - D_B) - (D_B - D_A)), D_D = D_A - (D_B - (D_A - D_B)), D_E = 100 / (D_A / D_B) / D_B, "
     "D_F = 100 / ((D_A / D_B) / D_B + 1), D_G = +D_A - -D_B, D_H };", ["D_A", "D_B", "D_C", "D_D", "D_E", "D_F", "D_G", "D_H"]),
    # a sign applies to the next primary only: what follows the signed operand belongs to the enclosing expression
    ("enum Level { LOW = 3, MID = 2 * -LOW + 1, HIGH, TOP = 10 - -LOW - 1, LAST, SGN = -LOW * 2 - 1, PLS = 7 - +LOW * 2, "
     "NST = 100 / -(LOW - 8) + 1, END };", ["LOW", "MID", "HIGH", "TOP", "LAST", "SGN", "PLS", "NST", "END"]),
    # an explicit zero (and an explicit value equal to the implicit one) after other values: "= 0" is a value like any other
    ("enum Zero { Z_HIGH = 5, Z_NONE = 0, Z_LOW, Z_MID, Z_SAME = 3, Z_NEG = -3, Z_ZERO2 = 0, Z_ONE, Z_EXPR = Z_ONE - 1, Z_LAST };",
     ["Z_HIGH", "Z_NONE", "Z_LOW", "Z_MID", "Z_SAME", "Z_NEG", "Z_ZERO2", "Z_ONE", "Z_EXPR", "Z_LAST"]),
    # integer division truncates toward zero (C++ [expr.mul]): negative inexact quotients of literals and of members
    ("enum Trunc { T_LOW = -7/2, T_MID, T_HIGH = (3-10)/2, T_TOP = 7/-2, T_PEAK, T_POS = 7/2, T_MIX = -7/2*2, T_SUB = 1-7/2, "
     "T_SEVEN = 7, T_MEM = -T_SEVEN/2, T_MEM2 = (1-T_SEVEN)/4, T_LAST };",
     ["T_LOW", "T_MID", "T_HIGH", "T_TOP", "T_PEAK", "T_POS", "T_MIX", "T_SUB", "T_SEVEN", "T_MEM", "T_MEM2", "T_LAST"]),
    ("enum class Step { FLAT = -1/2, UP, BACK = -3/2, FWD };", ["FLAT", "UP", "BACK", "FWD"]),
    # two scoped enumerations of ONE scope that share member names: a name in a value expression is the enumeration's own member
    ("enum class Small { LO = 1, HI = LO + 2, TOP };", ["LO", "HI", "TOP"]),
    ("enum class Large { LO = 100, HI = LO * 2, TOP, NEG = -LO, AFTER };", ["LO", "HI", "TOP", "NEG", "AFTER"]),
]


def gen_tokens_text(rng):
    alpha = ["a", "int", "const", "1", "12", "1.", ".5", "1e5", "1.5e-3", "e", "E", "+", "-", "*", "/", "(", ")", "::", ":", "...",
             "..", ".", "\"s\"", "'c'", "\"", "<", ">", "&", "~", "[", "]", "{", "}", ",", ";", "=", " ", "\t", "\n", "@", "#", "class",
             "enum", "struct", "_x9", "static", "unsigned", "volatile", "typename", "0x1F", "\r", "$"]
    return "".join(rng.choice(alpha) + rng.choice(["", "", " "]) for _ in range(rng.randint(0, 12)))


# ----------------------------------------------------------------- implementation side
def sexp(node, declast):
    t = type(node).__name__
    if t == "Identifier":
        if node.args is None:
            return "(id %s)" % enc(node.name)
        return "(call %s%s)" % (enc(node.name), "".join(" " + sexp(a, declast) for a in node.args))
    if t == "Constant":
        return "(const %s)" % enc(node.value)
    if t == "BinaryOp":
        return "(bin %s %s %s)" % (sexp(node.left, declast), enc(node.op), sexp(node.right, declast))
    if t == "UnaryOp":
        return "(un %s %s)" % (enc(node.op), sexp(node.node, declast))
    if t == "ParenExpr":
        return "(paren %s)" % sexp(node.node, declast)
    return "(?%s)" % t


def guard(f):
    try:
        return f()
    except RuntimeError:
        return "REJECT|" + enc("Parse Error")
    except RecursionError:
        return "FUEL|"
    except Exception as e:
        return "CRASH|" + type(e).__name__


def impl_tok(declast, s):
    return ";".join("%s:%s" % (t.typ, enc(t.value)) for t in declast.tokenize(s))


def impl_expr(declast, s):
    return guard(lambda: "OK|" + sexp(declast.check_expr(s), declast))


def impl_printexpr(declast, todict, s):
    return guard(lambda: "OK|" + enc(todict.print_node(declast.check_expr(s))))


def impl_enum(declast, s):
    def f():
        a = declast.check_decl(s)
        return "OK|%s|%s|%s" % (enc(a.name), "-" if a.scope is None else enc(a.scope),
                                ";".join(enc(m.name) + "=" + ("-" if m.value is None else sexp(m.value, declast)) for m in a.members))
    return guard(f)


def impl_derive(ast_mod, decl):
    """Build a library holding the enum, return (members string, csym, fsym) from EnumNode._fmtmembers."""
    lib = ast_mod.create_library_from_dictionary({"library": "enu", "declarations": [{"decl": decl}]})
    node = lib.wrap_namespace.enums[0]
    out = []
    cs, fs = [], []
    for m in node.ast.members:
        fmt = node._fmtmembers[m.name]
        c = "C" + enc(str(fmt.C_value)) if fmt.inlocal("C_value") else "-"
        out.append("%s=%s=%s" % (enc(m.name), c, enc(str(fmt.F_value))))
        cs.append(enc(m.name) + "=" + enc(fmt.C_enum_member))
        fs.append(enc(m.name) + "=" + enc(fmt.F_enum_member))
    return ";".join(out), ",".join(cs), ",".join(fs)


# ----------------------------------------------------------------- compile-and-compare oracle
def compile_values(ctx, decls, tag):
    """decls: list of (decl text, member names). Returns per-enum dict with values seen by g++ / gcc / gfortran."""
    import corpus
    import yaml
    d = os.path.join(ctx.bdir, "cc", tag)
    os.makedirs(d, exist_ok=True)
    lib = {"library": "enu", "cxx_header": "enu.hpp", "options": {"wrap_python": False, "wrap_lua": False},
           "declarations": [{"decl": t} for t, _ in decls]}
    yp = os.path.join(d, "enu.yaml")
    yaml.safe_dump(lib, open(yp, "w"))
    od = os.path.join(d, "out")
    rc, out = corpus.run_shroud(yp, od)
    if rc != 0:
        return {"error": "shroud: " + out[-800:]}
    # original, by g++
    res = {}
    cpp = ["#include <cstdio>"]
    for t, _ in decls:
        cpp.append(t.rstrip().rstrip(";").rstrip() + ";")
    cpp.append("int main(){")
    for i, (t, names) in enumerate(decls):
        scoped = re.match(r"enum\s+(class|struct)\s+(\w+)", t)
        for n in names:
            q = (scoped.group(2) + "::" + n) if scoped else n
            cpp.append('std::printf("%d %s %%ld\\n", (long) %s);' % (i, n, q))
    cpp.append("return 0;}")
    open(os.path.join(d, "orig.cpp"), "w").write("\n".join(cpp))
    rc, o = vlib.sh(["g++", "-std=c++11", "-w", "orig.cpp", "-o", "orig"], cwd=d, timeout=120)
    if rc != 0:
        return {"error": "g++ rejects the original declaration: " + o[-500:], "not_cxx": True}
    rc, o = vlib.sh(["./orig"], cwd=d)
    cxx = {}
    for line in o.split("\n"):
        p = line.split()
        if len(p) == 3:
            cxx[(int(p[0]), p[1])] = int(p[2])
    # generated C header, by gcc: find member names through Shroud's own naming
    vlib.import_shroud()
    hdr = open(os.path.join(od, "wrapenu.h")).read()
    cnames = {}
    fnames = {}
    from shroud import ast as sast
    for i, (t, names) in enumerate(decls):
        lb = sast.create_library_from_dictionary({"library": "enu", "declarations": [{"decl": t}]})
        node = lb.wrap_namespace.enums[0]
        for n in names:
            cnames[(i, n)] = node._fmtmembers[n].C_enum_member
            fnames[(i, n)] = node._fmtmembers[n].F_enum_member
    c = ['#include <stdio.h>', '#include "wrapenu.h"', "int main(void){"]
    for (i, n), cn in cnames.items():
        c.append('printf("%d %s %%ld\\n", (long) %s);' % (i, n, cn))
    c.append("return 0;}")
    open(os.path.join(d, "gen.c"), "w").write("\n".join(c))
    rc, o = vlib.sh(["gcc", "-w", "-I", od, "gen.c", "-o", "genc"], cwd=d, timeout=120)
    if rc != 0:
        return {"error": "gcc rejects the generated C header: " + o[-600:], "header": hdr[-1500:]}
    rc, o = vlib.sh(["./genc"], cwd=d)
    cv = {}
    for line in o.split("\n"):
        p = line.split()
        if len(p) == 3:
            cv[(int(p[0]), p[1])] = int(p[2])
    f = ["program p", "use enu_mod", "implicit none"]
    for (i, n), fn in fnames.items():
        f.append('print "(I0,1X,A,1X,I0)", %d, "%s", %s' % (i, n, fn))
    f.append("end program p")
    open(os.path.join(d, "gen.f90"), "w").write("\n".join(f))
    rc, o = vlib.sh(["gfortran", "-w", "-ffree-form", "-ffree-line-length-none", os.path.join(od, "wrapfenu.f"), "gen.f90", "-o", "genf"], cwd=d, timeout=120)
    if rc != 0:
        return {"error": "gfortran rejects the generated module: " + o[-600:], "module": open(os.path.join(od, "wrapfenu.f")).read()[-1500:]}
    rc, o = vlib.sh(["./genf"], cwd=d)
    fv = {}
    for line in o.split("\n"):
        p = line.split()
        if len(p) == 3:
            fv[(int(p[0]), p[1])] = int(p[2])
    return {"cxx": cxx, "c": cv, "f": fv}


def oracle_batch(ctx, decls, tag):
    """Compile a batch; on a failure or mismatch isolate the offending enum. Returns list of failure dicts."""
    r = compile_values(ctx, decls, tag)
    fails = []
    if "error" in r:
        if r.get("not_cxx") and len(decls) == 1:
            return []      # not a C++ enumeration: out of the property's scope
        if len(decls) == 1:
            return [{"decl": decls[0][0], "what": r["error"], "detail": r.get("header") or r.get("module")}]
        h = len(decls) // 2
        return oracle_batch(ctx, decls[:h], tag + "a") + oracle_batch(ctx, decls[h:], tag + "b")
    for key, v in r["cxx"].items():
        if r["c"].get(key) != v or r["f"].get(key) != v:
            fails.append({"decl": decls[key[0]][0], "member": key[1], "cxx": v, "c": r["c"].get(key), "fortran": r["f"].get(key),
                          "what": "enumerator value differs from the C++ value"})
    ctx.traces += 1
    return fails


def classify(f):
    """octal literal class: the declaration holds an integer literal with a leading 0 (other than 0 itself)."""
    if re.search(r"(?<![\w.])0[0-7]+(?![\w.])", f["decl"]) and "rejects" not in f.get("what", ""):
        return KF_OCTAL
    return None


# ----------------------------------------------------------------- main
def run(ctx):
    ctx.rules.append("random enum declarations (1-7 members, implicit/explicit values, expressions over + - * / parens unary signs, "
                     "integer literals, references to earlier members, plain/class/struct) + random token soups; weird stream adds "
                     "octal-looking/real/call constants. non-trivial = distinct declaration with >=1 explicit value")
    ctx.assume += ["the reading of emitted text by C and Fortran compilers (print/parse round trip, precedence) is validated by compiling "
                   "(g++/gcc/gfortran), it is not a theorem in this round",
                   "integer overflow / underlying type of enumerations not modelled (unbounded Z)"]
    ctx.hygiene()
    ctx.static_build()
    ctx.prove(os.path.join(vlib.COQ, "Properties", "C11.v"))
    drv = ctx.driver()
    vlib.import_shroud()
    from shroud import declast, todict, ast as sast, typemap
    typemap.initialize()
    quick = ctx.tier == "quick"

    def cmp(label, cases, mk, impl):
        mres = drv.pbatch([mk(c) for c in cases])
        nb = 0
        for c, m in zip(cases, mres):
            i = impl(c)
            ctx.count(1, (label, c) if ("=" in c or label != "enum") else None)
            ctx.hist(label + ":" + i.split("|")[0][:6])
            if i != m:
                nb += 1
                ctx.broken.append(("correspondence", label, "input=%r impl=%s model=%s" % (c, i[:600], m[:600])))
                if nb <= 2:
                    ctx.say("DISAGREE %s input=%r\n impl =%s\n model=%s" % (label, c, i[:500], m[:500]))
        return nb

    n = 3000 if quick else 40000
    toks = [gen_tokens_text(ctx.rng) for _ in range(n)]
    cmp("Lexer.tokenize", toks, lambda s: "tok|" + enc(s), lambda s: impl_tok(declast, s))
    exprs = [gen_expr(ctx.rng, ["a", "b1", "RED"], ctx.rng.choice([1, 2, 3, 4]), ctx.rng.random() < 0.3) for _ in range(n)] + \
            [gen_tokens_text(ctx.rng) for _ in range(n // 3)]
    cmp("Expr.check_expr", exprs, lambda s: "expr|" + enc(s), lambda s: impl_expr(declast, s))
    cmp("Expr.print_expr", exprs, lambda s: "printexpr|" + enc(s), lambda s: impl_printexpr(declast, todict, s))
    # how many of the accepted expressions meet the hypotheses of C11_printed_expression_reparses; and on the IMPLEMENTATION the
    # theorem's conclusion: re-reading the printed text of such an expression gives the same tree
    cres = drv.pbatch(["ecanon|" + enc(s) for s in exprs])
    for s_, c_ in zip(exprs, cres):
        ctx.hist("reparse-theorem:" + {"IN": "in", "OUT": "out", "NA": "rejected"}.get(c_, c_))
        if c_.startswith("IN-BUT"):
            ctx.broken.append(("proof", "C11_printed_expression_reparses-vs-model", "%r: %s" % (s_, c_)))
        if c_ == "IN":
            i1 = impl_printexpr(declast, todict, s_)
            if i1.startswith("OK|"):
                t1 = vlib.dec(i1[3:])
                a1, a2 = impl_expr(declast, s_), impl_expr(declast, t1)
                ctx.count(1, ("reparse", s_))
                if a1 != a2:
                    ctx.violation("failing-input", {"what": "re-reading the text Shroud prints for an expression does not give the same expression "
                                                            "(inside the canonical form of theorem C11_printed_expression_reparses)",
                                                    "input": {"expression": s_, "printed": t1, "first": a1[:300], "second": a2[:300]}})
    enums = DIRECTED + [gen_enum(ctx.rng, i, weird=(i % 4 == 0)) for i in range(n)]
    # only texts whose first token is the enum keyword: other declarations belong to the Decl model (C09/C17)
    etxt = [e[0] for e in enums] + ["enum " + gen_tokens_text(ctx.rng) for _ in range(n // 3)]
    cmp("Expr.parse_enum", etxt, lambda s: "enum|" + enc(s), lambda s: impl_enum(declast, s))
    # value loop
    good = [e for e in enums if impl_enum(declast, e[0]).startswith("OK|")]
    dl = []
    di = []
    for e in good:
        try:
            ms, cs, fs = impl_derive(sast, e[0])
        except Exception as ex:
            ctx.broken.append(("correspondence", "Enum.derive", "decl=%r raised %r" % (e[0], ex)))
            continue
        dl.append("derive|%s|%s|%s" % (enc(e[0]), cs, fs))
        di.append((e, ms))
    mres = drv.pbatch(dl)
    model_mismatch = []     # model says Shroud's value != C++ value (property violated in the model)
    for (e, ms), m in zip(di, mres):
        ctx.count(1, ("derive", e[0]))
        body, _, cxxv = m[3:].rpartition("|")
        if m.startswith("OK|") and body != ms or not m.startswith("OK|"):
            ctx.broken.append(("correspondence", "Enum.derive", "decl=%r impl=%s model=%s" % (e[0], ms, m)))
            model_mismatch.append(e)
    ctx.sample({"enum": enums[1][0], "impl_values": impl_derive(sast, enums[1][0])[0] if impl_enum(declast, enums[1][0]).startswith("OK") else None})
    ctx.sample({"expr": exprs[0], "impl": impl_expr(declast, exprs[0])})

    # ---- compile-and-compare oracle on the implementation (spec validation + failing-input search)
    nb = 24 if quick else 400
    pool = []
    k = 0
    while len(pool) < nb and k < len(good):
        e = good[k]
        k += 1
        if re.search(r"\d\.\d|\de\d|\w\(|0x|08", e[0]):
            continue      # not integral constant expressions in C++ (out of scope)
        pool.append(e)
    # the enumerations on which implementation and model disagree go first: the compiler decides which of them is wrong
    pool = [e for e in model_mismatch if not re.search(r"\d\.\d|\de\d|\w\(|0x|08", e[0])][:12] + pool
    # fixed regression inputs: the refutation witnesses
    pool += [("enum W0 { W0a = 1 - -1, W0b };", ["W0a", "W0b"]), ("enum W1 { W1a = 010, W1b };", ["W1a", "W1b"]),
             ("enum W2 { W2a = 3, W2b = 2*-W2a, W2c };", ["W2a", "W2b", "W2c"]), ("enum W3 { W3a = - -2 };", ["W3a"]),
             ("enum W4 { W4a = 7, W4b = -W4a/2, W4c };", ["W4a", "W4b", "W4c"])]
    # unique enum names are required inside one library
    fails = []
    for bi in range(0, len(pool), 12):
        fails += oracle_batch(ctx, pool[bi:bi + 12], "b%d" % bi)
    for f in fails:
        ctx.count(1, ("cc", f["decl"]))
        kf = classify(f)
        if kf and ctx.is_known(kf):
            ctx.known_finding(kf, "")
            continue
        ctx.violation("failing-input", {"what": f["what"], "input": f})
    ctx.extra["compiled_enums"] = len(pool)


def replay(path):
    d = json.load(open(path))
    print(json.dumps(d, indent=1)[:4000])
    inp = d.get("input", {})
    if "decl" in inp:
        ctx = vlib.Ctx("C11r", "quick", 1)
        names = re.findall(r"(\w+)\s*(?:=[^,}]*)?[,}]", inp["decl"].split("{", 1)[1])
        r = oracle_batch(ctx, [(inp["decl"], names)], "replay")
        print("oracle:", r or "values agree")
        return 1 if r else 0
    return 1
