"""C10 — character data crosses the language boundary by the documented rules.

Theorems: coq/Properties/C10.v (helper model) + dyn/C10_tables.v (regenerated call-site table).
Tie: (1) the call-site table is regenerated from /repo/shroud/statements.py for c and c++ on every run;
(2) the helper C text is pulled out of whelpers.CHelpers at run time (c_source and cxx_source),
compiled with gcc / g++ under ASan+UBSan and run on exhaustive small (content, length, capacity)
cases against the extracted model.
"""
import itertools
import json
import os
import re
import shutil

import vlib
from vlib import enc

HARNESS = r'''
#include <stdio.h>
#include <stdlib.h>
#include <string.h>
#ifdef __cplusplus
extern "C"
#endif
size_t __sanitizer_get_allocated_size(const volatile void *p);   /* AddressSanitizer runtime: the size that was requested */
%(includes)s
%(helpers)s

static int hexval(int c) { return c <= '9' ? c - '0' : c - 'a' + 10; }
/* hex string -> exact-size heap buffer (ASan red zones on both sides); "-" = NULL */
static char *buf_of_hex(const char *h, int *n) {
    if (h[0] == '-') { *n = 0; return NULL; }
    if (h[0] == '=') { *n = 0; return (char *) malloc(0 + 1 - 1 + 1); }
    int len = (int) strlen(h) / 2;
    char *b = (char *) malloc(len ? len : 1);
    for (int i = 0; i < len; i++) b[i] = (char) (hexval(h[2*i]) * 16 + hexval(h[2*i+1]));
    *n = len;
    return b;
}
static void put_hex(const char *b, int n) {
    for (int i = 0; i < n; i++) printf("%%02x", (unsigned char) b[i]);
}
int main(void) {
    static char line[1 << 16];
    while (fgets(line, sizeof line, stdin)) {
        char cmd[8], a[8192], b[8192];
        int i1, i2, na, nb;
        if (sscanf(line, "%%7s", cmd) != 1) continue;
        if (!strcmp(cmd, "lt")) {
            sscanf(line, "%%*s %%8191s %%d", a, &i1);
            char *s = buf_of_hex(a, &na);
            printf("%%d\n", ShroudLenTrim(s, i1));
            free(s);
        } else if (!strcmp(cmd, "cp")) {
            sscanf(line, "%%*s %%8191s %%d %%8191s %%d", a, &i1, b, &i2);
            char *d = buf_of_hex(a, &na); char *s = buf_of_hex(b, &nb);
            ShroudStrCopy(d, i1, s, i2);
            put_hex(d, na); printf("\n");
            free(d); free(s);
        } else if (!strcmp(cmd, "bf")) {
            sscanf(line, "%%*s %%8191s %%d", a, &i1);
            char *d = buf_of_hex(a, &na);
            ShroudStrBlankFill(d, i1);
            put_hex(d, na); printf("\n");
            free(d);
        } else if (!strcmp(cmd, "al")) {
            sscanf(line, "%%*s %%8191s %%d %%d", a, &i1, &i2);
            char *s = buf_of_hex(a, &na);
            char *r = ShroudStrAlloc(s, i1, i2);
            /* the text C receives, and the room the C function has for its result (intent(inout) arguments write into this block) */
            put_hex(r, (int) strlen(r) + 1); printf(":%%d\n", (int) __sanitizer_get_allocated_size(r));
            ShroudStrFree(r); free(s);
        } else if (!strcmp(cmd, "aa")) {
            sscanf(line, "%%*s %%8191s %%d %%d", a, &i1, &i2);
            char *s = buf_of_hex(a, &na);
            char **r = ShroudStrArrayAlloc(s, i1, i2);
            for (int i = 0; i < i1; i++) { if (i) printf(","); put_hex(r[i], (int) strlen(r[i]) + 1); }
            printf("\n");
            ShroudStrArrayFree(r, i1); free(s);
        }
        fflush(stdout);
    }
    return 0;
}
'''

NAMES = ["ShroudLenTrim", "ShroudStrCopy", "ShroudStrBlankFill", "ShroudStrAlloc", "ShroudStrFree",
         "ShroudStrArrayAlloc", "ShroudStrArrayFree"]


def build_harness(ctx, lang):
    """Write and compile the harness around the helper text of the current tree. Returns exe path."""
    vlib.import_shroud()
    from shroud import whelpers
    incs, srcs = [], []
    for n in NAMES:
        h = whelpers.CHelpers[n]
        key = "c" if lang == "c" else "cxx"
        inc = h.get(key + "_include", h.get("include", []))
        src = h.get(key + "_source", h.get("source"))
        if src is None:
            raise RuntimeError("helper %s has no source for %s" % (n, lang))
        for i in inc:
            if i not in incs:
                incs.append(i)
        srcs.append(src)
    code = HARNESS % {"includes": "\n".join("#include " + i for i in incs), "helpers": "\n".join(srcs)}
    ext = ".c" if lang == "c" else ".cpp"
    src = os.path.join(ctx.bdir, "strh_" + lang.replace("+", "x") + ext)
    open(src, "w").write(code)
    exe = src + ".exe"
    cc = ["gcc", "-std=c99"] if lang == "c" else ["g++", "-std=c++11"]
    rc, out = vlib.sh(cc + ["-g", "-O1", "-fsanitize=address,undefined", "-fno-sanitize-recover=all", "-w", src, "-o", exe], timeout=300)
    if rc != 0:
        return None, out
    return exe, ""


def hx(bs):
    return "".join("%02x" % b for b in bs) if bs else "="


def enc_bytes(bs):
    return " ".join(str(b) for b in bs)


def gen_cases(tier):
    """(c_line, model_line, kind) with all buffers inside the preconditions decided by the model later."""
    N = 5 if tier == "quick" else 7
    A = [97, 32, 0]
    cases = []
    contents = [list(t) for n in range(0, N + 1) for t in itertools.product(A, repeat=n)] if N <= 5 else \
               [list(t) for n in range(0, 6) for t in itertools.product(A, repeat=n)] + \
               [list(t) for n in (6, 7) for t in itertools.product([97, 32], repeat=n)] + \
               [list(t) + [0] for n in (5, 6) for t in itertools.product([97, 32], repeat=n)]
    for src in contents:
        if 0 not in src:
            for nsrc in range(0, len(src) + 2):
                cases.append(("lt %s %d" % (hx(src), nsrc), "lt|%s|%d" % (enc_bytes(src), nsrc), "len_trim"))
                for ntrim in range(-1, nsrc + 2):
                    cases.append(("al %s %d %d" % (hx(src), nsrc, ntrim), "al|%s|%d|%d" % (enc_bytes(src), nsrc, ntrim), "str_alloc"))
            for ln in range(1, 4):
                if len(src) % ln == 0:
                    k = len(src) // ln
                    cases.append(("aa %s %d %d" % (hx(src), k, ln), "aa|%s|%d|%d" % (enc_bytes(src), k, ln), "str_array_alloc"))
        for cap in range(0, N + 1):
            dest = [120] * cap
            for ndest in range(0, cap + 2):
                for nsrc in [-1] + list(range(0, len(src) + 2)):
                    cases.append(("cp %s %d %s %d" % (hx(dest), ndest, hx(src), nsrc),
                                  "cp|%s|%d|%s|%d" % (enc_bytes(dest), ndest, enc_bytes(src), nsrc), "str_copy"))
        for ndest in range(0, len(src) + 2):
            cases.append(("bf %s %d" % (hx(src), ndest), "bf|%s|%d" % (enc_bytes(src), ndest), "blank_fill"))
    for cap in range(0, N + 1):
        for ndest in range(0, cap + 2):
            cases.append(("cp %s %d - 0" % (hx([120] * cap), ndest), "cp|%s|%d|-|0" % (enc_bytes([120] * cap), ndest), "str_copy_null"))
            # a NULL C string with the "length unknown" sentinel (what the char* result statements pass): blank fill, strlen is not called
            cases.append(("cp %s %d - -1" % (hx([120] * cap), ndest), "cp|%s|%d|-|-1" % (enc_bytes([120] * cap), ndest), "str_copy_null"))
    return cases


def model_to_c_format(kind, m):
    ok, body = m.split("|", 1)
    if kind == "len_trim":
        return ok == "1", body
    if kind == "str_array_alloc":
        strs = body.split(";") if body != "" else []
        return ok == "1", ",".join("".join("%02x" % int(x) for x in s.split(" ")) for s in strs)
    bs = [int(x) for x in body.split(" ")] if body else []
    if kind == "str_alloc":
        room = len(bs)
        bs = bs[:bs.index(0) + 1] if 0 in bs else bs
        return ok == "1", "".join("%02x" % b for b in bs) + ":%d" % room
    return ok == "1", "".join("%02x" % b for b in bs)


def run(ctx):
    ctx.rules.append("exhaustive: all buffer contents over {'a',' ',NUL} up to a length bound x all lengths/capacities/trim values "
                     "0..bound+1; cases the model marks out-of-bounds are not executed (undefined behaviour in C). "
                     "non-trivial = distinct in-bounds case executed on the compiled helper text")
    ctx.assume += ["libc (memcpy/memset/strlen/malloc) and the C compiler are trusted",
                   "Fortran-side trim(arg)//C_NULL_CHAR is taken as rtrim ++ NUL by the Fortran standard (not executed)"]
    ctx.hygiene()
    ctx.static_build()
    ctx.prove(os.path.join(vlib.COQ, "Properties", "C10.v"))
    # regenerated table, per language
    for lang in ("c", "c++"):
        gdir = os.path.join(ctx.bdir, "gen_" + lang.replace("+", "x"))
        os.makedirs(gdir, exist_ok=True)
        rc, out = vlib.sh([vlib.PY, os.path.join(vlib.VERIF, "tools", "gen_tables.py"), "charcalls", lang, os.path.join(gdir, "CharCalls.v")])
        if rc != 0:
            ctx.broken.append(("proof", "gen-charcalls-" + lang, out[-1500:]))
            continue
        rc, out = vlib.sh(["coqc", "-R", gdir, "ShroudGen", "CharCalls.v"], cwd=gdir)
        if rc != 0:
            ctx.broken.append(("proof", "gen-charcalls-compile-" + lang, out[-1500:]))
            continue
        shutil.copy(os.path.join(vlib.VERIF, "dyn", "C10_tables.v"), os.path.join(gdir, "C10_tables.v"))
        ok, out = ctx.prove(os.path.join(gdir, "C10_tables.v"), extra_R=[(gdir, "ShroudGen")], name="C10_tables_%s.v" % lang.replace("+", "x"))
        ctx.extra.setdefault("tables", {})[lang] = open(os.path.join(gdir, "CharCalls.v")).read().count("  Call ")
        if not ok:
            # which call site is not admitted?  (the failing input of the table obligation)
            bad = find_bad_calls(gdir)
            for b in bad[:3]:
                ctx.violation("failing-input", {"what": "string-helper call site passes a length the documented rule does not allow",
                                                "language": lang, "input": b})
    drv = ctx.driver()
    cases = gen_cases(ctx.tier)
    mres = drv.pbatch([c[1] for c in cases])
    inb = []
    for c, m in zip(cases, mres):
        ok, exp = model_to_c_format(c[2], m)
        ctx.hist(c[2] + (":in-bounds" if ok else ":model-oob"))
        if ok:
            inb.append((c, exp))
    ctx.exhaustive = True
    for lang in ("c", "c++"):
        exe, err = build_harness(ctx, lang)
        if exe is None:
            ctx.broken.append(("correspondence", "helper-text-compiles-" + lang, err[-2000:]))
            continue
        # run in chunks so that a sanitizer abort identifies the case
        chunks = [inb[i:i + 4000] for i in range(0, len(inb), 4000)]
        from concurrent.futures import ThreadPoolExecutor

        def runchunk(ch):
            import subprocess
            p = subprocess.run([exe], input="\n".join(c[0][0] for c in ch) + "\n", stdout=subprocess.PIPE, stderr=subprocess.PIPE, text=True,
                               env=dict(os.environ, ASAN_OPTIONS="detect_leaks=1:abort_on_error=0", UBSAN_OPTIONS="print_stacktrace=0"))
            return p.returncode, p.stdout.split("\n"), p.stderr
        with ThreadPoolExecutor(vlib.NCPU) as ex:
            results = list(ex.map(runchunk, chunks))
        for ch, (rc, outl, err) in zip(chunks, results):
            for j, (c, exp) in enumerate(ch):
                ctx.count(1, (lang, c[0]))
                got = outl[j] if j < len(outl) else None
                if got is None or (rc != 0 and j >= len(outl) - 1):
                    ctx.violation("failing-input", {"what": "sanitizer report / crash running the helper inside the documented preconditions",
                                                    "language": lang, "input": c[0], "stderr": err[-1500:]})
                    break
                if got != exp:
                    ctx.broken.append(("correspondence", "StrHelpers." + c[2], "lang=%s case=%s C=%s model=%s" % (lang, c[0], got, exp)))
                    o = oracle(c[0], got)
                    if o:
                        ctx.violation("failing-input", {"what": o, "language": lang, "input": c[0], "observed": got})
                    break
            if rc != 0 and not ctx.violations:
                ctx.violation("failing-input", {"what": "sanitizer report running the helpers", "language": lang, "stderr": err[-1500:]})
        ctx.traces += 1
    ctx.sample({"case": inb[len(inb) // 2][0][0], "expected": inb[len(inb) // 2][1]})
    ctx.sample({"case": inb[-1][0][0], "expected": inb[-1][1]})
    copy_string_block(ctx)


CS_HARNESS = r'''
%(includes)s
#include <stdio.h>
#include <stdlib.h>
#include <string.h>
%(helpers)s
static int released = 0;
void %(dtor)s(%(capsule)s *cap) { (void) cap; released++; }
%(copy)s
int main(void) {
    int ns, nd, mask;
    while (scanf("%%d %%d %%d", &ns, &nd, &mask) == 3) {
        /* source of exactly ns bytes (no terminator), destination of exactly nd bytes: the sanitizer sees any access outside */
        char *src = (char *) malloc(ns ? ns : 1); char *dst = (char *) malloc(nd ? nd : 1);
        for (int i = 0; i < ns; i++) src[i] = (mask >> i) & 1 ? ' ' : (char) ('a' + i);
        memset(dst, '#', nd);
        %(array)s data; memset(&data, 0, sizeof data);
        data.addr.ccharp = src; data.elem_len = ns; data.size = 1;
        released = 0;
        %(fn)s(&data, dst, nd);
        printf("%%d:", released);
        for (int i = 0; i < nd; i++) printf("%%02x", (unsigned char) dst[i]);
        printf("\n");
        free(src); free(dst);
    }
    return 0;
}
'''


def copy_string_block(ctx):
    """copy_string (ShroudCopyStringAndFree): the Fortran wrapper of an allocatable character result calls it with the length of
    its freshly allocated variable.  For all source and destination lengths 0..N it copies min(source, destination) characters,
    writes nothing else, reads nothing past the source, puts no NUL into the variable and releases the C++ result once."""
    import subprocess
    vlib.import_shroud()
    from shroud import whelpers, ast as sast
    N = 6 if ctx.tier == "quick" else 9
    for lang in ("c", "c++"):
        lib = sast.create_library_from_dictionary({"library": "x", "language": lang, "declarations": []})
        whelpers.set_library(lib)
        whelpers.add_all_helpers()
        fmt = lib.fmtdict
        key = "c" if lang == "c" else "cxx"
        incs, srcs = [], []

        def add(n):
            h = whelpers.CHelpers[n]
            for d in h.get("dependent_helpers", []) or []:
                add(d)
            for i in h.get(key + "_include", h.get("include", [])) or []:
                if i not in incs:
                    incs.append(i)
            src = h.get(key + "_source", h.get("source"))
            if src:
                # indentation marks of the line writer: a trailing + and a leading - (also the ^ and 0 column marks)
                src = "\n".join(re.sub(r"^[-0^]+(?=[}\w#])", "", ln[:-1] if ln.endswith("+") else ln) for ln in src.split("\n"))
            if src and src not in srcs:
                srcs.append(src)
        add("copy_string")
        copy = srcs.pop()
        code = CS_HARNESS % {"includes": "\n".join("#include " + i for i in incs), "helpers": "\n".join(srcs), "copy": copy,
                             "dtor": fmt.C_memory_dtor_function, "capsule": fmt.C_capsule_data_type, "array": fmt.C_array_type,
                             "fn": fmt.C_prefix + "ShroudCopyStringAndFree"}
        src = os.path.join(ctx.bdir, "cs_" + key + (".c" if lang == "c" else ".cpp"))
        open(src, "w").write(code)
        exe = src + ".exe"
        cc = ["gcc"] if lang == "c" else ["g++"]
        rc, out = vlib.sh(cc + ["-g", "-O1", "-fsanitize=address,undefined", "-fno-sanitize-recover=all", "-w", src, "-o", exe], timeout=300)
        if rc != 0:
            ctx.broken.append(("correspondence", "copy-string-helper-compiles-" + lang, out[-2000:]))
            continue
        cases = [(ns, nd, mask) for ns in range(N + 1) for nd in range(N + 1) for mask in sorted({0, (1 << ns) - 1, 1, (1 << ns) >> 1, 0b10101 & ((1 << ns) - 1)})]
        for (ns, nd, mask) in cases:
            p = subprocess.run([exe], input="%d %d %d\n" % (ns, nd, mask), capture_output=True, text=True,
                               env=dict(os.environ, ASAN_OPTIONS="detect_leaks=1:abort_on_error=0"))
            ctx.count(1, (lang, "copy_string", ns, nd, mask))
            ctx.hist("copy_string:" + ("fits" if ns <= nd else "longer-source"))
            srcb = [32 if (mask >> i) & 1 else 97 + i for i in range(ns)]
            n = min(ns, nd)
            exp = "1:" + "".join("%02x" % b for b in srcb[:n]) + "23" * (nd - n)
            got = p.stdout.strip()
            if p.returncode != 0 or got != exp:
                what = ("sanitizer report: the helper reads or writes outside the lengths it is given" if p.returncode != 0 else
                        "the Fortran variable does not hold min(source, variable) characters of the result and nothing else")
                ctx.violation("failing-input", {"what": "copy_string (ShroudCopyStringAndFree): " + what, "language": lang,
                                                "input": {"source_length": ns, "variable_length": nd, "blank_mask": mask},
                                                "expected": exp, "observed": got, "stderr": p.stderr[-1200:]})
                break


def find_bad_calls(gdir):
    txt = open(os.path.join(gdir, "CharCalls.v")).read()
    import re
    bad = []
    LEN = ("{c_var_len}", "{cfi_prefix}{c_var}->elem_len")
    for m in re.finditer(r'StringCtor "([^"]*)" "([^"]*)" \[(.*)\];?$', txt, flags=re.M):
        a = re.findall(r'"((?:[^"]|"")*)"', m.group(3))
        if a and a[0] == "{c_var}" and ((len(a) == 1 and m.group(1).endswith("_buf")) or (len(a) == 2 and a[1] != "{c_var_trim}")):
            bad.append({"statement": m.group(1), "clause": m.group(2), "args": a,
                        "what": "a std::string is built from the blank-padded Fortran text without its trimmed length (it runs to the next NUL: trailing blanks kept, bytes past the variable read)"})
    for m in re.finditer(r'RawStore "([^"]*)" "([^"]*)" "([^"]*)"', txt):
        if m.group(3) != "0":
            bad.append({"statement": m.group(1), "clause": m.group(2), "what": "stores into the caller's character buffer at index '%s' without a helper that is given "
                        "the buffer's length (a variable without trailing blanks has no room there)" % m.group(3)})
    for m in re.finditer(r'Call "([^"]*)" "([^"]*)" "([^"]*)" \[(.*)\];?$', txt, flags=re.M):
        stmt, clause, h, args = m.groups()
        a = re.findall(r'"((?:[^"]|"")*)"', args)
        ok = True
        if h == "ShroudStrAlloc":
            ok = len(a) == 3 and ((a[1] in LEN and a[2] in ("{c_var_trim}", "-1")) or (a[1] == "{c_var_trim}" and a[2] == "{c_var_trim}"))
        elif h == "ShroudStrCopy":
            ok = len(a) == 4 and a[1] in LEN and (a[3] == "-1" or a[3].endswith("size()") or (a[2] == "{nullptr}" and a[3] == "0"))
        elif h in ("ShroudStrBlankFill", "ShroudLenTrim"):
            ok = len(a) == 2 and a[1] in LEN
        if not ok:
            bad.append({"statement": stmt, "clause": clause, "helper": h, "args": a})
    if "UnknownCall" in txt.split("Definition char_calls")[1]:
        bad.append({"statement": "?", "what": "unparsable helper call"})
    return bad


def oracle(cline, got):
    """Independent statement of the documented rule on the C result. None = rule holds."""
    p = cline.split()
    unhex = lambda h: [] if h in ("=", "-") else [int(h[i:i + 2], 16) for i in range(0, len(h), 2)]
    try:
        if p[0] == "cp":
            dest, ndest, src, nsrc = unhex(p[1]), int(p[2]), (None if p[3] == "-" else unhex(p[3])), int(p[4])
            out = unhex(got) if got else []
            if src is None:
                text = []
            else:
                text = src[:src.index(0)] if nsrc < 0 else src[:nsrc]
            exp = (text + [32] * ndest)[:ndest] + dest[ndest:]
            return None if out == exp else "fixed-length result is not the C text truncated / blank padded to the declared length"
        if p[0] == "al":
            src, nsrc, ntrim = unhex(p[1]), int(p[2]), int(p[3])
            t = src[:nsrc]
            if ntrim == -1:
                while t and t[-1] == 32:
                    t = t[:-1]
            else:
                t = src[:ntrim]
            text, _, room = got.partition(":")
            if unhex(text) != t + [0]:
                return "C does not receive the text without trailing blanks, NUL terminated"
            if int(room or -1) < nsrc + 1:
                return ("the NUL-terminated copy handed to C has room for %s bytes, less than the Fortran variable's length %d plus the NUL: "
                        "a result as long as the variable allows is written outside it" % (room, nsrc))
            return None
        if p[0] == "lt":
            t = unhex(p[1])[:int(p[2])]
            while t and t[-1] == 32:
                t = t[:-1]
            return None if int(got) == len(t) else "trimmed length is wrong"
    except Exception as e:
        return "oracle could not decode result: %r" % (e,)
    return "model and compiled helper disagree"


def replay(path):
    d = json.load(open(path))
    print(json.dumps(d, indent=1)[:4000])
    return 1
