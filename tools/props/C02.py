"""C02 — the generated C API of a C++ library is call-equivalent to the C++ API.

Theorems: coq/Properties/C02.v (a wrapper that passes the check delivers, for ALL argument values, exactly the caller's
values to the callee in declaration order; 'this' is the capsule's object; output strings are copied back) +
dyn/C02_tables.v: translation validation — the argument flow of every C wrapper generated on this run (generated libraries
and regression inputs), extracted from the wrapper sources, passes the check (vm_compute over the regenerated table).
Correspondence / search: each generated library is compiled three ways from /repo's output — a C++ program calling the C++
API directly and a program calling only the generated C API with the same argument values (AddressSanitizer on); the
callee-side trace (what the library received) and the caller-side results must be identical line by line.
"""
import json
import os
import shutil
import subprocess
import sys

import vlib

CORPUS = ["classes", "strings", "pointers-cxx", "namespace", "types", "defaultarg", "templates", "ownership", "generic", "struct-cxx", "scope"]


def build_and_run(ctx, tag, lib):
    """returns dict(status, diffs, missing, detail)"""
    import yaml
    import corpus
    import eqgen
    d = os.path.join(ctx.bdir, "eq", tag)
    shutil.rmtree(d, ignore_errors=True)
    os.makedirs(d)
    yaml.safe_dump(lib["lib"], open(d + "/eq.yaml", "w"), sort_keys=False)
    open(d + "/eq.hpp", "w").write(lib["hpp"])
    open(d + "/eq.cpp", "w").write(lib["cpp"])
    open(d + "/eqshow.cpp", "w").write(eqgen.SHOW_CPP)
    open(d + "/eqshow.h", "w").write(eqgen.SHOW_H)
    rc, out = corpus.run_shroud(d + "/eq.yaml", d)
    if rc != 0:
        return {"status": "shroud-failed", "detail": out[-800:]}
    open(d + "/direct.cpp", "w").write(eqgen.direct_driver(lib))
    protos = eqgen.parse_protos(d)
    src, missing = eqgen.c_driver(lib, protos)
    open(d + "/viac.cpp", "w").write(src)
    gen = sorted(f for f in os.listdir(d) if f.startswith(("wrap", "util")) and f.endswith(".cpp"))
    for exe, main in (("direct", ["direct.cpp"]), ("viac", ["viac.cpp"] + gen)):
        p = subprocess.run(["g++", "-std=c++11", "-g", "-O0", "-fsanitize=address", "-fno-omit-frame-pointer", "-I", d, "-o", exe, "eq.cpp", "eqshow.cpp"] + main,
                           cwd=d, capture_output=True, text=True)
        if p.returncode != 0:
            return {"status": "build-failed:" + exe, "detail": p.stderr[-1500:], "missing": missing}
    env = dict(os.environ, ASAN_OPTIONS="detect_leaks=0")
    o1 = subprocess.run([d + "/direct"], capture_output=True, text=True, env=env, timeout=60)
    o2 = subprocess.run([d + "/viac"], capture_output=True, text=True, env=env, timeout=60)
    a, b = o1.stdout.splitlines(), o2.stdout.splitlines()
    diffs = [(i, x, y) for i, (x, y) in enumerate(zip(a, b)) if x != y]
    st = "ok"
    if o1.returncode != 0:
        st = "direct-crashed"
    elif o2.returncode != 0:
        st = "viac-crashed"
    elif diffs or len(a) != len(b):
        st = "differs"
    res = {"status": st, "diffs": diffs[:4], "missing": missing, "lines": (len(a), len(b)), "detail": (o2.stderr or o1.stderr)[-900:],
           "yaml": open(d + "/eq.yaml").read(), "calls": len(lib["funcs"]) + len(lib.get("specials", {}).get("direct", []))}
    if st == "ok":
        shutil.rmtree(d, ignore_errors=True)
    return res


def run(ctx):
    ctx.rules.append("generated libraries: 8 functions each (global functions, const / non-const / static methods of a class) with 0-4 "
                     "parameters over {native by value (int long double float size_t bool enum), pointer in/out/inout, reference "
                     "inout/out, const std::string&, const char*, std::string& out/inout, array + implied size, class by const reference "
                     "and by pointer} and results {void, int, long, double, bool, enum, std::string, const std::string&, const char*}; "
                     "argument values include 0, +-1, INT_MIN/MAX, beyond-int longs, empty / blank-containing / 15-character strings, "
                     "empty arrays; plus, in every library, functions and a method with trailing default arguments called at every arity, a function "
                     "template with two instantiations, and array results (rank 1 and 2). non-trivial = distinct (library, call)")
    ctx.assume += ["the flow extractor tools/cflow.py (regular expressions over the generated wrapper text) is trusted; statements it does "
                   "not recognise make the wrapper fail the check (fail closed)",
                   "result passing (return value conversions) is covered by the runs, not by a theorem",
                   "g++ 12 with AddressSanitizer executes the generated code; names of the C entry points are C08's concern"]
    ctx.hygiene()
    ctx.static_build()
    ctx.prove(os.path.join(vlib.COQ, "Properties", "C02.v"))
    sys.path.insert(0, os.path.join(vlib.VERIF, "tools"))
    import yaml
    import corpus
    import eqgen
    import cflow
    quick = ctx.tier == "quick"
    rng = ctx.rng
    nlib = 32 if quick else 400
    libs = [eqgen.gen_library(rng, 8) for _ in range(nlib)]
    # ---- translation validation table
    jobs = [{"label": "gen%d" % i, "yaml": yaml.safe_dump(l["lib"], sort_keys=False)} for i, l in enumerate(libs)]
    for (name, y, cmd) in corpus.test_descs():
        if name in CORPUS and not cmd:
            jobs.append({"label": name, "yaml": open(y).read()})
    wd = os.path.join(ctx.bdir, "flow")
    os.makedirs(wd, exist_ok=True)
    from concurrent.futures import ThreadPoolExecutor
    n = vlib.NCPU

    def fjob(i):
        chunk = jobs[i::n]
        if not chunk:
            return []
        jp, rp = os.path.join(wd, "j%d.json" % i), os.path.join(wd, "r%d.json" % i)
        json.dump(chunk, open(jp, "w"))
        p = subprocess.run([vlib.PY, os.path.join(vlib.VERIF, "tools", "runflow.py"), os.path.join(wd, "w%d" % i), jp, rp],
                           env=dict(os.environ, PYTHONPATH=vlib.REPO, PYTHONHASHSEED="0"), capture_output=True, text=True, timeout=3000)
        if not os.path.exists(rp):
            raise RuntimeError("runflow failed: " + p.stderr[-800:])
        return json.load(open(rp))
    with ThreadPoolExecutor(n) as ex:
        rs = list(ex.map(fjob, range(n)))
    fres = [None] * len(jobs)
    for i, r in enumerate(rs):
        for k, x in enumerate(r):
            fres[i + n * k] = x
    rows = []
    for j, r in zip(jobs, fres):
        if r["err"]:
            ctx.broken.append(("correspondence", "shroud-run-" + j["label"], r["err"]))
            continue
        for row in r["rows"]:
            row["lib"] = j["label"]
            if not j["label"].startswith("gen") and row.get("generated") == "arg_to_buffer" and (row.get("unknown") or row.get("args") is None):
                # bufferify variants of the regression inputs use char-buffer / array-context glue the extractor does not model:
                # counted as outside the covered grammar (the generated libraries' bufferify variants stay in, fail closed)
                row["kind"] = "uncovered-bufferify"
            rows.append(row)
            ctx.count(1, ("flow", j["label"], row.get("cname")))
            ctx.hist("wrapper-kind:" + str(row.get("kind")))
    gdir = os.path.join(ctx.bdir, "gen")
    os.makedirs(gdir, exist_ok=True)
    cflow.emit_coq(rows, os.path.join(gdir, "GenFlows.v"))
    rc, out = vlib.sh(["coqc", "-R", gdir, "ShroudGen", "-R", vlib.COQ, "Shroud", "GenFlows.v"], cwd=gdir)
    if rc != 0:
        ctx.broken.append(("proof", "gen-flows-compile", out[-1500:]))
    else:
        shutil.copy(os.path.join(vlib.VERIF, "dyn", "C02_tables.v"), os.path.join(gdir, "C02_tables.v"))
        before = len(ctx.broken)
        ctx.prove(os.path.join(gdir, "C02_tables.v"), extra_R=[(gdir, "ShroudGen")])
        if len(ctx.broken) > before:
            # name the wrappers that fail, as candidate failing inputs for the runs below
            bad = [r for r in rows if not r.get("missing") and (r["unknown"] or r["args"] is None)]
            ctx.extra["unrecognised_wrappers"] = [(r["lib"], r["cname"], r["unknown"][:2]) for r in bad[:10]]
    ctx.extra["wrappers_in_table"] = len(rows)
    # ---- run the three programs
    def rjob(i):
        return i, build_and_run(ctx, "g%d" % i, libs[i])
    with ThreadPoolExecutor(vlib.NCPU) as ex:
        for i, r in ex.map(rjob, range(len(libs))):
            ctx.count(r.get("calls", 0), None)
            ctx.nontrivial.update(("call", i, k) for k in range(r.get("calls", 0)))
            ctx.hist("run:" + r["status"])
            ctx.traces += 1
            if r.get("missing"):
                ctx.hist("c-entry-not-found", len(r["missing"]))
                ctx.violation("failing-input", {"what": "a wrapped signature has no C entry point under its documented name",
                                                "input": {"missing": r["missing"], "library_yaml": r.get("yaml", "")}})
            if r["status"] == "ok":
                continue
            if r["status"] in ("shroud-failed", "build-failed:direct", "direct-crashed"):
                ctx.broken.append(("correspondence", "eq-harness", "%s: %s" % (r["status"], r.get("detail", "")[-600:])))
                continue
            ctx.violation("failing-input", {"what": "calling through the generated C API is not equivalent to the C++ call (%s)" % r["status"],
                                            "input": {"library_yaml": r.get("yaml", ""), "first_differences": r.get("diffs"), "lines": r.get("lines")},
                                            "detail": r.get("detail", "")})
    ctx.sample({"library": jobs[0]["yaml"][:500], "first_wrapper": {k: v for k, v in rows[0].items() if k in ("cname", "args", "cxx_params", "this")}})


def replay(path):
    d = json.load(open(path))
    print(json.dumps(d, indent=1)[:5000])
    return 1
