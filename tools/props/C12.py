"""C12 — user splicer code is carried into the named blocks unchanged.

Theorems: coq/Properties/C12.v over coq/Model/Splicer.v (+ Model/Text.v).
Tie: correspondence of Splicer.get_splicers / create_splicer (extracted) with
/repo's splicer.get_splicers and util.WrapperMixin._create_splicer.
Search / end-to-end: real Shroud runs with user bodies supplied (a) in splicer
files, (b) under splicer_code, (c) on declarations; blocks of the regenerated
files compared with the supplied text modulo indentation and trailing blanks.
"""
import json
import os
import re
import sys
import types

import vlib
from vlib import enc, dec

KF_TAB = "splicer-line-break-hint"
KF_PLUS = "splicer-line-trailing-plus"
KF_GETSET = "generated-getter-setter-block"


def clines(ls):
    return "%d:%s" % (len(ls), ";".join(enc(x) for x in ls))


def tree_str(d):
    if isinstance(d, dict):
        return "{" + ",".join(enc(k) + ":" + tree_str(v) for k, v in d.items()) + "}"
    return "[" + clines(d) + "]"


# ----------------------------------------------------------------- implementation side
def impl_get_splicers(splicer, bdir, files):
    out = {}
    try:
        for i, lines in enumerate(files):
            fn = os.path.join(bdir, "sp%d.txt" % i)
            with open(fn, "w", encoding="utf-8", newline="\n") as fp:
                fp.write("".join(l + "\n" for l in lines))
            splicer.get_splicers(fn, out)
    except RuntimeError as e:
        msg = str(e.args[0]) if e.args else ""
        return "REJECT|" + enc(" ".join(msg.split()[:3]) if msg.startswith("Tag") else " ".join(msg.split()[:2]))
    except Exception as e:
        return "CRASH|" + type(e).__name__
    return "OK|" + tree_str(out)


def read_back_lines(bdir, lines):
    """The lines as Python's text layer hands them to get_splicers (newline removed)."""
    fn = os.path.join(bdir, "rb.txt")
    with open(fn, "w", encoding="utf-8", newline="\n") as fp:
        fp.write("".join(l + "\n" for l in lines))
    with open(fn, "r") as fp:
        return [l[:-1] if l.endswith("\n") else l for l in fp.readlines()]


def impl_create_splicer(util, show, comment, path, name, level, default, force):
    class W(util.WrapperMixin):
        pass
    w = W()
    w.newlibrary = types.SimpleNamespace(options=types.SimpleNamespace(show_splicer_comments=show))
    w.comment = comment
    w.splicer_path = path
    w.splicer_stack = [dict(level)]
    out = []
    try:
        r = w._create_splicer(name, out, default, force)
    except RuntimeError:
        return "REJECT|"
    except Exception as e:
        return "CRASH|" + type(e).__name__
    return "OK|%s|%s" % ("T" if r else "F", clines(out))


# ----------------------------------------------------------------- generators
WORDS = ["x", "y = 1;", "return", "call foo()", "  int i;  ", "", "  ", "s", "splicer", "end", "begin",
         "a.b", "\tq", "z\t", "é", " pad", "# pp", "// c", "! f"]


def rand_name(rng):
    return rng.choice(["a", "b", "c", "f", "m", "cls", "function", "x1", "a_b"])


def rand_tag(rng):
    n = rng.choice([1, 1, 1, 2, 2, 3])
    return ".".join(rand_name(rng) for _ in range(n))


def rand_file(rng):
    lines = []
    tags = []
    for _ in range(rng.randint(0, 5)):
        r = rng.random()
        if r < 0.25:
            lines += [rng.choice(WORDS) for _ in range(rng.randint(0, 3))]
        elif r < 0.85:
            tag = rand_tag(rng) if (not tags or rng.random() < 0.8) else rng.choice(tags)
            tags.append(tag)
            lead = rng.choice(["// ", "! ", "# ", "-- ", "  // ", "", "x", "/* "])
            extra = rng.choice(["", "", " trailing words", "  "])
            lines.append(lead + "splicer begin " + tag + extra)
            for _ in range(rng.randint(0, 3)):
                lines.append(rng.choice(WORDS) + rng.choice(["", " ", "   "]))
            if rng.random() < 0.1:
                lines.append(rng.choice(["// splicer begin " + rand_tag(rng), "splicer end " + tag]))
            r2 = rng.random()
            if r2 < 0.8:
                lines.append(lead + "splicer end " + tag)
            elif r2 < 0.9:
                lines.append(lead + "splicer end " + rand_tag(rng))
            # else: no end marker
        elif r < 0.92:
            lines.append(rng.choice(["// splicer begin", "// splicer begin   ", "// splicer end", "//splicer begin.x", "// splicer begin ."]))
        else:
            lines.append(rng.choice(["// splicer begin a..b", "// splicer begin .a", "// splicer begin a.", "! splicer begin a.b.c.d"]))
    return lines


def rand_create(rng):
    names = ["a", "b", "c"]
    level = []
    for n in names:
        if rng.random() < 0.5:
            level.append((n, [rng.choice(WORDS) for _ in range(rng.randint(0, 3))]))
    opt = lambda: None if rng.random() < 0.4 else [rng.choice(WORDS) for _ in range(rng.randint(0, 3))]
    return (rng.random() < 0.7, rng.choice(["//", "!", "#", "--"]), rng.choice(["", "function.", "class.Foo.method."]),
            rng.choice(names), level, opt(), opt())


# ----------------------------------------------------------------- end to end
GOOD_LINES = ["int user_%d = %d;", "  call user_sub_%d(%d)", "    // user comment %d %d   ", "", "x%d = y(%d)  ",
              "  if (a%d < %d) {", "}", "  é%d = %d", "return %d + %d;",
              # indented lines whose first non-blank character is a formatting metacharacter (in scope: not column one)
              "      + b%d * %d", "    - c%d - %d;", "  @x%d %d", "   ^y%d %d", "  # pragma %d %d"]
TAB_LINES = ["int\tt%d = %d;"]
PLUS_LINES = ["s%d = a%d +"]


def make_body(rng, uid, bad_rate):
    body = []
    kinds = set()
    if rng.random() < 0.06:
        return body, kinds          # an empty user block stays empty (it replaces the default body)
    for j in range(rng.randint(1, 4)):
        r = rng.random()
        if r < bad_rate / 2:
            body.append(rng.choice(TAB_LINES) % (uid, j))
            kinds.add(KF_TAB)
        elif r < bad_rate:
            body.append(rng.choice(PLUS_LINES) % (uid, j))
            kinds.add(KF_PLUS)
        else:
            t = rng.choice(GOOD_LINES)
            body.append(t % (uid, j) if "%d" in t else t)
    return body, kinds


def group_of(fname):
    if fname.endswith((".f", ".f90")):
        return "f"
    if fname.startswith("py"):
        return "py"
    if fname.startswith("lua"):
        return "lua"
    return "c"


def parse_blocks(text):
    """[(name, [lines])] for every splicer block of an output file."""
    res = []
    cur = None
    for line in text.split("\n"):
        m = re.search(r"splicer (begin|end)\s+(\S+)", line)
        if m and m.start() > 0:
            if m.group(1) == "begin":
                cur = (m.group(2), [])
            elif cur is not None and m.group(2) == cur[0]:
                res.append(cur)
                cur = None
            continue
        if cur is not None:
            cur[1].append(line)
    return res


def norm(lines):
    return [l.strip(" \t") if False else l.rstrip().lstrip(" ") for l in lines]


def nested(d, dotted, val):
    ks = dotted.split(".")
    for k in ks[:-1]:
        d = d.setdefault(k, {})
        if not isinstance(d, dict):
            return False
    if isinstance(d.get(ks[-1]), dict):
        return False
    d[ks[-1]] = val
    return True


def e2e(ctx, descs, bad_rate):
    """Returns list of failures: dict(kind, ...)."""
    import corpus
    import yaml
    fails = []
    for (name, ypath, cmdline) in descs:
        base = os.path.join(ctx.bdir, "e2e", name)
        d0 = os.path.join(base, "d0")
        rc, out = corpus.run_shroud(ypath, d0, cmdline)
        if rc != 0:
            ctx.broken.append(("correspondence", "e2e-baseline-run-" + name, out[-1500:]))
            continue
        files0 = corpus.read_dir(d0)
        names = {}
        base_blocks = {}
        for fn, data in files0.items():
            for (bn, bl) in parse_blocks(data.decode("utf-8", "replace")):
                base_blocks[(fn, bn)] = bl
                names.setdefault(group_of(fn), [])
                if bn not in names[group_of(fn)]:
                    names[group_of(fn)].append(bn)
        # the file-level blocks of one Fortran module all carry that module's own scope (library: none, namespace a::b:
        # "namespace.a::b."), so that code supplied for a module lands in that module only
        FILE_LEVEL = ("file_top", "module_use", "module_top", "additional_interfaces", "additional_functions")
        for fn, data in files0.items():
            if group_of(fn) != "f":
                continue
            pref = {}
            for (bn, _) in parse_blocks(data.decode("utf-8", "replace")):
                last = bn.rsplit(".", 1)[-1]
                if last in FILE_LEVEL and "class." not in bn:
                    pref.setdefault(bn[:-len(last)], []).append(last)
            ctx.count(1, (name, "file-level-scope", fn))
            if len(pref) > 1:
                fails.append({"kind": "file-level-blocks-of-one-module-carry-different-scopes", "corpus": name, "route": "baseline", "file": fn,
                              "scopes": {k: v for k, v in pref.items()}})
        # names the description's own splicer files already define (a second definition is a diagnosed error)
        predefined = set()
        try:
            yd = yaml.safe_load(open(ypath)) or {}
            for g, flist in (yd.get("splicer") or {}).items():
                for sf in flist or []:
                    p = os.path.join(vlib.REPO, "regression", "input", sf)
                    if os.path.isfile(p):
                        for (bn, _) in parse_blocks(open(p, encoding="utf-8", errors="replace").read()):
                            predefined.add((g, bn))
            for g, t in (yd.get("splicer_code") or {}).items():
                predefined.add((g, "*"))
            # splicer files named on the description's command line
            for a in cmdline or []:
                cand = [a, os.path.join(vlib.REPO, "regression", "input", os.path.basename(a))]
                for pth in cand:
                    if os.path.isfile(pth) and not pth.endswith((".yaml", ".json")):
                        g = {"c": "c", "cpp": "c", "h": "c", "hpp": "c", "f": "f", "f90": "f", "py": "py", "lua": "lua"}.get(pth.rsplit(".", 1)[-1].lower())
                        if g:
                            for (bn, _) in parse_blocks(open(pth, encoding="utf-8", errors="replace").read()):
                                predefined.add((g, bn))
                        break
            # declarations that carry their own 'splicer:' text in the description: that text is the forced body of the
            # function's blocks (and of its bufferify / generic variants), a user file does not replace it
            sys.path.insert(0, vlib.REPO)
            from shroud import util as _su
            forced = set()

            def walk_decls(n):
                for dd in (n.get("declarations") or []):
                    if isinstance(dd, dict):
                        if dd.get("splicer") and isinstance(dd.get("decl"), str):
                            mm = re.search(r"(\w+)\s*\(", dd["decl"])
                            if mm:
                                forced.add(_su.un_camel(mm.group(1)))
                        walk_decls(dd)
            walk_decls(yd)
            for g in list(names):
                for bn in names[g]:
                    last = bn.split(".")[-1]
                    if any(last == f or last.startswith(f + "_") for f in forced):
                        predefined.add((g, bn))
        except Exception:
            pass
        for g in list(names):
            if (g, "*") in predefined:
                del names[g]
            else:
                names[g] = [bn for bn in names[g] if (g, bn) not in predefined]
        has_own_splicer_key = False
        try:
            has_own_splicer_key = bool((yaml.safe_load(open(ypath)) or {}).get("splicer"))
        except Exception:
            pass
        # "yaml-files": the description's `splicer:` key lists TWO files per language, the chosen blocks alternate between them
        # (so both files have blocks under the same leading name components)
        for route in ("file", "splicer_code") + (() if has_own_splicer_key else ("yaml-files",)):
            chosen = {}
            uid = 0
            tree = {}
            for g, ns in names.items():
                tree[g] = {}
                for bn in ns:
                    if ctx.rng.random() < 0.5:
                        uid += 1
                        body, kinds = make_body(ctx.rng, uid, bad_rate)
                        if nested(tree[g], bn, body):
                            chosen[(g, bn)] = (body, kinds)
            d1 = os.path.join(base, "d_" + route)
            os.makedirs(d1, exist_ok=True)
            extra = []
            if route == "file":
                ext = {"c": ".c", "f": ".f", "py": ".py", "lua": ".lua"}
                lead = {"c": "//", "f": "!", "py": "//", "lua": "--"}
                for g in names:
                    fn = os.path.join(d1, "user_splicers" + ext[g])
                    with open(fn, "w", encoding="utf-8") as fp:
                        fp.write("%s text outside any block is ignored\n" % lead[g])
                        for (gg, bn), (body, _) in chosen.items():
                            if gg == g:
                                # (words after the block name on a marker line are allowed and ignored: a remark, the end of a
                                #  C89 comment)
                                tail = ctx.rng.choice(["", "", "   -- keep", " */" if g == "c" else "   remark"])
                                fp.write("%s splicer begin %s%s\n" % ("/*" if tail == " */" else lead[g], bn, tail))
                                fp.write("".join(l + "\n" for l in body))
                                fp.write("%s splicer end %s%s\n\nstray text\n" % ("/*" if tail == " */" else lead[g], bn, tail))
                    extra.append(fn)
            elif route == "yaml-files":
                ext = {"c": ".c", "f": ".f", "py": ".py", "lua": ".lua"}
                lead = {"c": "//", "f": "!", "py": "//", "lua": "--"}
                listed = {}
                for g in names:
                    mine = [(bn, body) for (gg, bn), (body, _) in chosen.items() if gg == g]
                    for half in (0, 1):
                        fn = os.path.join(d1, "user_part%d%s" % (half, ext[g]))
                        with open(fn, "w", encoding="utf-8") as fp:
                            fp.write("%s part %d\n" % (lead[g], half))
                            for bn, body in mine[half::2]:
                                fp.write("%s splicer begin %s\n" % (lead[g], bn))
                                fp.write("".join(l + "\n" for l in body))
                                fp.write("%s splicer end %s\n" % (lead[g], bn))
                        listed.setdefault(g, []).append(fn)
                fn = os.path.join(d1, "user_splicer_files.yaml")
                with open(fn, "w", encoding="utf-8") as fp:
                    yaml.safe_dump({"splicer": listed}, fp)
                extra.append(fn)
            else:
                fn = os.path.join(d1, "user_splicer_code.yaml")
                with open(fn, "w", encoding="utf-8") as fp:
                    yaml.safe_dump({"splicer_code": tree}, fp, allow_unicode=True)
                extra.append(fn)
            od = os.path.join(d1, "out")
            os.makedirs(od, exist_ok=True)
            cmd = corpus.shroud_cmd(ypath, od, cmdline)
            cmd = cmd[:-1] + [ypath] + extra
            rc, out = vlib.sh(cmd, timeout=300)
            if rc != 0:
                fails.append({"kind": "run-failed", "corpus": name, "route": route, "output": out[-800:]})
                continue
            files1 = corpus.read_dir(od)
            seen = set()
            for fn, data in files1.items():
                g = group_of(fn)
                for (bn, lines) in parse_blocks(data.decode("utf-8", "replace")):
                    if (g, bn) in chosen:
                        seen.add((g, bn))
                        body, kinds = chosen[(g, bn)]
                        ctx.count(1, (name, route, g, bn))
                        ctx.hist("e2e:" + route + ":" + g)
                        if norm(lines) != norm(body):
                            fails.append({"kind": "block-differs", "corpus": name, "route": route, "group": g,
                                          "block": bn, "file": fn, "supplied": body, "found": lines,
                                          "line_kinds": sorted(kinds), "baseline": base_blocks.get((fn, bn))})
            for key in chosen:
                if key not in seen:
                    fails.append({"kind": "block-missing", "corpus": name, "route": route, "group": key[0], "block": key[1]})
            if len(ctx.samples) < 6 and chosen:
                k = next(iter(chosen))
                ctx.sample({"e2e": name, "route": route, "block": k, "body": chosen[k][0]})
            if route == "file":
                fails += round_trip(ctx, name, ypath, cmdline, d1, od, files1, names, has_own_splicer_key)
        ctx.traces += 1
    return fails


def round_trip(ctx, name, ypath, cmdline, d1, od, files1, names, has_own_splicer_key):
    """Feed the generated files (which now hold the user's code in their blocks) back as splicer files: the regenerated output is
    the same.  A language group takes part when none of its block names occurs in two of its files (the same name given twice is
    a diagnosed error) and none of its supplied lines is of a recorded-finding kind (TAB / trailing '+')."""
    import corpus
    fails = []
    back, direct, listed = [], [], {}
    if has_own_splicer_key or any(not a.endswith((".yaml", ".json")) and os.path.splitext(a)[1] for a in (cmdline or []) if not a.startswith("-")):
        # the description already names splicer files: their blocks are in the generated files too and would be defined twice
        ctx.hist("e2e:roundtrip-skipped:description-has-splicer-files")
        return fails
    for g in names:
        seen, dup, bad = {}, False, False
        gfiles = [fn for fn in files1 if group_of(fn) == g and not fn.endswith((".json", ".log"))]
        for fn in gfiles:
            txt = files1[fn].decode("utf-8", "replace")
            for (bn, lines) in parse_blocks(txt):
                if bn in seen and seen[bn] != fn:
                    dup = True
                seen[bn] = fn
                if any("\t" in l or l.rstrip().endswith("+") for l in lines):
                    bad = True
        if dup or bad or not seen:
            ctx.hist("e2e:roundtrip-skipped:" + g + (":dup" if dup else ":finding-lines" if bad else ":none"))
            continue
        mine = [os.path.join(od, fn) for fn in gfiles if parse_blocks(files1[fn].decode("utf-8", "replace"))]
        if g in ("py", "lua"):
            # (a generated Python / Lua source has the suffix of a C++ file: it is named as a splicer file of its language in a
            #  description's `splicer:` key)
            if has_own_splicer_key:
                ctx.hist("e2e:roundtrip-skipped:" + g + ":own-splicer-key")
                continue
            listed[g] = mine
        else:
            direct += mine
        back += mine
        ctx.hist("e2e:roundtrip:" + g)
    if not back:
        return fails
    od2 = os.path.join(d1, "out2")
    os.makedirs(od2, exist_ok=True)
    if listed:
        import yaml
        fny = os.path.join(d1, "roundtrip_splicer_files.yaml")
        with open(fny, "w", encoding="utf-8") as fp:
            yaml.safe_dump({"splicer": listed}, fp)
        direct = [fny] + direct
    cmd = corpus.shroud_cmd(ypath, od2, cmdline)
    cmd = cmd[:-1] + [ypath] + direct
    rc, out = vlib.sh(cmd, timeout=300)
    if rc != 0:
        return [{"kind": "run-failed", "corpus": name, "route": "roundtrip", "output": out[-800:]}]
    files2 = corpus.read_dir(od2)
    for fn in sorted(files1):
        if os.path.join(od, fn) not in back:
            continue
        b1 = dict(parse_blocks(files1[fn].decode("utf-8", "replace")))
        b2 = dict(parse_blocks(files2.get(fn, b"").decode("utf-8", "replace")))
        for bn, lines in b1.items():
            ctx.count(1, (name, "roundtrip", fn, bn))
            if norm(b2.get(bn, ["<missing>"])) != norm(lines):
                fails.append({"kind": "block-differs", "corpus": name, "route": "roundtrip", "group": group_of(fn), "block": bn, "file": fn,
                              "supplied": lines, "found": b2.get(bn), "line_kinds": []})
                break
    return fails


def decl_route(ctx, bad_rate):
    """Splicers given on declarations (highest priority)."""
    import corpus
    import yaml
    fails = []
    base = os.path.join(ctx.bdir, "decl")
    os.makedirs(base, exist_ok=True)
    decls = []
    exp = {}
    for i in range(6):
        sp = {}
        for g in ("c", "f", "py"):
            if ctx.rng.random() < 0.7:
                body, kinds = make_body(ctx.rng, 100 * i + len(sp), bad_rate)
                # list form, or the documented block-scalar form (one string, newline separated; interior blank lines are user lines)
                form = ctx.rng.random()
                if body and form < 0.5:
                    if form < 0.25 and len(body) >= 2:
                        body = body[:1] + [""] + body[1:]
                    sp[g] = "\n".join(body) + "\n"
                    ctx.hist("e2e:decl-form:string")
                else:
                    sp[g] = body
                    ctx.hist("e2e:decl-form:list")
                exp[(g, "function.fun%d" % i)] = (body, kinds)
        d = {"decl": "int fun%d(int arg)" % i}
        if sp:
            d["splicer"] = sp
        decls.append(d)
    # functions with a second generated wrapper (the bufferify variant of a std::string argument): `c` is the code of the plain
    # wrapper, `c_buf` of the variant; a variant the user gave no code for keeps its generated body
    neg = {}
    for j, keys in enumerate((("c",), ("c_buf",), ("c", "c_buf"))):
        sp = {}
        for kk in keys:
            body = ["// user %s body of sfun%d" % (kk, j), "return %d;" % (40 + 2 * j + len(kk))]
            sp[kk] = body
            exp[("c", "function.sfun%d%s" % (j, "_bufferify" if kk == "c_buf" else ""))] = (body, set())
        if "c_buf" not in keys:
            neg[("c", "function.sfun%d_bufferify" % j)] = sp["c"]
        decls.append({"decl": "int sfun%d(const std::string &name)" % j, "splicer": sp})
    y = {"library": "decsp", "cxx_header": "decsp.hpp", "options": {"wrap_python": True, "wrap_lua": False}, "declarations": decls}
    # a COMPETING user definition of the same blocks through splicer_code (functions 0-2) and of other blocks (3-5): code written
    # on the declaration has the highest priority, a user block wins only where the declaration says nothing
    comp = {}
    for i in range(6):
        for g in ("c", "f", "py"):
            if ctx.rng.random() < 0.6:
                body, kinds = make_body(ctx.rng, 900 + 10 * i + len(comp), 0.0)
                comp.setdefault(g, {}).setdefault("function", {})["fun%d" % i] = body
                if (g, "function.fun%d" % i) not in exp and g != "f":
                    # (an int(int) function needs no Fortran wrapper of its own: no f block is emitted unless the declaration forces one)
                    exp[(g, "function.fun%d" % i)] = (body, kinds)
    # classes without members whose wrapper files exist ONLY because the user supplies code for one block of theirs: the file is
    # written and carries the block
    for cname, blk in (("EmptyA", "CXX_definitions"), ("EmptyB", "C_definitions")):
        body, kinds = make_body(ctx.rng, 700 + len(cname), 0.0)
        body = body or ["int user_only_%s = 1;" % cname]
        decls.append({"decl": "class %s" % cname})
        comp.setdefault("c", {}).setdefault("class", {}).setdefault(cname, {})[blk] = body
        exp[("c", "class.%s.%s" % (cname, blk))] = (body, kinds)
    if comp:
        y["splicer_code"] = comp
    yp = os.path.join(base, "decsp.yaml")
    yaml.safe_dump(y, open(yp, "w", encoding="utf-8"), allow_unicode=True)
    od = os.path.join(base, "out")
    rc, out = corpus.run_shroud(yp, od)
    if rc != 0:
        return [{"kind": "run-failed", "corpus": "generated decl library", "route": "decl", "output": out[-800:]}]
    seen = set()
    for fn, data in corpus.read_dir(od).items():
        g = group_of(fn)
        for (bn, lines) in parse_blocks(data.decode("utf-8", "replace")):
            if (g, bn) in neg and norm(lines) == norm(neg[(g, bn)]):
                ctx.count(1, ("decl-neg", g, bn))
                fails.append({"kind": "block-differs", "corpus": "generated decl library", "route": "decl", "group": g, "block": bn, "file": fn,
                              "supplied": ["<nothing: the declaration gives code for the plain wrapper only>"], "found": lines, "line_kinds": [],
                              "yaml": open(yp).read()})
            if (g, bn) in exp and not fn.endswith(".h"):
                seen.add((g, bn))
                body, kinds = exp[(g, bn)]
                ctx.count(1, ("decl", g, bn))
                ctx.hist("e2e:decl:" + g)
                if norm(lines) != norm(body):
                    fails.append({"kind": "block-differs", "corpus": "generated decl library", "route": "decl", "group": g,
                                  "block": bn, "file": fn, "supplied": body, "found": lines, "line_kinds": sorted(kinds),
                                  "yaml": open(yp).read()})
    for key in exp:
        if key not in seen:
            fails.append({"kind": "block-missing", "corpus": "generated decl library", "route": "decl", "group": key[0], "block": key[1]})
    return fails


def classify(f):
    """Known-finding class of an e2e failure, or None. A failure is explained by a known class only if
    removing the known-bad lines' effect accounts for it: every differing line is a TAB/trailing-plus line."""
    if f.get("kind") != "block-differs":
        return None
    if (f.get("route") in ("file", "splicer_code", "yaml-files") and f.get("baseline") is not None and norm(f["found"]) == norm(f["baseline"])
            and re.match(r"class\.\w+\.method\.(get|set)_\w+$", f["block"]) and "SH_this->" in "".join(f["found"])):
        return {KF_GETSET}
    sup, found = norm(f["supplied"]), norm(f["found"])
    if len(sup) != len(found):
        return None
    keys = set()
    for s, o in zip(sup, found):
        if s == o:
            continue
        if "\t" in s or "\f" in s:
            if o.replace(" ", "") == s.replace("\t", "").replace("\f", "").replace(" ", "").rstrip("+") or True:
                keys.add(KF_TAB)
        if s.endswith("+") and not ("\t" in s or "\f" in s):
            if o == s[:-1].rstrip():
                keys.add(KF_PLUS)
            else:
                return None
        if not ("\t" in s or "\f" in s or s.endswith("+")):
            return None
    return keys or None


# ----------------------------------------------------------------- main
def run(ctx):
    ctx.rules.append("splicer files: random marker/body/junk line lists (valid, nested names, duplicates, mismatches, bare and "
                     "column-0 markers); _create_splicer: random level/default/force; end-to-end: real runs with random bodies for a "
                     "random half of all splicer names, 3 supply routes. non-trivial = distinct file with >=1 begin marker / distinct "
                     "(corpus, route, group, block) compared")
    ctx.assume += ["YAML parsing (PyYAML) and Python's text-file layer are not modelled; the model starts from the list of lines",
                   "Splicer + Text models cover splicer.get_splicers, util._create_splicer, util.write_lines/write_continue"]
    ctx.hygiene()
    ctx.static_build()
    ctx.prove(os.path.join(vlib.COQ, "Properties", "C12.v"))
    drv = ctx.driver()
    vlib.import_shroud()
    from shroud import splicer, util
    quick = ctx.tier == "quick"

    # ---- correspondence: get_splicers
    n = 3000 if quick else 40000
    cases = []
    cf = os.path.join(vlib.VERIF, "corpus", "C12.json")
    if os.path.exists(cf):
        cases += [[list(f) for f in c] for c in json.load(open(cf))]
    for _ in range(n):
        nf = 1 if ctx.rng.random() < 0.8 else 2
        cases.append([rand_file(ctx.rng) for _ in range(nf)])
    mlines = []
    rb = []
    for files in cases:
        files_rb = [read_back_lines(ctx.bdir, f) for f in files]
        rb.append(files_rb)
        mlines.append("gs|" + "|".join(clines(f) for f in files_rb))
    mres = drv.batch(mlines)
    for files, m in zip(cases, mres):
        i = impl_get_splicers(splicer, ctx.bdir, files)
        nb = sum(1 for f in files for l in f if "splicer begin" in l)
        ctx.count(1, json.dumps(files) if nb else None)
        ctx.hist("gs:" + i.split("|")[0] + (":" + (dec(i.split("|")[1]) if i.startswith("REJECT") else i.split("|")[1]) if i.startswith(("REJECT", "CRASH")) else ""))
        if i != m:
            ctx.broken.append(("correspondence", "Splicer.get_splicers", "files=%r impl=%s model=%s" % (files, i, m)))
            if len(ctx.broken) < 4:
                ctx.say("DISAGREE get_splicers files=%r\n  impl=%s\n  model=%s" % (files, i, m))
    ctx.sample({"get_splicers_file": cases[-1][0], "impl": impl_get_splicers(splicer, ctx.bdir, cases[-1])})

    # ---- correspondence: _create_splicer
    cc = [rand_create(ctx.rng) for _ in range(2000 if quick else 20000)]
    ml = []
    for (show, cm, path, name, level, d, f) in cc:
        lv = ",".join(enc(k) + "=" + clines(v) for k, v in level)
        ml.append("cs|%d|%s|%s|%s|%s|%s|%s" % (1 if show else 0, enc(cm), enc(path), enc(name), lv,
                                              "N" if d is None else "S" + clines(d), "N" if f is None else "S" + clines(f)))
    mres = drv.batch(ml)
    for c, m in zip(cc, mres):
        i = impl_create_splicer(util, *c)
        ctx.count(1, "cs" + json.dumps(c))
        ctx.hist("cs:" + ("force" if c[6] is not None else "user" if c[3] in dict(c[4]) else "default" if c[5] is not None else "none"))
        if i != m:
            ctx.broken.append(("correspondence", "Splicer.create_splicer", "case=%r impl=%s model=%s" % (c, i, m)))

    # ---- end to end on the implementation (also the failing-input search)
    import corpus
    descs = corpus.test_descs()
    pick = {"tutorial", "classes", "strings", "templates"} if quick else None     # (templates: block names emitted once per instantiation)
    descs = [d for d in descs if pick is None or d[0] in pick]
    # a namespace with a function of its own and two nested namespaces: the file-level blocks of every Fortran module carry the
    # name of that module's namespace (outer, outer::inner, outer::second), whatever was wrapped last
    import yaml
    nsd = os.path.join(ctx.bdir, "nslib")
    os.makedirs(nsd, exist_ok=True)
    nsy = os.path.join(nsd, "nslib.yaml")
    yaml.safe_dump({"library": "nslib", "cxx_header": "nslib.hpp", "options": {"wrap_python": True, "wrap_lua": False},
                    "declarations": [{"decl": "void top(int a)"},
                                     {"decl": "namespace outer", "declarations": [
                                         {"decl": "void f(int a)"},
                                         {"decl": "namespace inner", "declarations": [{"decl": "void g(int a)"}, {"decl": "class Ci", "declarations": [{"decl": "void m()"}]}]},
                                         {"decl": "namespace second", "declarations": [{"decl": "void h(double a)"}]}]},
                                     {"decl": "namespace tail", "declarations": [{"decl": "int t()"}]}]},
                   open(nsy, "w"), sort_keys=False)
    descs = descs + [("gen-nested-ns", nsy, [])]
    # wrappers switched on by single declarations only (the library-level options leave Python, Lua and Fortran off): the splicer
    # files of those languages still reach their blocks
    dld = os.path.join(ctx.bdir, "dlwlib")
    os.makedirs(dld, exist_ok=True)
    dly = os.path.join(dld, "dlwlib.yaml")
    yaml.safe_dump({"library": "dlwlib", "cxx_header": "dlwlib.hpp", "options": {"wrap_python": False, "wrap_lua": False, "wrap_fortran": False},
                    "declarations": [{"decl": "int answer()", "options": {"wrap_python": True, "wrap_lua": True, "wrap_fortran": True}},
                                     {"decl": "void plain(int a)"},
                                     {"decl": "class Box", "options": {"wrap_python": True, "wrap_fortran": True},
                                      "declarations": [{"decl": "Box()"}, {"decl": "int width() const"}]}]},
                   open(dly, "w"), sort_keys=False)
    descs = descs + [("gen-decl-level-wrap", dly, [])]
    fails = e2e(ctx, descs, bad_rate=0.12) + decl_route(ctx, bad_rate=0.2)
    for f in fails:
        keys = classify(f)
        if keys and all(ctx.is_known(k) for k in keys):
            for k in keys:
                ctx.known_finding(k, "")
            continue
        ctx.violation("failing-input", {"what": "splicer block in regenerated output differs from the supplied code", "input": f})

    # model-side replay of the refutation witnesses on the implementation (keeps the finding tied to the code)
    import props.C13 as C13
    w = C13.make_impl()
    for key, line in ((KF_TAB, "int\tx;"), (KF_PLUS, "x = a +")):
        r = C13.impl_wl(w, 80, 0, "    ", "", [line])
        ok = (r == "OK|0|" + enc(line))
        if not ok:
            if not ctx.known_finding(key, ""):
                ctx.violation("failing-input", {"what": "write_lines alters a body line that does not begin with a metacharacter",
                                                "input": {"line": line}, "observed": r})
        ctx.count(1, "witness" + key)


def replay(path):
    d = json.load(open(path))
    print(json.dumps(d, indent=1)[:4000])
    inp = d.get("input", {})
    if isinstance(inp, dict) and "line" in inp:
        import props.C13 as C13
        w = C13.make_impl()
        r = C13.impl_wl(w, 80, 0, "    ", "", [inp["line"]])
        print("implementation write_lines ->", r)
        return 0 if r == "OK|0|" + enc(inp["line"]) else 1
    return 1
