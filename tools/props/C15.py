"""C15 — wrapper selection is honoured and the file lists match what was written.

Theorems: coq/Properties/C15.v (wrap-flag algebra: promotion = OR over contained declarations, emitter
sequencing) + dyn/C15_tables.v over a table regenerated on every run by a python-ast scan of /repo:
every write_output_file() call site with its directory expression and its cfiles/ffiles/pyfiles registration.
Search: whole-run relations on the implementation (directory listings, --cfiles/--ffiles contents, byte
equality of C/Fortran files across Python/Lua toggles, per-declaration overrides).
"""
import ast as pyast
import copy
import itertools
import json
import os
import re
import shutil

import vlib

KF_VARIANT = "variant-ignores-declaration-wrap-flag"


def kind_of(fname):
    b = os.path.basename(fname)
    if b.endswith((".json", ".log")):
        return "log"
    if b.endswith(".yaml"):
        return "yaml"
    if b.lower().endswith((".f", ".f90")):
        return "fortran"
    if b == "setup.py":
        return "setup"
    if b.startswith("py"):
        return "python"
    if b.startswith("lua"):
        return "lua"
    return "c"


LIB = {
    "library": "sel",
    "cxx_header": "sel.hpp",
    "declarations": [
        {"decl": "void plainfn(int a)"},
        {"decl": "int dfltfn(int a, int b = 1, double c = 2.0)"},
        {"decl": "const std::string strfn(const std::string &s)"},
        {"decl": "void ovlfn(int a)"},
        {"decl": "void ovlfn(double a)"},
        # an overload set with one member exposed to Python / Lua only
        {"decl": "void mixfn(int a)", "options": {"wrap_c": False, "wrap_fortran": False}},
        {"decl": "void mixfn(double a)"},
        {"decl": "void mixfn(const std::string &a)", "options": {"wrap_python": False, "wrap_lua": False}},
        {"decl": "template<typename T> void tmplfn(T arg)", "cxx_template": [{"instantiation": "<int>"}, {"instantiation": "<double>"}]},
        {"decl": "void genfn(double arg)", "fortran_generic": [{"decl": "(float arg)"}, {"decl": "(double arg)"}]},
        {"decl": "class Widget", "declarations": [
            {"decl": "Widget()"},
            {"decl": "int size() const"},
            {"decl": "void resize(int n, int fill = 0)"},
            # functions the generator CLONES or CREATES (return_this variant, member-variable getter / setter): the clone
            # must carry the selection of the declaration it comes from
            {"decl": "Widget *grow(int n)", "return_this": True},
            {"decl": "int m_tally"},
        ]},
        # structs: as numpy dtype (default) and as Python class (the Python wrapper then creates a constructor from the members)
        {"decl": "struct Point { int ix; double dy; };", "options": {"PY_struct_arg": "class"}},
        {"decl": "struct Pair { int first; int second; };"},
        {"decl": "int sumPoint(Point *p +intent(in))"},
        {"decl": "int sumPair(Pair *p +intent(in))"},
        # a class inside a namespace: a member's selection travels through class, namespace and library
        {"decl": "namespace outer", "declarations": [
            {"decl": "void helperfn(int a)"},
            {"decl": "class Gadget", "declarations": [{"decl": "Gadget()"}, {"decl": "int gcount() const"}, {"decl": "void greset()"}]},
            {"decl": "namespace inner", "declarations": [{"decl": "void deepfn(int a)"}, {"decl": "void deepoff(int a)"}]},
        ]},
    ],
}


# ----------------------------------------------------------------- source scan -> table
def scan_write_sites():
    """[(module, function, line, fname expr, dir expr, registrations in the same function [(list, arg text)])]"""
    rows = []
    d = os.path.join(vlib.REPO, "shroud")
    for fn in sorted(os.listdir(d)):
        if not fn.endswith(".py"):
            continue
        src = open(os.path.join(d, fn)).read()
        tree = pyast.parse(src)
        for func in pyast.walk(tree):
            if not isinstance(func, (pyast.FunctionDef,)):
                continue
            writes, regs = [], []
            for node in pyast.walk(func):
                if isinstance(node, pyast.Call):
                    f = node.func
                    if isinstance(f, pyast.Attribute) and f.attr == "write_output_file" and len(node.args) >= 2:
                        writes.append((node.lineno, pyast.unparse(node.args[0]), pyast.unparse(node.args[1])))
                    if isinstance(f, pyast.Attribute) and f.attr == "append" and isinstance(f.value, pyast.Attribute) and \
                            f.value.attr in ("cfiles", "ffiles", "pyfiles") and node.args:
                        regs.append((f.value.attr, pyast.unparse(node.args[0])))
            for (ln, fe, de) in writes:
                rows.append((fn[:-3], func.name, ln, fe, de, regs))
    return rows


def gen_table(ctx, gdir):
    rows = scan_write_sites()
    q = lambda s: '"' + str(s).replace('"', '""') + '"'
    with open(os.path.join(gdir, "GenWrites.v"), "w") as fp:
        fp.write("(* GENERATED by tools/props/C15.py (python ast scan of /repo/shroud/*.py): write_output_file call sites *)\n"
                 "From Coq Require Import List String.\nImport ListNotations.\nOpen Scope string_scope.\n")
        fp.write("Record wsite := { ws_module : string; ws_func : string; ws_line : nat; ws_fname : string; ws_dir : string;\n"
                 "                  ws_regs : list (string * string) }.\n")
        fp.write("Definition write_sites : list wsite := [\n" + ";\n".join(
            "  {| ws_module := %s; ws_func := %s; ws_line := %d; ws_fname := %s; ws_dir := %s; ws_regs := [%s] |}" % (
                q(m), q(f), ln, q(fe), q(de), "; ".join("(%s, %s)" % (q(a), q(b)) for a, b in regs))
            for (m, f, ln, fe, de, regs) in rows) + "\n].\n")
    ctx.extra["write_sites"] = ["%s.%s:%d dir=%s regs=%s" % (m, f, ln, de, regs) for (m, f, ln, fe, de, regs) in rows]
    return rows


# ----------------------------------------------------------------- runs
def run_lib(ctx, lib, tag, extra=(), dirs=None):
    import corpus
    import yaml
    d = os.path.join(ctx.bdir, "sel", tag)
    os.makedirs(d, exist_ok=True)
    yp = os.path.join(d, "sel.yaml")
    yaml.safe_dump(lib, open(yp, "w"), sort_keys=False)
    od = os.path.join(d, "out")
    os.makedirs(od, exist_ok=True)
    args = ["--logdir", od, "--outdir", od, "--cfiles", os.path.join(d, "cfiles.txt"), "--ffiles", os.path.join(d, "ffiles.txt")]
    if dirs:
        for opt, sub in dirs.items():
            p = os.path.join(d, sub)
            os.makedirs(p, exist_ok=True)
            args += [opt, p]
    rc, out = vlib.sh([vlib.PY, "-m", "shroud.main"] + args + list(extra) + [yp], timeout=300)
    files = {}
    for root, _, fs in os.walk(d):
        for f in fs:
            p = os.path.join(root, f)
            rel = os.path.relpath(p, d)
            if rel in ("sel.yaml", "cfiles.txt", "ffiles.txt"):
                continue
            files[rel] = open(p, "rb").read()
    lists = {}
    for k in ("cfiles", "ffiles"):
        p = os.path.join(d, k + ".txt")
        lists[k] = open(p).read().split() if os.path.exists(p) else None
    return rc, out, files, lists, d


def with_opts(lib, **opts):
    l = copy.deepcopy(lib)
    l.setdefault("options", {}).update(opts)
    return l


def relations(ctx, quick):
    fails = []
    combos = [c for c in itertools.product([False, True], repeat=4) if (not c[1] or c[0])]   # (c, fortran, python, lua): fortran => c
    runs = {}
    from concurrent.futures import ThreadPoolExecutor

    def one(c):
        lib = with_opts(LIB, wrap_c=c[0], wrap_fortran=c[1], wrap_python=c[2], wrap_lua=c[3])
        return c, run_lib(ctx, lib, "combo_%d%d%d%d" % tuple(int(x) for x in c))
    with ThreadPoolExecutor(vlib.NCPU) as ex:
        for c, r in ex.map(one, combos):
            runs[c] = r
    for c, (rc, out, files, lists, d) in runs.items():
        ctx.count(1, ("combo", c))
        ctx.hist("rel:library-flags")
        if rc != 0:
            fails.append({"relation": "library-level flags", "flags": dict(zip(("c", "fortran", "python", "lua"), c)), "what": "run failed", "output": out[-600:]})
            continue
        kinds = {}
        for f in files:
            kinds.setdefault(kind_of(f), []).append(f)
        for lang, on in zip(("c", "fortran", "python", "lua"), c):
            if not on and kinds.get(lang):
                fails.append({"relation": "a language switched off for the whole library produces no files", "language": lang,
                              "flags": dict(zip(("c", "fortran", "python", "lua"), c)), "files": sorted(kinds[lang])})
        # file lists
        written_c = sorted(os.path.join(d, f) for f in files if kind_of(f) == "c")
        written_f = sorted(os.path.join(d, f) for f in files if kind_of(f) == "fortran")
        if sorted(lists["cfiles"] or []) != written_c:
            fails.append({"relation": "--cfiles lists exactly the C/C++ files written", "flags": dict(zip(("c", "fortran", "python", "lua"), c)),
                          "listed": [os.path.relpath(x, d) for x in (lists["cfiles"] or [])], "written": [os.path.relpath(x, d) for x in written_c]})
        if sorted(lists["ffiles"] or []) != written_f:
            fails.append({"relation": "--ffiles lists exactly the Fortran files written", "flags": dict(zip(("c", "fortran", "python", "lua"), c)),
                          "listed": [os.path.relpath(x, d) for x in (lists["ffiles"] or [])], "written": [os.path.relpath(x, d) for x in written_f]})
    # python / lua toggles do not change C and Fortran bytes
    for (c0, f0) in ((True, True), (True, False)):
        base = runs.get((c0, f0, False, False))
        for (p, l) in ((True, False), (False, True), (True, True)):
            other = runs.get((c0, f0, p, l))
            ctx.count(1, ("toggle", c0, f0, p, l))
            ctx.hist("rel:py-lua-toggle")
            if base and other and base[0] == 0 and other[0] == 0:
                bf = {k: v for k, v in base[2].items() if kind_of(k) in ("c", "fortran")}
                of = {k: v for k, v in other[2].items() if kind_of(k) in ("c", "fortran")}
                if bf != of:
                    fails.append({"relation": "switching the Python/Lua wrapper does not change C and Fortran files",
                                  "python": p, "lua": l, "files": sorted(k for k in set(bf) | set(of) if bf.get(k) != of.get(k))})
    # directories by kind
    dirs = {"--outdir-c-fortran": "dcf", "--outdir-python": "dpy", "--outdir-lua": "dlua", "--outdir-yaml": "dyaml"}
    rc, out, files, lists, d = run_lib(ctx, with_opts(LIB, wrap_c=True, wrap_fortran=True, wrap_python=True, wrap_lua=True), "dirs", dirs=dirs)
    ctx.count(1, ("dirs",))
    ctx.hist("rel:directories")
    if rc != 0:
        fails.append({"relation": "output directories", "what": "run failed", "output": out[-600:]})
    else:
        want = {"c": "dcf", "fortran": "dcf", "python": "dpy", "lua": "dlua", "yaml": "dyaml", "log": "out", "setup": "out"}
        for f in files:
            k = kind_of(f)
            if not f.startswith(want[k] + os.sep):
                fails.append({"relation": "every file is written inside the designated output directory for its kind", "file": f, "kind": k,
                              "expected_dir": want[k]})
        written_c = sorted(os.path.join(d, f) for f in files if kind_of(f) == "c")
        if sorted(lists["cfiles"] or []) != written_c:
            fails.append({"relation": "--cfiles lists exactly the C/C++ files written (separate directories)",
                          "listed": [os.path.relpath(x, d) for x in (lists["cfiles"] or [])], "written": [os.path.relpath(x, d) for x in written_c]})
    # libraries whose library-level C header would be empty (everything lives in a class / a namespace): files that are not
    # written are not listed either
    for tag, decls in (("classonly", [{"decl": "class Widget", "declarations": [{"decl": "Widget()"}, {"decl": "int size() const"}]}]),
                       ("nsonly", [{"decl": "namespace inner", "declarations": [{"decl": "int f(int a)"}]}])):
        lib = {"library": tag, "cxx_header": tag + ".hpp", "options": {"wrap_c": True, "wrap_fortran": True, "wrap_python": False, "wrap_lua": False},
               "declarations": decls}
        rc, out, files, lists, d = run_lib(ctx, lib, "cf_" + tag)
        ctx.count(1, ("cfiles", tag))
        ctx.hist("rel:file-lists-sparse-library")
        if rc != 0:
            fails.append({"relation": "file lists (sparse library)", "library": tag, "what": "run failed", "output": out[-600:]})
            continue
        for key, kind in (("cfiles", "c"), ("ffiles", "fortran")):
            written = sorted(os.path.join(d, f) for f in files if kind_of(f) == kind)
            if sorted(lists[key] or []) != written:
                fails.append({"relation": "--%s lists exactly the files written (library %s)" % (key, tag),
                              "listed": [os.path.relpath(x, d) for x in (lists[key] or [])], "written": [os.path.relpath(x, d) for x in written]})
    # per-declaration overrides
    names = ["plainfn", "dfltfn", "strfn", "tmplfn", "genfn", "grow", "m_tally"]
    todo = [(n, lang) for n in names for lang in ("c", "fortran", "python", "lua")]
    if quick:
        todo = [t for i, t in enumerate(todo) if i % 2 == ctx.seed % 2] + [("dfltfn", "c"), ("strfn", "fortran"), ("grow", "fortran"), ("grow", "c")]

    def override(job):
        n, lang = job
        lib = with_opts(LIB, wrap_c=True, wrap_fortran=True, wrap_python=True, wrap_lua=True)
        for dcl in lib["declarations"]:
            for m in [dcl] + list(dcl.get("declarations") or []):
                if re.search(r"\b%s(\(|$)" % n, m["decl"]):
                    m["options"] = {"wrap_" + lang: False}
                    if lang == "c":
                        m["options"]["wrap_fortran"] = False      # Fortran calls the C wrapper
        return job, run_lib(ctx, lib, "ovr_%s_%s" % (n, lang))
    with ThreadPoolExecutor(vlib.NCPU) as ex:
        for (n, lang), (rc, out, files, lists, d) in ex.map(override, todo):
            ctx.count(1, ("override", n, lang))
            ctx.hist("rel:declaration-override")
            if rc != 0:
                fails.append({"relation": "per-declaration override", "function": n, "language": lang, "what": "run failed", "output": out[-600:]})
                continue
            langs = [lang] + (["fortran"] if lang == "c" else [])
            for lg in langs:
                hits = []
                for f, b in files.items():
                    if kind_of(f) == lg:
                        for i, line in enumerate(b.decode("utf-8", "replace").split("\n")):
                            s = line.strip()
                            if re.search(n, line, re.I) and not s.startswith(("//", "!", "*", "/*", "#")) and "splicer" not in line:
                                if lg == "fortran" and lang == "fortran":
                                    # the bind(C) interface of the C wrapper (c_<name>, bind(C, name=...)) belongs to the C
                                    # wrapper, which is still on; only Fortran procedures / generic names count
                                    t = re.sub(r"\bc_\w*%s\w*" % n, "", s, flags=re.I)       # (c_<name>, c_<class>_<name>)
                                    t = re.sub(r'bind\(C, name="[^"]*"\)', "", t, flags=re.I)
                                    if not re.search(n, t, re.I):
                                        continue
                                hits.append("%s:%d: %s" % (f, i + 1, s[:100]))
                if hits:
                    fails.append({"relation": "a declaration whose wrapper is off for a language does not appear in that language's output",
                                  "function": n, "language": lg, "switched_off": lang, "hits": hits[:6],
                                  "variant": bool(re.search(r"_\d|bufferify|_int|_double|_float|_arg", " ".join(hits)))})
    # a member switched ON under a container that is OFF: the member's wrapper is generated (the container is promoted),
    # its siblings stay off
    # ("libns": as "library", and the description puts everything into an initial namespace with the top-level `namespace:` field)
    ptodo = [(cont, lang) for cont in ("class", "library", "libns", "nested", "nested2") for lang in ("c", "fortran", "python", "lua")]

    def promote(job):
        cont, lang = job
        on = {"wrap_" + lang: True}
        off = {"wrap_" + lang: False}
        if lang == "fortran":
            on["wrap_c"] = True
        lib = with_opts(LIB, wrap_c=True, wrap_fortran=True, wrap_python=True, wrap_lua=True)
        if cont in ("library", "libns", "nested", "nested2"):
            lib["options"].update(off)
        if cont == "libns":
            lib["namespace"] = "top"
        if cont == "nested2":
            # only outer::inner::deepfn is on: two namespace levels and the library must be promoted
            for dcl in lib["declarations"]:
                if dcl["decl"] == "namespace outer":
                    dcl["declarations"][2]["declarations"][0]["options"] = dict(on)
            return job, run_lib(ctx, lib, "prom_%s_%s" % (cont, lang))
        if cont == "nested":
            # only outer::Gadget::gcount (and the constructor) are switched on: class Gadget, namespace outer and the library
            # must all be promoted; Widget, helperfn and greset stay off
            for dcl in lib["declarations"]:
                if dcl["decl"] == "namespace outer":
                    for m in dcl["declarations"][1]["declarations"]:
                        if "gcount" in m["decl"] or m["decl"] == "Gadget()":
                            m["options"] = dict(on)
            return job, run_lib(ctx, lib, "prom_%s_%s" % (cont, lang))
        for dcl in lib["declarations"]:
            if dcl["decl"] == "class Widget":
                if cont == "class":
                    dcl["options"] = dict(off)
                for m in dcl["declarations"]:
                    if "size()" in m["decl"] or m["decl"] == "Widget()":
                        m["options"] = dict(on)
        return job, run_lib(ctx, lib, "prom_%s_%s" % (cont, lang))

    def mentions(files, kind, word):
        hits = []
        for f, b in files.items():
            if kind_of(f) == kind:
                for i, line in enumerate(b.decode("utf-8", "replace").split("\n")):
                    t = line.strip()
                    if kind == "fortran":
                        # the bind(C) interface of a C wrapper (c_<name>, bind(C, name=...)) belongs to the C wrapper
                        t = re.sub(r"\bc_\w+", "", t, flags=re.I)
                        t = re.sub(r'bind\(C, name="[^"]*"\)', "", t, flags=re.I)
                    if re.search(word, t, re.I) and not t.startswith(("//", "!", "*", "/*", "#")) and "splicer" not in line:
                        hits.append("%s:%d: %s" % (f, i + 1, t[:100]))
        return hits
    with ThreadPoolExecutor(vlib.NCPU) as ex:
        for (cont, lang), (rc, out, files, lists, d) in ex.map(promote, ptodo):
            ctx.count(1, ("promote", cont, lang))
            ctx.hist("rel:member-on-under-container-off")
            if rc != 0:
                fails.append({"relation": "member on under container off", "container": cont, "language": lang, "what": "run failed", "output": out[-600:]})
                continue
            if cont == "nested2":
                if not mentions(files, lang, r"deepfn|deep_fn"):
                    fails.append({"relation": "a member whose wrapper is ON is generated although its containers (two namespace levels, library) have the wrapper OFF",
                                  "container": cont, "language": lang, "member": "outer::inner::deepfn", "files": sorted(files)})
                h3 = mentions(files, lang, r"deepoff|deep_off|helperfn|greset")
                if h3:
                    fails.append({"relation": "a declaration whose wrapper is off for a language does not appear in that language's output",
                                  "function": "deepoff / helperfn / greset", "language": lang, "switched_off": cont, "hits": h3[:4], "variant": False})
                continue
            if cont == "nested":
                if not mentions(files, lang, r"gcount"):
                    fails.append({"relation": "a member whose wrapper is ON is generated although its containers (class in a namespace, library) have the wrapper OFF",
                                  "container": cont, "language": lang, "member": "outer::Gadget::gcount", "files": sorted(files)})
                h3 = mentions(files, lang, r"greset|helperfn")
                if h3:
                    fails.append({"relation": "a declaration whose wrapper is off for a language does not appear in that language's output",
                                  "function": "greset / helperfn", "language": lang, "switched_off": cont, "hits": h3[:4], "variant": False})
                continue
            if not mentions(files, lang, r"\bsize\b|_size\b"):
                fails.append({"relation": "a member whose wrapper is ON is generated although its container has the wrapper OFF",
                              "container": cont, "language": lang, "files": sorted(files)})
            h2 = mentions(files, lang, r"resize")
            if h2:
                fails.append({"relation": "a declaration whose wrapper is off for a language does not appear in that language's output",
                              "function": "resize", "language": lang, "switched_off": cont, "hits": h2[:4], "variant": False})
    return fails


def classify(f):
    if f.get("relation", "").startswith("a declaration whose wrapper is off") and f.get("function") in ("dfltfn",):
        return KF_VARIANT
    return None


def run(ctx):
    ctx.rules.append("whole-run relations on a generated library (plain, defaulted, std::string, overloaded, templated, fortran_generic "
                     "functions and a class): the 12 admissible library-level flag combinations (files per language, --cfiles/--ffiles), "
                     "Python/Lua toggles vs C/Fortran bytes, separate output directories, per-declaration wrap_<lang>: false overrides. "
                     "non-trivial = distinct relation instance")
    ctx.assume += ["a file's language is recognised from its name (wrap*/types*/util* = C, *.f = Fortran, py*/setup.py = Python, lua* = Lua)"]
    ctx.hygiene()
    ctx.static_build()
    ctx.prove(os.path.join(vlib.COQ, "Properties", "C15.v"))
    gdir = os.path.join(ctx.bdir, "gen")
    os.makedirs(gdir, exist_ok=True)
    rows = gen_table(ctx, gdir)
    rc, out = vlib.sh(["coqc", "-R", gdir, "ShroudGen", "GenWrites.v"], cwd=gdir)
    if rc != 0:
        ctx.broken.append(("proof", "gen-compile-GenWrites", out[-1500:]))
    else:
        shutil.copy(os.path.join(vlib.VERIF, "dyn", "C15_tables.v"), os.path.join(gdir, "C15_tables.v"))
        ctx.prove(os.path.join(gdir, "C15_tables.v"), extra_R=[(gdir, "ShroudGen")], name="C15_tables.v")
    fails = relations(ctx, ctx.tier == "quick")
    for f in fails:
        ctx.say("relation failure: " + json.dumps({k: v for k, v in f.items() if k != "output"})[:400])
        k = classify(f)
        if k and ctx.is_known(k):
            ctx.known_finding(k, "")
            continue
        ctx.violation("failing-input", {"what": "wrapper selection / file list relation violated", "input": f})
    ctx.sample({"library": LIB["declarations"][:3]})
    ctx.traces = 1


def replay(path):
    d = json.load(open(path))
    print(json.dumps(d, indent=1)[:5000])
    return 1
