import argparse
import importlib
import os
import sys
import traceback

sys.path.insert(0, os.path.dirname(os.path.abspath(__file__)))
import vlib  # noqa


def main():
    ap = argparse.ArgumentParser()
    ap.add_argument("pid")
    ap.add_argument("--tier", default=os.environ.get("VERIF_TIER", "quick"), choices=["quick", "thorough"])
    ap.add_argument("--replay", default=None)
    ap.add_argument("--seed", type=int, default=int(os.environ.get("VERIF_SEED", "1") or 1))
    a = ap.parse_args()
    mod = importlib.import_module("props." + a.pid)
    if a.replay:
        sys.exit(mod.replay(a.replay))
    ctx = vlib.Ctx(a.pid, a.tier, a.seed)
    try:
        mod.run(ctx)
    except Exception:
        tb = traceback.format_exc()
        ctx.say("check machinery raised:\n" + tb)
        ctx.broken.append(("correspondence", "harness-exception", tb))
    sys.exit(ctx.finish())


if __name__ == "__main__":
    main()
