"""Run shroud.main on each YAML text of a job, then extract the argument flow of every plain C wrapper.
usage: runflow.py <workdir> <job.json> <out.json> ; job = [{"yaml": text, "files": {name: text}}...]"""
import contextlib
import io
import json
import os
import shutil
import sys

REPO = os.environ.get("SHROUD_REPO", "/repo")
sys.path.insert(0, REPO)
sys.path.insert(0, os.path.dirname(os.path.abspath(__file__)))
from shroud import main as smain, typemap  # noqa
import cflow  # noqa

work, job, outp = sys.argv[1], json.load(open(sys.argv[2])), sys.argv[3]
res = []


def pkind(p):
    """(name, kind) of a parameter of the JSON ast"""
    tn = p.get("typemap_name")
    tm = typemap.lookup_type(tn)
    base = tm.base if tm is not None else "?"
    sg = tm.sgroup if tm is not None else "?"
    ptrs = "".join(x.get("ptr", "") for x in (p.get("declarator") or {}).get("pointer", []))
    intent = (p.get("metaattrs") or {}).get("intent", "")
    grp = {"shadow": "shadow", "string": "string", "vector": "vector", "struct": "struct"}.get(base, sg)
    if tn == "char":
        grp = "char"
    # an integer-like typemap with a C++ cast as its c_to_cxx conversion is an enumeration (typemap.create_enum_typemap)
    if grp == "native" and tm is not None and (tm.c_to_cxx or "").startswith("static_cast<"):
        grp = "enum"
    name = (p.get("attrs") or {}).get("name") or (p.get("declarator") or {}).get("name") or ""
    fptr = bool((p.get("declarator") or {}).get("func"))
    return [name, "%s|%s|%s|%s%s" % (grp, ptrs, intent, "const" if p.get("const") else "", "|fptr" if fptr else "")]


for k, item in enumerate(job):
    od = os.path.join(work, "o%d" % k)
    shutil.rmtree(od, ignore_errors=True)
    os.makedirs(od)
    open(od + "/in.yaml", "w").write(item["yaml"])
    old = sys.argv
    sys.argv = ["shroud", "--logdir", od, "--outdir", od, od + "/in.yaml"]
    err = ""
    try:
        with contextlib.redirect_stdout(io.StringIO()), contextlib.redirect_stderr(io.StringIO()):
            smain.main()
    except SystemExit as e:
        err = "" if e.code in (0, None) else "exit: " + str(e.code)[:200]
    except BaseException as e:
        err = type(e).__name__ + ": " + str(e)[:200]
    finally:
        sys.argv = old
    rows = []
    if not err:
        d = json.load(open(od + "/in.json"))
        nodes = []

        def walk(o, cls):
            if isinstance(o, dict):
                if "declgen" in o and "fmtdict" in o:
                    w = o.get("wrap", {})
                    a = o.get("ast", {})
                    if w.get("c") and o.get("_generated") not in ("arg_to_cfi",):
                        attrs = a.get("attrs") or {}
                        kind = "ctor" if attrs.get("_constructor") else ("dtor" if attrs.get("_destructor") else
                                                                         ("static" if "static" in (a.get("storage") or []) else ("method" if cls else "function")))
                        nm = (a.get("declarator") or {}).get("name") or cls or ""
                        nodes.append({"cname": o["fmtdict"].get("C_name"), "cxx_name": nm if kind != "ctor" else cls, "kind": kind,
                                      "params": [pkind(p) for p in (a.get("params") or [])
                                                 if not str((p.get("declarator") or {}).get("name", "")).startswith(("SHF_", "SHT_"))],
                                      "generated": o.get("_generated"), "func_const": bool(a.get("func_const")),
                                      "splicer": bool(o.get("splicer")), "user_pattern": bool(o.get("C_error_pattern") or o.get("fstatements")),
                                      "result": pkind(a)[1]})
                    return
                c2 = o.get("name") if ("functions" in o and "parse_keyword" in o) or o.get("cxx_class") else cls
                for key, v in o.items():
                    walk(v, c2 if isinstance(v, (dict, list)) else cls)
            elif isinstance(o, list):
                for v in o:
                    walk(v, cls)
        walk(d, "")
        rows = cflow.extract_dir(od, nodes)
        for r, n in zip(rows, nodes):
            r["result_kind"] = n["result"]
    shutil.rmtree(od, ignore_errors=True)
    res.append({"err": err, "rows": rows})
json.dump(res, open(outp, "w"))
