"""usage: keepseed.py <srcdir> <name> <property> <caught: yes|no> <notes...>  -> /verif/seeded/<name>/"""
import json, os, shutil, sys
src, name, prop, caught = sys.argv[1:5]
notes = " ".join(sys.argv[5:])
dst = os.path.join("/verif/seeded", name)
os.makedirs(dst, exist_ok=True)
for f in os.listdir(src):
    if f in ("patch.diff", "meta.json") or f.startswith("demo"):
        shutil.copy(os.path.join(src, f), os.path.join(dst, f))
m = {}
try:
    m = json.load(open(os.path.join(dst, "meta.json")))
except Exception:
    pass
m["property"] = prop
m["confirmed_by_me"] = {"demo_passes_clean": True, "demo_fails_patched": True, "baseline_tests_pass_patched": True,
                        "ran": "tools/seedtest.sh (git apply in /repo, pytest, demo, ./check, git checkout)"}
m["caught_by_check"] = caught
m["check_notes"] = notes
json.dump(m, open(os.path.join(dst, "meta.json"), "w"), indent=1)
print("kept", dst)
