#!/bin/bash
# usage: tools/seedtest.sh <seed dir with patch.diff + demo.*> <property id> [more ids]
# Confirms the seed (demo passes on clean tree, fails with patch, baseline tests pass with patch) and runs the checks.
sd=$1; shift
demo=$(ls $sd/demo.* | head -1)
rundemo() { case "$demo" in *.py) /venv/bin/python "$demo" /repo ;; *) bash "$demo" /repo ;; esac; }
cd /repo
git status --short | grep -v egg-info | grep . && { echo "repo not clean"; exit 2; }
echo "== demo on clean tree"; rundemo > /tmp/seed_demo_clean.log 2>&1; echo "exit=$?"
git apply "$sd/patch.diff" || { echo "patch does not apply"; exit 2; }
echo "== baseline tests with patch"; /venv/bin/python -m pytest -q -p no:cacheprovider --timeout=900 --continue-on-collection-errors 2>&1 | tail -1
echo "== demo with patch"; rundemo > /tmp/seed_demo_patched.log 2>&1; echo "exit=$?"; tail -3 /tmp/seed_demo_patched.log
for id in "$@"; do
  echo "== check $id (quick) with patch"; (cd /verif && ./check $id --tier quick 2>&1 | tee /root/spike/seed_last.log | grep -E "VIOLATION|obligations|DISAGREE" | head -8; echo "known-finding lines: $(grep -c KNOWN-FINDING /root/spike/seed_last.log)")
done
git -C /repo checkout -- . ; git -C /repo status --short | grep -v egg-info
# the checks above rewrote evidence/*.json for the patched tree: restore the committed (clean-tree) evidence
git -C /verif checkout -- evidence/ 2>/dev/null
