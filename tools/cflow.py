"""C02: extract, from generated C wrapper source, how each C++ callee argument is formed from the C parameters
(translation validation input).  Fail closed: anything not recognised becomes 'Unknown'."""
import json
import os
import re


def split_top(s, sep=","):
    out, depth, cur = [], 0, ""
    for ch in s:
        if ch in "(<[":
            depth += 1
        elif ch in ")>]":
            depth -= 1
        if ch == sep and depth == 0:
            out.append(cur.strip())
            cur = ""
        else:
            cur += ch
    if cur.strip():
        out.append(cur.strip())
    return out


def functions_of(text):
    """{name: (param text, body text)} for definitions at column 0"""
    out = {}
    text = re.sub(r"/\*.*?\*/", "", text, flags=re.S)
    text = re.sub(r"//[^\n]*", "", text)
    for m in re.finditer(r"^(?!static|typedef|struct|enum|#|extern|namespace|using)[A-Za-z_][\w \t\*:<>]*?\b(\w+)[ \t]*\(([^;{}]*)\)\s*\{", text, flags=re.M):
        start = m.end()
        depth, i = 1, start
        while i < len(text) and depth:
            depth += {"{": 1, "}": -1}.get(text[i], 0)
            i += 1
        out[m.group(1)] = (" ".join(m.group(2).split()), text[start:i - 1])
    return out


def statements(body):
    body = " ".join(body.split())
    # drop preprocessor remnants and braces of simple blocks
    return [s.strip() for s in re.split(r";", body) if s.strip()]


def classify_expr(e, locals_):
    """-> (conv, root C parameter) for an actual argument expression"""
    e = e.strip()
    m = re.match(r"^\*\s*(\w+)$", e)
    if m:
        c, r = classify_expr(m.group(1), locals_)
        return ("Deref" if c == "Direct" else "Deref+" + c, r)
    m = re.match(r"^&\s*(\w+)$", e)
    if m:
        c, r = classify_expr(m.group(1), locals_)
        return ("Addr" if c == "Direct" else "Addr+" + c, r)
    if re.match(r"^\w+$", e):
        if e in locals_:
            return locals_[e]
        return ("Direct", e)
    return ("Unknown", e)


def extract_function(cname, ptext, body, cxx_name):
    """row dict for one wrapper"""
    cparams = []
    if ptext and ptext != "void":
        for a in split_top(ptext):
            mm = re.match(r"^(.*?)(\w+)$", a)
            cparams.append(mm.group(2))
    locals_ = {}
    row = {"cname": cname, "cparams": cparams, "this": "", "args": None, "call": "", "copyouts": [], "result": "", "unknown": []}
    for st in statements(body):
        # local definitions
        m = re.match(r"^(?:const )?[\w:<>, ]+?(?: const)? ?[\*&]? ?(\w+) = static_cast<\s*(.*?)\s*>\s*\(\s*(.*)\s*\)$", st)
        if m and "(" not in m.group(3):
            name, typ, src = m.group(1), m.group(2), m.group(3)
            ms = re.match(r"^(\w+)(?:->|\.)addr$", src)
            if ms:
                locals_[name] = ("ShadowAddr", ms.group(1))
                if name == "SH_this":
                    row["this"] = ms.group(1)
                    row["this_const"] = st.startswith("const ")
                continue
            if re.match(r"^\w+$", src):
                if name == "SHC_rv":
                    row["result"] = "CastBack:" + src
                else:
                    locals_[name] = ("Cast", src)
                continue
        m = re.match(r"^(?:const )?std::string (\w+)(?:\((.*)\))?$", st)
        if m:
            args = split_top(m.group(2)) if m.group(2) else []
            if not args:
                locals_[m.group(1)] = ("StringEmpty", m.group(1).replace("SHCXX_", ""))
            elif re.match(r"^\w+$", args[0]):
                if len(args) > 1:
                    # (buffer, length): the documented conversion of a Fortran character argument passes the TRIMMED length L<name>
                    locals_[m.group(1)] = ("StringFromLen" if args[1].strip() == "L" + args[0] else "StringFromWrongLen", args[0])
                    if args[1].strip() == "L" + args[0]:
                        row.setdefault("lens", []).append(args[0])
                else:
                    locals_[m.group(1)] = ("StringFrom", args[0])
            else:
                row["unknown"].append(st)
            continue
        # the call
        m = re.match(r"^(?:(?:const )?[\w:<>, ]+?[\*&]? ?(\w+) = |\*(\w+) = )?(?:(SH_this)->)?(new )?([\w:]+?)(<[^()]*>)?\((.*)\)$", st)
        if m and row["args"] is None and not st.startswith(("strcpy", "ShroudStr", "return", "static_cast", "std::mem", "memcpy")) \
                and (m.group(4) or m.group(5) == cxx_name or m.group(5).endswith("::" + cxx_name)):
            args = split_top(m.group(7)) if m.group(7).strip() else []
            row["args"] = [classify_expr(a, locals_) for a in args]
            # a qualified callee is a namespace function or a static member: the node's own kind says which
            row["call"] = ("method" if m.group(3) else ("new" if m.group(4) else "plain"))
            if m.group(1) or m.group(2):
                row["result"] = row["result"] or ("Local:" + (m.group(1) or m.group(2)))
            continue
        # a std::string result copied into the caller's fixed-length buffer: blank fill when empty, else copy (both branches required)
        m = re.match(r"^if \((\w+)\.empty\(\)\) \{ ShroudStrCopy\((\w+), \w+, (?:nullptr|NULL), 0\)$", st)
        if m and m.group(1) in ("SHCXX_rv", "SHC_rv"):
            row["empty_fill"] = m.group(2)
            continue
        m = re.match(r"^\} else \{ ShroudStrCopy\((\w+), \w+, (\w+)\.data\(\), \2\.size\(\)\)$", st)
        if m and m.group(2) in ("SHCXX_rv", "SHC_rv") and row.get("empty_fill") == m.group(1):
            row["result"] = (row["result"] + "|" if row["result"] else "") + "ResultGlue"
            continue
        if st == "}" and row.get("empty_fill"):
            continue
        m = re.match(r"^strcpy\((\w+), (\w+)\.c_str\(\)\)$", st) or re.match(r"^ShroudStrCopy\((\w+), \w+, (\w+)\.data\(\), \2\.size\(\)\)$", st)
        if m:
            if m.group(2) in ("SHCXX_rv", "SHC_rv"):
                row["result"] = (row["result"] + "|" if row["result"] else "") + "ResultGlue"      # the result delivered through an argument
            else:
                row["copyouts"].append((m.group(1), m.group(2)))
            continue
        m = re.match(r"^return [\*&]?(\w+)$", st)
        if m:
            row["result"] = (row["result"] + "|" if row["result"] else "") + "Return:" + m.group(1)
            continue
        m = re.match(r"^(?:const )?[\w:<> ]+?[\*&]? ?(\w+) = (\w+)(?:\.|->)c_str\(\)$", st)
        if m:
            row["result"] = (row["result"] + "|" if row["result"] else "") + "CStr:" + m.group(2)
            continue
        if re.match(r"^(\w+)->[\w\.\[\]]+ = ", st) or st.startswith(("ShroudStrToArray", "std::string * SHCXX_rv = new std::string", "std::string *SHCXX_rv = new std::string")) \
                or re.match(r"^(?:const )?[\w:<> ]+?[\*&]? ?SHC?X?X?_rv = ", st):
            row["result"] = (row["result"] + "|" if row["result"] else "") + "ResultGlue"
            continue
        if st.startswith("delete SH_this"):
            row["call"] = "delete"
            row["args"] = []
            continue
        row["unknown"].append(st)
    return row


def extract_dir(od, nodes):
    """nodes: list of dict(cname, cxx_name, params:[(name, kind)], kindinfo) -> rows"""
    funcs = {}
    for f in sorted(os.listdir(od)):
        if f.startswith("wrap") and f.endswith((".c", ".cpp")):
            funcs.update(functions_of(open(os.path.join(od, f), errors="replace").read()))
    rows = []
    for n in nodes:
        if n["cname"] not in funcs:
            rows.append({"cname": n["cname"], "missing": True})
            continue
        ptext, body = funcs[n["cname"]]
        r = extract_function(n["cname"], ptext, body, n["cxx_name"])
        r["cxx_params"] = n["params"]
        r["kind"] = n["kind"]
        if r["call"] == "plain":
            r["call"] = "static" if n["kind"] == "static" else "function"
        if n.get("splicer") or n.get("user_pattern"):
            r["kind"] = "splicer"            # the body is user / generated splicer text (member getters and setters): not a call wrapper
        r["generated"] = n.get("generated")
        r["func_const"] = bool(n.get("func_const"))
        rows.append(r)
    return rows


CONV = {"Direct": "Direct", "Deref": "Deref", "Cast": "Cast", "StringFrom": "StringFrom", "StringFromLen": "StringFrom", "StringEmpty": "StringEmpty",
        "ShadowAddr": "ShadowAddr", "Deref+ShadowAddr": "DerefShadow"}


def coq_s(x):
    if any(ord(c) > 126 or ord(c) < 32 for c in x):
        raise ValueError("non-ascii")
    return '"' + x.replace('"', '""') + '"'


def result_conv(r):
    res = r.get("result") or ""
    parts = res.split("|") if res else []
    if not parts:
        return "RNone"
    if any(p.startswith("Return:SHadow") for p in parts):
        return "RShadow"
    if any(p.startswith("CStr:") for p in parts) and parts[-1].startswith("Return:"):
        return "RCStr"
    if any(p.startswith("CastBack:") for p in parts) and parts[-1].startswith("Return:"):
        return "RCastBack"
    if parts[-1].startswith("Return:") and ("Local:" + parts[-1][7:]) in parts:
        return "RDirect"
    if all(p == "ResultGlue" or p.startswith("Local:") for p in parts):
        return "RGlue"
    return "RUnknown"


def emit_coq(rows, path):
    """rows (with a 'lib' label) -> GenFlows.v ; fail closed: a row that cannot be written becomes w_unknown = 99"""
    items = []
    for r in rows:
        if r.get("missing"):
            items.append('{| w_name := %s; w_kind := "missing"; w_call := ""; w_this := ""; w_params := []; w_args := []; w_copyouts := []; w_unknown := 99; w_rkind := {| k_group := "?"; k_ptrs := ""; k_intent := "" |}; w_result := RUnknown; w_buf := false; w_this_const := false; w_fconst := false; w_cparams := []; w_lens := [] |}'
                         % coq_s(r.get("lib", "") + ":" + (r.get("cname") or "?")))
            continue
        try:
            ps = []
            for (n, k) in r["cxx_params"]:
                g, p, i = (k.split("|") + ["", "", ""])[:3]
                if "|fptr" in k:
                    g = "fptr"
                ps.append("(%s, {| k_group := %s; k_ptrs := %s; k_intent := %s |})" % (coq_s(n), coq_s(g), coq_s(p), coq_s(i)))
            args = ["(%s, %s)" % (CONV.get(c, "UnknownConv"), coq_s(root)) for (c, root) in (r["args"] if r["args"] is not None else [("?", "?")])]
            unk = len(r["unknown"]) + (1 if r["args"] is None else 0)
            rg, rp, ri = ((r.get("result_kind") or "?||").split("|") + ["", "", ""])[:3]
            items.append("{| w_name := %s; w_kind := %s; w_call := %s; w_this := %s; w_params := [%s]; w_args := [%s]; w_copyouts := [%s]; w_unknown := %d; "
                         "w_rkind := {| k_group := %s; k_ptrs := %s; k_intent := %s |}; w_result := %s; w_buf := %s; w_this_const := %s; w_fconst := %s; w_cparams := [%s]; w_lens := [%s] |}" % (
                coq_s(r.get("lib", "") + ":" + r["cname"]), coq_s(r["kind"]), coq_s(r["call"]), coq_s(r["this"]), "; ".join(ps), "; ".join(args),
                "; ".join(coq_s(c) for c, _ in r["copyouts"]), unk, coq_s(rg), coq_s(rp), coq_s(ri), result_conv(r),
                "true" if r.get("generated") == "arg_to_buffer" else "false",
                "true" if r.get("this_const") else "false", "true" if r.get("func_const") else "false",
                "; ".join(coq_s(c) for c in r.get("cparams", [])), "; ".join(coq_s(c) for c in r.get("lens", []))))
        except Exception:
            items.append('{| w_name := "unwritable"; w_kind := "?"; w_call := ""; w_this := ""; w_params := []; w_args := []; w_copyouts := []; w_unknown := 99; w_rkind := {| k_group := "?"; k_ptrs := ""; k_intent := "" |}; w_result := RUnknown; w_buf := false; w_this_const := false; w_fconst := false; w_cparams := []; w_lens := [] |}')
    with open(path, "w") as f:
        f.write("(* generated on this run: argument flow of every plain C wrapper found in the generated sources *)\n")
        f.write("From Coq Require Import List String.\nFrom Shroud Require Import Model.CallEq.\nImport ListNotations.\nOpen Scope string_scope.\n")
        # (one list literal of several megabytes overflows coqc's stack: the table is written in pieces and concatenated)
        CH = 2000
        pieces = [items[i:i + CH] for i in range(0, len(items), CH)] or [[]]
        for k, piece in enumerate(pieces):
            f.write("Definition flows_%d : list wrapper :=\n  [" % k + ";\n   ".join(piece) + "].\n")
        f.write("Definition flows : list wrapper := " + " ++ ".join("flows_%d" % k for k in range(len(pieces))) + ".\n")
    return len(items)
