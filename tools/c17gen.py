"""C17: finite, enumerable input spaces for the whole-program (shroud.main) search."""
import copy
import json

import yaml

FATTR = ["allocatable", "cdesc", "deref", "dimension", "free_pattern", "len", "name", "owner", "pure", "rank", "intent", "value", "bogus"]
AATTR = ["allocatable", "assumedtype", "capsule", "cdesc", "charlen", "external", "deref", "dimension", "hidden", "implied", "intent", "len",
         "len_trim", "name", "owner", "pass", "rank", "size", "value", "bogus", "readonly", "default", "pure", "free_pattern"]
VATTR = ["name", "readonly", "dimension", "bogus", "intent", "rank"]
FORMS = ["+%s", "+%s=1", "+%s=x", "+%s(x)", "+%s()", "+%s(\"s\")", "+%s=1.5", "+%s(in)", "+%s(allocatable)", "+%s(3)", "+%s(n)", "+%s(size(a))",
         "+%s(caller)", "+%s=-1", "+%s(1,2)", "+%s(..)", "+%s(:)", "+%s(n+)", "+%s=\"q\"", "+%s(pointer)", "+%s(raw)", "+%s(8)", "+%s(IN)",
         "+%s=0", "+%s((n)m)", "+%s(size(3))", "+%s=1e999"]
ATYPES = ["int %s", "int *%s", "const int *%s", "char *%s", "const char *%s", "std::string &%s", "const std::string &%s", "std::vector<int> &%s",
          "void *%s", "int **%s", "Cls *%s", "double %s[3]", "bool %s", "int &%s", "char **%s", "void (*%s)(int i)", "Color %s", "Pt *%s",
          "std::string %s", "long %s"]
RTYPES = ["void", "int", "int *", "const char *", "std::string", "const std::string &", "std::vector<int>", "Cls *", "Cls", "double *", "char", "bool", "void *"]
COMBOS = [  # documented illegal combinations and values (all must be diagnostics)
    "void f(int *a +value+dimension(3))", "void f(int *a +rank(1)+dimension(3))", "void f(int a +dimension(3))", "void f(int a +rank(1))",
    "void f(int a +intent(out))", "void f(int a +intent(inout))", "void f(int *a +intent(none))", "void f(int a +deref(pointer))",
    "void f(int *a +deref(fast))", "int *f() +owner(me)", "int *f() +free_pattern(nopattern)", "void f(void *a +assumedtype+value)",
    "void f(int *a +charlen(20))", "void f(char **a +charlen(20))", "void f(char *a +charlen)", "void f(std::vector &a)",
    "void f(int<int> a)", "void f(int *a +rank(8))", "void f(int *a +rank(two))", "void f(int *a +rank)", "void f(int *a +dimension)",
    "void f(int *a, int n +implied(size(b)))", "void f(int *a, int n +implied(size(a,1)))", "void f(int *a, int n +implied(len()))",
    "void f(int *a +dimension(n+))", "void f(int *a +dimension(,))", "void f(int *a +bogus)", "void f() +intent(in)",
    "void f(int *a +dimension(n)) extra", "void f(int *a", "void f(int *a))", "void f(int *a]", "void f(...)", "void f(int a, ...)",
    "void f(int a) volatile", "unsigned unknown f()", "void f(Zed a)", "void f(std::map<int,int> a)", "int f() +deref(pointer)",
    "void f(void (*cb)(int i +intent(out)))", "void f(void (*cb)(int *i +dimension(n+)))", "void f(void (*cb)(std::vector &v))",
    "void f(int *a +intent)", "void f(int *a, int n +implied)", "void f(int *a +rank())",
    # a type takes ONE template argument (documented restriction): a list is rejected, not silently truncated
    "int vector_sum(const std::vector<int,double> &arg)", "void f(std::vector<int,int> name)", "std::vector<int,long> f()",
    "void f(std::vector<int, > a)", "void f(std::vector<,int> a)",
    # the functions of an implied expression: wrong number of arguments (none, too many), not a function call, unknown function
    "void f(int *a +rank(1), int n +implied(size()))", "void f(int *a +rank(1), int n +implied(size(a,1,2)))",
    "void f(char *a, int n +implied(len_trim()))", "void f(char *a, int n +implied(len(a,1)))", "void f(int *a +rank(1), int n +implied(size(,)))",
    "void f(int *a +rank(1), int n +implied(size(a)(1)))",
    "void f(int *a +rank=1e999)", "void f(int *a, int n +implied(size(3)))", "void f(int *a, int n +implied(size(a+1)))",
    "void f(int *a, int n +implied(size(a) 7))", "{", "void f(int a) {", "} f()", "\"{}\" f()", "MyInt::x f()", "ns f()", "std f()", "void f(std x)",
]


# accepted declarations that once ended in an internal exception: they must stay free of internal failures (either outcome class)
WITNESSES = ["void f(void (*cb)(int *i +dimension(..)))"]


def lib(decls, extra=""):
    return ("library: att\ncxx_header: att.hpp\n%sdeclarations:\n- decl: class Cls\n  declarations:\n  - decl: Cls()\n"
            "- decl: enum Color { RED, BLUE }\n- decl: struct Pt { int x; double y; };\n- decl: typedef int MyInt\n  fields:\n    base: integer\n"
            "- decl: namespace ns\n  declarations:\n  - decl: void inner()\n%s" % (extra, decls))


def q(s):
    return json.dumps(s)


def attr_space():
    """every (position, attribute, form, type) case: (label, yaml text)"""
    out = []
    for a in FATTR:
        for f in FORMS:
            for t in RTYPES:
                d = "%s fun(int n, int *a +rank(1)) %s" % (t, f % a)
                out.append(("fcn:%s:%s:%s" % (a, f, t), lib("- decl: %s\n" % q(d))))
    for a in AATTR:
        for f in FORMS:
            for t in ATYPES:
                d = "void fun(int n, int *a +rank(1), %s %s)" % (t % "arg", f % a)
                out.append(("arg:%s:%s:%s" % (a, f, t), lib("- decl: %s\n" % q(d))))
    for a in VATTR:
        for f in FORMS:
            for t in ATYPES:
                d = "%s %s" % (t % "m", f % a)
                out.append(("var:%s:%s:%s" % (a, f, t), lib("- decl: class Var\n  declarations:\n  - decl: %s\n" % q(d))))
    for c in COMBOS:
        out.append(("combo:" + c, lib("- decl: %s\n" % q(c))))
    for c in WITNESSES:
        out.append(("witness:" + c, lib("- decl: %s\n" % q(c))))
    return out


BASE = yaml.safe_load("""
library: ymu
cxx_header: ymu.hpp
namespace: outer
language: c++
options:
  debug: true
  wrap_python: true
  wrap_lua: false
format:
  C_prefix: YM_
typemap:
- type: Extra
  fields:
    base: shadow
    cxx_type: Extra
patterns:
  pat1: "// pattern"
splicer:
  c: []
declarations:
- decl: typedef int IndexType
  fields:
    base: integer
- decl: enum Color { RED, BLUE }
- decl: struct Pt { int x; double y; }
- decl: int add(int a, int b = 1)
  default_arg_suffix: [_one, _two]
  format:
    F_name_impl: add_impl
  options:
    wrap_lua: false
- decl: void gen(double *a +rank(1), int n +implied(size(a)))
  fortran_generic:
  - decl: (float *a +rank(1))
    function_suffix: _float
  - decl: (double *a +rank(1))
- decl: template<typename T> void tfun(T arg)
  cxx_template:
  - instantiation: <int>
  - instantiation: <double>
    format:
      template_suffix: _dbl
- decl: class Cls
  cxx_header: cls.hpp
  python:
    type: [init]
  declarations:
  - decl: Cls()
  - decl: ~Cls()
  - decl: int m_val +readonly
  - decl: void meth(const std::string &s)
    fstatements:
      f:
        c_helper: [ShroudStrCopy]
    splicer:
      c: ["// code"]
- decl: namespace inner
  declarations:
  - decl: void deep()
- block: true
  options:
    F_string_len_trim: false
  declarations:
  - decl: void inblock()
""")
WRONG = [3, "str", [1, 2], {"k": "v"}, None, True, 1.5, [], {}, "", [{"decl": "void q()"}], {"decl": "void q()"}, [None], [[1]], "class", "void f(", -1]
NEWKEYS = ["bogus", "decl", "declarations", "options", "format", "fields", "block", "cxx_template", "fortran_generic", "return_this", "splicer",
           "library", "language", "copyright", "typemap", "patterns", "namespace", "class", "function_suffix", "default_arg_suffix",
           "cpp_if", "fstatements", "doxygen", "python", "base"]
APPEND = [" extra", ")", "(", " +bogus", ";", "{", "}"]


def paths(o, pre=()):
    out = [pre]
    if isinstance(o, dict):
        for k, v in o.items():
            out += paths(v, pre + (k,))
    elif isinstance(o, list):
        for i, v in enumerate(o):
            out += paths(v, pre + (i,))
    return out


def get(o, p):
    for k in p:
        o = o[k]
    return o


def yaml_space():
    """every single mutation of BASE: (label, yaml text)"""
    out = []
    for p in paths(BASE):
        if p:
            for w in WRONG:
                d = copy.deepcopy(BASE)
                get(d, p[:-1])[p[-1]] = copy.deepcopy(w)
                out.append(("set %s=%r" % (list(p), w), d))
            d = copy.deepcopy(BASE)
            del get(d, p[:-1])[p[-1]]
            out.append(("del %s" % (list(p),), d))
            if isinstance(get(BASE, p), str):
                for a in APPEND:
                    d = copy.deepcopy(BASE)
                    get(d, p[:-1])[p[-1]] = get(BASE, p) + a
                    out.append(("append %s %r" % (list(p), a), d))
        if isinstance(get(BASE, p), dict):
            for nk in NEWKEYS:
                if nk in get(BASE, p):
                    continue
                for w in WRONG:
                    d = copy.deepcopy(BASE)
                    get(d, p)[nk] = copy.deepcopy(w)
                    out.append(("add %s.%s=%r" % (list(p), nk, w), d))
    return [(lab, yaml.safe_dump(d, sort_keys=False)) for lab, d in out]
