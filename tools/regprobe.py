"""Dynamic probe of process-wide registries (run in a FRESH process).

usage: regprobe.py <out.json> <name> [<name> ...]     (corpus test names; the LAST one is observed)
Snapshots every registry found by scan_src.registries():
  import   : right after importing shroud
  at_hook  : when ast.create_library_from_dictionary is entered during the last run
  after    : after the last run finished
"""
import contextlib
import hashlib
import io
import json
import os
import sys

HERE = os.path.dirname(os.path.abspath(__file__))
sys.path.insert(0, HERE)
import scan_src  # noqa
REPO = scan_src.REPO
sys.path.insert(0, REPO)


def canon(o, depth=0, seen=None):
    seen = seen if seen is not None else set()
    if isinstance(o, (str, int, float, bool, type(None))):
        return repr(o)
    if id(o) in seen or depth > 7:
        return "<..>"
    seen = seen | {id(o)}
    if isinstance(o, dict):
        return "{" + ",".join(canon(k, depth + 1, seen) + ":" + canon(v, depth + 1, seen) for k, v in o.items()) + "}"
    if isinstance(o, (list, tuple)):
        return "[" + ",".join(canon(v, depth + 1, seen) for v in o) + "]"
    if isinstance(o, (set, frozenset)):
        return "set(" + ",".join(sorted(canon(v, depth + 1, seen) for v in o)) + ")"
    if callable(o) and hasattr(o, "__name__"):
        return "<fn %s>" % o.__name__
    d = getattr(o, "__dict__", None)
    if d is not None:
        return "<%s %s>" % (type(o).__name__, canon({k: v for k, v in d.items() if not k.endswith("__parent")}, depth + 1, seen))
    return "<%s>" % type(o).__name__


def snapshot(regs):
    import importlib
    out = {}
    for (mod, name, _, _) in regs:
        m = importlib.import_module("shroud." + mod)
        obj = m
        try:
            for part in name.split("."):
                obj = getattr(obj, part)
            out[mod + "." + name] = hashlib.sha1(canon(obj).encode()).hexdigest()[:16]
        except AttributeError:
            out[mod + "." + name] = "<missing>"
    return out


def main():
    outp = sys.argv[1]
    names = sys.argv[2:]
    regs = scan_src.registries()
    import shroud.main as smain
    import shroud.ast as sast
    res = {"import": snapshot(regs)}
    sys.path.insert(0, HERE)
    import corpus
    D = {d[0]: d for d in corpus.test_descs()}
    base = os.environ.get("PROBE_OUT", "/tmp")
    orig = sast.create_library_from_dictionary
    state = {"armed": False}

    def hooked(node):
        if state["armed"]:
            res["at_hook"] = snapshot(regs)
            state["armed"] = False
        return orig(node)
    sast.create_library_from_dictionary = hooked
    smain.ast.create_library_from_dictionary = hooked
    for i, n in enumerate(names):
        _, y, cmd = D[n]
        od = os.path.join(base, "%d_%s" % (i, n))
        os.makedirs(od, exist_ok=True)
        state["armed"] = (i == len(names) - 1)
        old = sys.argv
        sys.argv = corpus.shroud_cmd(y, od, cmd)[2:]
        try:
            with contextlib.redirect_stdout(io.StringIO()):
                try:
                    smain.main()
                except SystemExit:
                    pass
        finally:
            sys.argv = old
    res["after"] = snapshot(regs)
    json.dump(res, open(outp, "w"))


if __name__ == "__main__":
    main()
