"""Compile validation of generated wrapper files (used by C05 and others).
compile_dir(od, incdirs, lang) -> list of failures [{file, compiler, message}] ; counts"""
import glob
import os
import subprocess
import sysconfig

VERIF = os.path.dirname(os.path.dirname(os.path.abspath(__file__)))
LUASTUB = os.path.join(VERIF, "tools", "cgen", "lua")


def run(cmd, cwd):
    p = subprocess.run(cmd, cwd=cwd, capture_output=True, text=True)
    return p.returncode, (p.stdout + p.stderr)


def compile_dir(od, incdirs=(), want=("c", "fortran", "python", "lua"), defines=()):
    """defines: preprocessor definitions ('-DNAME') under which every file is compiled"""
    fails = []
    done = {"c": 0, "fortran": 0, "python": 0, "lua": 0, "skipped": 0}
    inc = []
    for d in list(incdirs) + [od]:
        inc += ["-I", d]
    inc += list(defines)
    files = sorted(os.listdir(od))
    is_cxx = any(f.endswith((".cpp", ".hpp")) for f in files if not f.startswith(("py", "lua")))
    pyinc = sysconfig.get_paths()["include"]
    have_numpy = False
    for f in files:
        p = os.path.join(od, f)
        if f.endswith((".json", ".log", ".yaml", ".txt", ".py", ".mod", ".o")):
            continue
        txt = open(p, errors="replace").read()
        if f.startswith("py"):
            if "python" not in want:
                continue
            if "numpy" in txt and not have_numpy:
                done["skipped"] += 1
                continue
            comp = ["g++", "-std=c++11"] if f.endswith((".cpp", ".hpp")) else ["gcc", "-std=c99"]
            if f.endswith((".h", ".hpp")):
                cmd = comp + ["-fsyntax-only", "-w", "-x", "c++" if f.endswith(".hpp") else "c", "-I", pyinc] + inc + [p]
            else:
                cmd = comp + ["-fsyntax-only", "-w", "-I", pyinc] + inc + [p]
            rc, out = run(cmd, od)
            done["python"] += 1
        elif f.startswith("lua"):
            if "lua" not in want:
                continue
            cmd = ["g++", "-std=c++11", "-fsyntax-only", "-w", "-I", LUASTUB] + inc + (["-x", "c++"] if f.endswith(".hpp") else []) + [p]
            rc, out = run(cmd, od)
            done["lua"] += 1
        elif f.lower().endswith((".f", ".f90")):
            continue
        elif f.endswith(".h"):
            if "c" not in want:
                continue
            # a generated C header must compile on its own from C and from C++
            rc, out = run(["gcc", "-std=c99", "-fsyntax-only", "-w", "-x", "c"] + inc + [p], od)
            if rc == 0 and True:
                rc2, out2 = run(["g++", "-std=c++11", "-fsyntax-only", "-w", "-x", "c++"] + inc + [p], od)
                if rc2 != 0:
                    rc, out = rc2, out2
            done["c"] += 1
        elif f.endswith((".c", ".cpp")):
            if "c" not in want:
                continue
            comp = ["g++", "-std=c++11"] if f.endswith(".cpp") else ["gcc", "-std=c99"]
            rc, out = run(comp + ["-fsyntax-only", "-w"] + inc + [p], od)
            done["c"] += 1
        else:
            continue
        if rc != 0:
            fails.append({"file": f, "message": out.strip()[-700:]})
    if "fortran" in want:
        fs = [f for f in files if f.lower().endswith((".f", ".f90")) and f not in ("helpers.f",)]
        base = ["gfortran", "-ffree-form", "-ffree-line-length-none", "-cpp", "-fsyntax-only", "-J", od] + list(defines)
        for _ in range(3):
            for f in fs:
                run(base + [f], od)
        for f in fs:
            rc, out = run(base + [f], od)
            done["fortran"] += 1
            if rc != 0:
                fails.append({"file": f, "message": out.strip()[-700:]})
    return fails, done


def link_check(od, incdirs=()):
    """Symbol-level link validation of the C and Fortran wrappers: compile every generated C/C++ source and Fortran module
    to an object, then require (1) every undefined external symbol in Shroud's own name space (contains 'Shroud' or 'SHROUD')
    to be defined by a generated object, (2) no external symbol to be defined by two generated objects.
    Symbols of the wrapped library and of language run times stay undefined (they come from the user's link line)."""
    import shutil
    inc = []
    for d in list(incdirs) + [od]:
        inc += ["-I", d]
    obj = os.path.join(od, "_obj")
    shutil.rmtree(obj, ignore_errors=True)
    os.makedirs(obj)
    files = sorted(f for f in os.listdir(od) if not f.startswith(("py", "lua")))
    objs = []
    fails = []
    for f in files:
        p = os.path.join(od, f)
        o = os.path.join(obj, f + ".o")
        if f.endswith(".cpp"):
            rc, out = run(["g++", "-std=c++11", "-w", "-c", "-o", o] + inc + [p], od)
        elif f.endswith(".c"):
            rc, out = run(["gcc", "-std=c99", "-w", "-c", "-o", o] + inc + [p], od)
        else:
            continue
        if rc == 0:
            objs.append(o)
    fs = [f for f in files if f.lower().endswith((".f", ".f90")) and f not in ("helpers.f",)]
    base = ["gfortran", "-ffree-form", "-ffree-line-length-none", "-cpp", "-w", "-J", obj, "-c"]
    for _ in range(3):
        for f in fs:
            o = os.path.join(obj, f + ".o")
            rc, out = run(base + ["-o", o, os.path.join(od, f)], od)
    for f in fs:
        o = os.path.join(obj, f + ".o")
        if os.path.exists(o):
            objs.append(o)
    defined, undefined = {}, {}
    for o in objs:
        rc, out = run(["nm", "-g", o], od)
        for line in out.splitlines():
            parts = line.split()
            if len(parts) == 2 and parts[0] == "U":
                undefined.setdefault(parts[1], []).append(os.path.basename(o))
            elif len(parts) == 3 and parts[1] in "TDBRSC":
                defined.setdefault(parts[2], []).append(os.path.basename(o))
    for sym, where in sorted(undefined.items()):
        if ("Shroud" in sym or "SHROUD" in sym) and sym not in defined:
            fails.append({"file": where[0][:-2], "message": "undefined symbol %s (referenced by %s) is not defined by any generated file" % (sym, ", ".join(sorted(set(where))))})
    for sym, where in sorted(defined.items()):
        if len(where) > 1 and not sym.startswith(("_ZTS", "_ZTI", "_ZTV")):
            fails.append({"file": where[0][:-2], "message": "symbol %s is defined by several generated files: %s" % (sym, ", ".join(where))})
    shutil.rmtree(obj, ignore_errors=True)
    return fails, len(objs)
