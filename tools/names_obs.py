"""C08: observe emitted names in a directory of generated wrappers (text level) and in the JSON dump (node level)."""
import glob
import json
import os
import re


def c_prototypes(od):
    names = []
    for h in sorted(glob.glob(od + "/wrap*.h")):
        txt = open(h, errors="replace").read()
        txt = re.sub(r"/\*.*?\*/", "", txt, flags=re.S)
        txt = re.sub(r"//[^\n]*", "", txt)
        for m in re.finditer(r"^(?!typedef|struct|enum|#|extern|static)[A-Za-z_][\w \t\*]*?\b([A-Za-z_]\w*)[ \t]*\([^;{}]*\)[ \t]*;", txt, flags=re.M):
            names.append((os.path.basename(h), m.group(1)))
    return names


def fortran_modules(od):
    """[{file, specifics, bindc, generics: {name: [procedures]}}] per module file"""
    out = []
    for f in sorted(glob.glob(od + "/*.f") + glob.glob(od + "/*.F")):
        raw = open(f, errors="replace").read().split("\n")
        lines = []           # join free-form continuation lines
        for ln in raw:
            if lines and lines[-1].rstrip().endswith("&"):
                lines[-1] = lines[-1].rstrip()[:-1] + " " + ln.strip().lstrip("&")
            else:
                lines.append(ln)
        spec, bindc, gen, tbgen = [], [], {}, {}
        tb_by_type, cur_type = {}, None
        cur_if = None       # None | "" (unnamed) | name
        in_contains = False
        for ln in lines:
            s = ln.strip()
            low = s.lower()
            m = re.match(r"^interface\s*(.*)$", low)
            if m and not low.startswith("interface operator") and not low.startswith("interface assignment"):
                cur_if = m.group(1).strip()
                if cur_if:
                    gen.setdefault(cur_if, [])
                continue
            if low.startswith("interface"):
                cur_if = "<op>"
                continue
            if low.startswith("end interface"):
                cur_if = None
                continue
            if low == "contains" and not ln.startswith("    "):
                in_contains = True
                continue
            ty = re.match(r"^type\s+(\w+)\s*$", low) or re.match(r"^type\s*,[^:]*::\s*(\w+)\s*$", low)
            if ty:
                cur_type = ty.group(1)
                continue
            if low.startswith("end type"):
                cur_type = None
                continue
            tm = re.match(r"^generic\s*::\s*(\w+)\s*=>\s*(.*)$", low)
            if tm:
                names_ = [x.strip() for x in tm.group(2).rstrip("&").split(",") if x.strip()]
                tbgen.setdefault(tm.group(1), [])
                tbgen[tm.group(1)] += names_
                tb_by_type.setdefault(cur_type or "", {}).setdefault(tm.group(1), [])
                tb_by_type[cur_type or ""][tm.group(1)] += names_
                continue
            pm = re.match(r"^(?:(?:pure|elemental|recursive)\s+)*(?:function|subroutine)\s+(\w+)", low)
            if cur_if == "" and pm:
                bindc.append(pm.group(1))
            elif cur_if and cur_if != "<op>":
                mm = re.match(r"^module procedure\s+(.*)$", low)
                if mm:
                    gen[cur_if] += [x.strip() for x in mm.group(1).split(",")]
            elif in_contains and cur_if is None and pm and re.match(r"^    \S", ln):
                spec.append(pm.group(1))
        out.append({"file": os.path.basename(f), "specifics": spec, "bindc": bindc, "generics": gen, "tbgenerics": tbgen, "tbgenerics_by_type": tb_by_type})
    return out


def tables(od):
    """[(file, table name, [entry names])] for PyMethodDef and luaL_Reg tables"""
    out = []
    for f in sorted(glob.glob(od + "/py*.c*") + glob.glob(od + "/lua*.c*")):
        txt = open(f, errors="replace").read()
        for m in re.finditer(r"(?:PyMethodDef|luaL_Reg)\s+(\w+)\s*\[\]\s*=\s*\{(.*?)\n\};", txt, flags=re.S):
            ents = re.findall(r"^\s*\{\"([^\"]+)\"", m.group(2), flags=re.M)
            out.append((os.path.basename(f), m.group(1), ents))
    return out


def nodes(jpath):
    """function nodes of the JSON dump in order: dict(decl, generated, c, f, generic, overloaded, scope)"""
    d = json.load(open(jpath))
    out = []

    def walk(o, scope, fscope=""):
        if isinstance(o, dict):
            if "declgen" not in o and isinstance(o.get("fmtdict"), dict) and "F_name_scope" in o["fmtdict"]:
                fscope = o["fmtdict"]["F_name_scope"] or ""          # (set on the namespace / class node, inherited by its functions)
            if "declgen" in o and "fmtdict" in o:
                fm = o["fmtdict"]
                w = o.get("wrap", {})
                out.append({"decl": o.get("declgen"), "generated": o.get("_generated"), "c": fm.get("C_name") if w.get("c") else None,
                            "f": fm.get("F_name_impl") if w.get("fortran") else None, "generic": fm.get("F_name_generic"),
                            "overloaded": bool(o.get("_overloaded")), "scope": scope, "wrap": w, "fscope": fm.get("F_name_scope") if fm.get("F_name_scope") is not None else fscope,
                            "py": fm.get("PY_name_impl") if w.get("python") else None,
                            "ffunc": fm.get("F_name_function") if w.get("fortran") else None})
                return
            sc = scope
            if "name" in o and ("functions" in o or "classes" in o):
                # (an instantiation of a class template keeps the template's name; its typemap name tells them apart)
                nm = o.get("typemap_name") if o.get("template_arguments") and o.get("typemap_name") else o.get("name")
                sc = scope + "/" + str(nm)
            for k, v in o.items():
                walk(v, sc, fscope)
        elif isinstance(o, list):
            for v in o:
                walk(v, scope, fscope)
    walk(d, "")
    return out


def dups(names):
    seen, d = set(), []
    for n in names:
        if n in seen and n not in d:
            d.append(n)
        seen.add(n)
    return d
