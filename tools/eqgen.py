"""C01/C02: generate a library description (YAML), an instrumented C++ subject library, and drivers that make the same
calls (same argument values) directly through the C++ API, through the generated C API, and through the generated
Fortran module.  Every program prints the callee-side trace (what the library received) and the caller-side results
(what came back); equivalence = identical output.

Shapes (parameter kinds) — each knows its YAML / C++ declaration, the callee code, and the three calling forms.
"""
import json

NUM = {"int": ("int", "i", "integer(C_INT)"), "long": ("long", "l", "integer(C_LONG)"), "double": ("double", "d", "real(C_DOUBLE)"),
       "float": ("float", "f", "real(C_FLOAT)"), "size_t": ("size_t", "z", "integer(C_SIZE_T)")}


class P:
    """one parameter"""

    def __init__(self, shape, typ, name, value, variant=0):
        self.shape, self.typ, self.name, self.value = shape, typ, name, value
        # spelling variants of an in/out pointer or reference that mean the same: bit 0: the pointer itself is const
        # ("T * const a"), bit 1: the documented default intent (inout for a non-const pointer / reference) is left implicit
        self.variant = variant


def lit(typ, v, lang):
    if typ in ("double", "float"):
        s = repr(float(v))
        if lang == "f":
            return s + ("_C_DOUBLE" if typ == "double" else "_C_FLOAT")
        return s + ("f" if typ == "float" else "")
    if typ == "bool":
        return {"c": "true" if v else "false", "f": ".true." if v else ".false."}[lang]
    if typ == "Color":
        names = {0: "RED", 5: "GREEN", 6: "BLUE"}
        return names[v] if lang != "f" else names[v].lower()
    if lang == "f":
        k = {"int": "C_INT", "long": "C_LONG", "size_t": "C_SIZE_T"}[typ]
        if typ == "int" and v == -2147483648:
            return "(-2147483647_C_INT - 1_C_INT)"
        return "%d_%s" % (v, k)
    return "%d%s" % (v, "L" if typ == "long" else "")


def cstr(s):
    return json.dumps(s)


def fstr(s):
    return "'" + s.replace("'", "''") + "'"


def gen_params(rng, allow):
    ps = []
    for i in range(rng.randint(0, 4)):
        name = "a%d" % i
        shape = rng.choice(allow)
        if shape in ("val", "ptr_in", "ptr_out", "ptr_inout", "ref_inout", "ref_out"):
            typ = rng.choice(["int", "long", "double", "float"] + (["size_t"] if shape == "val" else []))
            if shape == "val" and rng.random() < 0.25:
                typ = rng.choice(["bool", "Color"])
            elif shape != "val" and rng.random() < 0.2:
                typ = "bool"          # logical <-> bool through a pointer / reference: converted on the way in AND on the way out
            if typ == "bool":
                v = rng.random() < 0.5
            elif typ == "Color":
                v = rng.choice([0, 5, 6])
            elif typ in ("double", "float"):
                v = rng.choice([0.0, 1.5, -2.25, 1024.0, 0.125, -0.5])
            elif typ == "size_t":
                v = rng.choice([0, 1, 7, 4096])
            else:
                v = rng.choice([0, 1, -1, 7, 2147483647, -2147483648] if typ == "int" else [0, 1, -1, 9, 2147483648, -2147483649])
            ps.append(P(shape, typ, name, v, variant=(rng.choice([0, 0, 1, 2, 3]) if shape in ("ptr_inout", "ptr_out", "ref_inout") else 0)))
        elif shape in ("str_cref", "cstr_in", "str_inout"):
            ps.append(P(shape, "string", name, rng.choice(["", "a", "hello", "two words", "trailing  ", "  lead", "x" * 15, " ", "    "]),
                        variant=(rng.choice([0, 0, 2, 4, 5, 6, 7]) if shape == "str_inout" else 0)))
        elif shape == "str_out":
            ps.append(P(shape, "string", name, ""))
        elif shape == "arr_in":
            typ = rng.choice(["int", "double"])
            n = rng.choice([0, 1, 3, 5])
            vals = [rng.choice([0, 1, -3, 8]) if typ == "int" else rng.choice([0.5, -1.25, 2.0]) for _ in range(n)]
            ps.append(P(shape, typ, name, vals))
        elif shape in ("obj_cref", "obj_ptr"):
            ps.append(P(shape, "Thing", name, rng.choice([3, 11, -4])))
    return ps


class F:
    def __init__(self, name, params, result, kind="function", rvalue=None):
        self.name, self.params, self.result, self.kind, self.rvalue = name, params, result, kind, rvalue


def cxx_param(p):
    t = p.typ
    if p.shape in ("ptr_inout", "ptr_out") and getattr(p, "variant", 0) & 1:
        return "%s * const %s" % (t, p.name)
    if p.shape == "str_inout" and getattr(p, "variant", 0) & 4:
        return "std::string *%s%s_p" % (" const " if getattr(p, "variant", 0) & 1 else "", p.name)
    return {"val": "%s %s" % (t, p.name), "ptr_in": "const %s *%s" % (t, p.name), "ptr_out": "%s *%s" % (t, p.name), "ptr_inout": "%s *%s" % (t, p.name),
            "ref_inout": "%s &%s" % (t, p.name), "ref_out": "%s &%s" % (t, p.name), "str_cref": "const std::string &%s" % p.name,
            "cstr_in": "const char *%s" % p.name, "str_inout": "std::string &%s" % p.name, "str_out": "std::string &%s" % p.name,
            "arr_in": "const %s *%s, int n%s" % (t, p.name, p.name), "obj_cref": "const Thing &%s" % p.name, "obj_ptr": "Thing *%s" % p.name}[p.shape]


def yaml_param(p):
    t = p.typ
    v = getattr(p, "variant", 0)
    if p.shape in ("ptr_inout", "ptr_out") and v:
        intent = "" if (p.shape == "ptr_inout" and v & 2) else " +intent(%s)" % p.shape[4:]
        return "%s *%s %s%s" % (t, " const" if v & 1 else "", p.name, intent)
    if p.shape == "str_inout" and v & 4:
        return "std::string *%s%s_p%s" % (" const " if v & 1 else "", p.name, "" if v & 2 else " +intent(inout)")
    if p.shape in ("ref_inout", "str_inout") and v & 2:
        return "%s &%s" % ("std::string" if p.shape == "str_inout" else t, p.name)
    return {"val": "%s %s" % (t, p.name), "ptr_in": "const %s *%s" % (t, p.name), "ptr_out": "%s *%s +intent(out)" % (t, p.name),
            "ptr_inout": "%s *%s +intent(inout)" % (t, p.name), "ref_inout": "%s &%s +intent(inout)" % (t, p.name),
            "ref_out": "%s &%s +intent(out)" % (t, p.name), "str_cref": "const std::string &%s" % p.name, "cstr_in": "const char *%s" % p.name,
            "str_inout": "std::string &%s +intent(inout)" % p.name, "str_out": "std::string &%s +intent(out)" % p.name,
            "arr_in": "const %s *%s +rank(1), int n%s +implied(size(%s))" % (t, p.name, p.name, p.name),
            "obj_cref": "const Thing &%s" % p.name, "obj_ptr": "Thing *%s" % p.name}[p.shape]


RESULTS = ["void", "int", "long", "double", "bool", "Color", "str_val", "str_cref", "cstr"]


def result_cxx(r):
    return {"str_val": "std::string", "str_cref": "const std::string &", "cstr": "const char *"}.get(r, r)


def callee_body(f, label):
    """C++ body: print what was received, define outputs deterministically"""
    b = ["  std::cout << \"callee %s(\";" % label, "  long acc = %d;" % (len(f.name) % 5)]
    for p in f.params:
        if p.shape == "str_inout" and getattr(p, "variant", 0) & 4:
            b.insert(0, "  std::string &%s = *%s_p;" % (p.name, p.name))
    for p in f.params:
        n = p.name
        if p.shape == "val":
            b.append("  show(%s); acc += code(%s);" % (n, n))
        elif p.shape == "ptr_in":
            b.append("  show(*%s); acc += code(*%s);" % (n, n))
        elif p.shape in ("ptr_inout",):
            b.append("  show(*%s); acc += code(*%s);" % (n, n))
        elif p.shape == "ref_inout":
            b.append("  show(%s); acc += code(%s);" % (n, n))
        elif p.shape in ("ptr_out", "ref_out", "str_out"):
            b.append("  std::cout << \"out,\";")
        elif p.shape in ("str_cref", "str_inout"):
            b.append("  show(%s); acc += (long)%s.size();" % (n, n))
        elif p.shape == "cstr_in":
            b.append("  show(std::string(%s)); acc += (long)std::strlen(%s);" % (n, n))
        elif p.shape == "arr_in":
            b.append("  std::cout << \"[\" << n%s << \":\"; for (int k = 0; k < n%s; ++k) { show(%s[k]); acc += code(%s[k]); } std::cout << \"],\";" % (n, n, n, n))
        elif p.shape == "obj_cref":
            b.append("  show(%s.get()); acc += %s.get();" % (n, n))
        elif p.shape == "obj_ptr":
            b.append("  show(%s->get()); acc += %s->get();" % (n, n))
    b.append("  std::cout << \")\\n\";")
    for k, p in enumerate(f.params):
        n = p.name
        if p.typ == "bool" and p.shape in ("ptr_out", "ptr_inout", "ref_out", "ref_inout"):
            tgt = ("*" + n) if p.shape.startswith("ptr") else n
            b.append("  %s = %s;" % (tgt, ("(acc % 2) == 0" if p.shape.endswith("_out") else "!" + tgt)))
        elif p.shape == "ptr_out":
            b.append("  *%s = (%s)(acc %% 97 + %d);" % (n, p.typ, k))
        elif p.shape == "ref_out":
            b.append("  %s = (%s)(acc %% 89 + %d);" % (n, p.typ, k))
        elif p.shape == "ptr_inout":
            b.append("  *%s = (%s)(*%s / 2 + %d);" % (n, p.typ, n, k + 1))
        elif p.shape == "ref_inout":
            b.append("  %s = (%s)(%s / 2 + %d);" % (n, p.typ, n, k + 1))
        elif p.shape == "str_out":
            b.append("  %s = std::string(\"o%d_\") + std::to_string(acc %% 1000);" % (n, k))
        elif p.shape == "str_inout":
            b.append("  %s = %s + std::string(\"+%d\");" % (n, n, k))
    r = f.result
    if r in ("int", "long"):
        b.append("  return (%s)(acc %% 100000);" % r)
    elif r == "double":
        b.append("  return (double)(acc % 1000) + 0.25;")
    elif r == "bool":
        b.append("  return (acc % 2) == 0;")
    elif r == "Color":
        b.append("  return (acc % 3 == 0) ? RED : ((acc % 3 == 1) ? GREEN : BLUE);")
    elif r == "str_val":
        b.append("  return std::string(\"r_\") + std::to_string(acc % 1000);")
    elif r == "str_cref":
        b.append("  static std::string keep; keep = std::string(\"k_\") + std::to_string(acc % 1000); return keep;")
    elif r == "cstr":
        b.append("  static std::string keepc; keepc = std::string(\"c_\") + std::to_string(acc % 1000); return keepc.c_str();")
    return "\n".join(b)


HPP_HEAD = r'''#pragma once
#include <string>
#include <vector>
#include <cstddef>
enum Color { RED, GREEN = 5, BLUE };
class Thing {
 public:
  int v;
  Thing() : v(0) {}          // (not wrapped; the wrapper of a by-value result default-constructs its heap copy)
  Thing(int vv);
  ~Thing();
  int get() const;
%s
};
'''
CPP_HEAD = r'''#include "eq.hpp"
#include <iostream>
#include <cstring>
static void show(long x) { std::cout << x << ","; }
static void show(int x) { std::cout << x << ","; }
static void show(size_t x) { std::cout << x << ","; }
static void show(bool x) { std::cout << (x ? "T" : "F") << ","; }
static void show(Color x) { std::cout << "E" << (int)x << ","; }
static void show(double x) { std::cout << (long)(x * 1024.0) << "/1024,"; }
static void show(float x) { std::cout << (long)(x * 1024.0f) << "/1024,"; }
static void show(const std::string &s) { std::cout << "'" << s << "'" << s.size() << ","; }
static long code(long x) { return x % 1000; }
static long code(int x) { return x % 1000; }
static long code(size_t x) { return (long)(x % 1000); }
static long code(bool x) { return x ? 1 : 0; }
static long code(Color x) { return (long)x; }
static long code(double x) { return (long)(x * 8.0); }
static long code(float x) { return (long)(x * 8.0f); }
Thing::Thing(int vv) : v(vv) {}
Thing::~Thing() {}
int Thing::get() const { return v; }
'''


def gen_library(rng, nfun=6):
    """returns dict(yaml, hpp, cpp, funcs) ; funcs: list of F (global functions and methods of Thing)"""
    allow = ["val", "val", "ptr_in", "ptr_out", "ptr_inout", "ref_inout", "ref_out", "str_cref", "cstr_in", "str_inout", "str_out", "arr_in",
             "obj_cref", "obj_ptr"]
    funcs = []
    for i in range(nfun):
        kind = rng.choice(["function", "function", "function", "method", "cmethod", "static"])
        ps = gen_params(rng, allow)
        res = rng.choice(RESULTS)
        funcs.append(F("fn%d" % i if kind == "function" else "me%d" % i, ps, res, kind, rvalue=rng.choice([2, 9, 40])))
    decls, mdecls, hfun, hmeth, cpp = [], [], [], [], [CPP_HEAD]
    sp = specials(rng)
    for f in funcs:
        ysig = "%s %s(%s)" % (result_cxx(f.result), f.name, ", ".join(yaml_param(p) for p in f.params))
        csig = "%s(%s)" % (f.name, ", ".join(cxx_param(p) for p in f.params))
        if f.kind == "function":
            decls.append({"decl": ysig})
            hfun.append("%s %s;" % (result_cxx(f.result), csig))
            cpp.append("%s %s\n{\n%s\n}" % (result_cxx(f.result), csig, callee_body(f, f.name)))
        else:
            q = {"method": "", "cmethod": " const", "static": ""}[f.kind]
            mdecls.append({"decl": ("static " if f.kind == "static" else "") + ysig + q})
            hmeth.append("  %s%s %s%s;" % ("static " if f.kind == "static" else "", result_cxx(f.result), csig, q))
            body = callee_body(f, "Thing::" + f.name)
            if f.kind != "static":
                body = body.replace("long acc = ", "long acc = v + ", 1)
            cpp.append("%s Thing::%s%s\n{\n%s\n}" % (result_cxx(f.result), csig, q, body))
    ydecl = [{"decl": "enum Color { RED, GREEN = 5, BLUE }"},
             {"decl": "class Thing", "declarations": [{"decl": "Thing(int vv)"}, {"decl": "~Thing() +name(delete)"}, {"decl": "int get() const"}] + mdecls + sp["mdecls"]}] \
        + decls + sp["decls"]
    lib = {"library": "eq", "cxx_header": "eq.hpp", "options": {"wrap_python": False, "wrap_lua": False}, "declarations": ydecl}
    return {"lib": lib, "hpp": HPP_HEAD % "\n".join(hmeth + sp["hmeth"]) + "\n".join(hfun + sp["hpp"]) + "\n",
            "cpp": "\n".join(cpp + ["#include <cstdlib>"] + sp["cpp"]) + "\n", "funcs": funcs, "specials": sp}


SHOW_CPP = r'''// caller-side printing shared by all drivers (C, C++ and Fortran through bind(C))
#include <iostream>
#include <string>
extern "C" {
void eq_begin(const char *name) { std::cout << "caller " << name << " "; }
void eq_int(long x) { std::cout << x << ","; }
void eq_size(size_t x) { std::cout << x << ","; }
void eq_bool(int x) { std::cout << (x ? "T" : "F") << ","; }
void eq_enum(int x) { std::cout << "E" << x << ","; }
void eq_double(double x) { std::cout << (long)(x * 1024.0) << "/1024,"; }
void eq_str(const char *s, int n) { std::cout << "'" << std::string(s, n) << "'" << n << ","; }
void eq_end(void) { std::cout << "\n"; std::cout.flush(); }
}
'''
SHOW_H = r'''#include <stddef.h>
#ifdef __cplusplus
extern "C" {
#endif
void eq_begin(const char *name); void eq_int(long x); void eq_size(size_t x); void eq_bool(int x); void eq_enum(int x);
void eq_double(double x); void eq_str(const char *s, int n); void eq_end(void);
#ifdef __cplusplus
}
#endif
'''


def show_call(typ, expr):
    if typ in ("int", "long"):
        return "eq_int((long)(%s));" % expr
    if typ == "size_t":
        return "eq_size((size_t)(%s));" % expr
    if typ in ("double", "float"):
        return "eq_double((double)(%s));" % expr
    if typ == "bool":
        return "eq_bool((int)(%s));" % expr
    if typ == "Color":
        return "eq_enum((int)(%s));" % expr
    raise ValueError(typ)


def direct_driver(lib):
    """C++ program calling the C++ API directly"""
    out = ["#include \"eq.hpp\"", "#include \"eqshow.h\"", "#include <cstring>", "int main() {", "  Thing self(100);"]
    for k, f in enumerate(lib["funcs"]):
        b = ["  {"]
        args = []
        post = []
        for p in f.params:
            n = p.name
            if p.shape == "val":
                b.append("    %s %s = %s;" % (p.typ, n, lit(p.typ, p.value, "c")))
                args.append(n)
            elif p.shape in ("ptr_in", "ptr_out", "ptr_inout"):
                b.append("    %s %s = %s;" % (p.typ, n, lit(p.typ, p.value if p.shape != "ptr_out" else 0, "c")))
                args.append("&" + n)
                if p.shape != "ptr_in":
                    post.append(show_call(p.typ, n))
            elif p.shape in ("ref_inout", "ref_out"):
                b.append("    %s %s = %s;" % (p.typ, n, lit(p.typ, p.value if p.shape != "ref_out" else 0, "c")))
                args.append(n)
                post.append(show_call(p.typ, n))
            elif p.shape == "str_cref":
                args.append("std::string(%s)" % cstr(p.value))
            elif p.shape == "cstr_in":
                args.append(cstr(p.value))
            elif p.shape in ("str_inout", "str_out"):
                b.append("    std::string %s(%s);" % (n, cstr(p.value)))
                args.append(("&" + n) if (p.shape == "str_inout" and getattr(p, "variant", 0) & 4) else n)
                post.append("eq_str(%s.data(), (int)%s.size());" % (n, n))
            elif p.shape == "arr_in":
                vals = ", ".join(lit(p.typ, v, "c") for v in p.value) or "0"
                b.append("    %s %s[] = {%s};" % (p.typ, n, vals))
                args.append("%s, %d" % (n, len(p.value)))
            elif p.shape == "obj_cref":
                b.append("    Thing %s(%d);" % (n, p.value))
                args.append(n)
            elif p.shape == "obj_ptr":
                b.append("    Thing %s(%d);" % (n, p.value))
                args.append("&" + n)
        call = {"function": "%s(%s)", "method": "self.%s(%s)", "cmethod": "self.%s(%s)", "static": "Thing::%s(%s)"}[f.kind] % (f.name, ", ".join(args))
        r = f.result
        if r == "void":
            b.append("    %s;" % call)
            b.append("    eq_begin(\"%s\");" % f.name)
        elif r in ("str_val", "str_cref"):
            b.append("    std::string r = %s;" % call)
            b.append("    eq_begin(\"%s\"); eq_str(r.data(), (int)r.size());" % f.name)
        elif r == "cstr":
            b.append("    const char *r = %s;" % call)
            b.append("    eq_begin(\"%s\"); eq_str(r, (int)std::strlen(r));" % f.name)
        else:
            b.append("    %s r = %s;" % (r, call))
            b.append("    eq_begin(\"%s\"); %s" % (f.name, show_call(r, "r")))
        b += ["    " + x for x in post]
        b.append("    eq_end();")
        b.append("  }")
        out += b
    out += lib.get("specials", {}).get("direct", [])
    out += ["  return 0;", "}"]
    return "\n".join(out) + "\n"


def c_driver(lib, protos):
    """C++ program that uses ONLY the generated C API (wrap*.h).  protos: {C function name: [(type text, param name), ...]}"""
    out = ["#include \"typeseq.h\"", "#include \"wrapeq.h\"", "#include \"wrapThing.h\"", "#include \"eqshow.h\"", "#include <cstring>", "#include <cstdio>",
           "extern \"C\" void EQ_ShroudCopyArray(EQ_SHROUD_array *data, void *c_var, size_t c_var_size);",
           "int main() {", "  EQ_Thing self_cap; EQ_Thing_ctor(100, &self_cap);"]
    missing = []
    for k, f in enumerate(lib["funcs"]):
        base = "EQ_" + ("Thing_" if f.kind != "function" else "") + f.name
        use = base + "_bufferify" if (f.result == "str_val" or base not in protos) else base
        if use not in protos:
            missing.append(use)
            continue
        b = ["  {"]
        post = []
        vals = {}
        for p in f.params:
            n = p.name
            if p.shape == "val":
                b.append("    %s %s = %s;" % ("int" if p.typ == "Color" else p.typ, n, ("%d" % p.value) if p.typ == "Color" else lit(p.typ, p.value, "c")))
                vals[n] = n
            elif p.shape in ("ptr_in", "ptr_out", "ptr_inout", "ref_inout", "ref_out"):
                b.append("    %s %s = %s;" % (p.typ, n, lit(p.typ, p.value if p.shape not in ("ptr_out", "ref_out") else 0, "c")))
                vals[n] = "&" + n
                if p.shape != "ptr_in":
                    post.append(show_call(p.typ, n))
            elif p.shape in ("str_cref", "cstr_in"):
                vals[n] = cstr(p.value)
                vals["L" + n] = "%d" % len(p.value)
            elif p.shape in ("str_inout", "str_out"):
                b.append("    char %s[64]; std::memset(%s, ' ', 64); std::strcpy(%s, %s);" % (n, n, n, cstr(p.value)))
                dn = n + ("_p" if (p.shape == "str_inout" and getattr(p, "variant", 0) & 4) else "")      # the declared parameter name
                vals[dn] = n
                vals["L" + dn] = "%d" % len(p.value)
                vals["N" + dn] = "40"
                post.append("@STR@" + n)
            elif p.shape == "arr_in":
                v = ", ".join(lit(p.typ, x, "c") for x in p.value) or "0"
                b.append("    %s %s[] = {%s};" % (p.typ, n, v))
                vals[n] = n
                vals["n" + n] = "%d" % len(p.value)
            elif p.shape in ("obj_cref", "obj_ptr"):
                b.append("    EQ_Thing %s; EQ_Thing_ctor(%d, &%s);" % (n, p.value, n))
                vals[n] = "&" + n
        vals["self"] = "&self_cap"
        bufferified = use.endswith("_bufferify")
        if bufferified:
            b.append("    EQ_SHROUD_array DSHF; std::memset(&DSHF, 0, sizeof DSHF);")
            vals["DSHF_rv"] = "&DSHF"
        args = []
        ok = True
        for (t, n) in protos[use]:
            if n not in vals:
                ok = False
                missing.append("%s:%s" % (use, n))
                break
            args.append(vals[n])
        if not ok:
            continue
        call = "%s(%s)" % (use, ", ".join(args))
        r = f.result
        if r == "void":
            b.append("    %s;" % call)
            b.append("    eq_begin(\"%s\");" % f.name)
        elif r == "str_val":
            b.append("    %s;" % call)
            b.append("    eq_begin(\"%s\"); eq_str(DSHF.addr.ccharp ? DSHF.addr.ccharp : \"\", (int)DSHF.elem_len); EQ_SHROUD_memory_destructor(&DSHF.cxx);" % f.name)
        elif r in ("str_cref", "cstr"):
            b.append("    const char *r = %s;" % call)
            b.append("    eq_begin(\"%s\"); eq_str(r, (int)std::strlen(r));" % f.name)
        elif r == "Color":
            b.append("    int r = %s;" % call)
            b.append("    eq_begin(\"%s\"); eq_enum(r);" % f.name)
        else:
            b.append("    %s r = %s;" % (r, call))
            b.append("    eq_begin(\"%s\"); %s" % (f.name, show_call(r, "r")))
        for x in post:
            if x.startswith("@STR@"):
                n = x[5:]
                if bufferified:      # blank padded, not NUL terminated: the documented Fortran-side convention
                    b.append("    { int m = 40; while (m > 0 && %s[m-1] == ' ') --m; eq_str(%s, m); }" % (n, n))
                else:
                    b.append("    eq_str(%s, (int)std::strlen(%s));" % (n, n))
            else:
                b.append("    " + x)
        b.append("    eq_end();")
        b.append("  }")
        out += b
    out += lib.get("specials", {}).get("c", [])
    out += ["  return 0;", "}"]
    return "\n".join(out) + "\n", missing


def parse_protos(od):
    """{name: [(type, param)]} from wrapeq.h and wrapThing.h"""
    import re
    import os
    protos = {}
    for h in ("wrapeq.h", "wrapThing.h"):
        p = os.path.join(od, h)
        if not os.path.exists(p):
            continue
        txt = open(p).read()
        txt = re.sub(r"/\*.*?\*/", "", txt, flags=re.S)
        txt = re.sub(r"//[^\n]*", "", txt)
        for m in re.finditer(r"^(?!typedef|struct|enum|#|extern|static)[A-Za-z_][\w \t\*]*?\b(EQ_\w+)[ \t]*\(([^;{}]*)\)[ \t]*;", txt, flags=re.M):
            params = []
            body = " ".join(m.group(2).split())
            if body and body != "void":
                for a in body.split(","):
                    a = a.strip()
                    mm = re.match(r"^(.*?)(\w+)$", a)
                    params.append((mm.group(1).strip(), mm.group(2)))
            protos[m.group(1)] = params
    return protos


F_IFACE = '''    interface
        subroutine eq_begin(name) bind(C, name="eq_begin")
            use iso_c_binding
            character(kind=C_CHAR), intent(in) :: name(*)
        end subroutine
        subroutine eq_int(x) bind(C, name="eq_int")
            use iso_c_binding
            integer(C_LONG), value :: x
        end subroutine
        subroutine eq_size(x) bind(C, name="eq_size")
            use iso_c_binding
            integer(C_SIZE_T), value :: x
        end subroutine
        subroutine eq_bool(x) bind(C, name="eq_bool")
            use iso_c_binding
            integer(C_INT), value :: x
        end subroutine
        subroutine eq_enum(x) bind(C, name="eq_enum")
            use iso_c_binding
            integer(C_INT), value :: x
        end subroutine
        subroutine eq_double(x) bind(C, name="eq_double")
            use iso_c_binding
            real(C_DOUBLE), value :: x
        end subroutine
        subroutine eq_str(s, n) bind(C, name="eq_str")
            use iso_c_binding
            character(kind=C_CHAR), intent(in) :: s(*)
            integer(C_INT), value :: n
        end subroutine
        subroutine eq_end() bind(C, name="eq_end")
        end subroutine
    end interface
'''
FTYPE = {"int": "integer(C_INT)", "long": "integer(C_LONG)", "double": "real(C_DOUBLE)", "float": "real(C_FLOAT)", "size_t": "integer(C_SIZE_T)",
         "bool": "logical", "Color": "integer(C_INT)"}


def f_show(typ, expr):
    if typ in ("int", "long"):
        return "call eq_int(int(%s, C_LONG))" % expr
    if typ == "size_t":
        return "call eq_size(%s)" % expr
    if typ in ("double", "float"):
        return "call eq_double(real(%s, C_DOUBLE))" % expr
    if typ == "bool":
        return "call eq_bool(merge(1_C_INT, 0_C_INT, %s))" % expr
    if typ == "Color":
        return "call eq_enum(%s)" % expr
    raise ValueError(typ)


def f_driver(lib):
    """Fortran program using only the generated module eq_mod"""
    decl = ["    type(thing) :: self"]
    body = ["    self = thing(100_C_INT)"]
    for k, f in enumerate(lib["funcs"]):
        args = []
        post = []
        pre = []
        for p in f.params:
            n = "v%d_%s" % (k, p.name)
            if p.shape == "val":
                args.append(lit(p.typ, p.value, "f"))
            elif p.shape in ("ptr_in", "ptr_out", "ptr_inout", "ref_inout", "ref_out"):
                decl.append("    %s :: %s" % (FTYPE[p.typ], n))
                pre.append("    %s = %s" % (n, lit(p.typ, p.value if p.shape not in ("ptr_out", "ref_out") else 0, "f")))
                args.append(n)
                if p.shape != "ptr_in":
                    post.append("    " + f_show(p.typ, n))
            elif p.shape in ("str_cref", "cstr_in"):
                args.append(fstr(p.value))
            elif p.shape in ("str_inout", "str_out"):
                decl.append("    character(len=40) :: %s" % n)
                pre.append("    %s = %s" % (n, fstr(p.value)))
                args.append(n)
                post.append("    call eq_str(%s, len_trim(%s, kind=C_INT))" % (n, n))
            elif p.shape == "arr_in":
                m = len(p.value)
                decl.append("    %s :: %s(%d)" % (FTYPE[p.typ], n, m))
                if m:
                    pre.append("    %s = [%s]" % (n, ", ".join(lit(p.typ, v, "f") for v in p.value)))
                args.append(n)
            elif p.shape in ("obj_cref", "obj_ptr"):
                decl.append("    type(thing) :: %s" % n)
                pre.append("    %s = thing(%d_C_INT)" % (n, p.value))
                args.append(n)
        call = ("%s(%s)" if f.kind == "function" else "self%%%s(%s)") % (f.name, ", ".join(args))
        body += pre
        r = f.result
        rn = "r%d" % k
        body.append("    ! call %d" % k)
        if r == "void":
            body.append("    call %s" % call)
            body.append("    call eq_begin(\"%s\"//C_NULL_CHAR)" % f.name)
        elif r in ("str_val", "str_cref", "cstr"):
            decl.append("    character(len=:), allocatable :: %s" % rn)
            body.append("    %s = %s" % (rn, call))
            body.append("    call eq_begin(\"%s\"//C_NULL_CHAR)" % f.name)
            body.append("    call eq_str(%s, len(%s, kind=C_INT))" % (rn, rn))
        else:
            decl.append("    %s :: %s" % (FTYPE[r], rn))
            body.append("    %s = %s" % (rn, call))
            body.append("    call eq_begin(\"%s\"//C_NULL_CHAR)" % f.name)
            body.append("    " + f_show(r, rn))
        body += post
        body.append("    call eq_end()")
    sp = lib.get("specials", {})
    decl += sp.get("f_decl", [])
    body += sp.get("f_body", [])
    return "program viaf\n    use iso_c_binding\n    use eq_mod\n    implicit none\n" + F_IFACE + "\n".join(decl) + "\n" + "\n".join(body) + "\nend program viaf\n"


def trimmed_copy(lib):
    """the same library description with character INPUT values right-trimmed: the documented conversion of the Fortran API"""
    import copy
    l2 = copy.copy(lib)
    l2["funcs"] = []
    for f in lib["funcs"]:
        ps = []
        for p in f.params:
            if p.shape in ("str_cref", "cstr_in", "str_inout"):
                ps.append(P(p.shape, p.typ, p.name, p.value.rstrip(" "), getattr(p, "variant", 0)))
            else:
                ps.append(p)
        l2["funcs"].append(F(f.name, ps, f.result, f.kind, f.rvalue))
    return l2          # (copy.copy keeps "specials")


# ---------------------------------------------------------------- fixed-form extras: default arguments, templates, array results
# arguments of getlbl/getlbl2: the empty result, a short one, and one that fills the caller's 12 characters exactly
LBL_IV = {"getlbl": (0, 3, 1234567), "getlbl2": (0, 3, 123456789)}


def specials(rng):
    """declarations with default arguments (function, method, constructor-free), a function template with two instantiations and
    array results (allocatable rank 1 and 2, pointer rank 1).  Returns dict(decls, mdecls, hpp, hmeth, cpp, direct, c, f_decl, f_body)."""
    a, b, c = rng.choice([1, 5, -3]), rng.choice([2, 20]), rng.choice([3, 300])
    v_i, v_d = rng.choice([4, -7, 21]), rng.choice([1.25, -0.5, 8.0])
    n1, nr, nc = rng.choice([0, 1, 4]), rng.choice([1, 2, 3]), rng.choice([1, 2])
    m_a, m_b = rng.choice([2, 6]), rng.choice([3, 9])
    decls = [{"decl": "int defs(int a, int b = 10, int c = 100)"},
             {"decl": "double defd(double x, double y = 0.0)"},
             {"decl": "template<typename T> T twice(T v)", "cxx_template": [{"instantiation": "<int>"}, {"instantiation": "<double>"}]},
             {"decl": "int *garr(int n) +dimension(n)+deref(allocatable)"},
             {"decl": "int *gmat(int nr, int nc) +dimension(nr,nc)+deref(allocatable)"},
             {"decl": "double *gptr(int n) +dimension(n)+deref(pointer)"},
             # fortran_generic: the Fortran caller picks a specific by argument type; implied arguments are computed from the
             # argument the caller actually passed
             {"decl": "long gen2(long a1, long a2)", "fortran_generic": [{"decl": "(int a1, int a2)"}, {"decl": "(long a1, long a2)"}]},
             {"decl": "double sum_typed(void *addr, int type +implied(type(addr)), size_t size +implied(size(addr)))",
              "fortran_generic": [{"decl": "(float *addr +rank(1)+deref(raw)+intent(in))"},
                                  {"decl": "(double *addr +rank(1)+deref(raw)+intent(in))"},
                                  {"decl": "(int *addr +rank(1)+deref(raw)+intent(in))"}]}]
    decls.append({"decl": "int total_length(const std::vector<std::string> &names)"})
    # an overload set in which a char pointer converts to the wrong candidate unless the wrapper rebuilds the std::string itself
    decls += [{"decl": "int label(const std::string &name)"}, {"decl": "int label(bool flag)"}]
    # fortran_generic variants of a function that also needs the bufferify route (string argument): every variant trims / delimits
    decls += [{"decl": "double tagd(const std::string &name, double arg)",
               "fortran_generic": [{"decl": "(const std::string &name, float arg)"}, {"decl": "(const std::string &name, double arg)"}]}]
    # a struct passed by const reference, by reference (changed by the callee), by value and by pointer
    decls += [{"decl": "struct Pt { int x; double y; };"}, {"decl": "int pt_cref(const Pt &p)"}, {"decl": "void pt_scale(Pt &p +intent(inout), int k)"},
              {"decl": "int pt_val(Pt p)"}, {"decl": "int pt_ptr(const Pt *p)"}]
    # an overload pair that differs in the constness of a struct argument: the intent(in) attribute on the non-const one does not
    # make the wrapper's local const (the call would resolve to the other overload)
    decls += [{"decl": "int take(Pt &p +intent(in), int k)"}, {"decl": "int take(const Pt &p, double k)"}]
    # a vector the library resizes: the caller's allocatable array takes the new extent (grow and shrink)
    decls += [{"decl": "void vgrow(std::vector<int> &arg +intent(inout)+deref(allocatable), int extra)"}]
    # std::string results into a fixed-length Fortran variable (function result with +len, result as an output argument): the
    # variable is blank filled, also when the library returns the empty string
    decls += [{"decl": "const std::string getlbl(int i) +len(12)"},
              {"decl": "const std::string getlbl2(int i)", "format": {"F_string_result_as_arg": "output"}}]
    # a void function template beside an ordinary function of the same name: the wrapper of an instantiation names its template
    # arguments in the call (deduction alone would prefer the ordinary function).  The ordinary one has no Fortran wrapper: a
    # generic with both would be ambiguous.
    decls += [{"decl": "void put(int v)", "options": {"wrap_fortran": False}},
              {"decl": "template<typename T> void put(T v)", "cxx_template": [{"instantiation": "<int>"}, {"instantiation": "<double>"}]}]
    # a vector the library fills, copied into a caller array of ANOTHER extent (a section of a longer array: shorter and longer
    # than the vector): min(extent, size) elements are copied, nothing outside the argument is touched
    decls += [{"decl": "void iota_out(int n, std::vector<int> &arg +intent(out))"}]
    # an enumeration with an explicit zero after other values, passed to the library through all three routes
    decls += [{"decl": "enum Mode { FAST = 4, SAFE = 2, NONE = 0, AUTO }"}, {"decl": "int weight(Mode m)"}]
    # an assumed-rank argument: one Fortran specific per rank from F_assumed_rank_min to F_assumed_rank_max, both ends included
    decls += [{"decl": "int sumv(const int *values +dimension(..), int nvalues)", "options": {"F_assumed_rank_max": 2}}]
    # an overload set whose FIRST member has an explicit suffix: the others keep the number of their position in the whole set
    decls += [{"decl": "int putx(char c)", "format": {"function_suffix": "_char"}}, {"decl": "int putx(int v)"}, {"decl": "int putx(double v)"}]
    decls += [{"decl": "int labelv(std::string name)"}, {"decl": "int labelv(bool flag)"}]          # the same with the string passed by value
    # a const method whose class ALSO has a non-const overload that is not wrapped: the wrapper must call through a pointer to const
    # a class instance returned BY VALUE (method and function): the wrapper keeps a heap copy whose address goes into the capsule
    mdecls = [{"decl": "int addmul(int a, int b = 2)"}, {"decl": "int peekc() const"}, {"decl": "Thing twin(int d) const"}]
    decls.append({"decl": "Thing makeThing(int v)"})
    hpp = ["int total_length(const std::vector<std::string> &names);", "int label(const std::string &name);", "int label(bool flag);", "int labelv(std::string name);", "int labelv(bool flag);", "int putx(char c);", "int putx(int v);", "int putx(double v);", "enum Mode { FAST = 4, SAFE = 2, NONE = 0, AUTO };", "int weight(Mode m);",
           "int sumv(const int *values, int nvalues);", "void iota_out(int n, std::vector<int> &arg);", "void put(int v);", "void eq_trace_put(double v, int size);",
           "template<typename T> void put(T v) { eq_trace_put((double)v, (int)sizeof(T)); }", "const std::string getlbl(int i);", "const std::string getlbl2(int i);", "void vgrow(std::vector<int> &arg, int extra);", "struct Pt { int x; double y; };",
           "int take(Pt &p, int k);", "int take(const Pt &p, double k);", "int pt_cref(const Pt &p);", "void pt_scale(Pt &p, int k);", "int pt_val(Pt p);", "int pt_ptr(const Pt *p);", "double tagd(const std::string &name, double arg);",
           "int defs(int a, int b = 10, int c = 100);", "double defd(double x, double y = 0.0);",
           "void eq_trace_twice(double v);",
           "template<typename T> T twice(T v) { eq_trace_twice((double)v); return (T)(v + v); }",
           "int *garr(int n);", "int *gmat(int nr, int nc);", "double *gptr(int n);",
           "long gen2(long a1, long a2);", "double sum_typed(void *addr, int type, size_t size);"]
    hmeth = ["  int addmul(int a, int b = 2);", "  int peekc() const;", "  int peekc();", "  Thing twin(int d) const;"]
    hpp.append("Thing makeThing(int v);")
    cpp = ['int defs(int a, int b, int c) { std::cout << "callee defs(" << a << "," << b << "," << c << ")\\n"; return a + b + c; }',
           'double defd(double x, double y) { std::cout << "callee defd("; show(x); show(y); std::cout << ")\\n"; return x * 2.0 + y; }',
           'void eq_trace_twice(double v) { std::cout << "callee twice("; show(v); std::cout << ")\\n"; }',
           'static int gbuf[64]; static double dbuf[64];',
           'int *garr(int n) { std::cout << "callee garr(" << n << ")\\n"; int *p = gbuf; for (int i = 0; i < n; ++i) p[i] = 10 + i; return p; }',
           'int *gmat(int nr, int nc) { std::cout << "callee gmat(" << nr << "," << nc << ")\\n"; int *p = gbuf + 32; for (int i = 0; i < nr * nc; ++i) p[i] = 100 + i; return p; }',
           'double *gptr(int n) { std::cout << "callee gptr(" << n << ")\\n"; for (int i = 0; i < n && i < 64; ++i) dbuf[i] = 0.5 * i; return dbuf; }',
           'long gen2(long a1, long a2) { std::cout << "callee gen2(" << a1 << "," << a2 << ")\\n"; return a1 * 1000 + a2; }',
           'double sum_typed(void *addr, int type, size_t size) { std::cout << "callee sum_typed(type=" << type << ",size=" << size << ")\\n"; double t = 0; '
           'for (size_t i = 0; i < size; ++i) t += type == 22 ? ((float *)addr)[i] : type == 23 ? ((double *)addr)[i] : type == 3 ? ((int *)addr)[i] : -1000.0; return t; }',
           'int total_length(const std::vector<std::string> &names) { std::cout << "callee total_length("; int t = 0; '
           'for (size_t i = 0; i < names.size(); ++i) { std::cout << "[" << names[i] << "]"; t += (int)names[i].size(); } std::cout << ")\\n"; return t; }',
           'int label(const std::string &name) { std::cout << "callee label(string [" << name << "])\\n"; return 100 + (int)name.size(); }',
           'double tagd(const std::string &name, double arg) { std::cout << "callee tagd([" << name << "],"; show(arg); std::cout << ")\\n"; return arg + (double)name.size(); }',
           'int take(Pt &p, int k) { std::cout << "callee take(Pt&," << p.x << "," << k << ")\\n"; return 1000 + p.x + k; }',
           'int take(const Pt &p, double k) { std::cout << "callee take(const Pt&," << p.x << ","; show(k); std::cout << ")\\n"; return 2000 + p.x + (int)k; }',
           'int pt_cref(const Pt &p) { std::cout << "callee pt_cref(" << p.x << ","; show(p.y); std::cout << ")\\n"; return p.x * 10; }',
           'void pt_scale(Pt &p, int k) { std::cout << "callee pt_scale(" << p.x << ","; show(p.y); std::cout << "," << k << ")\\n"; p.x *= k; p.y *= k; }',
           'int pt_val(Pt p) { std::cout << "callee pt_val(" << p.x << ","; show(p.y); std::cout << ")\\n"; return p.x + 1; }',
           'int pt_ptr(const Pt *p) { std::cout << "callee pt_ptr(" << p->x << ","; show(p->y); std::cout << ")\\n"; return p->x + 2; }',
           'void vgrow(std::vector<int> &arg, int extra) { std::cout << "callee vgrow(n=" << arg.size() << ",extra=" << extra << ")\\n"; '
           'if (extra >= 0) { for (int i = 0; i < extra; ++i) arg.push_back(100 + i); } else { arg.resize(arg.size() + extra); } for (size_t i = 0; i < arg.size(); ++i) arg[i] += 1; }',
           'const std::string getlbl(int i) { std::cout << "callee getlbl(" << i << ")\\n"; return i == 0 ? std::string() : std::string("label") + std::to_string(i); }',
           'const std::string getlbl2(int i) { std::cout << "callee getlbl2(" << i << ")\\n"; return i == 0 ? std::string() : std::string("tag") + std::to_string(i); }',
           'void put(int v) { std::cout << "callee put ordinary(" << v << ")\\n"; }',
           'void eq_trace_put(double v, int size) { std::cout << "callee put<T> sizeof=" << size << " ("; show(v); std::cout << ")\\n"; }',
           'void iota_out(int n, std::vector<int> &arg) { std::cout << "callee iota_out(" << n << ")\\n"; arg.clear(); for (int i = 0; i < n; ++i) arg.push_back(101 + i); }',
           'int weight(Mode m) { std::cout << "callee weight(" << (int)m << ")\\n"; return m == NONE ? 0 : m == AUTO ? 1 : m == SAFE ? 2 : m == FAST ? 4 : -1; }',
           'int sumv(const int *values, int nvalues) { int t = 0; for (int i = 0; i < nvalues; ++i) t += values[i]; std::cout << "callee sumv(n=" << nvalues << ",sum=" << t << ")\\n"; return t; }',
           'int putx(char c) { std::cout << "callee putx(char " << (int)c << ")\\n"; return 10; }',
           'int putx(int v) { std::cout << "callee putx(int " << v << ")\\n"; return 20 + v; }',
           'int putx(double v) { std::cout << "callee putx(double "; show(v); std::cout << ")\\n"; return 30; }',
           'int labelv(std::string name) { std::cout << "callee labelv(string [" << name << "])\\n"; return 200 + (int)name.size(); }',
           'int labelv(bool flag) { std::cout << "callee labelv(bool " << (flag ? 1 : 0) << ")\\n"; return flag ? 3 : 2; }',
           'int label(bool flag) { std::cout << "callee label(bool " << (flag ? 1 : 0) << ")\\n"; return flag ? 1 : 0; }',
           'Thing Thing::twin(int d) const { std::cout << "callee Thing::twin(" << d << ")\\n"; return Thing(v + d); }',
           'Thing makeThing(int v) { std::cout << "callee makeThing(" << v << ")\\n"; return Thing(v); }',
           'int Thing::peekc() const { std::cout << "callee Thing::peekc() const\\n"; return v + 7; }',
           'int Thing::peekc() { std::cout << "callee Thing::peekc() NON-const\\n"; v += 100; return v; }',
           'int Thing::addmul(int a, int b) { std::cout << "callee Thing::addmul(" << a << "," << b << ")\\n"; return (v + a) * b; }']

    def dshow(label, expr, typ="int"):
        return ["    { auto sp_r = %s; eq_begin(\"%s\"); %s eq_end(); }" % (expr, label, show_call(typ, "sp_r"))]
    direct, cdrv, fdecl, fbody = [], [], [], []
    # default arguments: every arity
    direct += dshow("defs1", "defs(%d)" % a) + dshow("defs2", "defs(%d, %d)" % (a, b)) + dshow("defs3", "defs(%d, %d, %d)" % (a, b, c))
    cdrv += dshow("defs1", "EQ_defs_0(%d)" % a) + dshow("defs2", "EQ_defs_1(%d, %d)" % (a, b)) + dshow("defs3", "EQ_defs_2(%d, %d, %d)" % (a, b, c))
    direct += dshow("defd1", "defd(%r)" % v_d, "double") + dshow("defd2", "defd(%r, 0.75)" % v_d, "double")
    cdrv += dshow("defd1", "EQ_defd_0(%r)" % v_d, "double") + dshow("defd2", "EQ_defd_1(%r, 0.75)" % v_d, "double")
    direct += dshow("addmul1", "self.addmul(%d)" % m_a) + dshow("addmul2", "self.addmul(%d, %d)" % (m_a, m_b))
    cdrv += dshow("addmul1", "EQ_Thing_addmul_0(&self_cap, %d)" % m_a) + dshow("addmul2", "EQ_Thing_addmul_1(&self_cap, %d, %d)" % (m_a, m_b))
    direct += ["    { Thing sp_t = self.twin(7); Thing sp_m = makeThing(40); eq_begin(\"byvalue\"); eq_int(sp_t.get()); eq_int(sp_m.get()); eq_end(); }"]
    cdrv += ["    { EQ_Thing sp_t, sp_m; EQ_Thing_twin(&self_cap, 7, &sp_t); EQ_make_thing(40, &sp_m); eq_begin(\"byvalue\"); eq_int(EQ_Thing_get(&sp_t)); eq_int(EQ_Thing_get(&sp_m));",
             "      eq_end(); EQ_Thing_delete(&sp_t); EQ_Thing_delete(&sp_m); }"]
    direct += dshow("peekc", "static_cast<const Thing &>(self).peekc()")
    cdrv += dshow("peekc", "EQ_Thing_peekc(&self_cap)")
    # template instantiations
    direct += dshow("twice_i", "twice<int>(%d)" % v_i) + dshow("twice_d", "twice<double>(%r)" % v_d, "double")
    cdrv += dshow("twice_i", "EQ_twice_int(%d)" % v_i) + dshow("twice_d", "EQ_twice_double(%r)" % v_d, "double")
    # fortran_generic and implied arguments (type codes of the generated types header: float 22, double 23, int 3)
    g1, g2 = rng.choice([3, -4, 70000]), rng.choice([4, 9])
    for drv, fn in ((direct, "gen2"), (cdrv, "EQ_gen2")):
        drv += dshow("gen2_i", "%s(%d, %d)" % (fn, g1, g2), "long") + dshow("gen2_l", "%s(%dL, %dL)" % (fn, g1 + 5, g2), "long")
    for drv, fn in ((direct, "sum_typed"), (cdrv, "EQ_sum_typed")):
        drv += ["    { float fa[3] = {1.5f, 2.5f, 3.0f}; double da[2] = {0.25, 8.0}; int ia[4] = {1, 2, 3, 40};",
                "      double r1 = %s(fa, 22, 3); eq_begin(\"sumf\"); eq_double(r1); eq_end();" % fn,
                "      double r2 = %s(da, 23, 2); eq_begin(\"sumd\"); eq_double(r2); eq_end();" % fn,
                "      double r3 = %s(ia, 3, 4); eq_begin(\"sumi\"); eq_double(r3); eq_end(); }" % fn]
    # array results (the C API returns the library's pointer)
    for drv, call1, callm, callp in ((direct, "garr(%d)" % n1, "gmat(%d, %d)" % (nr, nc), "gptr(%d)" % max(n1, 2)),
                                     (cdrv, "EQ_garr(%d)" % n1, "EQ_gmat(%d, %d)" % (nr, nc), "EQ_gptr(%d)" % max(n1, 2))):
        drv += ["    { int *r = %s; eq_begin(\"garr\"); eq_int(%d); for (int i = 0; i < %d; ++i) eq_int(r[i]); eq_end(); }" % (call1, n1, n1),
                "    { int *r = %s; eq_begin(\"gmat\"); eq_int(%d); for (int i = 0; i < %d; ++i) eq_int(r[i]); eq_end(); }" % (callm, nr * nc, nr * nc),
                "    { double *r = %s; eq_begin(\"gptr\"); eq_int(%d); for (int i = 0; i < %d; ++i) eq_double(r[i]); eq_end(); }" % (callp, max(n1, 2), max(n1, 2))]
    # a vector of strings: every element is trimmed on its own, an all-blank element arrives empty
    sv = [rng.choice(["ab", "", "c d", "wxyz", " lead"]) for _ in range(rng.choice([1, 2, 3]))] + [""]
    rng.shuffle(sv)
    svw = 5
    lab = rng.choice(["abc", "", "q r"])
    direct += dshow("label_s", "label(std::string(%s))" % cstr(lab)) + dshow("label_b", "label(true)")
    cdrv += dshow("label_s", "EQ_label_0(%s)" % cstr(lab)) + dshow("label_b", "EQ_label_1(true)")
    tg = rng.choice(["alpha", "x y", ""])
    direct += dshow("tagd_f", "tagd(std::string(%s), 1.5)" % cstr(tg), "double") + dshow("tagd_d", "tagd(std::string(%s), -2.25)" % cstr(tg), "double")
    cdrv += dshow("tagd_f", "EQ_tagd(%s, 1.5)" % cstr(tg), "double") + dshow("tagd_d", "EQ_tagd(%s, -2.25)" % cstr(tg), "double")
    px, pk = rng.choice([3, -4, 11]), rng.choice([2, 3])
    direct += ["    { Pt sp_p = {%d, 1.5};" % px] + dshow("pt_cref", "pt_cref(sp_p)") + dshow("pt_val", "pt_val(sp_p)") + dshow("pt_ptr", "pt_ptr(&sp_p)") + \
        ["    pt_scale(sp_p, %d); eq_begin(\"pt_scale\"); eq_int(sp_p.x); eq_double(sp_p.y); eq_end(); }" % pk]
    cdrv += ["    { EQ_pt sp_p = {%d, 1.5};" % px] + dshow("pt_cref", "EQ_pt_cref(&sp_p)") + dshow("pt_val", "EQ_pt_val(sp_p)") + dshow("pt_ptr", "EQ_pt_ptr(&sp_p)") + \
        ["    EQ_pt_scale(&sp_p, %d); eq_begin(\"pt_scale\"); eq_int(sp_p.x); eq_double(sp_p.y); eq_end(); }" % pk]
    direct += ["    { Pt sp_p = {%d, 1.5};" % px] + dshow("take_mut", "take(sp_p, 3)") + dshow("take_const", "take((const Pt &)sp_p, 2.5)") + ["    }"]
    cdrv += ["    { EQ_pt sp_p = {%d, 1.5};" % px] + dshow("take_mut", "EQ_take_0(&sp_p, 3)") + dshow("take_const", "EQ_take_1(&sp_p, 2.5)") + ["    }"]
    vg1, vg2 = rng.choice([1, 2, 4]), rng.choice([-1, -2, -3])
    direct += ["    { std::vector<int> sp_v = {1, 2, 3};"]
    cdrv += ["    { int sp_v[16] = {1, 2, 3}; long sp_n = 3;"]
    for tag, ex in (("vgrow", vg1), ("vshrink", vg2)):
        direct += ["      vgrow(sp_v, %d); eq_begin(\"%s\"); eq_int((long)sp_v.size()); for (size_t i = 0; i < sp_v.size(); ++i) eq_int(sp_v[i]); eq_end();" % (ex, tag)]
        cdrv += ["      { EQ_SHROUD_array sp_d; EQ_vgrow_bufferify(sp_v, sp_n, &sp_d, %d); sp_n = (long)sp_d.size; EQ_ShroudCopyArray(&sp_d, sp_v, (size_t)sp_n);" % ex,
                 "        eq_begin(\"%s\"); eq_int(sp_n); for (long i = 0; i < sp_n; ++i) eq_int(sp_v[i]); eq_end(); }" % tag]
    direct += ["    }"]
    cdrv += ["    }"]
    for fn in ("getlbl", "getlbl2"):
        for iv in LBL_IV[fn]:
            direct += ["    { std::string sp_r = %s(%d); eq_begin(\"%s_%d\"); eq_str(sp_r.data(), (int)sp_r.size()); eq_end(); }" % (fn, iv, fn, iv)]
            cdrv += ["    { char sp_b[12]; std::memset(sp_b, '#', 12); EQ_%s_bufferify(%d, sp_b, 12); int sp_m = 12; while (sp_m > 0 && sp_b[sp_m-1] == ' ') --sp_m;" % (fn, iv),
                     "      eq_begin(\"%s_%d\"); eq_str(sp_b, sp_m); eq_end(); }" % (fn, iv)]
    direct += ["    put<int>(8); put<double>(1.5); eq_begin(\"put\"); eq_end();"]
    cdrv += ["    EQ_put_int(8); EQ_put_double(1.5); eq_begin(\"put\"); eq_end();"]
    for tag, nn, lo, ext in (("iota_short", 5, 2, 3), ("iota_long", 2, 1, 6)):
        direct += ["    { int sp_buf[10]; for (int i = 0; i < 10; ++i) sp_buf[i] = -1; std::vector<int> sp_v; iota_out(%d, sp_v);" % nn,
                   "      for (int i = 0; i < %d && i < (int)sp_v.size(); ++i) sp_buf[%d + i] = sp_v[i];" % (ext, lo),
                   "      eq_begin(\"%s\"); for (int i = 0; i < 10; ++i) eq_int(sp_buf[i]); eq_end(); }" % tag]
        cdrv += ["    { int sp_buf[10]; for (int i = 0; i < 10; ++i) sp_buf[i] = -1; EQ_SHROUD_array sp_d; EQ_iota_out_bufferify(%d, &sp_d);" % nn,
                 "      EQ_ShroudCopyArray(&sp_d, sp_buf + %d, %d);" % (lo, ext),
                 "      eq_begin(\"%s\"); for (int i = 0; i < 10; ++i) eq_int(sp_buf[i]); eq_end(); }" % tag]
    direct += dshow("weight_none", "weight(NONE)") + dshow("weight_auto", "weight(AUTO)") + dshow("weight_fast", "weight(FAST)")
    cdrv += dshow("weight_none", "EQ_weight(EQ_NONE)") + dshow("weight_auto", "EQ_weight(EQ_AUTO)") + dshow("weight_fast", "EQ_weight(EQ_FAST)")
    for drv, fn in ((direct, "sumv"), (cdrv, "EQ_sumv")):
        drv += ["    { int sp_s0 = 9; int sp_s1[3] = {1, 2, 3}; int sp_s2[4] = {10, 20, 30, 40};"] + dshow("sumv0", "%s(&sp_s0, 1)" % fn) + \
            dshow("sumv1", "%s(sp_s1, 3)" % fn) + dshow("sumv2", "%s(sp_s2, 4)" % fn) + ["    }"]
    direct += dshow("putx_c", "putx('a')") + dshow("putx_i", "putx(7)") + dshow("putx_d", "putx(2.5)")
    cdrv += dshow("putx_c", "EQ_putx_char('a')") + dshow("putx_i", "EQ_putx_1(7)") + dshow("putx_d", "EQ_putx_2(2.5)")
    direct += dshow("labelv_pad", "labelv(std::string(%s))" % cstr(tg))
    cdrv += dshow("labelv_pad", "EQ_labelv_0((char *)%s)" % cstr(tg))
    direct += dshow("labelv_s", "labelv(std::string(%s))" % cstr(lab)) + dshow("labelv_b", "labelv(false)")
    cdrv += dshow("labelv_s", "EQ_labelv_0((char *)%s)" % cstr(lab)) + dshow("labelv_b", "EQ_labelv_1(false)")
    direct += dshow("tlen", "total_length(std::vector<std::string>{%s})" % ", ".join(cstr(x) for x in sv))
    cdrv += dshow("tlen", "EQ_total_length_bufferify(%s, %d, %d)" % (cstr("".join(x.ljust(svw) for x in sv)), len(sv), svw))
    fdecl += ["    character(len=%d) :: sp_sv(%d)" % (svw, len(sv))]
    fdecl += ["    integer(C_INT), allocatable :: sp_a1(:), sp_a2(:,:)", "    real(C_DOUBLE), pointer :: sp_p1(:)", "    integer :: sp_i, sp_j"]

    def fshow(label, stmt):
        return ["    call eq_begin(\"%s\"//C_NULL_CHAR)" % label, "    " + stmt, "    call eq_end()"]
    fbody += ["    sp_i = defs(%d_C_INT)" % a] + fshow("defs1", f_show("int", "sp_i"))
    fbody += ["    sp_i = defs(%d_C_INT, %d_C_INT)" % (a, b)] + fshow("defs2", f_show("int", "sp_i"))
    fbody += ["    sp_i = defs(%d_C_INT, %d_C_INT, %d_C_INT)" % (a, b, c)] + fshow("defs3", f_show("int", "sp_i"))
    fdecl += ["    real(C_DOUBLE) :: sp_d"]
    fbody += ["    sp_d = defd(%r_C_DOUBLE)" % v_d] + fshow("defd1", f_show("double", "sp_d"))
    fbody += ["    sp_d = defd(%r_C_DOUBLE, 0.75_C_DOUBLE)" % v_d] + fshow("defd2", f_show("double", "sp_d"))
    fbody += ["    sp_i = self%%addmul(%d_C_INT)" % m_a] + fshow("addmul1", f_show("int", "sp_i"))
    fbody += ["    sp_i = self%%addmul(%d_C_INT, %d_C_INT)" % (m_a, m_b)] + fshow("addmul2", f_show("int", "sp_i"))
    fdecl += ["    type(thing) :: sp_t, sp_m"]
    fbody += ["    sp_t = self%twin(7_C_INT)", "    sp_m = make_thing(40_C_INT)", "    call eq_begin(\"byvalue\"//C_NULL_CHAR)",
              "    call eq_int(int(sp_t%get(), C_LONG))", "    call eq_int(int(sp_m%get(), C_LONG))", "    call eq_end()", "    call sp_t%delete()", "    call sp_m%delete()"]
    fbody += ["    sp_i = self%peekc()"] + fshow("peekc", f_show("int", "sp_i"))
    fbody += ["    sp_i = twice_int(%d_C_INT)" % v_i] + fshow("twice_i", f_show("int", "sp_i"))
    fbody += ["    sp_d = twice_double(%r_C_DOUBLE)" % v_d] + fshow("twice_d", f_show("double", "sp_d"))
    fdecl += ["    integer(C_LONG) :: sp_l", "    real(C_FLOAT), target :: sp_fa(3) = [1.5_C_FLOAT, 2.5_C_FLOAT, 3.0_C_FLOAT]",
              "    real(C_DOUBLE), target :: sp_da(2) = [0.25_C_DOUBLE, 8.0_C_DOUBLE]", "    integer(C_INT), target :: sp_ia(4) = [1, 2, 3, 40]"]
    fbody += ["    sp_l = gen2(%d_C_INT, %d_C_INT)" % (g1, g2)] + fshow("gen2_i", f_show("long", "sp_l"))
    fbody += ["    sp_l = gen2(%d_C_LONG, %d_C_LONG)" % (g1 + 5, g2)] + fshow("gen2_l", f_show("long", "sp_l"))
    fbody += ["    sp_d = sum_typed(sp_fa)"] + fshow("sumf", f_show("double", "sp_d"))
    fbody += ["    sp_d = sum_typed(sp_da)"] + fshow("sumd", f_show("double", "sp_d"))
    fbody += ["    sp_d = sum_typed(sp_ia)"] + fshow("sumi", f_show("double", "sp_d"))
    fbody += ["    sp_a1 = garr(%d_C_INT)" % n1, "    call eq_begin(\"garr\"//C_NULL_CHAR)", "    call eq_int(int(size(sp_a1), C_LONG))",
              "    do sp_i = 1, size(sp_a1)", "        call eq_int(int(sp_a1(sp_i), C_LONG))", "    end do", "    call eq_end()"]
    fbody += ["    sp_a2 = gmat(%d_C_INT, %d_C_INT)" % (nr, nc), "    call eq_begin(\"gmat\"//C_NULL_CHAR)", "    call eq_int(int(size(sp_a2), C_LONG))",
              "    do sp_j = 1, size(sp_a2, 2)", "    do sp_i = 1, size(sp_a2, 1)", "        call eq_int(int(sp_a2(sp_i, sp_j), C_LONG))", "    end do", "    end do",
              "    call eq_end()"]
    fbody += ["    sp_p1 => gptr(%d_C_INT)" % max(n1, 2), "    call eq_begin(\"gptr\"//C_NULL_CHAR)", "    call eq_int(int(size(sp_p1), C_LONG))",
              "    do sp_i = 1, size(sp_p1)", "        call eq_double(sp_p1(sp_i))", "    end do", "    call eq_end()"]
    fbody += ["    sp_i = label(%s)" % fstr(lab)] + fshow("label_s", f_show("int", "sp_i"))
    fbody += ["    sp_i = label(.true.)"] + fshow("label_b", f_show("int", "sp_i"))
    fdecl += ["    character(len=%d) :: sp_tg" % (len(tg) + 3)]
    fbody += ["    sp_tg = %s" % fstr(tg)]
    fbody += ["    sp_d = tagd(sp_tg, 1.5_C_FLOAT)"] + fshow("tagd_f", f_show("double", "sp_d"))
    fbody += ["    sp_d = tagd(sp_tg, -2.25_C_DOUBLE)"] + fshow("tagd_d", f_show("double", "sp_d"))
    fdecl += ["    type(pt) :: sp_pt"]
    fbody += ["    sp_pt%%x = %d_C_INT" % px, "    sp_pt%y = 1.5_C_DOUBLE"]
    fbody += ["    sp_i = pt_cref(sp_pt)"] + fshow("pt_cref", f_show("int", "sp_i"))
    fbody += ["    sp_i = pt_val(sp_pt)"] + fshow("pt_val", f_show("int", "sp_i"))
    fbody += ["    sp_i = pt_ptr(sp_pt)"] + fshow("pt_ptr", f_show("int", "sp_i"))
    fbody += ["    call pt_scale(sp_pt, %d_C_INT)" % pk, "    call eq_begin(\"pt_scale\"//C_NULL_CHAR)", "    call eq_int(int(sp_pt%x, C_LONG))",
              "    call eq_double(sp_pt%y)", "    call eq_end()"]
    fbody += ["    sp_pt%%x = %d_C_INT" % px, "    sp_pt%y = 1.5_C_DOUBLE"]
    fbody += ["    sp_i = take(sp_pt, 3_C_INT)"] + fshow("take_mut", f_show("int", "sp_i"))
    fbody += ["    sp_i = take(sp_pt, 2.5_C_DOUBLE)"] + fshow("take_const", f_show("int", "sp_i"))
    fdecl += ["    integer(C_INT), allocatable :: sp_vg(:)"]
    fbody += ["    allocate(sp_vg(3))", "    sp_vg = [1_C_INT, 2_C_INT, 3_C_INT]"]
    for tag, ex in (("vgrow", vg1), ("vshrink", vg2)):
        fbody += ["    call vgrow(sp_vg, %d_C_INT)" % ex, "    call eq_begin(\"%s\"//C_NULL_CHAR)" % tag, "    call eq_int(int(size(sp_vg), C_LONG))",
                  "    do sp_i = 1, size(sp_vg)", "        call eq_int(int(sp_vg(sp_i), C_LONG))", "    end do", "    call eq_end()"]
    fdecl += ["    character(len=12) :: sp_s"]
    for iv in LBL_IV["getlbl"]:
        fbody += ["    sp_s = '############'", "    sp_s = getlbl(%d_C_INT)" % iv] + fshow("getlbl_%d" % iv, "call eq_str(sp_s, len_trim(sp_s, kind=C_INT))")
    for iv in LBL_IV["getlbl2"]:
        fbody += ["    sp_s = '############'", "    call getlbl2(%d_C_INT, sp_s)" % iv] + fshow("getlbl2_%d" % iv, "call eq_str(sp_s, len_trim(sp_s, kind=C_INT))")
    fbody += ["    call put(8_C_INT)", "    call put(1.5_C_DOUBLE)"] + fshow("put", "continue")
    fdecl += ["    integer(C_INT) :: sp_buf(10)"]
    for tag, nn, lo, ext in (("iota_short", 5, 2, 3), ("iota_long", 2, 1, 6)):
        fbody += ["    sp_buf = -1_C_INT", "    call iota_out(%d_C_INT, sp_buf(%d:%d))" % (nn, lo + 1, lo + ext), "    call eq_begin(\"%s\"//C_NULL_CHAR)" % tag,
                  "    do sp_i = 1, 10", "        call eq_int(int(sp_buf(sp_i), C_LONG))", "    end do", "    call eq_end()"]
    fbody += ["    sp_i = weight(none)"] + fshow("weight_none", f_show("int", "sp_i"))
    fbody += ["    sp_i = weight(auto)"] + fshow("weight_auto", f_show("int", "sp_i"))
    fbody += ["    sp_i = weight(fast)"] + fshow("weight_fast", f_show("int", "sp_i"))
    fdecl += ["    integer(C_INT) :: sp_s0 = 9, sp_s1(3) = [1, 2, 3], sp_s2(2,2) = reshape([10, 20, 30, 40], [2, 2])"]
    fbody += ["    sp_i = sumv(sp_s0, 1_C_INT)"] + fshow("sumv0", f_show("int", "sp_i"))
    fbody += ["    sp_i = sumv(sp_s1, 3_C_INT)"] + fshow("sumv1", f_show("int", "sp_i"))
    fbody += ["    sp_i = sumv(sp_s2, 4_C_INT)"] + fshow("sumv2", f_show("int", "sp_i"))
    fbody += ["    sp_i = putx('a')"] + fshow("putx_c", f_show("int", "sp_i"))
    fbody += ["    sp_i = putx(7_C_INT)"] + fshow("putx_i", f_show("int", "sp_i"))
    fbody += ["    sp_i = putx(2.5_C_DOUBLE)"] + fshow("putx_d", f_show("int", "sp_i"))
    fbody += ["    sp_i = labelv(sp_tg)"] + fshow("labelv_pad", f_show("int", "sp_i"))       # a blank-padded variable: trimmed on the way
    fbody += ["    sp_i = labelv(%s)" % fstr(lab)] + fshow("labelv_s", f_show("int", "sp_i"))
    fbody += ["    sp_i = labelv(.false.)"] + fshow("labelv_b", f_show("int", "sp_i"))
    fbody += ["    sp_sv(%d) = %s" % (k + 1, fstr(x.ljust(svw))) for k, x in enumerate(sv)]
    fbody += ["    sp_i = total_length(sp_sv)"] + fshow("tlen", f_show("int", "sp_i"))
    return {"decls": decls, "mdecls": mdecls, "hpp": hpp, "hmeth": hmeth, "cpp": cpp, "direct": direct, "c": cdrv, "f_decl": fdecl, "f_body": fbody}
