"""Shared by C17 / C09: export a parsing context of the real AST for the Coq model (Model/Decl.v),
serialise real declast nodes in the extracted model's output format, generate declarations."""
import os
import sys

sys.path.insert(0, os.path.dirname(os.path.abspath(__file__)))
from vlib import enc  # noqa: E402


def _name(s):
    return [len(s)] + [ord(c) for c in s]


class CtxExport:
    def __init__(self, ast_mod, declast, typemap):
        self.ast = ast_mod
        self.declast = declast
        self.typemap = typemap
        self.ids = {}

    def oid(self, o):
        return self.ids.setdefault(id(o), len(self.ids) + 1)

    def sym(self, o, depth=0):
        out = [self.oid(o)]
        ql = getattr(type(o), "qualified_lookup", None)
        if ql is None:
            kind = 2
        elif ql is self.ast.AstNode.qualified_lookup:
            kind = 1
        else:
            kind = 0
        out.append(kind)
        if not hasattr(o, "typemap"):
            out.append(0)
        elif o.typemap is None:
            out.append(1)
        else:
            out.append(2)
            out += _name(o.typemap.name)
        mem = []
        if kind == 0 and depth < 6:
            mem = list(getattr(o, "symbols", {}).items())
        out.append(len(mem))
        for k, v in mem:
            out += _name(k) + self.sym(v, depth + 1)
        return out

    def all_names(self, ns):
        """every name that may be visible from ns: symbols of ns, its parents and their using lists"""
        names, seen, todo = [], set(), [ns]
        while todo:
            n = todo.pop()
            if n is None or id(n) in seen:
                continue
            seen.add(id(n))
            for k in getattr(n, "symbols", {}):
                if k not in names:
                    names.append(k)
            for u in getattr(n, "using", []):
                todo.append(u)
            todo.append(getattr(n, "parent", None))
        return names

    def export(self, ns):
        """context string for the model's pctx, from the real namespace object"""
        out = [self.oid(ns), 1 if getattr(ns, "is_class", False) else 0] + _name(getattr(ns, "name", "") or "")
        vis = []
        for k in self.all_names(ns):
            o = ns.unqualified_lookup(k)
            if o:
                vis.append((k, o))
        out.append(len(vis))
        for k, o in vis:
            out += _name(k) + self.sym(o)
        known = sorted(self.typemap.get_global_types().keys()) if hasattr(self.typemap, "get_global_types") else []
        out.append(len(known))
        for k in known:
            out += _name(k)
        return " ".join(map(str, out))


# ---------------------------------------------------------------- serialisation of real nodes
def us(s):
    return "[" + enc(s) + "]"


def usl(l):
    return "{" + ",".join(us(x) for x in l) + "}"


def b01(b):
    return "1" if b else "0"


def ser_av(v):
    if v is True:
        return "T"
    if v is None:
        return "N"
    if isinstance(v, bool):
        return "?bool"
    if isinstance(v, int):
        return "I" + us(str(v))
    if isinstance(v, float):
        return "R" + repr(v)
    return "S" + us(v)


def ser_dtor(d):
    if d is None:
        return "None"
    return "T(%s;%s;%s)" % ("".join("P(%s%s%s)" % (us(p.ptr), b01(p.const), b01(p.volatile)) for p in d.pointer),
                            "None" if d.name is None else us(d.name), ser_dtor(d.func))


def ser_decl(d, sexp, attrs_fn=None):
    attrs = [(k, v) for k, v in d.attrs.items() if not (k in ("_constructor", "_destructor", "_name") and v is None)]
    atext = ",".join(us(k) + "=" + ser_av(v) for k, v in attrs) if attrs_fn is None else attrs_fn(d)
    return "D(%s;%s;%s%s;%s;%s;%s;<%s>;<%s>;%s;<%s>;%s)" % (
        usl(d.specifier), usl(d.storage), b01(d.const), b01(d.volatile),
        us(d.typemap.name if d.typemap is not None else "?none"), ser_dtor(d.declarator),
        "None" if d.params is None else "<" + ",".join(ser_decl(p, sexp, attrs_fn) for p in d.params) + ">",
        ",".join(sexp(e) for e in d.array),
        atext, ser_av(d.init),
        ",".join(ser_decl(t, sexp, attrs_fn) for t in d.template_arguments), b01(d.func_const))


def ser_stmt(n, sexp):
    t = type(n).__name__
    if t == "Declaration":
        return ser_decl(n, sexp)
    if t == "CXXClass":
        return "C(%s;%s)" % (us(n.name), ",".join(us(a) + us(b) for a, b, _ in n.baseclass))
    if t == "Namespace":
        return "NS(%s)" % us(n.name)
    if t == "Template":
        return "TP(%s;%s)" % (usl([p.name for p in n.parameters]), ser_stmt(n.decl, sexp))
    if t == "Struct":
        return "ST(%s;%s)" % (us(n.name), ",".join(ser_decl(m, sexp) for m in n.members))
    if t == "Enum":
        return "E(%s;%s;%s)" % (us(n.name), "-" if n.scope is None else us(n.scope),
                                ";".join(enc(m.name) + "=" + ("-" if m.value is None else sexp(m.value)) for m in n.members))
    return "?" + t


def norm_model(s):
    """model prints REAL initialisers as text: convert to Python's float repr for comparison"""
    import re

    def f(m):
        txt = "".join(chr(int(x)) for x in m.group(1).split()) if m.group(1) else ""
        try:
            return "R" + repr(float(txt))
        except ValueError:
            return "R?" + txt
    return re.sub(r"R\[([0-9 ]*)\]", f, s)


# ---------------------------------------------------------------- contexts and generators
LIB = {
    "library": "dcl", "cxx_header": "dcl.hpp",
    "declarations": [
        {"decl": "typedef int MyInt", "fields": {"base": "integer"}},
        {"decl": "enum Color { RED, GREEN }"},
        {"decl": "struct Pt { int x; double y; };"},
        {"decl": "class Top", "declarations": [{"decl": "enum Inner { A, B }"}, {"decl": "Top()"}]},
        {"decl": "namespace ns", "declarations": [
            {"decl": "class Cls", "declarations": [{"decl": "Cls()"}, {"decl": "~Cls()"}, {"decl": "int get() const"}]},
            {"decl": "namespace deep", "declarations": [{"decl": "class Leaf"}]},
            {"decl": "typedef long NsLong", "fields": {"base": "integer"}},
            {"decl": "class Leaf"},          # ns::Leaf is not ns::deep::Leaf: every component of a qualified name is looked up in the scope reached so far
        ]},
        {"decl": "class Dev", "declarations": [{"decl": "Dev()"}]},
    ],
}


def make_contexts(ast_mod):
    """returns {name: namespace object}"""
    lib = ast_mod.create_library_from_dictionary(LIB)
    glob = lib.wrap_namespace if hasattr(lib, "wrap_namespace") else lib
    ctxs = {"global": glob}
    ns = glob.symbols["ns"]
    ctxs["ns"] = ns
    ctxs["class:Cls"] = ns.symbols["Cls"]
    ctxs["class:Top"] = glob.symbols["Top"]
    ctxs["ns:deep"] = ns.symbols["deep"]
    return lib, ctxs


TYPES = ["int", "long", "double", "void", "char", "bool", "unsigned int", "long long", "unsigned", "short int", "float", "size_t",
         "std::string", "std::vector<int>", "std::vector<double>", "MyInt", "Color", "Pt", "Top", "ns::Cls", "Cls", "ns::deep::Leaf",
         "NsLong", "int64_t", "Dev", "MPI_Comm", "long double", "double complex", "signed char", "unsigned long long int"]
BADTYPES = ["ns", "std", "ns::deep", "MyInt::x", "Color::RED", "Top::A", "Top::Inner", "size_t::y", "Zed", "ns::Zed", "Pt::x",
            "std::vector<int,int>", "std::vector<>", "std::vector<Zed>", "int unsigned long", "T", "T::x", "deep::Leaf", "unsigned MyInt",
            "std::vector<ns>", "ns::Cls::Cls", "Cls::Cls", "std::string::npos", "int int", "void void"]
NAMES = ["a", "b", "count", "name", "x1", "Cls", "Top", "T", "len", "value", "constraint", "volatile_count", "intptr"]     # (identifiers that begin with a keyword)
ATTRS = ["+intent(in)", "+intent(out)", "+intent(inout)", "+rank(1)", "+dimension(n)", "+dimension(n,m+1)", "+value", "+len=30", "+charlen(20)",
         "+implied(size(a))", "+hidden", "+deref(allocatable)", "+owner(caller)", "+name(xx)", "+len_trim", "+pure", "+free_pattern(p)",
         "+default=1", "+default=1.5e3", "+default=\"s\"", "+cdesc", "+external", "+assumedtype", "+context(c)"]
BADATTRS = ["+", "+(", "+intent", "+intent(", "+intent(in", "+intent=", "+intent()", "+3", "+dimension((n)", "+dimension(n))", "+a+b+", "++",
            "+intent(in))", "+name=", "+implied", "+len=+", "+rank(x)", "+dimension"]


def gen_param(rng, depth=0):
    t = rng.choice(TYPES if rng.random() < 0.92 else BADTYPES)
    s = ""
    if rng.random() < 0.25:
        s += "const "
    s += t
    if rng.random() < 0.1:
        s += " const"
    r = rng.random()
    if r < 0.35:
        s += " " + rng.choice(["*", "&", "**", "*&", "* const", "* const *", "&&", "* volatile", "***"])
    if depth < 2 and rng.random() < 0.08:
        s += " (*%s)(%s)" % (rng.choice(NAMES), ", ".join(gen_param(rng, depth + 1) for _ in range(rng.randint(0, 2))))
    elif rng.random() < 0.9:
        s += " " + rng.choice(NAMES)
    if rng.random() < 0.12:
        s += "[%s]" % rng.choice(["3", "n", "n+1", "2*(n-1)", ""])
        if rng.random() < 0.3:
            s += "[4]"
    for _ in range(rng.choice([0, 0, 0, 1, 1, 2])):
        s += " " + rng.choice(ATTRS if rng.random() < 0.9 else BADATTRS)
    if rng.random() < 0.12:
        s += " = " + rng.choice(["1", "0", "1.5", "true", "\"abc\"", "'c'", "nullptr", "-1", "", "(1)", "1+2"])
    return s


def gen_decl(rng):
    r = rng.random()
    if r < 0.05:
        return rng.choice(["class %s", "class %s : public Top", "class %s : Top", "class %s : public ns::Cls", "class %s : private Zed",
                           "class %s :", "class", "class %s : public", "class %s : public ns", "class %s : public MyInt::q"]).replace("%s", rng.choice(NAMES))
    if r < 0.08:
        return rng.choice(["namespace %s", "namespace", "namespace %s x", "namespace %s;"]).replace("%s", rng.choice(NAMES))
    if r < 0.13:
        body = "".join("%s; " % gen_param(rng, 1) for _ in range(rng.randint(0, 3)))
        return rng.choice(["struct S { %s}", "struct S { %s};", "struct S", "struct S { %s", "struct { %s}", "struct S { int }"]).replace("%s", body)
    if r < 0.2:
        tp = rng.choice(["typename T", "class T", "T", "typename T, typename U", "", "typename", "T,", "typename T typename U", "int N"])
        inner = rng.choice(["class Vec", "void f(T a, %s)" % gen_param(rng), "T g(const T &a)", "T::x h()", "U k(T *a +intent(in))",
                            "void m(std::vector<T> &v)", "struct Q", "~T()", "T()"])
        return rng.choice(["template<%s> %s", "template <%s> %s", "template<%s %s", "template %s> %s"]) % (tp, inner)
    if r < 0.24:
        return rng.choice(["enum E { A, B }", "enum class E { A = 1, B }", "enum E { A = 1 + 2, B = A * 2 };", "enum E {", "enum { A }", "enum E { A B }",
                           "enum struct E { }", "enum E { A, }", "enum E { A = }", "enum E { A = (1 }"])
    if r < 0.3:
        return rng.choice(["Cls()", "~Cls()", "Top()", "~Top()", "Cls(int a)", "~Cls(int a)", "~ns()", "~", "~Zed()", "Cls() +name(new)",
                           "~Cls() +name(delete)", "Cls", "Cls::Cls()", "Top(const Top &o)", "~Cls<int>()", "Cls<int>()", "Dev() const"])
    if r < 0.36:
        return rng.choice(["typedef int Length", "typedef int (*fcn)(int a)", "typedef Zed Q", "static int x", "extern double y", "static const int z = 3",
                           "typedef", "auto x", "register int r", "typedef std::vector<int> IV"])
    # function or variable
    s = ""
    if rng.random() < 0.1:
        s += rng.choice(["static ", "extern ", "virtual ", "inline ", "const "])
    s += rng.choice(TYPES if rng.random() < 0.93 else BADTYPES)
    if rng.random() < 0.3:
        s += " " + rng.choice(["*", "&", "**", "* const"])
    s += " " + rng.choice(["f", "get", "apply", "Cls", "op1"])
    if rng.random() < 0.85:
        n = rng.choice([0, 0, 1, 1, 2, 3, 4])
        ps = [gen_param(rng) for _ in range(n)]
        if n == 0 and rng.random() < 0.3:
            ps = ["void"]
        if rng.random() < 0.03:
            ps.append("...")
        s += "(" + ", ".join(ps) + ")"
        if rng.random() < 0.15:
            s += " " + rng.choice(["const", "volatile", "const const", "= 0", "override", "noexcept"])
    for _ in range(rng.choice([0, 0, 1, 2])):
        s += " " + rng.choice(ATTRS if rng.random() < 0.9 else BADATTRS)
    if rng.random() < 0.1:
        s += rng.choice([";", ";;", " ;", ")", "]", " extra", " 1", ","])
    return s


TOKS = ["int", "const", "volatile", "static", "*", "&", "(", ")", "[", "]", "<", ">", ",", ";", "::", ":", "...", "+", "=", "-", "/", "~", "{", "}",
        "a", "f", "Cls", "ns", "Top", "MyInt", "Color", "std", "vector", "string", "T", "class", "struct", "enum", "namespace", "template",
        "typename", "public", "1", "1.5", "\"s\"", "'c'", "#", "@", "unsigned", "long", "void", "size_t", "deep", "Leaf", "Pt", "intent", "in",
        "dimension", "Zed", "\"", "'", "$", ".", "..", "e", "1e", "0x"]


def mutate(rng, s, declast):
    """single-token mutation of s: delete / insert / replace / swap a token (re-joined with spaces)"""
    try:
        toks = [t.value for t in declast.tokenize(s)][:-1]
    except Exception:
        toks = s.split()
    if not toks:
        return rng.choice(TOKS)
    k = rng.randrange(len(toks))
    r = rng.random()
    if r < 0.3:
        del toks[k]
    elif r < 0.6:
        toks.insert(k, rng.choice(TOKS))
    elif r < 0.9:
        toks[k] = rng.choice(TOKS)
    else:
        j = rng.randrange(len(toks))
        toks[k], toks[j] = toks[j], toks[k]
    return " ".join(toks)


def soup(rng):
    return "".join(rng.choice(TOKS) + rng.choice([" ", " ", ""]) for _ in range(rng.randint(0, 14)))


def export_aenv(typemap, patterns=()):
    out = []
    tms = typemap.get_global_types()
    out.append(len(tms))
    for k in sorted(tms):
        t = tms[k]
        out += _name(k) + _name(t.base or "") + _name(t.sgroup or "")
    out.append(len(patterns))
    for p in patterns:
        out += _name(p)
    return " ".join(map(str, out))
