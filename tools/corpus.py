"""Upstream regression corpus (/repo/regression): test descriptors and a runner."""
import ast as pyast
import os
import shutil
import subprocess
import sys

from vlib import REPO, PY, sh


def test_descs():
    """[(name, yaml_path, cmdline)] parsed from regression/do-test.py of the current tree."""
    src = open(os.path.join(REPO, "regression", "do-test.py")).read()
    tree = pyast.parse(src)
    out = []
    for node in pyast.walk(tree):
        if isinstance(node, pyast.Call) and getattr(node.func, "id", None) == "TestDesc":
            try:
                name = pyast.literal_eval(node.args[0])
                kw = {k.arg: pyast.literal_eval(k.value) for k in node.keywords}
            except Exception:
                continue
            y = (kw.get("yaml") or name) + ".yaml"
            p = os.path.join(REPO, "regression", "input", y)
            if os.path.isfile(p):
                out.append((name, p, list(kw.get("cmdline") or [])))
    seen = set()
    res = []
    for t in out:
        if t[0] not in seen:
            seen.add(t[0])
            res.append(t)
    return res


def shroud_cmd(yaml_path, outdir, cmdline=(), extra=()):
    return [PY, "-m", "shroud.main", "--path", os.path.join(REPO, "regression", "input"),
            "--logdir", outdir, "--outdir", outdir,
            "--option", "debug_testsuite=true", "--nowrite-version"] + list(cmdline) + list(extra) + [yaml_path]


def run_shroud(yaml_path, outdir, cmdline=(), extra=(), env=None, cwd=None, timeout=120):
    """Fresh-process Shroud run. Returns (rc, output)."""
    os.makedirs(outdir, exist_ok=True)
    return sh(shroud_cmd(yaml_path, outdir, cmdline, extra), env=env, cwd=cwd, timeout=timeout)


def read_dir(d, skip_ext=(".log", ".json")):
    """{relative name: bytes} for all files under d (logs and json dumps excluded by default)."""
    res = {}
    for root, _, fs in os.walk(d):
        for f in fs:
            if f.endswith(tuple(skip_ext)):
                continue
            p = os.path.join(root, f)
            res[os.path.relpath(p, d)] = open(p, "rb").read()
    return res
