"""Shared machinery for the /verif checks (see DESIGN.md section 1.2).

A check = (1) rebuild the Coq development (static part under a lock, the
property's own files fresh in build/<id>/), (2) correspondence model <-> /repo,
(3) property oracle on the implementation, (4) decide + write evidence.
"""
import fcntl
import hashlib
import json
import os
import random
import re
import shutil
import subprocess
import sys
import time

VERIF = os.path.dirname(os.path.dirname(os.path.abspath(__file__)))
REPO = os.environ.get("SHROUD_REPO", "/repo")
COQ = os.path.join(VERIF, "coq")
BUILD = os.path.join(VERIF, "build")
PY = "/venv/bin/python"
NCPU = os.cpu_count() or 4

FORBIDDEN = re.compile(
    r"\b(Admitted|admit|Axiom|Axioms|Parameter|Parameters|Conjecture|Hypothesis|Variable)\b"
    r"|Unset\s+Guard|bypass_check|Admit\s+Obligations|type-in-type|impredicative-set|"
    r"Unset\s+Universe\s+Checking|Unset\s+Positivity")


def sh(cmd, timeout=600, cwd=None, env=None, input=None):
    """Run a command, return (rc, stdout+stderr)."""
    e = dict(os.environ)
    e.update({"PYTHONPATH": REPO, "PYTHONHASHSEED": "0", "LC_ALL": "C"})
    if env:
        e.update(env)
    try:
        p = subprocess.run(cmd, shell=isinstance(cmd, str), cwd=cwd, env=e, input=input,
                           stdout=subprocess.PIPE, stderr=subprocess.STDOUT,
                           timeout=timeout, text=True)
        return p.returncode, p.stdout
    except subprocess.TimeoutExpired as ex:
        out = ex.stdout or ""
        if isinstance(out, bytes):
            out = out.decode("utf-8", "replace")
        return 124, out + "\nTIMEOUT after %ss" % timeout


class Lock:
    def __init__(self, name):
        os.makedirs(BUILD, exist_ok=True)
        self.path = os.path.join(BUILD, name + ".lock")

    def __enter__(self):
        self.fp = open(self.path, "w")
        fcntl.flock(self.fp, fcntl.LOCK_EX)
        return self

    def __exit__(self, *a):
        fcntl.flock(self.fp, fcntl.LOCK_UN)
        self.fp.close()


def enc(s):
    """Python str -> driver text field (space separated code points)."""
    return " ".join(str(ord(c)) for c in s)


def dec(f):
    return "".join(chr(int(x)) for x in f.split(" ")) if f else ""


def dec_lines(f):
    """'a;b;c' -> list of str ; note '' -> [''] is ambiguous with []: callers know."""
    return [dec(x) for x in f.split(";")]


class Driver:
    """The extracted OCaml model behind a line protocol (batch mode)."""

    def __init__(self, exe):
        self.exe = exe

    def batch(self, lines, timeout=900):
        if not lines:
            return []
        data = "\n".join(lines) + "\n"
        p = subprocess.run([self.exe], input=data, stdout=subprocess.PIPE,
                           stderr=subprocess.PIPE, text=True, timeout=timeout)
        if p.returncode != 0:
            raise RuntimeError("model driver failed rc=%s: %s" % (p.returncode, p.stderr[-2000:]))
        out = p.stdout.split("\n")
        if out and out[-1] == "":
            out.pop()
        if len(out) != len(lines):
            raise RuntimeError("model driver returned %d lines for %d cases" % (len(out), len(lines)))
        return out

    def pbatch(self, lines, nproc=NCPU):
        """Parallel batch over nproc driver processes, order preserved."""
        if len(lines) < 20000 or nproc <= 1:
            return self.batch(lines)
        from concurrent.futures import ThreadPoolExecutor
        n = len(lines)
        k = (n + nproc - 1) // nproc
        chunks = [lines[i:i + k] for i in range(0, n, k)]
        with ThreadPoolExecutor(nproc) as ex:
            res = list(ex.map(self.batch, chunks))
        return [x for r in res for x in r]


class Ctx:
    def __init__(self, pid, tier, seed, design_ref=""):
        self.pid = pid
        self.tier = tier
        self.seed = seed
        self.t0 = time.time()
        self.rng = random.Random(seed * 1000003 + int(hashlib.sha1(pid.encode()).hexdigest()[:8], 16))
        self.bdir = os.path.join(BUILD, pid)
        shutil.rmtree(self.bdir, ignore_errors=True)
        os.makedirs(self.bdir, exist_ok=True)
        rdir = os.path.join(VERIF, "replays")
        if os.path.isdir(rdir):
            for f in os.listdir(rdir):
                if f.startswith(pid + "-"):
                    os.remove(os.path.join(rdir, f))
        self.obligations = []      # names of theorems stated for this property
        self.discharged = []       # names that were accepted by coqc on this run
        self.assumptions_text = {}  # theorem -> Print Assumptions output
        self.broken = []           # (kind, name, detail) broken proof obligations / correspondences
        self.violations = []       # dicts -> replay files
        self.known = []            # printed KNOWN-FINDING lines
        self.evaluations = 0
        self.nontrivial = set()
        self.samples = []
        self.rules = []
        self.dist = {}
        self.traces = 0
        self.exhaustive = False
        self.extra = {}
        self.assume = []
        self.trusted = [
            "Coq 8.16.1 kernel (coqc); vm_compute used for computed table/witness obligations; native_compute not used",
            "extraction: ExtrOcamlBasic only (no Extract Constant/Inductive of ours); OCaml 4.13.1; ocaml/driver.ml text transport",
            "Python harness (tools/): input generation, transport, canonicalisation and comparison",
        ]
        self.log = []
        kf = os.path.join(VERIF, "known_findings.json")
        self.kf = json.load(open(kf)) if os.path.exists(kf) else {"findings": [], "fixed": []}

    # ------------------------------------------------------------------ logging
    def say(self, *a):
        msg = " ".join(str(x) for x in a)
        self.log.append(msg)
        print("[%s %6.1fs] %s" % (self.pid, time.time() - self.t0, msg), flush=True)

    # ------------------------------------------------------------------ Coq
    def hygiene(self):
        """No Admitted / Axiom / ... anywhere in the development."""
        bad = []
        for root in (COQ, os.path.join(VERIF, "dyn")):
            for d, _, fs in os.walk(root):
                for f in fs:
                    if f.endswith(".v"):
                        txt = open(os.path.join(d, f)).read()
                        txt = re.sub(r"\(\*.*?\*\)", "", txt, flags=re.S)
                        for m in FORBIDDEN.finditer(txt):
                            # Variable/Hypothesis are allowed inside a Section only
                            if m.group(0) in ("Variable", "Hypothesis"):
                                pre = txt[:m.start()]
                                if len(re.findall(r"^\s*Section\b", pre, flags=re.M)) > \
                                        len(re.findall(r"^\s*End\b", pre, flags=re.M)):
                                    continue
                            bad.append("%s: %s" % (os.path.join(d, f), m.group(0)))
        if bad:
            self.broken.append(("hygiene", "forbidden-declaration", "; ".join(bad[:10])))
        return not bad

    def static_build(self):
        """Full .vo build of the static development (Base, Model, Proof) under a lock."""
        with Lock("coq-static"):
            rc, out = sh("coq_makefile -f _CoqProject -o Makefile >/dev/null 2>&1; "
                         "timeout 1500 make -j%d 2>&1 | tail -40" % NCPU, cwd=COQ, timeout=1600)
            ok = os.path.exists(os.path.join(COQ, "Proof")) and "Error" not in out and rc == 0
            if not ok:
                self.say("static Coq build failed:\n" + out[-3000:])
                self.broken.append(("proof", "static-build", out[-1500:]))
            return ok

    def coqc(self, vfile, extra_R=(), timeout=900):
        """Compile one .v file in build/<id>/ against the static library."""
        args = ["coqc", "-R", COQ, "Shroud"]
        for d, n in extra_R:
            args += ["-R", d, n]
        args.append(vfile)
        return sh(args, cwd=os.path.dirname(vfile), timeout=timeout)

    def prove(self, src, extra_R=(), name=None, timeout=900):
        """Compile a property file (copied to build/<id>/) and account for its theorems.

        Every `Theorem` in the file is one obligation; it is discharged iff coqc
        accepts the whole file (coqc stops at the first error, so on failure the
        theorems before the error line are counted as discharged)."""
        name = name or os.path.basename(src)
        dst = os.path.join(self.bdir, name)
        if os.path.abspath(src) != os.path.abspath(dst):
            shutil.copy(src, dst)
        txt = open(dst).read()
        thms = [(m.group(2), txt[:m.start()].count("\n") + 1)
                for m in re.finditer(r"^(Theorem|Example)\s+(\w+)", txt, flags=re.M)]
        rc, out = self.coqc(dst, extra_R=extra_R, timeout=timeout)
        errline = None
        if rc != 0:
            m = re.search(r'line (\d+), characters', out)
            errline = int(m.group(1)) if m else 0
        # Print Assumptions blocks, in order
        blocks = []
        cur = None
        for ln in out.split("\n"):
            if ln.startswith("Closed under the global context"):
                if cur is not None:
                    blocks.append("\n".join(cur))
                    cur = None
                blocks.append(ln)
            elif ln.startswith("Axioms:"):
                if cur is not None:
                    blocks.append("\n".join(cur))
                cur = [ln]
            elif cur is not None:
                if ln.startswith(("File ", "Error", "Warning")):
                    blocks.append("\n".join(cur))
                    cur = None
                else:
                    cur.append(ln)
        if cur is not None:
            blocks.append("\n".join(cur))
        pa_names = re.findall(r"^Print Assumptions\s+(\w+)", txt, flags=re.M)
        for n, b in zip(pa_names, blocks):
            self.assumptions_text[n] = b.strip()
        for n, ln in thms:
            self.obligations.append(n)
            # a theorem is discharged if the error is after the *next* theorem starts
            nxt = min([l for (_, l) in thms if l > ln] + [10 ** 9])
            if rc == 0 or (errline and errline >= nxt):
                self.discharged.append(n)
            else:
                self.broken.append(("proof", n, out[-1500:]))
        if rc == 0:
            for n in pa_names:
                t = self.assumptions_text.get(n, "")
                if not t.startswith("Closed"):
                    self.say("Print Assumptions %s: %s" % (n, t))
        else:
            self.say("coqc failed on %s:\n%s" % (name, out[-2500:]))
        return rc == 0, out

    def driver(self):
        """Extract the models to OCaml and build the driver (shared, under a lock)."""
        ddir = os.path.join(BUILD, "driver")
        exe = os.path.join(ddir, "driver")
        with Lock("driver"):
            srcs = [os.path.join(COQ, "Extract", "Extract.v"), os.path.join(VERIF, "ocaml", "driver.ml")]
            for sub in ("Model", "Proof"):          # (Proof/RoundTrip.v and Proof/RenderLex.v define the extracted fragment predicates)
                for d, _, fs in os.walk(os.path.join(COQ, sub)):
                    srcs += [os.path.join(d, f) for f in fs if f.endswith(".v")]
            srcs += [os.path.join(COQ, "Base", f) for f in os.listdir(os.path.join(COQ, "Base")) if f.endswith(".v")]
            newest = max(os.path.getmtime(s) for s in srcs)
            if not (os.path.exists(exe) and os.path.getmtime(exe) >= newest):
                shutil.rmtree(ddir, ignore_errors=True)
                os.makedirs(ddir)
                shutil.copy(srcs[0], os.path.join(ddir, "Extract.v"))
                shutil.copy(srcs[1], os.path.join(ddir, "driver.ml"))
                rc, out = sh(["coqc", "-R", COQ, "Shroud", "Extract.v"], cwd=ddir, timeout=600)
                if rc != 0:
                    raise RuntimeError("extraction failed:\n" + out[-3000:])
                rc, out = sh("ocamlfind ocamlopt -w -a model.mli model.ml driver.ml -o driver", cwd=ddir, timeout=600)
                if rc != 0:
                    raise RuntimeError("ocaml build failed:\n" + out[-3000:])
        return Driver(exe)

    # ------------------------------------------------------------------ bookkeeping
    def count(self, n=1, nontrivial_key=None):
        self.evaluations += n
        if nontrivial_key is not None:
            self.nontrivial.add(nontrivial_key)

    def hist(self, key, n=1):
        self.dist[key] = self.dist.get(key, 0) + n

    def sample(self, x, limit=8):
        if len(self.samples) < limit:
            self.samples.append(x)

    def known_finding(self, key, what):
        """Report a failing input that is listed in known_findings.json (by key)."""
        for f in self.kf.get("findings", []):
            if f["property"] == self.pid and f["key"] == key:
                line = "KNOWN-FINDING: property=%s %s" % (self.pid, f["what"])
                if line not in self.known:
                    self.known.append(line)
                return True
        return False

    def is_known(self, key):
        return any(f["property"] == self.pid and f["key"] == key for f in self.kf.get("findings", []))

    def violation(self, kind, detail, found_input=True):
        """kind: 'failing-input' | 'broken-obligation' | 'broken-correspondence'."""
        d = {"property": self.pid, "tier": self.tier, "seed": self.seed, "kind": kind,
             "found_failing_input": bool(found_input)}
        d.update(detail)
        d["how_to_replay"] = "./check %s --replay <this file>" % self.pid
        if len([v for v in self.violations if v["kind"] == kind]) < 3:
            self.violations.append(d)

    # ------------------------------------------------------------------ finish
    def finish(self):
        # broken obligations without a failing input found -> violation of the weaker kind
        if self.broken and not any(v.get("found_failing_input") for v in self.violations):
            for kind, name, detail in self.broken[:3]:
                self.violation("broken-" + ("obligation" if kind in ("proof", "hygiene") else "correspondence"),
                               {"theorem_or_correspondence": name, "detail": detail[-3000:]}, found_input=False)
        wall = time.time() - self.t0
        os.makedirs(os.path.join(VERIF, "evidence"), exist_ok=True)
        os.makedirs(os.path.join(VERIF, "replays"), exist_ok=True)
        lines = []
        for v in self.violations:
            h = hashlib.sha1(json.dumps(v, sort_keys=True, default=str).encode()).hexdigest()[:10]
            path = os.path.join(VERIF, "replays", "%s-%s.json" % (self.pid, h))
            json.dump(v, open(path, "w"), indent=1, default=str)
            tail = "" if v.get("found_failing_input") else " no-failing-input-found"
            lines.append("VIOLATION property=%s replay=%s%s" % (self.pid, path, tail))
        ev = {
            "property_id": self.pid, "tier": self.tier, "seed": self.seed, "level": "proof",
            "coverage": {
                "obligations": len(self.obligations),
                "discharged": len(self.discharged),
                "checker_cmd": "coqc -R %s Shroud <file> (full .vo build; see ./check)" % COQ,
                "trusted_base": self.trusted,
                "theorems": self.obligations,
                "print_assumptions": self.assumptions_text,
                "evaluations": self.evaluations,
                "distinct_nontrivial": len(self.nontrivial),
                "rule": " | ".join(self.rules),
                "samples": self.samples or ["(none)"],
                "traces_validated_against_impl": self.traces,
                "input_distribution": self.dist,
                "exhaustive": self.exhaustive,
                "broken": [b[:2] for b in self.broken],
                "known_findings_reported": self.known,
            },
            "assumptions": self.assume,
            "wall_s": round(wall, 2),
            "violations": len(self.violations),
        }
        ev["coverage"].update(self.extra)
        json.dump(ev, open(os.path.join(VERIF, "evidence", self.pid + ".json"), "w"), indent=1, default=str)
        for l in self.known:
            print(l)
        for l in lines:
            print(l)
        self.say("obligations %d discharged %d evaluations %d nontrivial %d violations %d wall %.1fs"
                 % (len(self.obligations), len(self.discharged), self.evaluations,
                    len(self.nontrivial), len(self.violations), wall))
        if not os.environ.get("VERIF_KEEP"):
            shutil.rmtree(self.bdir, ignore_errors=True)
        return 1 if self.violations else 0


def import_shroud():
    """Import /repo's shroud package (working tree)."""
    if REPO not in sys.path:
        sys.path.insert(0, REPO)
    for m in [k for k in sys.modules if k == "shroud" or k.startswith("shroud.")]:
        del sys.modules[m]
    import shroud  # noqa
    return shroud
