"""Run several Shroud invocations in ONE python process (fresh process per script call).
usage: seqrun.py <base outdir> <job.json>     job = [{"yaml":..., "args":[...], "out": "subdir"}...]"""
import contextlib
import io
import json
import os
import sys

REPO = os.environ.get("SHROUD_REPO", "/repo")
sys.path.insert(0, REPO)
from shroud import main as smain  # noqa

base, job = sys.argv[1], json.load(open(sys.argv[2]))
status = []
for j in job:
    od = os.path.join(base, j["out"])
    os.makedirs(od, exist_ok=True)
    old = sys.argv
    sys.argv = ["shroud", "--logdir", od, "--outdir", od] + j["args"] + [j["yaml"]]
    err = ""
    try:
        with contextlib.redirect_stdout(io.StringIO()):
            try:
                smain.main()
            except SystemExit as e:
                err = "" if e.code in (0, None) else "exit %r" % (e.code,)
            except BaseException as e:
                err = "%s: %s" % (type(e).__name__, e)
    finally:
        sys.argv = old
    status.append(err)
json.dump(status, open(os.path.join(base, "status.json"), "w"))
