"""Regenerate MANIFEST.json from the per-property table below."""
import json
import os

VERIF = os.path.dirname(os.path.dirname(os.path.abspath(__file__)))
BASE = "cd /repo && /venv/bin/python -m pytest -ra -q -p no:cacheprovider --timeout=900 --continue-on-collection-errors"

CLAIMED = {
    "C01": dict(
        text="Coq theorems over a model of the call a generated Fortran specific makes to its bind(C) interface (per interface "
             "parameter: source dummy argument and conversion; value semantics of pass-through, capsule, logical coercion, "
             "len_trim / len / size, trim//NUL): a specific that passes the check hands every interface parameter the documented "
             "value for ALL values of the dummy arguments, in interface order; character input reaches C as the buffer or its "
             "trimmed NUL-terminated copy; trimming removes only trailing blanks. Translation validation on every run: every "
             "bind(C) call in the modules generated from /repo for 24+ generated libraries x {plain, debug} and 12 regression "
             "inputs is extracted (fail closed) and checked by vm_compute. The chain to the C++ callee: C04 (interface = "
             "prototype), C02 (C wrapper delivers), C10 (string helpers). Search / validation: every generated library is built "
             "as a direct C++ program and as a Fortran program using only the generated module (gfortran + g++ under ASan, option "
             "sets plain / debug / F_CFI) with the same values; callee-side trace and caller-side results must be identical. The checked "
             "call also requires output dummies to be passed by their own storage or copied back (theorem: the caller sees what C "
             "stored) and a character dummy passed as its own storage to travel with len / len_trim of itself.",
        note="Trusted: Coq kernel, the flow extractor tools/fflow.py, the generator tools/eqgen.py, gfortran/g++/ASan. Result and "
             "output-argument delivery (copy-out, allocation, blank padding) is covered by the runs and by C10's theorems, not by a "
             "theorem here; language c libraries and generic / assumed-rank variants only through the regression inputs in the table.",
        technique="Coq proof of a checker's soundness + per-run translation validation of generated Fortran specifics (vm_compute); differential runs for the search",
        design="4/C01"),
    "C02": dict(
        text="Coq theorem over a model of the argument passing of a C wrapper (per C++ parameter: source C parameter and "
             "conversion; value semantics of Direct / Deref / enum cast / std::string construction / capsule address): a wrapper "
             "that passes the check delivers to the callee, for ALL argument values, exactly the caller's values in declaration "
             "order, takes 'this' from the capsule passed as self, and copies back exactly the output strings. Translation "
             "validation on every run: the argument flow of every C wrapper generated from /repo for 30+ generated libraries and "
             "9 regression inputs is extracted from the wrapper sources (fail closed) and checked by vm_compute. Search / "
             "validation: every generated library is built twice (direct C++ calls; calls through the generated C API only) under "
             "AddressSanitizer with the same argument values; callee-side trace and caller-side results must be identical. The check "
             "requires a std::string parameter to be built in the wrapper (no raw C string) and the object pointer to be const exactly "
             "when the member is const, and a std::string to be built with the trimmed length exactly when the prototype carries it.",
        note="Trusted: Coq kernel, the flow extractor tools/cflow.py, the library/driver generator tools/eqgen.py, g++/ASan. "
             "Result conversions, overload/default/template reachability (C08) and ownership (C06) are not in this model; "
             "wrappers with vector / struct / function-pointer parameters are outside the covered grammar (counted).",
        technique="Coq proof of a checker's soundness + per-run translation validation of generated wrappers (vm_compute); differential runs for the search",
        design="4/C02"),
    "C06": dict(
        text="Coq theorems over an executable model of the capsule protocol of the generated C API ({addr, idtor}, constructor "
             "and owner(caller)/library result wrappers, method wrappers, the class destructor wrapper, SHROUD_memory_destructor): "
             "for every call history of any length in which handles are not copied and not used after release, no operation "
             "fails, every object is freed at most once, library-owned objects never, every caller-owned object exactly once "
             "when all handles are released, releasing twice is a no-op (invariant by induction over fold of step). The statement "
             "with handle copies is refuted (double release / use after release) = known finding. Table theorems over the "
             "regenerated statement table (c and c++): temporaries freed by the same entry on the same variable; every object "
             "created with new carries a release code deleting exactly that type. Tie: extracted model vs the generated C API of "
             "a class library built from /repo under AddressSanitizer, same operation sequences (first failing operation, class "
             "of error, live-object counters). Further regenerated tables: the release codes stored by the generated C++ wrappers vs the destructor switch (each code releases the pointer's own type with the matching deallocator; new => code <> 0), and the Python wrapper statements (the error exit path releases what the normal exit path releases).",
        note="Trusted: Coq kernel, extraction, OCaml driver, Python harness, tools/cgen/cap (subject library + C++ driver), g++ "
             "AddressSanitizer. Not modelled: when Fortran finalisers / Python GC release a handle; Python reference counts on "
             "fail paths; bounds of string helpers are C10's theorems.",
        technique="Coq proof over hand model + regenerated-table theorems + extracted-model correspondence against ASan-instrumented generated code",
        design="4/C06"),
    "C08": dict(
        text="Coq theorems over an executable model of the function expansion and naming of a scope "
             "(GenFunctions.define_function_suffix / has_default_args / template_function / generic_function suffix logic, "
             "util.un_camel, C_name / F_name_impl / F_name_generic templates): for defaulted suffixes, any number of overloads and "
             "trailing default arguments, exactly one C entry point and one Fortran specific per callable signature, pairwise "
             "distinct under a stated separability of the underscore names (unbounded, by induction over positions); generic name = "
             "underscore form of the C++ name; an explicit suffix on one member of an overload set that spells the number of its own "
             "position changes no emitted name (pinning theorem). The full statement is refuted by two witnesses (explicit function_suffix with default "
             "arguments; an overload number colliding with another function's name) = known findings. Tie: extracted model vs the "
             "function nodes of real runs (C_name, F_name_impl, F_name_generic, order) incl. explicit suffixes, templates and "
             "fortran_generic in global / namespace / class scopes. Search: duplicates, counts and generic-interface membership in the "
             "generated C headers, Fortran modules, PyMethodDef and luaL_Reg tables.",
        note="Trusted: Coq kernel, extraction, OCaml driver, Python harness and its text observers (tools/names_obs.py). Not in the "
             "model: bufferify/CFI helper functions, class templates, constructors' generic grouping, cross-scope collisions.",
        technique="Coq proof over hand model + extracted-model correspondence; text-level oracle for the search",
        design="4/C08"),
    "C09": dict(
        text="Coq theorems over executable models of declast.Parser.pointer/declarator (Model/Decl.v) and the unparser "
             "Ptr/Declarator/Declaration.gen_decl_work (Model/Render.v): a run of type words / cv-qualifiers / storage classes in any order is "
             "recorded in written order with each qualifier wherever it stands; every pointer/reference chain with const/volatile at "
             "every level, and every declarator to any nesting depth, is recorded exactly as written (token level, unbounded); the "
             "C rendering of a declarator is the rendering of its pointer form. Table theorems over regenerated tables: every "
             "accepted list of type-specifier words (complete to 4 words, longer never accepted) denotes by the C++ rules the "
             "type of the typemap it resolves to; the model's canonical map is the source's. Tie: extracted parse+render vs "
             "declast.check_decl / gen_decl. Search: parse(render(parse d)) on the implementation; g++ std::is_same / type "
             "traits against the renderings and the recorded pointer depth, reference, const, volatile; gcc for C renderings.",
        note="Trusted: Coq kernel, extraction, OCaml driver, Python harness, g++/gcc as the reference reading of C++/C. Not "
             "proved: the full parse/render/parse round trip and the specifier/parameter phases of the parser (evaluated on "
             "model and implementation only). Template arguments, attributes and default values are covered by the round-trip "
             "evaluation, not by a theorem.",
        technique="Coq proof over hand model + regenerated-table theorems + extracted-model correspondence; compiler oracle for the search",
        design="4/C09"),
    "C17": dict(
        text="Coq theorems over executable models of declast.tokenize / Parser.decl_statement (Model/Decl.v) and "
             "generate.VerifyAttrs (Model/Attrs.v): for every text and scope the parser terminates (fuel adequacy proved) and never ends in an internal exception, "
             "an accepted statement has consumed the whole text, for every declaration and attribute list validation never ends "
             "in an internal exception, illegal attribute names are rejected and whatever is accepted satisfies every documented "
             "rule (intent/deref/owner/rank/dimension/value/assumedtype/charlen/template/implied). Table theorems over regenerated "
             "tables: every raise statement of the input modules raises a diagnostic class; VerifyAttrs' constant lists are the "
             "model's. Tie: extracted model vs declast.check_decl (full AST, 5 scopes) and vs VerifyAttrs (classification). "
             "Search: shroud.main on the fully enumerated attribute space and every single-point YAML mutation.",
        note="Trusted: Coq kernel, extraction (ExtrOcamlBasic only), OCaml driver, Python harness and its outcome classifier "
             "(tools/runmain.py), python-ast scan. YAML structure handling (ast.clean_dictionary ...) is searched, not modelled; wrong-typed "
             "top-level YAML values are known findings.",
        technique="Coq proof over hand model + extracted-model correspondence + regenerated-table theorems",
        design="4/C17"),
    "C13": dict(
        text="Coq theorems (unbounded: every logical line, line length, indentation, marker) over an executable Gallina model of "
             "util.write_continue/write_lines: text preserved up to blanks at breaks, only leading blanks of break-delimited parts "
             "dropped, marker on every broken line, breaks only at hints, over-long line only when it holds one part, form feed always "
             "breaks. Model tied to /repo by correspondence (extracted OCaml vs real WrapperMixin) on exhaustive small scopes, random "
             "lines and every logical line emitted on corpus runs.",
        note="Trusted: Coq kernel, extraction (ExtrOcamlBasic only), OCaml driver, Python harness. Modelled, not verified: "
             "write_continue/write_lines. The Fortran 132-column clause is validated on corpus output only (not a theorem).",
        technique="Coq proof over hand model + extracted-model correspondence",
        design="4/C13"),
    "C12": dict(
        text="Coq theorems over executable models of splicer.get_splicers and util._create_splicer (+ write_lines): a block with any "
             "dotted name and any body without an end marker is read back exactly (trailing blanks stripped); any number of blocks "
             "with text in between; the marker lines Shroud writes are recognised by its reader for every blank-free name; "
             "force > user > default; regenerate round trip; lines reach the file verbatim (partial: no TAB/FF, no trailing '+'), "
             "full statement refuted with two witnesses = known findings. Tie: extracted model vs real functions on random "
             "files; end-to-end real runs with user bodies via splicer files, splicer_code and declaration splicers (list and block-scalar "
             "form), the round trip on the implementation (generated files fed back as splicer files reproduce every block) and the "
             "scope of each Fortran module's file-level blocks.",
        note="Trusted: Coq kernel, extraction, harness. PyYAML and Python's text layer not modelled. Known findings: TAB/FF and "
             "trailing '+' in user lines, generated getter/setter blocks ignore user code.",
        technique="Coq proof over hand model + extracted-model correspondence + end-to-end oracle",
        design="4/C12"),
    "C14": dict(
        text="Coq theorems over a heap model of util.Scope: inheritance, a container setting reaches every nested scope that does "
             "not rebind it and equals setting it there, siblings/parents/other keys unaffected, clone and empty child scopes "
             "transparent, lookups terminate; and over the --option value parser: booleans, non-numeric strings and all integers "
             "(after fix b89c951) equal the YAML value. Tie: extracted model vs util.Scope on random operation sequences, vs "
             "main_with_args for option values; whole-run relations (container vs children, inline vs dict attributes, YAML vs CLI, "
             "create_wrapper vs CLI) byte-compared on the implementation.",
        note="Trusted: Coq kernel, extraction, harness. Not modelled: which options each emitter reads (the relations are checked on "
             "real runs of a generated nested library), name-mangled private slots of Scope.",
        technique="Coq proof over hand model + extracted-model correspondence + whole-run relation oracle",
        design="4/C14"),
    "C10": dict(
        text="Coq theorems over an executable byte-buffer model of the C string helpers (ShroudLenTrim, StrCopy, StrBlankFill, "
             "StrAlloc, StrArrayAlloc): Fortran text reaches C as its trailing-blank-free part + NUL on all three call forms; a C "
             "string comes back truncated or blank padded to the declared length with no NUL inside and nothing written past the "
             "variable; NULL/empty -> blank; no out-of-bounds access under the stated preconditions (and the exact-fit "
             "char* intent(out) case proved to read out of bounds). Table theorem (vm_compute over a table regenerated from "
             "statements.py for c and c++ on every run): every helper call site passes the declared length where a capacity is "
             "needed and the trimmed length where the text length is needed. Tie: helper C text pulled from whelpers at run time, "
             "compiled with gcc and g++ under ASan/UBSan, exhaustive small-scope comparison with the extracted model (text and the "
             "allocator-reported room of the block handed to C; theorem: nsrc+1 bytes). The table also lists every store by index "
             "into the caller's buffer (only index 0 admitted) and every std::string built from the argument in the resolved statements "
             "(bufferify statements must use the trimmed length).",
        note="Trusted: Coq kernel, extraction, harness, gcc/g++/libc. Modelled: the helpers and the call-site argument classes; "
             "the Fortran-side trim()//C_NULL_CHAR and std::string internals are taken at their standard meaning.",
        technique="Coq proof over hand model + regenerated table theorem + compiled-helper correspondence",
        design="4/C10"),
    "C11": dict(
        text="Coq theorem (unbounded: any number of members, any well-formed expressions, any injective C/Fortran naming) over "
             "executable models of declast.tokenize, ExprParser, enum parsing, todict.PrintNode(Identifier) and the EnumNode value "
             "loop: every member's emitted C text (or the C rule previous+1 when none is emitted) and Fortran text are renderings "
             "of expressions whose value is the value C++ assigns; renaming preserves values; Fortran reads well-formed literals "
             "like C. The full statement is refuted by a computed witness (octal literal) = known finding. Tie: extracted model vs "
             "real tokenizer/parser/printer/EnumNode on random inputs; specification side validated (and failing inputs searched) "
             "by compiling the original with g++, the generated header with gcc and the generated module with gfortran.",
        note="Trusted: Coq kernel, extraction, harness, compilers for validation. The reading of rendered text by C/Fortran "
             "compilers (print/parse round trip, precedence) is validated by compilation, not proved. Overflow/underlying type not "
             "modelled. Python \\d / int() on non-ASCII digits not modelled.",
        technique="Coq proof over hand model + extracted-model correspondence + compile-and-compare oracle",
        design="4/C11"),
    "C18": dict(
        text="Coq theorems over an executable model of the dispatch wrapl.py generates (call variations = default-argument "
             "prefixes, switch on argument count, first-match chain over lua_type, stack index read per argument): selection is "
             "sound and complete (first match in declaration order, Lua error when nothing matches or the count is wrong), every "
             "argument is read from the very slot that was type checked, after the object for methods (layout consistency, true "
             "after fix 017af13); result count partial + refuted for mixed void/value overload sets; no-check single-variation "
             "wrappers refuted = known findings. Tie: real wrapl output for random libraries compiled with g++ against a stub of "
             "the Lua C API and an instrumented library, driven with matching and non-matching stacks, compared with the "
             "extracted model; an independent oracle states the property on the observed library calls.",
        note="Trusted: Coq kernel, extraction, harness, g++, and tools/cgen/lua (a stand-in for the Lua C API: no Lua is installed). "
             "Modelled: dispatch and stack indexing; the lua_to*/lua_push* templates are validated by execution only. C++ overload "
             "resolution inside a selected branch is not modelled (known finding lua-string-vs-bool-overload).",
        technique="Coq proof over hand model + compiled-binding correspondence against a Lua API stub",
        design="4/C18"),
    "C03": dict(
        text="Coq theorems over an executable model of the argument handling wrapp.py generates (PyArg_ParseTupleAndKeywords "
             "abstracted as positional-then-keyword assignment with '|' before the first default, the switch on the argument "
             "count, multi_dispatch): every argument handed to the library is the caller's value for that parameter (by position "
             "or by the keyword of that name) of an accepted class; calls supplying a prefix of the parameters, in any "
             "positional/keyword split and keyword order, never hand over an uninitialised variable; too many arguments, unknown "
             "or duplicate keyword, missing required or wrongly typed argument give TypeError; overloads: first acceptor in "
             "declaration order, TypeError if all reject. Full delivery statement refuted (keyword skipping a default) = known "
             "finding. Tie: real wrapp output for random libraries compiled against CPython 3.12 with an instrumented library, "
             "called in a fresh interpreter with all splits / skips / malformed calls, compared with the extracted model; an "
             "independent oracle applies Python's call semantics to the documented signature.",
        note="Trusted: Coq kernel, extraction, harness, g++, CPython. Modelled: parse abstraction, default switch, overload "
             "dispatch for in-arguments of scalar/bool/std::string type. Not modelled: out/inout arguments, arrays, structs, "
             "classes as arguments, numpy, reference counting, result building (validated by execution only).",
        technique="Coq proof over hand model + compiled-extension correspondence against CPython",
        design="4/C03"),
    "C07": dict(
        text="Coq: (abstract, for every process model) if what a run reads is rebuilt from its input, the output after any "
             "history of earlier runs equals a fresh process's, and leftover state depends on the last input only; table theorems "
             "by vm_compute over tables regenerated on every run from /repo's source text and a dynamic probe: no nondeterminism "
             "source is imported or called, no iteration over a set, every open() is plain r/w (w truncates), every process-wide "
             "registry is constant, rebuilt by each run, or one of the enumerated accumulating ones. Search/validation: whole-run "
             "relations byte-compared on the implementation: two hash seeds, in-process histories mixing C and C++ libraries and "
             "same-named classes, pre-populated output directory, different cwd and environment.",
        note="PARTIAL: the body of a run is opaque in the model; that accumulating registries are rewritten before they are read "
             "is evidenced by the history oracle, not proved. Trusted: Coq kernel, the ast scan and probe (tools/scan_src.py, "
             "regprobe.py), Python dict ordering. Known finding: the --write-helpers debug dump accumulates.",
        technique="Coq abstract theorem + regenerated source-scan tables (vm_compute) + whole-run relation oracle",
        design="4/C07"),
    "C15": dict(
        text="Coq theorems over the wrap-flag algebra (WrapFlags / PromoteWrap / emitter sequencing): a container's flag is the OR "
             "over its subtree, a language off everywhere writes no wrapper file, on somewhere writes them, Python/Lua flags never "
             "influence the C/Fortran emission decision; table theorems by vm_compute over the write_output_file() call-site table "
             "regenerated from /repo's source on every run: every site uses the directory option of its kind, every C/C++ site "
             "registers exactly os.path.join(dir, file) in cfiles, every Fortran site in ffiles, nobody else does. Search/validation: "
             "whole-run relations on the implementation: the 12 admissible library-level flag combinations, --cfiles/--ffiles "
             "contents vs files on disk, byte equality of C/Fortran files across Python/Lua toggles, separate output directories, "
             "per-declaration overrides on plain/defaulted/string/overloaded/templated/generic functions. Coq theorem over the naming "
             "model: per-declaration wrap flags select among the names of the unflagged library and never renumber them.",
        note="Trusted: Coq kernel, the ast scan, harness. The wrap.assign/clear sites of generate.py are not modelled in Coq; they are "
             "covered by the per-declaration override relation (which found and led to fixing has_default_args).",
        technique="Coq proof (flag algebra) + regenerated source-scan table (vm_compute) + whole-run relation oracle",
        design="4/C15"),
    "C16": dict(
        text="Table theorem by vm_compute over the option-guarded emission sites regenerated from /repo's source on every run "
             "(python-ast scan, fail closed): every statement guarded by debug / debug_index / doxygen / literalinclude / "
             "show_splicer_comments (and every else-branch) only appends comment or blank lines, calls a comment producer, sets a "
             "literalinclude marker field or computes declaration text for a comment; none guards a file write or file-list "
             "registration; the version stamp is a comment line. Coq theorem (from the Text model): a hint-free comment line stays "
             "one physical line starting with its leader and does not move the indentation. Search/validation: pairs of real runs "
             "differing in one option (globally and on single declarations) over corpus entries and a generated library: same "
             "file set and identical token streams after comment removal. Coq theorem: a block of comment lines inserted anywhere in a "
             "file's line list leaves the rendering of all other lines unchanged (text, indentation, final state).",
        note="Trusted: Coq kernel, tools/scan_guards.py (syntactic classifier; write_doxygen/document_stmts/gen_decl trusted to be "
             "comment producers / pure), the comment strippers. A new kind of guarded statement makes the obligation fail (fail closed).",
        technique="regenerated source-scan table (vm_compute) + Coq Text lemma + comment-stripped run comparison",
        design="4/C16"),
    "C04": dict(
        text="Coq theorem (every signature: any number of arguments, any buf_args, method or not): the C prototype and the bind(C) "
             "interface list the same parameters in the same order provided every arg_decl entry is balanced; table theorems by "
             "vm_compute over tables regenerated from /repo for c and c++ on every run: every native/bool/char typemap declares the "
             "interoperable Fortran type and kind for its C type; the implied arguments (size, len, len_trim, capsule, context) use "
             "exactly the interoperable pair in wrapc and wrapf (scanned from their source); every c_arg_decl/f_arg_decl pair is "
             "interoperable; the capsule and array-descriptor structs have the same member order and interoperable member types; "
             "the SH_TYPE constant tables are equal. Search/validation: gfortran -fc-prototypes output for every generated module "
             "of corpus entries and generated libraries compared with the generated C prototypes (count, order, kind and size, "
             "value vs reference, struct layout); modules must compile. Interface-text rules: no default-kind dummies; descriptor dummies (assumed rank / shape / length) are bound to CFI_cdesc_t parameters.",
        note="Trusted: Coq kernel, the interoperability rules written in dyn/C04_tables.v (the specification, validated against "
             "gfortran's own mapping), tools/gen_tables.py, tools/protocmp.py, gfortran. Not decided: descriptor (CFI) arguments "
             "(gfortran 12 does not render them), bind(C) names with no prototype available (user functions without headers).",
        technique="Coq proof (layout) + regenerated table theorems (vm_compute) + gfortran -fc-prototypes comparison",
        design="4/C04"),
    "C05": dict(
        text="PARTIAL. Coq theorem (every dependency table with a rank certificate, every list of requested helpers): the model of "
             "_gather_helper_code emits each needed helper once, closed under dependencies, each after the helpers it uses. Table "
             "theorems by vm_compute over tables regenerated from /repo for c and c++: the C, Fortran and Lua helper tables have a "
             "rank certificate (all dependencies exist, acyclic) hence the theorem applies to them for every request; every template "
             "block (467 statement clauses and helper texts) leaves the indentation balanced and never makes write_lines fail "
             "(evaluated with the verified Text model); every resolved C statement entry lists in c_helper each string helper its "
             "clauses call. Tie: extracted gather vs the real Wrapc._gather_helper_code on random tables. Validation/search: the "
             "compilers: every file generated for corpus entries that ship their headers and for two generated libraries over "
             "{wrapper subsets} x {doc options} x {line lengths} x {F_CFI}.",
        note="That emitted text is accepted by gcc/g++/gfortran is validated by compiling, not proved; linking is not exercised; "
             "numpy-dependent Python sources are skipped. Trusted: Coq kernel, extraction, translators, compilers, the Lua API stub.",
        technique="Coq proof (helper gathering) + regenerated table theorems (vm_compute) + compile validation",
        design="4/C05"),
}

PENDING = {}


def main():
    props = [json.loads(l) for l in open(os.path.join(VERIF, "properties.jsonl"))]
    checks = []
    na = []
    for p in props:
        pid = p["id"]
        if pid in CLAIMED:
            c = CLAIMED[pid]
            checks.append({
                "property_id": pid,
                "quick_cmd": "./check %s --tier quick" % pid,
                "thorough_cmd": "./check %s --tier thorough" % pid,
                "evidence_file": "evidence/%s.json" % pid,
                "replay_cmd_template": "./check %s --replay {path}" % pid,
                "engine": "coq-proof",
                "level_claimed": {"category": "proof", "text": c["text"], "design_ref": "DESIGN.md section " + c["design"]},
                "level_note": c["note"],
                "technique": c["technique"],
            })
        else:
            na.append({"property_id": pid, "reason": PENDING.get(pid, "not claimed yet: model and theorems for this property are not built in the committed tree (see DESIGN.md work order)")})
    m = {
        "version": 1,
        "setup_cmd": "./setup.sh",
        "hooks": {"guard": "SHROUD_VERIF", "enable": "no source hooks are used; checks import /repo/shroud from the working tree",
                  "baseline_off_cmd": BASE, "source_commits": [], "add_only": True},
        "engines": [{"name": "coq-proof", "path": "check", "serves_properties": sorted(CLAIMED),
                     "kind_free_text": "Coq 8.16.1 theorems over Gallina models; models tied to /repo by regenerated tables and by "
                                       "correspondence of the extracted OCaml model with the implementation"}],
        "checks": checks,
        "notes": "All checks: ./check <id> --tier quick|thorough. known_findings.json lists recorded findings; replays/ holds replay files.",
        "not_applicable": na,
    }
    json.dump(m, open(os.path.join(VERIF, "MANIFEST.json"), "w"), indent=1)
    print("claimed", len(checks), "not claimed", len(na))


if __name__ == "__main__":
    main()
