"""Regenerate MANIFEST.json from the per-property table below."""
import json
import os

VERIF = os.path.dirname(os.path.dirname(os.path.abspath(__file__)))
BASE = "cd /repo && /venv/bin/python -m pytest -ra -q -p no:cacheprovider --timeout=900 --continue-on-collection-errors"

CLAIMED = {
    "C13": dict(
        text="Coq theorems (unbounded: every logical line, line length, indentation, marker) over an executable Gallina model of "
             "util.write_continue/write_lines: text preserved up to blanks at breaks, only leading blanks of break-delimited parts "
             "dropped, marker on every broken line, breaks only at hints, over-long line only when it holds one part, form feed always "
             "breaks. Model tied to /repo by correspondence (extracted OCaml vs real WrapperMixin) on exhaustive small scopes, random "
             "lines and every logical line emitted on corpus runs.",
        note="Trusted: Coq kernel, extraction (ExtrOcamlBasic only), OCaml driver, Python harness. Modelled, not verified: "
             "write_continue/write_lines. The Fortran 132-column clause is validated on corpus output only (not a theorem).",
        technique="Coq proof over hand model + extracted-model correspondence",
        design="4/C13"),
}

PENDING = {}


def main():
    props = [json.loads(l) for l in open(os.path.join(VERIF, "properties.jsonl"))]
    checks = []
    na = []
    for p in props:
        pid = p["id"]
        if pid in CLAIMED:
            c = CLAIMED[pid]
            checks.append({
                "property_id": pid,
                "quick_cmd": "./check %s --tier quick" % pid,
                "thorough_cmd": "./check %s --tier thorough" % pid,
                "evidence_file": "evidence/%s.json" % pid,
                "replay_cmd_template": "./check %s --replay {path}" % pid,
                "engine": "coq-proof",
                "level_claimed": {"category": "proof", "text": c["text"], "design_ref": "DESIGN.md section " + c["design"]},
                "level_note": c["note"],
                "technique": c["technique"],
            })
        else:
            na.append({"property_id": pid, "reason": PENDING.get(pid, "not claimed yet: model and theorems for this property are not built in the committed tree (see DESIGN.md work order)")})
    m = {
        "version": 1,
        "setup_cmd": "./setup.sh",
        "hooks": {"guard": "SHROUD_VERIF", "enable": "no source hooks are used; checks import /repo/shroud from the working tree",
                  "baseline_off_cmd": BASE, "source_commits": [], "add_only": True},
        "engines": [{"name": "coq-proof", "path": "check", "serves_properties": sorted(CLAIMED),
                     "kind_free_text": "Coq 8.16.1 theorems over Gallina models; models tied to /repo by regenerated tables and by "
                                       "correspondence of the extracted OCaml model with the implementation"}],
        "checks": checks,
        "notes": "All checks: ./check <id> --tier quick|thorough. known_findings.json lists recorded findings; replays/ holds replay files.",
        "not_applicable": na,
    }
    json.dump(m, open(os.path.join(VERIF, "MANIFEST.json"), "w"), indent=1)
    print("claimed", len(checks), "not claimed", len(na))


if __name__ == "__main__":
    main()
