"""Translation validation of the capsule release codes in GENERATED C++ sources (C06).
extract(od) -> (cases, sites):
  cases: {N: (type text the pointer is cast to, action)}   action = delete | free | other   (the switch of <lib>_SHROUD_memory_destructor)
  sites: [(file, function, N, type of the stored pointer, how it was obtained: new | call | unknown)]  one per statement that stores a release code
emit_coq(rows, path): rows = [(label, cases, sites)] -> GenCapsule.v"""
import glob
import os
import re


def norm_type(t):
    t = re.sub(r"\bconst\b", "", t)
    return re.sub(r"\s+", "", t)


def extract(od):
    cases = {}
    sites = []
    for f in sorted(glob.glob(os.path.join(od, "*.cpp"))):
        if os.path.basename(f).startswith(("py", "lua")):
            continue          # (the C API only: the Python extension keeps its own release table)
        txt = open(f, errors="replace").read()
        lines = txt.split("\n")
        # ---- the destructor switch
        if "switch (cap->idtor)" in txt:
            body = txt.split("switch (cap->idtor)", 1)[1]
            for m in re.finditer(r"case (\d+):[^\n]*\n\s*\{(.*?)\n\s*break;", body, flags=re.S):
                n, blk = int(m.group(1)), m.group(2)
                casts = re.findall(r"reinterpret_cast<\s*(.+?)\s*\*\s*>\s*\(\s*ptr\s*\)", blk, flags=re.S)
                if re.search(r"\bdelete\s+cxx_ptr\s*;", blk):
                    act = "delete"
                elif re.search(r"\bfree\s*\(\s*cxx_ptr\s*\)", blk):
                    act = "free"
                elif "Nothing to delete" in blk:
                    act = "none"
                else:
                    act = "other"
                cases[n] = (norm_type(casts[0]) if casts else "", act)
        # ---- the sites that store a release code
        func = ""
        locals_ = {}
        addr_of = {}
        i = 0
        while i < len(lines):
            l = lines[i]
            # join continuation lines of one statement
            st = l.strip()
            while st and l[:1] in (" ", "\t") and not st.endswith((";", "{", "}", ":")) and not st.startswith(("//", "#", "/*", "*")) and i + 1 < len(lines):
                i += 1
                st += " " + lines[i].strip()
            i += 1
            # a function definition starts at column one (its signature may continue on the following lines)
            if l and l[0] not in " \t}{/#*" and "(" in l and not l.startswith(("static const", "extern", "typedef", "using", "namespace")):
                m = re.search(r"(\w+)\s*\(", l)
                if m:
                    func = m.group(1)
                    locals_, addr_of = {}, {}
                    continue
            m = re.match(r"^(?:const\s+)?([\w:<>, ]+?)\s*\*\s*(?:const\s+)?(\w+)\s*=\s*(.*);$", st)
            if m and "->" not in m.group(1):
                rhs = m.group(3).strip()
                locals_[m.group(2)] = (norm_type(m.group(1)), "new" if rhs.startswith("new ") else ("call" if "(" in rhs else "copy"))
                continue
            m = re.match(r"^(\w+)->(?:cxx\.)?addr\s*=\s*(.*);$", st)
            if m:
                v = m.group(2).strip()
                mv = re.match(r"^(?:const_cast|static_cast|reinterpret_cast)<[^>]*>\s*\(\s*(?:static_cast<[^>]*>\s*\()?\s*(\w+)\s*\)?\s*\)$", v)
                addr_of[m.group(1)] = mv.group(1) if mv else v
                continue
            m = re.match(r"^(\w+)->(?:cxx\.)?idtor\s*=\s*(\d+);", st)
            if m and func and not func.endswith("SHROUD_memory_destructor"):
                var = addr_of.get(m.group(1), "")
                typ, how = locals_.get(var, ("", "unknown"))
                sites.append((os.path.basename(f), func, int(m.group(2)), typ, how))
                continue
            m = re.match(r"^ShroudStrToArray\(\s*\w+\s*,\s*(?:&)?(\w+)\s*,\s*(\d+)\s*\);$", st)
            if m and func:
                typ, how = locals_.get(m.group(1), ("", "unknown"))
                sites.append((os.path.basename(f), func, int(m.group(2)), typ, how))
    return cases, sites


def coq_s(x):
    x = "".join(c if 32 <= ord(c) < 127 else "?" for c in x)
    return '"' + x.replace('"', '""') + '"'


def emit_coq(rows, path):
    with open(path, "w") as f:
        f.write("(* generated on this run: release codes stored by the generated wrappers and the destructor switch of each library *)\n")
        f.write("From Coq Require Import List String.\nFrom Shroud Require Import Model.Release.\nImport ListNotations.\nOpen Scope string_scope.\n")
        libs = []
        for label, cases, sites in rows:
            cs = "; ".join("{| rc_code := %d; rc_type := %s; rc_action := %s |}" % (n, coq_s(t), coq_s(a)) for n, (t, a) in sorted(cases.items()))
            ss = "; ".join("{| rs_where := %s; rs_code := %d; rs_type := %s; rs_how := %s |}" % (coq_s(fl + ":" + fn), n, coq_s(t), coq_s(h))
                           for (fl, fn, n, t, h) in sites)
            libs.append("{| rl_name := %s;\n     rl_cases := [%s];\n     rl_sites := [%s] |}" % (coq_s(label), cs, ss))
        f.write("Definition release_libs : list rlib :=\n  [" + ";\n   ".join(libs) + "].\n")
    return sum(len(s) for _, _, s in rows)


if __name__ == "__main__":
    import sys
    c, s = extract(sys.argv[1])
    for k, v in sorted(c.items()):
        print("case", k, v)
    for x in s:
        print("site", x)
