"""Translator for C16: python-ast scan of /repo/shroud for emission sites guarded by the documentation /
debug options, with a fail-closed classification of what the guarded code does.

A guarded site = an `if` whose test reads options.debug / debug_index / doxygen / literalinclude /
show_splicer_comments (directly or through a local alias assigned from such an option).
Each statement in the guarded branches is classified:
   Comment   appends / extends an output list with text that starts with a comment leader (or is blank)
   Blank     appends "" / sets blank-line bookkeeping
   DocCall   calls write_doxygen / write_doxygen_file / document_stmts / document (comment producers)
   Field     assigns a literalinclude marker format field (lstart/lend/...) to comment text or ""
   LocalTemp c_decl / f_decl = <node>.gen_decl(...) : declaration text for the comment that follows
   Unknown   anything else (fail closed)
"""
import ast
import os

REPO = os.environ.get("SHROUD_REPO", "/repo")
OPTS = {"debug", "debug_index", "doxygen", "literalinclude", "show_splicer_comments"}
ALIAS_OK = {"literalinclude", "debug", "show_splicer_comments", "doxygen"}
DOC_CALLS = {"write_doxygen", "write_doxygen_file", "document_stmts", "document"}
COMMENT_LEADERS = ("//", "!", "/*", " *", "*/", "*")
COMMENT_NAMES = {"cstart", "cend", "fstart", "fend"}          # whelpers module constants "// start " etc.
BOOKKEEPING = {"need_blank", "lstart", "lend", "cpp_if_blank"}


def reads_option(test, aliases):
    for n in ast.walk(test):
        if isinstance(n, ast.Attribute) and n.attr in OPTS:
            return n.attr
        if isinstance(n, ast.Name) and n.id in aliases:
            return aliases[n.id]
        if isinstance(n, ast.Subscript) and isinstance(n.slice, ast.Constant) and n.slice.value in OPTS:
            return n.slice.value
    return None


def is_comment_text(e):
    """True if the string expression certainly renders as blank or as text starting with a comment leader."""
    if isinstance(e, ast.Constant) and isinstance(e.value, str):
        s = e.value
        if s.strip() == "":
            return True
        t = s.lstrip("\n")
        return t.startswith(COMMENT_LEADERS) and "\n" not in t.rstrip("\n").replace("\n//", "").replace("\n!", "")
    if isinstance(e, ast.BinOp) and isinstance(e.op, ast.Mod) and isinstance(e.left, ast.Constant) and \
            isinstance(e.left.value, str) and e.left.value.startswith("%s ") and isinstance(e.right, ast.Tuple) and e.right.elts and \
            isinstance(e.right.elts[0], ast.Attribute) and e.right.elts[0].attr == "comment":
        return True                      # "%s splicer begin ..." % (self.comment, ...)
    if isinstance(e, ast.BinOp) and isinstance(e.op, (ast.Add, ast.Mod)):
        l = e.left
        if isinstance(l, ast.Attribute) and l.attr in ("comment", "doxygen_begin", "doxygen_cont", "doxygen_end"):
            return True
        if isinstance(l, ast.Constant) and isinstance(l.value, str) and l.value.strip() != "":
            return is_comment_text(l)
        if isinstance(l, ast.BinOp):
            return is_comment_text(l)
        return False
    if isinstance(e, ast.Call) and isinstance(e.func, ast.Attribute) and e.func.attr == "format":
        base = e.func.value
        if isinstance(base, ast.Constant) and isinstance(base.value, str):
            t = base.value.lstrip("\n")
            if t.startswith("{}") and e.args and isinstance(e.args[0], ast.Name) and e.args[0].id in COMMENT_NAMES:
                return True
            return is_comment_text(base)
    if isinstance(e, ast.Call) and getattr(e.func, "id", None) == "wformat" and e.args:
        return is_comment_text(e.args[0])
    if isinstance(e, ast.JoinedStr) and e.values and isinstance(e.values[0], ast.Constant):
        return is_comment_text(e.values[0])
    return False


def classify_stmt(st, aliases):
    """-> list of (kind, source)"""
    src = ast.unparse(st)[:120]
    if isinstance(st, ast.Expr) and isinstance(st.value, ast.Call):
        c = st.value
        f = c.func
        name = f.attr if isinstance(f, ast.Attribute) else getattr(f, "id", None)
        if name in DOC_CALLS:
            return [("DocCall", src)]
        if name == "append" and c.args:
            if isinstance(c.args[0], ast.Constant) and c.args[0].value == "":
                return [("Blank", src)]
            return [("Comment" if is_comment_text(c.args[0]) else "Unknown", src)]
        if name == "append_format" and len(c.args) >= 2:
            return [("Comment" if is_comment_text(c.args[1]) else "Unknown", src)]
        if name == "extend" and c.args:
            a = c.args[0]
            if isinstance(a, (ast.List, ast.Tuple)) and all(is_comment_text(x) for x in a.elts):
                return [("Comment", src)]
            if isinstance(a, ast.Name) and a.id in ("stmts_comments", "stmts_comments_args"):
                return [("Comment", src)]
            return [("Unknown", src)]
        return [("Unknown", src)]
    if isinstance(st, ast.Assign) and len(st.targets) == 1:
        t = st.targets[0]
        tname = t.id if isinstance(t, ast.Name) else t.attr if isinstance(t, ast.Attribute) else None
        if tname in ("c_decl", "f_decl") and isinstance(st.value, ast.Call) and isinstance(st.value.func, ast.Attribute) \
                and st.value.func.attr == "gen_decl":
            return [("LocalTemp", src)]     # text of a declaration, used in the comment that follows
        if tname in ALIAS_OK and isinstance(st.value, ast.Constant) and st.value.value in (True, False):
            return [("Field", src)]
        if tname in BOOKKEEPING:
            if isinstance(st.value, ast.Constant) and st.value.value in ("", True, False):
                return [("Blank" if st.value.value == "" else "Field", src)]
            return [("Field" if is_comment_text(st.value) else "Unknown", src)]
        return [("Unknown", src)]
    if isinstance(st, ast.If):
        out = []
        for s in st.body + st.orelse:
            out += classify_stmt(s, aliases)
        return out
    if isinstance(st, ast.For):
        out = []
        for s in st.body:
            out += classify_stmt(s, aliases)
        return out
    if isinstance(st, (ast.Pass, ast.Break)):
        return []
    return [("Unknown", src)]


def scan():
    """[(module, function, line, option, [(kind, src)])]"""
    rows = []
    d = os.path.join(REPO, "shroud")
    for fn in sorted(os.listdir(d)):
        if not fn.endswith(".py") or fn in ("ast.py", "main.py", "generate.py", "declast.py", "typemap.py", "todict.py", "metadata.py"):
            continue
        tree = ast.parse(open(os.path.join(d, fn)).read())
        for func in ast.walk(tree):
            if not isinstance(func, ast.FunctionDef):
                continue
            aliases = {}
            for n in ast.walk(func):
                if isinstance(n, ast.Assign) and len(n.targets) == 1 and isinstance(n.targets[0], ast.Name):
                    o = reads_option(n.value, {})
                    if o and n.targets[0].id in ALIAS_OK and isinstance(n.value, (ast.Attribute, ast.Subscript)):
                        aliases[n.targets[0].id] = o
            for n in ast.walk(func):
                if isinstance(n, ast.If):
                    o = reads_option(n.test, aliases)
                    if not o:
                        continue
                    effects = []
                    for s in n.body:
                        effects += classify_stmt(s, aliases)
                    # an else / elif branch of a documentation option must be comment-only as well
                    for s in n.orelse:
                        if isinstance(s, ast.If) and reads_option(s.test, aliases):
                            continue        # visited on its own by ast.walk
                        effects += classify_stmt(s, aliases)
                    rows.append((fn[:-3], func.name, n.lineno, o, effects))
    return rows


if __name__ == "__main__":
    n = 0
    for (m, f, ln, o, eff) in scan():
        bad = [e for e in eff if e[0] == "Unknown"]
        n += len(bad)
        for e in bad:
            print("%s.%s:%d [%s] UNKNOWN %s" % (m, f, ln, o, e[1]))
    print("sites", len(scan()), "unknown effects", n)
