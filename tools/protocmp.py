"""Compare the C prototypes gfortran derives from a module's bind(C) interfaces (gfortran -fc-prototypes)
with the prototypes in the generated C headers.  Used by check C04 (spec validation + failing-input search)."""
import os
import re

BASES = {
    "int": "int", "signed int": "int", "signed": "int", "long": "long", "long int": "long", "short": "short", "short int": "short",
    "long long": "llong", "long long int": "llong", "unsigned": "uint", "unsigned int": "uint", "unsigned long": "ulong",
    "unsigned long int": "ulong", "unsigned short": "ushort", "unsigned short int": "ushort", "unsigned long long": "ullong",
    "unsigned long long int": "ullong", "size_t": "size_t", "float": "float", "double": "double", "long double": "ldouble",
    "bool": "bool", "_Bool": "bool", "char": "char", "signed char": "schar", "unsigned char": "uchar", "void": "void",
    "int8_t": "int8", "int16_t": "int16", "int32_t": "int32", "int64_t": "int64", "uint8_t": "uint8", "uint16_t": "uint16",
    "uint32_t": "uint32", "uint64_t": "uint64", "ptrdiff_t": "ptrdiff_t",
    "float _Complex": "cfloat", "double _Complex": "cdouble", "float complex": "cfloat", "double complex": "cdouble",
    "__GFORTRAN_FLOAT_COMPLEX": "cfloat", "__GFORTRAN_DOUBLE_COMPLEX": "cdouble", "std::complex<float>": "cfloat", "std::complex<double>": "cdouble",
    "CFI_cdesc_t": "struct:cfi_cdesc_t",
}
# same size and representation on this target (x86-64 Linux): gfortran prints C_SIZE_T as size_t, C_LONG as long ...
# Fortran has no unsigned kinds: C_SIZE_T etc. are signed integers of the same size, gfortran prints them as long.
SAME = [{"long", "ptrdiff_t", "int64", "llong", "ulong", "size_t", "uint64", "ullong"}, {"int", "int32", "uint", "uint32"},
        {"short", "int16", "ushort", "uint16"}, {"schar", "int8", "char", "uchar", "uint8"}]


def split_top(s, sep=","):
    out, depth, cur = [], 0, ""
    for ch in s:
        if ch in "([":
            depth += 1
        elif ch in ")]":
            depth -= 1
        if ch == sep and depth == 0:
            out.append(cur)
            cur = ""
        else:
            cur += ch
    if cur.strip():
        out.append(cur)
    return out


def strip_comments(text):
    text = re.sub(r"/\*.*?\*/", " ", text, flags=re.S)
    return re.sub(r"//[^\n]*", " ", text)


def parse_type(decl, typedefs, structs, is_param=True):
    """'const char * name' -> (base class, pointer depth) ; function pointers -> ('funptr', 1)."""
    d = decl.strip()
    if not d or d == "void":
        return None
    if re.search(r"\(\s*\*", d):
        return ("funptr", 1)
    arr = len(re.findall(r"\[[^\]]*\]", d))
    d = re.sub(r"\[[^\]]*\]", "", d)
    ptr = d.count("*") + arr
    d = d.replace("*", " ")
    toks = [t for t in d.split() if t not in ("const", "volatile", "struct", "enum", "restrict", "__restrict", "register")]
    had_enum = bool(re.search(r"\benum\b", decl))
    # drop the parameter name: the last token if what precedes is a complete type
    def lookup(ts):
        name = " ".join(ts)
        if name in BASES:
            return BASES[name]
        if name in typedefs:
            return typedefs[name]
        if name.lower() in structs:
            return "struct:" + name.lower()
        return None
    base = None
    if is_param and len(toks) >= 2:
        base = lookup(toks[:-1])
    if base is None:
        base = lookup(toks)
    if base is None and is_param and len(toks) >= 2:
        base = "unknown:" + " ".join(toks[:-1])
    if base is None:
        base = "unknown:" + " ".join(toks)
    if had_enum:
        base = "int"
    if isinstance(base, tuple):      # typedef to a pointer type
        return (base[0], base[1] + ptr)
    return (base, ptr)


def collect_typedefs(text, typedefs, structs):
    text = strip_comments(text)
    for m in re.finditer(r"typedef\s+struct\s+(\w+)\s+(\w+)\s*;", text):
        structs.add(m.group(2).lower())
        typedefs[m.group(2)] = "struct:" + m.group(2).lower()
    for m in re.finditer(r"struct\s+(\w+)\s*\{", text):
        structs.add(m.group(1).lower())
    for m in re.finditer(r"typedef\s+struct\s*\w*\s*\{[^}]*\}\s*(\w+)\s*;", text):
        structs.add(m.group(1).lower())
        typedefs[m.group(1)] = "struct:" + m.group(1).lower()
    for m in re.finditer(r"typedef\s+enum\s*\w*\s*\{[^}]*\}\s*(\w+)\s*;", text):
        typedefs[m.group(1)] = "int"
    for m in re.finditer(r"typedef\s+enum\s+\w+\s+(\w+)\s*;", text):
        typedefs[m.group(1)] = "int"
    for m in re.finditer(r"typedef\s+([\w\s\*]+?)\s*\b(\w+)\s*;", text):
        base = m.group(1).strip()
        if base.startswith(("struct", "enum")):
            continue
        t = parse_type(base, typedefs, structs, is_param=False)
        if t and not t[0].startswith("unknown"):
            typedefs[m.group(2)] = t if t[1] else t[0]


def parse_protos(text, typedefs, structs):
    """{name: (ret, [params])}"""
    text = strip_comments(text)
    text = re.sub(r"^\s*#.*$", "", text, flags=re.M)
    out = {}
    for m in re.finditer(r"([\w\s\*:<>]+?)\b(\w+)\s*\(([^;{}]*)\)\s*(?:;|\{)", text):
        ret, name, params = m.group(1).strip(), m.group(2), m.group(3)
        if not ret or ret.split()[0] in ("typedef", "return", "else", "if", "while", "switch", "for", "case", "new", "delete") or "=" in ret \
                or name in ("if", "while", "switch", "for", "sizeof", "return", "defined"):
            continue
        if name in out and m.group(0).rstrip().endswith("{"):
            continue         # keep the declaration when both exist
        ps = []
        for p in split_top(params):
            t = parse_type(p, typedefs, structs)
            if t:
                ps.append(t)
        out[name] = (parse_type(ret, typedefs, structs, is_param=False), ps, m.group(0).strip().replace("\n", " "))
    return out


def parse_structs(text, typedefs, structs):
    """{struct name lower: [(type, name)]}"""
    text = strip_comments(text)
    out = {}
    for m in re.finditer(r"struct\s+(\w+)\s*\{([^}]*)\}\s*(\w*)\s*;", text):
        fields = []
        for f in m.group(2).split(";"):
            f = f.strip()
            if f and not f.startswith("#"):
                t = parse_type(f, typedefs, structs)
                nm = re.sub(r"\[[^\]]*\]", "", f).replace("*", " ").split()[-1]
                # array extents are part of the member: name[2][3]
                fields.append((t, nm.lower() + "".join(re.findall(r"\[[^\]]*\]", f)).replace(" ", "")))
        for nm in (m.group(1), m.group(3)):
            if nm:
                out[nm.lower()] = fields
    return out


def derived_type_dims(module_text):
    """{type name lower: {member lower: [extent, ...]}} for the array members of the bind(C) derived types of a module."""
    out, cur = {}, None
    for ln in module_text.split("\n"):
        low = ln.split("!")[0].strip().lower()
        m = re.match(r"^type\s*,\s*bind\s*\(\s*c\s*\)\s*(?:::)?\s*(\w+)", low)
        if m:
            cur = out.setdefault(m.group(1), {})
            continue
        if low.startswith("end type"):
            cur = None
            continue
        if cur is not None and "::" in low:
            for ent in re.split(r",(?![^()]*\))", low.split("::", 1)[1]):
                md = re.match(r"^\s*(\w+)\s*\(([^)]*)\)", ent)
                if md:
                    cur[md.group(1)] = [d.strip() for d in md.group(2).split(",")]
    return out


def same_base(a, b):
    if a == b:
        return True
    return any(a in s and b in s for s in SAME)


LAYOUTS = {}     # struct name (lower) -> field list, filled by compare()


def same_struct(a, b, depth=0):
    """struct types are interoperable when their members agree in order, count and type (names may differ:
    the C side uses a per-class capsule struct, the Fortran side the shared capsule derived type)."""
    if a == b:
        return True
    fa, fb = LAYOUTS.get(a), LAYOUTS.get(b)
    if fa is None or fb is None:
        return None
    if len(fa) != len(fb) or depth > 4:
        return False
    for (t1, _), (t2, _) in zip(fa, fb):
        r = compatible(t1, t2, depth + 1)
        if r is not True:
            return r
    return True


def compatible(c, f, depth=0):
    """c: type from the C header, f: type gfortran derived from the Fortran interface."""
    if c is None or f is None:
        return c is None and f is None
    cb, cp = c
    fb, fp = f
    if cb.startswith("unknown") or fb.startswith("unknown"):
        return None         # not decidable by this comparer
    if cb == "funptr" or fb == "funptr":
        return cp >= 1 or fp >= 1 or cb == fb
    if cp >= 1 and fp >= 1:
        if fb == "void" or cb == "void":
            # type(C_PTR): gfortran -fc-prototypes prints void* whether the dummy has VALUE or not; the level of
            # indirection of C_PTR dummies is checked separately from the interface text (cptr_levels)
            return True
        if cp != fp:
            return False
        if cb.startswith("struct:") and fb.startswith("struct:"):
            return same_struct(strip_prefix(cb), strip_prefix(fb), depth)
        if cb == "struct:cfi_cdesc_t" or fb == "struct:cfi_cdesc_t":
            return None      # gfortran 12 -fc-prototypes does not print descriptor arguments as CFI_cdesc_t
        return same_base(cb, fb)
    if cp != fp:
        return False
    if cb.startswith("struct:") and fb.startswith("struct:"):
        return same_struct(strip_prefix(cb), strip_prefix(fb), depth)
    return same_base(cb, fb)


def strip_prefix(s):
    return s.split(":", 1)[1]


def cptr_levels(module_text):
    """{bind(C) name: [None | 1 | 2 per dummy]}: for type(C_PTR) dummies the number of C pointer levels the C
    function receives: 1 with VALUE, 2 without (scalar or array by reference)."""
    out = {}
    text = re.sub(r"&\s*\n\s*&?", " ", module_text)
    lines = text.split("\n")
    i = 0
    while i < len(lines):
        m = re.search(r"(?:subroutine|function)\s+\w+\s*\(([^)]*)\).*bind\(C,\s*name=\"([^\"]+)\"\)", lines[i], re.I)
        if m:
            args = [a.strip().lower() for a in m.group(1).split(",") if a.strip()]
            decl = {}
            j = i + 1
            while j < len(lines) and not re.match(r"\s*end\s+(subroutine|function)", lines[j], re.I):
                dm = re.match(r"\s*(.*?)::\s*(.*)$", lines[j])
                if dm:
                    attrs = dm.group(1).lower()
                    for nm in re.split(r",(?![^()]*\))", dm.group(2)):
                        nm = re.sub(r"\(.*\)", "", nm).strip().lower()
                        decl[nm] = attrs
                j += 1
            out[m.group(2)] = [((1 if re.search(r"\bvalue\b", decl.get(a, "")) else 2) if "type(c_ptr)" in decl.get(a, "") else None) for a in args]
            i = j
        i += 1
    return out


def compare(fproto_text, header_texts, module_text=None):
    """Returns (checked count, undecided count, mismatches list, unbound list)."""
    typedefs, structs = {}, set()
    for t in header_texts + [fproto_text]:
        collect_typedefs(t, typedefs, structs)
    for t in header_texts + [fproto_text]:        # second pass: typedefs of typedefs
        collect_typedefs(t, typedefs, structs)
    cprotos = {}
    cstructs = {}
    for t in header_texts:
        cprotos.update(parse_protos(t, typedefs, structs))
        cstructs.update(parse_structs(t, typedefs, structs))
    fprotos = parse_protos(fproto_text, typedefs, structs)
    fstructs = parse_structs(fproto_text, typedefs, structs)
    LAYOUTS.clear()
    LAYOUTS.update(cstructs)
    for k, v in fstructs.items():
        LAYOUTS.setdefault(k, v)
    # typedef struct s_X X;  -> layout of s_X
    for t in header_texts:
        for m in re.finditer(r"typedef\s+struct\s+(\w+)\s+(\w+)\s*;", strip_comments(t)):
            if m.group(1).lower() in LAYOUTS:
                LAYOUTS.setdefault(m.group(2).lower(), LAYOUTS[m.group(1).lower()])
    mism, unbound = [], []
    levels = cptr_levels(module_text) if module_text else {}
    checked = undec = 0
    for name, (fret, fps, ftext) in fprotos.items():
        if name not in cprotos:
            unbound.append(name)
            continue
        cret, cps, ctext = cprotos[name]
        checked += 1
        if len(cps) != len(fps):
            mism.append({"function": name, "what": "different number of arguments", "c": ctext, "fortran_as_c": ftext})
            continue
        lv = (levels.get(name) or []) if module_text else []
        bad_level = None
        for k, (a, b) in enumerate(zip(cps, fps)):
            if k < len(lv) and lv[k] is not None and a is not None and not a[0].startswith("unknown") and a[0] != "funptr" and a[1] < lv[k]:
                bad_level = "argument %d: C parameter has %d level(s) of indirection, the type(C_PTR) dummy (%s VALUE) is received with at least %d" % (
                    k + 1, a[1], "with" if lv[k] == 1 else "without", lv[k])
                break
        if bad_level:
            mism.append({"function": name, "what": bad_level, "c": ctext, "fortran_as_c": ftext})
            continue
        pairs = [("result", cret, fret)] + [("argument %d" % (i + 1), a, b) for i, (a, b) in enumerate(zip(cps, fps))]
        for (what, a, b) in pairs:
            r = compatible(a, b)
            if r is None:
                undec += 1
            elif not r:
                mism.append({"function": name, "what": "%s not interoperable: C %r vs Fortran %r" % (what, a, b), "c": ctext, "fortran_as_c": ftext})
                break
    smism = []
    for name, ff in fstructs.items():
        if name in cstructs:
            cf = cstructs[name]
            # gfortran flattens an array member to its total size; the extents themselves are read from the module text
            fdims = derived_type_dims(module_text or "").get(name, {})

            def member(n, fortran):
                base = n.split("[")[0]
                dims = [d.strip() for d in re.findall(r"\[([^\]]*)\]", n)]
                if fortran and base in fdims:
                    dims = list(reversed(fdims[base]))
                elif dims and not fortran and base not in fdims:
                    tot = 1
                    for d in dims:
                        tot = tot * int(d) if d.isdigit() else None
                        if tot is None:
                            break
                    dims = [str(tot)] if tot is not None else dims
                return base, dims
            def elem(t, n):      # an array member is compared by its element type (the extents are compared by member())
                return (t[0], 0) if "[" in n and t is not None else t
            if len(cf) != len(ff) or any(member(n1, False) != member(n2, True) or compatible(elem(t1, n1), elem(t2, n2)) is False for (t1, n1), (t2, n2) in zip(cf, ff)):
                smism.append({"struct": name, "c_fields": cf, "fortran_fields": ff, "fortran_extents": fdims})
    return checked, undec, mism, unbound, smism
