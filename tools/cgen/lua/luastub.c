/* Stub Lua state: a value stack, metatable names, registration tables, luaL_error via longjmp. */
#include <stdio.h>
#include <stdlib.h>
#include <string.h>
#include <stdarg.h>
#include <setjmp.h>
#include "lauxlib.h"
#include "luastub.h"

#define MAXS 64
struct lua_State {
    sval stack[MAXS];
    int top;
    jmp_buf jb;
    char err[256];
    char curtable[64];      /* name of the table on top of the stack during luaopen_* */
};
static struct { char table[64]; const luaL_Reg *regs; } regtabs[64];
static int nregtabs = 0;

lua_State *stub_newstate(void) { lua_State *L = (lua_State *) calloc(1, sizeof *L); strcpy(L->curtable, "module"); return L; }
void stub_settop0(lua_State *L) { L->top = 0; }
void stub_push(lua_State *L, sval v) { if (L->top >= MAXS) { fprintf(stderr, "stub stack overflow\n"); exit(3); } L->stack[L->top++] = v; }
sval *stub_at(lua_State *L, int idx) {
    int i = idx > 0 ? idx - 1 : L->top + idx;
    if (i < 0 || i >= L->top) return NULL;
    return &L->stack[i];
}
int stub_top(lua_State *L) { return L->top; }
const char *stub_error(lua_State *L) { return L->err; }
jmp_buf *stub_jmp(lua_State *L) { return &L->jb; }
lua_CFunction stub_find(const char *table, const char *name) {
    for (int t = 0; t < nregtabs; t++)
        if (!strcmp(regtabs[t].table, table))
            for (const luaL_Reg *r = regtabs[t].regs; r->name; r++)
                if (!strcmp(r->name, name)) return r->func;
    return NULL;
}

int lua_gettop(lua_State *L) { return L->top; }
int lua_type(lua_State *L, int idx) { sval *v = stub_at(L, idx); return v ? v->tag : LUA_TNONE; }
lua_Integer lua_tointeger(lua_State *L, int idx) {
    sval *v = stub_at(L, idx);
    if (!v) return 0;
    if (v->tag == LUA_TNUMBER) return v->isint ? (lua_Integer) v->inum : (lua_Integer) v->num;
    if (v->tag == LUA_TSTRING) return atoll(v->str);
    return 0;
}
lua_Number lua_tonumber(lua_State *L, int idx) {
    sval *v = stub_at(L, idx);
    if (!v) return 0;
    if (v->tag == LUA_TNUMBER) return v->num;
    if (v->tag == LUA_TSTRING) return atof(v->str);
    return 0;
}
int lua_toboolean(lua_State *L, int idx) {
    sval *v = stub_at(L, idx);
    if (!v) return 0;
    if (v->tag == LUA_TNIL) return 0;
    if (v->tag == LUA_TBOOLEAN) return v->num != 0;
    return 1;
}
const char *lua_tostring(lua_State *L, int idx) {
    sval *v = stub_at(L, idx);
    if (!v) return NULL;
    if (v->tag == LUA_TSTRING) return v->str;
    if (v->tag == LUA_TNUMBER) { snprintf(v->str, sizeof v->str, "%.14g", v->num); return v->str; }
    return NULL;
}
static void pushv(lua_State *L, int tag, double num, const char *s, void *ud) {
    sval v; memset(&v, 0, sizeof v); v.tag = tag; v.num = num; v.ud = ud;
    if (s) { strncpy(v.str, s, sizeof v.str - 1); }
    stub_push(L, v);
}
void lua_pushinteger(lua_State *L, lua_Integer n) { pushv(L, LUA_TNUMBER, (double) n, NULL, NULL); L->stack[L->top - 1].isint = 1; L->stack[L->top - 1].inum = n; }
void lua_pushnumber(lua_State *L, lua_Number n) { pushv(L, LUA_TNUMBER, n, NULL, NULL); }
void lua_pushboolean(lua_State *L, int b) { pushv(L, LUA_TBOOLEAN, b ? 1 : 0, NULL, NULL); }
const char *lua_pushstring(lua_State *L, const char *s) { if (!s) { pushv(L, LUA_TNIL, 0, NULL, NULL); return NULL; } pushv(L, LUA_TSTRING, 0, s, NULL); return s; }
void lua_pushnil(lua_State *L) { pushv(L, LUA_TNIL, 0, NULL, NULL); }
void lua_pushvalue(lua_State *L, int idx) { sval *v = stub_at(L, idx); if (v) stub_push(L, *v); else lua_pushnil(L); }
void lua_setfield(lua_State *L, int idx, const char *k) { (void) idx; (void) k; if (L->top > 0) L->top--; }
void *lua_newuserdata(lua_State *L, size_t sz) {
    void *p = calloc(1, sz);
    pushv(L, LUA_TUSERDATA, 0, NULL, p);
    return p;
}
int lua_setmetatable(lua_State *L, int objindex) {
    /* pops a table (whose name travels in .str) and sets it as the metatable of the value at objindex */
    sval *t = stub_at(L, -1);
    sval *o = stub_at(L, objindex);      /* resolved before the table is popped */
    char name[64] = "";
    if (t) strncpy(name, t->str, sizeof name - 1);
    L->top--;
    if (o) strncpy(o->meta, name, sizeof o->meta - 1);
    return 1;
}
int luaL_error(lua_State *L, const char *fmt, ...) {
    va_list ap; va_start(ap, fmt); vsnprintf(L->err, sizeof L->err, fmt, ap); va_end(ap);
    longjmp(L->jb, 1);
    return 0;
}
void *luaL_checkudata(lua_State *L, int ud, const char *tname) {
    sval *v = stub_at(L, ud);
    if (!v || v->tag != LUA_TUSERDATA || strcmp(v->meta, tname)) {
        snprintf(L->err, sizeof L->err, "bad argument #%d (%s expected)", ud, tname);
        longjmp(L->jb, 1);
    }
    return v->ud;
}
int luaL_newmetatable(lua_State *L, const char *tname) {
    pushv(L, LUA_TTABLE, 0, tname, NULL);
    strncpy(L->curtable, tname, sizeof L->curtable - 1);
    return 1;
}
void luaL_getmetatable(lua_State *L, const char *tname) { pushv(L, LUA_TTABLE, 0, tname, NULL); }
static void reg(lua_State *L, const luaL_Reg *l) {
    strncpy(regtabs[nregtabs].table, L->curtable, 63); regtabs[nregtabs].regs = l; nregtabs++;
}
void luaL_setfuncs(lua_State *L, const luaL_Reg *l, int nup) { (void) nup; reg(L, l); }
void luaL_register(lua_State *L, const char *libname, const luaL_Reg *l) { if (libname) strcpy(L->curtable, "module"); reg(L, l); }
void stub_newlib(lua_State *L, const luaL_Reg *l) { strcpy(L->curtable, "module"); pushv(L, LUA_TTABLE, 0, "module", NULL); reg(L, l); }
