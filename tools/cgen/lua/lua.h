/* Minimal stand-in for the Lua C API (no Lua is installed in this sandbox).
   Part of the TRUSTED BASE of check C18: it implements the documented stack discipline of the
   functions the generated bindings use (Lua 5.1-5.3 reference manual), nothing else. */
#ifndef VERIF_LUA_STUB_H
#define VERIF_LUA_STUB_H
#include <stddef.h>
#define LUA_VERSION_NUM 503
#define LUA_TNONE (-1)
#define LUA_TNIL 0
#define LUA_TBOOLEAN 1
#define LUA_TLIGHTUSERDATA 2
#define LUA_TNUMBER 3
#define LUA_TSTRING 4
#define LUA_TTABLE 5
#define LUA_TFUNCTION 6
#define LUA_TUSERDATA 7
typedef struct lua_State lua_State;
typedef int (*lua_CFunction)(lua_State *L);
typedef long long lua_Integer;
typedef double lua_Number;
int lua_gettop(lua_State *L);
int lua_type(lua_State *L, int idx);
lua_Integer lua_tointeger(lua_State *L, int idx);
lua_Number lua_tonumber(lua_State *L, int idx);
int lua_toboolean(lua_State *L, int idx);
const char *lua_tostring(lua_State *L, int idx);
void lua_pushinteger(lua_State *L, lua_Integer n);
void lua_pushnumber(lua_State *L, lua_Number n);
void lua_pushboolean(lua_State *L, int b);
const char *lua_pushstring(lua_State *L, const char *s);
void lua_pushnil(lua_State *L);
void lua_pushvalue(lua_State *L, int idx);
void lua_setfield(lua_State *L, int idx, const char *k);
void *lua_newuserdata(lua_State *L, size_t sz);
int lua_setmetatable(lua_State *L, int objindex);
#endif
