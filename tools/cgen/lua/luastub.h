#ifndef VERIF_LUASTUB_H
#define VERIF_LUASTUB_H
#include <setjmp.h>
#include "lauxlib.h"
#ifdef __cplusplus
extern "C" {
#endif
/* isint/inum: a number that is an integer (lua_pushinteger, or an integer argument) keeps all 64 bits, as in Lua 5.3 */
typedef struct sval { int tag; double num; char str[128]; void *ud; char meta[64]; int isint; long long inum; } sval;
lua_State *stub_newstate(void);
void stub_settop0(lua_State *L);
void stub_push(lua_State *L, sval v);
sval *stub_at(lua_State *L, int idx);
int stub_top(lua_State *L);
const char *stub_error(lua_State *L);
jmp_buf *stub_jmp(lua_State *L);
lua_CFunction stub_find(const char *table, const char *name);
#ifdef __cplusplus
}
#endif
#endif
