#ifndef VERIF_LAUXLIB_STUB_H
#define VERIF_LAUXLIB_STUB_H
#include "lua.h"
typedef struct luaL_Reg { const char *name; lua_CFunction func; } luaL_Reg;
int luaL_error(lua_State *L, const char *fmt, ...);
void *luaL_checkudata(lua_State *L, int ud, const char *tname);
int luaL_newmetatable(lua_State *L, const char *tname);
void luaL_getmetatable(lua_State *L, const char *tname);   /* a macro in real Lua */
void luaL_setfuncs(lua_State *L, const luaL_Reg *l, int nup);
void luaL_register(lua_State *L, const char *libname, const luaL_Reg *l);
void stub_newlib(lua_State *L, const luaL_Reg *l);
#define luaL_newlib(L, l) stub_newlib(L, l)
#endif
