"""C06 Python runs: executes one operation per input line against the GENERATED Python extension `cap` (built with
AddressSanitizer, loaded under LD_PRELOAD=libasan).  Prints one line per operation and the library's live counters."""
import ctypes
import gc
import json
import sys

sys.path.insert(0, sys.argv[1])
import cap  # noqa: E402

cap.borrow(0)          # the library-owned objects exist before counting
base = cap.live(0)
hs = []                # Python references (None when dropped)
try:
    allocated = ctypes.CDLL(None).__sanitizer_get_current_allocated_bytes
    allocated.restype = ctypes.c_size_t
except Exception:
    allocated = None


def counters():
    return "obj_live=%d other_live=%d in_use=%d" % (cap.live(0) - base, cap.live(1), cap.live(2))


def steady(fn):
    """bytes the allocator keeps per call of fn in the steady state"""
    for _ in range(60):
        fn()
    gc.collect()
    a = allocated()
    for _ in range(400):
        fn()
    gc.collect()
    return (allocated() - a) / 400.0


for opno, line in enumerate(sys.stdin):
    q = line.split()
    if not q:
        continue
    cmd, a = q[0], [int(x) for x in q[1:]]
    val = None
    try:
        if cmd == "new":
            k, b = a
            if k == 1:
                o = cap.Obj() if b % 3 == 0 else cap.Obj(b) if b % 3 == 1 else cap.make(b)
            elif k == 2:
                o = cap.Other() if b % 2 else cap.makeOther()
            else:
                o = cap.acquire(b)
            hs.append(o)
        elif cmd == "borrow":
            hs.append(cap.borrow(a[0]))
        elif cmd == "method":
            val = hs[a[0]].get()
        elif cmd == "alias":
            hs.append(hs[a[0]])
        elif cmd == "drop":
            hs[a[0]] = None
            gc.collect()
        elif cmd == "call":
            k, b = a
            val = [lambda: cap.newints(3 + b % 4), lambda: cap.libints(4), lambda: cap.name(cap.borrow(b & 3)),
                   lambda: cap.sumvec(list(range(b))), lambda: cap.upcase("ab" * (b % 5)), lambda: cap.fill_name(),
                   lambda: cap.append_suffix("x" * (b % 7))][k % 7]()
            val = repr(val)[:40]
        elif cmd == "bad":
            k, b = a
            try:
                [lambda: cap.make("x"), lambda: cap.Obj(1, 2, 3), lambda: cap.borrow(), lambda: cap.sumvec([1, "a", 3]),
                 lambda: cap.name(5), lambda: cap.acquire(None), lambda: cap.upcase(3), lambda: cap.sumvec(7)][k % 8]()
                val = "no-error"
            except (TypeError, ValueError) as e:
                val = type(e).__name__
        elif cmd == "steady":
            k = a[0]
            fn = [lambda: cap.newints(5), lambda: cap.name(cap.borrow(1)), lambda: cap.name(cap.borrow(3)), lambda: cap.sumvec([1, 2, 3]),
                  lambda: cap.upcase("abc"), lambda: cap.fill_name(), lambda: cap.make(3), lambda: cap.acquire(2), lambda: cap.Obj(1).get(),
                  lambda: cap.append_suffix("abc")][k % 10]
            val = "%.1f" % steady(fn) if allocated else "n/a"
        else:
            print("op %d badop" % opno, flush=True)
            sys.exit(3)
    except BaseException as e:                     # an exception the generated code should not raise
        print("op %d exc %s %s" % (opno, type(e).__name__, str(e)[:80]), flush=True)
        sys.exit(4)
    print("op %d ok %s | %s" % (opno, val, counters()), flush=True)
print("before-drop " + counters(), flush=True)
hs = None
o = None
gc.collect()
print("final " + counters(), flush=True)
