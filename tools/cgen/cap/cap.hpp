// subject library for the C06 ownership runs: every object counts itself
#pragma once
#include <string>
#include <vector>
#include <cstdlib>
struct Counters { int obj_live, other_live, ints_live, obj_made, other_made, ints_made, pool_in_use; };
extern Counters counters;
class Obj {
 public:
  int magic, v;
  Obj() : magic(0x0b1), v(0) { ++counters.obj_live; ++counters.obj_made; }
  Obj(int vv) : magic(0x0b1), v(vv) { ++counters.obj_live; ++counters.obj_made; }
  ~Obj() { --counters.obj_live; magic = 0; }
  int get() const { return magic == 0x0b1 ? v : -777; }
};
class Other {
 public:
  int magic;
  Other() : magic(0x07e) { ++counters.other_live; ++counters.other_made; }
  ~Other() { --counters.other_live; magic = 0; }
  int get() const { return magic == 0x07e ? 7 : -777; }
};
// same class name in two namespaces; a destructor run on an object of the other class stops the program (exit 7)
void wrong_destructor(const char *which);
namespace alpha { class Item { public: int magic; Item() : magic(0xa1fa) {} ~Item() { if (magic != 0xa1fa) wrong_destructor("alpha::Item"); magic = 0; }
                                int get() const { return magic == 0xa1fa ? 1 : -777; } }; }
namespace beta { class Item { public: int magic; double pad[4]; Item() : magic(0xbe7a) {} ~Item() { if (magic != 0xbe7a) wrong_destructor("beta::Item"); magic = 0; }
                               int get() const { return magic == 0xbe7a ? 2 : -777; } };
                 Item *makeItem(); }
class Stamp { public: int magic, v; Stamp() : magic(0x57a), v(0) {} Stamp(int vv) : magic(0x57a), v(vv) {} Stamp(const Stamp &o) : magic(0x57a), v(o.v) {} ~Stamp() { magic = 0; }
              int get() const { return magic == 0x57a ? v : -777; } };
Stamp *makeStamp(int v);
Stamp currentStamp();
Obj *make(int v);
Obj *borrow(int i);
Other *makeOther();
int *newints(int n);
std::string *newstr(int v);   // new'ed, caller-owned
double *newdbls(int n);       // malloc'ed, caller-owned
char *dupname(int v);         // malloc'ed, caller-owned; lengths 0, 1, 15, 16 and 40 included
int *libints(int n);
const std::string name(const Obj &o);
Obj *acquire(int v);          // a slot of the library's pool: must be given back with release_obj, never deleted
void release_obj(Obj *p);
// functions whose wrappers convert arguments through temporary buffers; g_room: how many characters append_suffix may add
extern int g_room;
void append_suffix(char *s);
int count_tags(char **tags);
void upcase(std::string &s);
void fill_name(char *s);
int sumvec(const std::vector<int> &v);
void iota(std::vector<int> &v);            // produces g_room elements
int live(int which);        // 0 Obj alive, 1 Other alive, 2 pool slots in use, 3 Obj ever made
