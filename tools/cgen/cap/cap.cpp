#include "cap.hpp"
#include <new>
#include <cstring>
#include <cstdio>
Counters counters = {0, 0, 0, 0, 0, 0, 0};
static Obj *pool[4] = {0, 0, 0, 0};
static int libarr[8] = {10, 11, 12, 13, 14, 15, 16, 17};
Obj *make(int v) { return new Obj(v); }
Obj *borrow(int i) {            // library-owned objects with static storage
  static Obj p0(100), p1(101), p2(102), p3(103);
  Obj *all[4] = {&p0, &p1, &p2, &p3};
  (void)pool;
  return all[i & 3];
}
Other *makeOther() { return new Other(); }
int *newints(int n) { int *p = (int *)std::malloc(sizeof(int) * (n > 0 ? n : 1)); for (int i = 0; i < n; ++i) p[i] = 40 + i; ++counters.ints_live; ++counters.ints_made; return p; }
int *libints(int n) { (void)n; return libarr; }
const std::string name(const Obj &o) { if (o.get() == 103) return std::string(); if (o.get() == 102) return std::string("exactly-fifteen"); return std::string("obj") + std::to_string(o.get()); }  // "" and the longest small string included
std::string *newstr(int v) { return new std::string(v % 2 ? "a-string-longer-than-the-small-buffer" : "short"); }
double *newdbls(int n) { double *p = (double *)std::malloc(sizeof(double) * (n > 0 ? n : 1)); for (int i = 0; i < n; ++i) p[i] = 0.5 * i; return p; }
void wrong_destructor(const char *which) { std::printf("wrong destructor: ~%s ran on an object of another class\n", which); std::fflush(stdout); std::_Exit(7); }
beta::Item *beta::makeItem() { return new beta::Item(); }
Stamp *makeStamp(int v) { return new Stamp(v); }
Stamp currentStamp() { return Stamp(42); }
char *dupname(int v) { static const int lens[5] = {0, 1, 15, 16, 40}; int n = lens[(v < 0 ? -v : v) % 5]; char *p = (char *)std::malloc((size_t)n + 1); std::memset(p, 'd', n); p[n] = 0; return p; }
// a pool of objects owned by the library; acquire hands one out, release_obj takes it back
static Obj *slots[64];
static bool used[64];
static int next_slot = 0;       // slots are not reused within a run, so that a stale handle never aliases a new object
Obj *acquire(int v) {
  for (int i = next_slot; i < 64; ++i) if (!used[i]) {
    next_slot = i + 1;
    if (!slots[i]) { slots[i] = (Obj *)std::malloc(sizeof(Obj)); }
    new (slots[i]) Obj(v); --counters.obj_live; --counters.obj_made;      // not counted as a plain object
    used[i] = true; ++counters.pool_in_use; return slots[i];
  }
  return 0;
}
void release_obj(Obj *p) {
  for (int i = 0; i < 64; ++i) if (slots[i] == p && used[i]) { used[i] = false; --counters.pool_in_use; p->magic = 0; return; }
  std::abort();     // not a slot in use: a wrong or repeated release
}
int g_room = 0;
void append_suffix(char *s) { static const char suf[] = "_0123456789abcdefghij"; size_t n = std::strlen(s); int k = g_room < 20 ? g_room : 20; if (k < 0) k = 0; std::memcpy(s + n, suf, k); s[n + k] = 0; }
int count_tags(char **tags) { int t = 0; for (int i = 0; i < g_room; ++i) t += (int)std::strlen(tags[i]); return t; }   // g_room: number of elements (the array carries no terminator)
void upcase(std::string &s) { for (size_t i = 0; i < s.size(); ++i) if (s[i] >= 'a' && s[i] <= 'z') s[i] -= 32; s += "!"; }
void fill_name(char *s) { std::strcpy(s, "nineteen-characters"); }
int sumvec(const std::vector<int> &v) { int t = 0; for (size_t i = 0; i < v.size(); ++i) t += v[i]; return t; }
int live(int which) { return which == 0 ? counters.obj_live : which == 1 ? counters.other_live : which == 2 ? counters.pool_in_use : counters.obj_made; }
void iota(std::vector<int> &v) { v.clear(); for (int i = 0; i < g_room; ++i) v.push_back(1000 + i); }
