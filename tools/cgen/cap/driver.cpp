// C06 driver: executes one operation per input line against the GENERATED C API (wrap*.h), prints one line per operation.
#include <cstdio>
#include <cstring>
#include <cstdlib>
#include <vector>
#include <string>
extern "C" size_t __sanitizer_get_current_allocated_bytes(void);   // exported by the AddressSanitizer runtime
#include "cap.hpp"
#include "typescap.h"
#include "wrapcap.h"
#include "wrapObj.h"
#include "wrapOther.h"
#include "wrapStamp.h"
#include "wrapalpha_Item.h"
#include "wrapbeta_Item.h"
#include "wrapcap_beta.h"
extern "C" void CAP_ShroudCopyStringAndFree(CAP_SHROUD_array *data, char *c_var, size_t c_var_len);
extern "C" void CAP_ShroudCopyArray(CAP_SHROUD_array *data, void *c_var, size_t c_var_size);
struct H { int type; CAP_SHROUD_capsule_data cap; CAP_SHROUD_array arr; int expect_owned; };   // expect_owned: created by an operation that hands the object to the caller   // type 1 Obj, 2 Other, 3 ints, 4 string, 6 malloc'ed char *, 7 new'ed std::string, 8 malloc'ed doubles, 9 alpha::Item, 10 beta::Item, 11 Stamp (no destructor wrapper)
static std::vector<H> hs;
static CAP_SHROUD_capsule_data *capsule(H &h) { return (h.type == 1 || h.type == 2 || h.type == 9 || h.type == 10 || h.type == 11) ? &h.cap : &h.arr.cxx; }
int main() {
  char line[256];
  int opno = 0;
  // touch the library-owned objects so that their static constructors have run before counting
  { CAP_Obj t; CAP_borrow(0, &t); }
  int base_live = counters.obj_live;
  while (std::fgets(line, sizeof line, stdin)) {
    char cmd[32]; int a = 0, b = 0;
    int n = std::sscanf(line, "%31s %d %d", cmd, &a, &b);
    if (n < 1) continue;
    long val = 0;
    if (!std::strcmp(cmd, "new")) {            // a: kind
      H h; std::memset(&h, 0, sizeof h); h.type = a; h.expect_owned = 1;
      if (a == 1) { CAP_Obj c; if (b % 3 == 0) CAP_Obj_ctor_0(&c); else if (b % 3 == 1) CAP_Obj_ctor_1(b, &c); else CAP_make(b, &c); h.cap.addr = c.addr; h.cap.idtor = c.idtor; }
      else if (a == 2) { CAP_Other c; if (b % 2) CAP_Other_ctor(&c); else CAP_make_other(&c); h.cap.addr = c.addr; h.cap.idtor = c.idtor; }
      else if (a == 3) { CAP_newints_bufferify(&h.arr, 3 + b % 4); }
      else if (a == 11) { CAP_Stamp c; if (b % 3 == 0) CAP_Stamp_ctor(b, &c); else if (b % 3 == 1) CAP_make_stamp(b, &c); else CAP_current_stamp(&c); h.cap.addr = c.addr; h.cap.idtor = c.idtor; }
      else if (a == 9) { CAP_alpha_Item c; CAP_alpha_Item_ctor(&c); h.cap.addr = c.addr; h.cap.idtor = c.idtor; }
      else if (a == 10) { CAP_beta_Item c; if (b % 2) CAP_beta_Item_ctor(&c); else CAP_beta_make_item(&c); h.cap.addr = c.addr; h.cap.idtor = c.idtor; }
      else if (a == 6) { CAP_dupname_bufferify(b, &h.arr); }
      else if (a == 7) { CAP_newstr_bufferify(b, &h.arr); }
      else if (a == 8) { CAP_newdbls_bufferify(&h.arr, 2 + b % 3); }
      else if (a == 5) { h.type = 1; CAP_Obj c; CAP_acquire(b, &c); h.cap.addr = c.addr; h.cap.idtor = c.idtor; }
      else { CAP_Obj t; CAP_borrow(b & 3, &t); CAP_name_bufferify(&t, &h.arr); }
      hs.push_back(h);
    } else if (!std::strcmp(cmd, "borrow")) {   // a: pool index ; b: 0 object, 1 array
      H h; std::memset(&h, 0, sizeof h);
      if (b == 0) { h.type = 1; CAP_Obj c; CAP_borrow(a, &c); h.cap.addr = c.addr; h.cap.idtor = c.idtor; }
      else { h.type = 3; CAP_libints_bufferify(&h.arr, 4); }
      hs.push_back(h);
    } else if (!std::strcmp(cmd, "method")) {
      H &h = hs.at(a);
      if (h.type == 1) { CAP_Obj c; c.addr = h.cap.addr; c.idtor = h.cap.idtor; val = CAP_Obj_get(&c); }
      else if (h.type == 2) { CAP_Other c; c.addr = h.cap.addr; c.idtor = h.cap.idtor; val = CAP_Other_get(&c); }
      else if (h.type == 11) { CAP_Stamp c; c.addr = h.cap.addr; c.idtor = h.cap.idtor; val = CAP_Stamp_get(&c); }
      else if (h.type == 9) { CAP_alpha_Item c; c.addr = h.cap.addr; c.idtor = h.cap.idtor; val = CAP_alpha_Item_get(&c); }
      else if (h.type == 10) { CAP_beta_Item c; c.addr = h.cap.addr; c.idtor = h.cap.idtor; val = CAP_beta_Item_get(&c); }
      else if (h.type == 3) { val = ((int *)h.arr.cxx.addr)[0]; }
      else if (h.type == 6) { val = std::strlen((const char *)h.arr.cxx.addr); }
      else if (h.type == 8) { val = (long)((double *)h.arr.cxx.addr)[0]; }
      else { val = ((volatile unsigned char *)h.arr.cxx.addr)[8] >= 0; }   // a read inside the std::string object (instrumented here; libstdc++ is not)
      if ((h.type == 1 || h.type == 2 || h.type == 9 || h.type == 10 || h.type == 11) && val == -777) { std::fflush(stdout); std::abort(); }   // the object says it has been released
    } else if (!std::strcmp(cmd, "dtor")) {
      H &h = hs.at(a);
      if (h.type == 1) { CAP_Obj c; c.addr = h.cap.addr; c.idtor = h.cap.idtor; CAP_Obj_delete(&c); h.cap.addr = c.addr; h.cap.idtor = c.idtor; }
      else if (h.type == 2) { CAP_Other c; c.addr = h.cap.addr; c.idtor = h.cap.idtor; CAP_Other_delete(&c); h.cap.addr = c.addr; h.cap.idtor = c.idtor; }
      else if (h.type == 9) { CAP_alpha_Item c; c.addr = h.cap.addr; c.idtor = h.cap.idtor; CAP_alpha_Item_delete(&c); h.cap.addr = c.addr; h.cap.idtor = c.idtor; }
      else if (h.type == 10) { CAP_beta_Item c; c.addr = h.cap.addr; c.idtor = h.cap.idtor; CAP_beta_Item_delete(&c); h.cap.addr = c.addr; h.cap.idtor = c.idtor; }
      else { std::printf("op %d badop\n", opno); std::fflush(stdout); return 3; }
    } else if (!std::strcmp(cmd, "release") || !std::strcmp(cmd, "copyfree")) {
      // release: the generated release function; copyfree (string result): the copy-out helper copies and releases
      H &h = hs.at(a);
      // (what the caller owns is decided by the operation that created the handle, not by the release code the wrapper stored)
      int owned = (h.expect_owned && capsule(h)->addr != 0);
      int was_ints = (h.type == 3 && owned);
      size_t before = __sanitizer_get_current_allocated_bytes();
      if (!std::strcmp(cmd, "release")) CAP_SHROUD_memory_destructor(capsule(h));
      else { char buf[64]; CAP_ShroudCopyStringAndFree(&h.arr, buf, sizeof buf); }
      size_t after = __sanitizer_get_current_allocated_bytes();
      if (was_ints) --counters.ints_live;
      // the released handle is cleared (this is what makes a second release a no-op) and a caller-owned heap result was given back
      if (capsule(h)->addr != 0 || capsule(h)->idtor != 0) { std::printf("op %d notcleared\n", opno); std::fflush(stdout); return 5; }
      if (owned && (h.type == 3 || h.type == 4 || h.type == 6 || h.type == 7 || h.type == 8 || h.type == 9 || h.type == 10 || h.type == 11) && !(after < before)) { std::printf("op %d notfreed\n", opno); std::fflush(stdout); return 5; }
    } else if (!std::strcmp(cmd, "tmp")) {
      // wrappers that convert arguments through temporary buffers: a = text / element count, b = room in the caller's buffer.
      // The caller's buffers are exact-size heap blocks, so that AddressSanitizer sees any access beyond them; afterwards
      // nothing the wrapper allocated may be left (the allocator's byte count is unchanged)
      int c = 0; std::sscanf(line, "%*s %d %d %d", &a, &b, &c);       // a: which function, b, c: sizes
      int ntrim = b < 0 ? 0 : b, nlen = c < ntrim ? ntrim : c; if (nlen < 1) nlen = 1;
      if (a == 4 && nlen < 20) nlen = 20;      // +charlen(20): the caller provides at least that many characters (documented contract)
      char *buf = (char *)std::malloc(nlen); std::memset(buf, ' ', nlen); std::memset(buf, 'x', ntrim);
      int *iv = (int *)std::malloc(sizeof(int) * (ntrim > 0 ? ntrim : 1)); for (int i = 0; i < ntrim; ++i) iv[i] = i + 1;
      size_t before = __sanitizer_get_current_allocated_bytes();
      if (a == 1) { g_room = nlen - ntrim; CAP_append_suffix_bufferify(buf, ntrim, nlen); val = buf[nlen - 1]; }
      else if (a == 2) { int each = (c % 7) + 1; size_t tgn = (size_t)ntrim * each; char *tg = (char *)std::malloc(tgn ? tgn : 1); std::memset(tg, ' ', tgn);   // exactly n*len characters: no terminator, no spare byte
                         for (int i = 0; i < ntrim; ++i) std::memset(tg + (size_t)i * each, 't', (i % (each + 1)));
                         before = __sanitizer_get_current_allocated_bytes();
                         g_room = ntrim; val = CAP_count_tags_bufferify(tg, ntrim, each); size_t mid = __sanitizer_get_current_allocated_bytes();
                         std::free(tg); if (mid != before) { std::printf("op %d leaktemp\n", opno); std::fflush(stdout); return 6; }
                         before = __sanitizer_get_current_allocated_bytes(); }
      else if (a == 3) { CAP_upcase_bufferify(buf, ntrim, nlen); val = buf[0]; }
      else if (a == 4) { CAP_fill_name_bufferify(buf, nlen); val = buf[nlen - 1]; }
      else if (a == 6) { // a std::vector<int> output of b elements copied into the caller's array of c elements, then released
                         int want = c < 0 ? 0 : c; int *dst = (int *)std::malloc(sizeof(int) * (want > 0 ? want : 1));
                         before = __sanitizer_get_current_allocated_bytes();
                         CAP_SHROUD_array arr; std::memset(&arr, 0, sizeof arr); g_room = ntrim;
                         CAP_iota_bufferify(&arr); CAP_ShroudCopyArray(&arr, dst, want);
                         val = (want > 0 && ntrim > 0) ? dst[0] : 0; size_t mid = __sanitizer_get_current_allocated_bytes();
                         std::free(dst); if (mid != before) { std::printf("op %d leaktemp\n", opno); std::fflush(stdout); return 6; }
                         before = __sanitizer_get_current_allocated_bytes(); }
      else { val = CAP_sumvec_bufferify(iv, ntrim); }
      size_t after = __sanitizer_get_current_allocated_bytes();
      std::free(buf); std::free(iv);
      if (after != before) { std::printf("op %d leaktemp\n", opno); std::fflush(stdout); return 6; }
    } else if (!std::strcmp(cmd, "copy")) {
      H h = hs.at(a); hs.push_back(h);
    } else { std::printf("op %d badop\n", opno); std::fflush(stdout); return 3; }
    std::printf("op %d ok %ld\n", opno, val); std::fflush(stdout);
    ++opno;
  }
  std::printf("final obj_live=%d other_live=%d ints_live=%d obj_made=%d other_made=%d ints_made=%d\n",
              counters.obj_live - base_live, counters.other_live, counters.ints_live, counters.obj_made, counters.other_made, counters.ints_made);
  std::printf("pool in_use=%d\n", counters.pool_in_use);
  return 0;
}
