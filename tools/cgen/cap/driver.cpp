// C06 driver: executes one operation per input line against the GENERATED C API (wrap*.h), prints one line per operation.
#include <cstdio>
#include <cstring>
#include <cstdlib>
#include <vector>
#include <string>
extern "C" size_t __sanitizer_get_current_allocated_bytes(void);   // exported by the AddressSanitizer runtime
#include "cap.hpp"
#include "typescap.h"
#include "wrapcap.h"
#include "wrapObj.h"
#include "wrapOther.h"
extern "C" void CAP_ShroudCopyStringAndFree(CAP_SHROUD_array *data, char *c_var, size_t c_var_len);
struct H { int type; CAP_SHROUD_capsule_data cap; CAP_SHROUD_array arr; };   // type 1 Obj, 2 Other, 3 ints, 4 string
static std::vector<H> hs;
static CAP_SHROUD_capsule_data *capsule(H &h) { return (h.type == 1 || h.type == 2) ? &h.cap : &h.arr.cxx; }
int main() {
  char line[256];
  int opno = 0;
  // touch the library-owned objects so that their static constructors have run before counting
  { CAP_Obj t; CAP_borrow(0, &t); }
  int base_live = counters.obj_live;
  while (std::fgets(line, sizeof line, stdin)) {
    char cmd[32]; int a = 0, b = 0;
    int n = std::sscanf(line, "%31s %d %d", cmd, &a, &b);
    if (n < 1) continue;
    long val = 0;
    if (!std::strcmp(cmd, "new")) {            // a: kind
      H h; std::memset(&h, 0, sizeof h); h.type = a;
      if (a == 1) { CAP_Obj c; if (b % 3 == 0) CAP_Obj_ctor_0(&c); else if (b % 3 == 1) CAP_Obj_ctor_1(b, &c); else CAP_make(b, &c); h.cap.addr = c.addr; h.cap.idtor = c.idtor; }
      else if (a == 2) { CAP_Other c; if (b % 2) CAP_Other_ctor(&c); else CAP_make_other(&c); h.cap.addr = c.addr; h.cap.idtor = c.idtor; }
      else if (a == 3) { CAP_newints_bufferify(&h.arr, 3 + b % 4); }
      else if (a == 5) { h.type = 1; CAP_Obj c; CAP_acquire(b, &c); h.cap.addr = c.addr; h.cap.idtor = c.idtor; }
      else { CAP_Obj t; CAP_borrow(b & 3, &t); CAP_name_bufferify(&t, &h.arr); }
      hs.push_back(h);
    } else if (!std::strcmp(cmd, "borrow")) {   // a: pool index ; b: 0 object, 1 array
      H h; std::memset(&h, 0, sizeof h);
      if (b == 0) { h.type = 1; CAP_Obj c; CAP_borrow(a, &c); h.cap.addr = c.addr; h.cap.idtor = c.idtor; }
      else { h.type = 3; CAP_libints_bufferify(&h.arr, 4); }
      hs.push_back(h);
    } else if (!std::strcmp(cmd, "method")) {
      H &h = hs.at(a);
      if (h.type == 1) { CAP_Obj c; c.addr = h.cap.addr; c.idtor = h.cap.idtor; val = CAP_Obj_get(&c); }
      else if (h.type == 2) { CAP_Other c; c.addr = h.cap.addr; c.idtor = h.cap.idtor; val = CAP_Other_get(&c); }
      else if (h.type == 3) { val = ((int *)h.arr.cxx.addr)[0]; }
      else { val = ((volatile unsigned char *)h.arr.cxx.addr)[8] >= 0; }   // a read inside the std::string object (instrumented here; libstdc++ is not)
      if ((h.type == 1 || h.type == 2) && val == -777) { std::fflush(stdout); std::abort(); }   // the object says it has been released
    } else if (!std::strcmp(cmd, "dtor")) {
      H &h = hs.at(a);
      if (h.type == 1) { CAP_Obj c; c.addr = h.cap.addr; c.idtor = h.cap.idtor; CAP_Obj_delete(&c); h.cap.addr = c.addr; h.cap.idtor = c.idtor; }
      else if (h.type == 2) { CAP_Other c; c.addr = h.cap.addr; c.idtor = h.cap.idtor; CAP_Other_delete(&c); h.cap.addr = c.addr; h.cap.idtor = c.idtor; }
      else { std::printf("op %d badop\n", opno); std::fflush(stdout); return 3; }
    } else if (!std::strcmp(cmd, "release") || !std::strcmp(cmd, "copyfree")) {
      // release: the generated release function; copyfree (string result): the copy-out helper copies and releases
      H &h = hs.at(a);
      int owned = (capsule(h)->idtor != 0 && capsule(h)->addr != 0);
      int was_ints = (h.type == 3 && owned);
      size_t before = __sanitizer_get_current_allocated_bytes();
      if (!std::strcmp(cmd, "release")) CAP_SHROUD_memory_destructor(capsule(h));
      else { char buf[64]; CAP_ShroudCopyStringAndFree(&h.arr, buf, sizeof buf); }
      size_t after = __sanitizer_get_current_allocated_bytes();
      if (was_ints) --counters.ints_live;
      // the released handle is cleared (this is what makes a second release a no-op) and a caller-owned heap result was given back
      if (capsule(h)->addr != 0 || capsule(h)->idtor != 0) { std::printf("op %d notcleared\n", opno); std::fflush(stdout); return 5; }
      if (owned && (h.type == 3 || h.type == 4) && !(after < before)) { std::printf("op %d notfreed\n", opno); std::fflush(stdout); return 5; }
    } else if (!std::strcmp(cmd, "copy")) {
      H h = hs.at(a); hs.push_back(h);
    } else { std::printf("op %d badop\n", opno); std::fflush(stdout); return 3; }
    std::printf("op %d ok %ld\n", opno, val); std::fflush(stdout);
    ++opno;
  }
  std::printf("final obj_live=%d other_live=%d ints_live=%d obj_made=%d other_made=%d ints_made=%d\n",
              counters.obj_live - base_live, counters.other_live, counters.ints_live, counters.obj_made, counters.other_made, counters.ints_made);
  std::printf("pool in_use=%d\n", counters.pool_in_use);
  return 0;
}
