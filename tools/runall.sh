#!/bin/bash
# run every claimed check (tier $1, default quick) on the current tree; print one line per check
cd "$(dirname "$0")/.."
tier=${1:-quick}
ids=$(python3 -c "import json;print(' '.join(c['property_id'] for c in json.load(open('MANIFEST.json'))['checks']))")
for id in $ids; do
  out=$(./check $id --tier $tier 2>&1)
  rc=$?
  echo "$id rc=$rc $(echo "$out" | grep -c '^VIOLATION') violations, $(echo "$out" | grep -c '^KNOWN-FINDING') known | $(echo "$out" | tail -1 | sed 's/.*obligations/obligations/')"
done
