"""Run shroud.main on each YAML text of a job in ONE process per job (fresh process per call), classify the outcome.
usage: runmain.py <workdir> <job.json> <out.json>   job = [yaml text, ...]
outcome = {"cls": OK|DIAG|INTERNAL, "exc": type name, "msg": message, "where": innermost shroud frame, "files": [...]}"""
import contextlib
import io
import json
import os
import shutil
import sys
import traceback

REPO = os.environ.get("SHROUD_REPO", "/repo")
sys.path.insert(0, REPO)
from shroud import main as smain  # noqa

work, job, outp = sys.argv[1], json.load(open(sys.argv[2])), sys.argv[3]
res = []
for k, text in enumerate(job):
    od = os.path.join(work, "o%d" % k)
    shutil.rmtree(od, ignore_errors=True)
    os.makedirs(od)
    yp = os.path.join(od, "in.yaml")
    open(yp, "w").write(text)
    old = sys.argv
    sys.argv = ["shroud", "--logdir", od, "--outdir", od, yp]
    r = {"cls": "OK", "exc": "", "msg": "", "where": ""}
    try:
        with contextlib.redirect_stdout(io.StringIO()), contextlib.redirect_stderr(io.StringIO()):
            try:
                smain.main()
            except SystemExit as e:
                if e.code not in (0, None):
                    tb = traceback.extract_tb(e.__traceback__)
                    fr = [f for f in tb if "/shroud/" in f.filename]
                    r = {"cls": "DIAG", "exc": "SystemExit", "msg": str(e.code)[:300],
                         "where": "%s:%s" % (os.path.basename(fr[-1].filename), fr[-1].name) if fr else ""}
            except RecursionError as e:
                r = {"cls": "INTERNAL", "exc": "RecursionError", "msg": "", "where": ""}
            except BaseException as e:
                tb = traceback.extract_tb(e.__traceback__)
                fr = [f for f in tb if "/shroud/" in f.filename]
                last = tb[-1]
                where = "%s:%s" % (os.path.basename(fr[-1].filename), fr[-1].name) if fr else ""
                explicit = bool(fr) and last is fr[-1] and (last.line or "").lstrip().startswith("raise")
                diag = isinstance(e, (RuntimeError, DeprecationWarning)) or (explicit and ("raise " + type(e).__name__) in (last.line or ""))
                r = {"cls": "DIAG" if diag else "INTERNAL", "exc": type(e).__name__, "msg": str(e)[:300], "where": where,
                     "line": (last.line or "")[:120]}
    finally:
        sys.argv = old
    r["files"] = sorted(f for f in os.listdir(od) if f != "in.yaml")
    shutil.rmtree(od, ignore_errors=True)
    res.append(r)
json.dump(res, open(outp, "w"))
