"""C01: extract, from a generated Fortran module, how every bind(C) call inside a specific procedure forms its actual
arguments from the procedure's dummy arguments (translation validation input).  Fail closed."""
import os
import re


def logical_lines(text):
    out = []
    for ln in text.split("\n"):
        s = ln.rstrip()
        code = s.split("!")[0].rstrip() if not re.search(r"['\"].*!.*['\"]", s) else s
        if out and out[-1].rstrip().endswith("&"):
            out[-1] = out[-1].rstrip()[:-1] + " " + code.strip().lstrip("&")
        else:
            out.append(code)
    return out


def split_top(s):
    out, depth, cur = [], 0, ""
    for ch in s:
        if ch in "([":
            depth += 1
        elif ch in ")]":
            depth -= 1
        if ch == "," and depth == 0:
            out.append(cur.strip())
            cur = ""
        else:
            cur += ch
    if cur.strip():
        out.append(cur.strip())
    return out


def classify(e, dummies, locals_, depth=0):
    e = e.strip()
    low = e.lower()
    m = re.match(r"^(\w+)$", e)
    if m:
        if e in dummies:
            return ("FDirect", e)
        if e in locals_ and depth < 3:
            return classify(locals_[e], dummies, locals_, depth + 1)
        if re.match(r"^(DSH|SHT|SHadow|SHC|SHF|SHAPE|SHPTR)", e):
            return ("FResult", e)
        return ("FLocal", e)
    m = re.match(r"^(\w+)%cxxmem$", e)
    if m:
        if re.match(r"^(DSH|SHT|SHadow)", m.group(1)):
            return ("FResult", m.group(1))
        return ("FSelf" if m.group(1) == "obj" else "FCapsule", m.group(1))
    m = re.match(r"^len_trim\(\s*(\w+)\s*,\s*kind=c_int\s*\)$", low)
    if m:
        return ("FLenTrim", e[e.index("(") + 1:].split(",")[0].strip())
    m = re.match(r"^len\(\s*(\w+)\s*,\s*kind=c_int\s*\)$", low)
    if m:
        return ("FLen", e[e.index("(") + 1:].split(",")[0].strip())
    m = re.match(r"^size\(\s*(\w+)\s*,\s*kind=c_(int|size_t|long)\s*\)$", low)
    if m:
        return ("FSize", e[e.index("(") + 1:].split(",")[0].strip())
    m = re.match(r"^trim\(\s*(\w+)\s*\)\s*//\s*c_null_char$", low)
    if m:
        return ("FTrimNull", e[e.index("(") + 1:e.index(")")].strip())
    m = re.match(r"^(?:real|int)\(\s*(\w+)\s*,\s*c_\w+\s*\)$", low)
    if m:
        return ("FConvert", e[e.index("(") + 1:].split(",")[0].strip())
    m = re.match(r"^c_loc\(\s*(\w+)\s*\)$", low)
    if m:
        return ("FCLoc", e[e.index("(") + 1:e.index(")")].strip())
    return ("FUnknown", e[:40])


def extract_module(path):
    lines = logical_lines(open(path, errors="replace").read())
    iface = {}
    rows = []
    in_if, in_contains = False, False
    # bind(C) derived types WITHOUT a capsule component are C structs: a dummy of such a type is an interoperable value that is
    # passed as it is (not a shadow object whose capsule is passed)
    plain_structs = set()
    cur_t, has_mem = None, False
    for ln in lines:
        lw = ln.strip().lower()
        mt = re.match(r"^type\s*,\s*bind\s*\(\s*c\s*\)\s*(?:::)?\s*(\w+)", lw)
        if mt:
            cur_t, has_mem = mt.group(1), False
        elif cur_t and re.match(r"^end\s+type", lw):
            if not has_mem:
                plain_structs.add(cur_t)
            cur_t = None
        elif cur_t and "cxxmem" in lw:
            has_mem = True
    i = 0
    while i < len(lines):
        s = lines[i].strip()
        low = s.lower()
        if low == "interface":
            in_if = True
        elif low.startswith("end interface"):
            in_if = False
        elif low == "contains" and not lines[i].startswith("    "):
            in_contains = True
        m = re.match(r"^(?:(?:pure|elemental|recursive)\s+)*(function|subroutine)\s+(\w+)\s*\(([^)]*)\)(.*)$", s, flags=re.I)
        if m and in_if:
            iface[m.group(2)] = [x.strip() for x in m.group(3).split(",") if x.strip()]
        elif m and in_contains and re.match(r"^    \S", lines[i]):
            name = m.group(2)
            dummies = [x.strip() for x in m.group(3).split(",") if x.strip()]
            body = []
            i += 1
            while i < len(lines) and not re.match(r"^\s*end\s+(function|subroutine)", lines[i], flags=re.I):
                body.append(lines[i].strip())
                i += 1
            locals_ = {}
            calls = []
            boolc = set()
            kinds = {}
            intents = {}
            copyback = {}        # dummy -> local it is assigned from after the call
            for b in body:
                md = re.match(r"^(integer|real|logical|character|type|class|complex)\b([^:]*)::\s*(.+)$", b, flags=re.I)
                if md:
                    base = md.group(1).lower()
                    attrs = md.group(2).lower()
                    for ent in split_top(md.group(3)):
                        nm = re.match(r"^(\w+)", ent).group(1)
                        if nm not in dummies:
                            continue
                        mi = re.search(r"intent\((\w+)\)", attrs)
                        intents[nm] = mi.group(1) if mi else ""
                        isarr = "(" in ent or "dimension" in attrs
                        if base in ("integer", "real"):
                            kinds[nm] = "DArr" if isarr else "DNum"
                        elif base == "logical":
                            kinds[nm] = "DOther" if isarr else "DLog"
                        elif base == "character":
                            # (a single character passed by value / without a length is not text with a length: DOther)
                            kinds[nm] = "DOther" if (isarr or "len" not in md.group(2).lower()) else "DChar"
                        elif base in ("type", "class"):
                            tn = re.match(r"^\s*\(\s*(\w+)\s*\)", attrs)
                            kinds[nm] = "DOther" if ("c_ptr" in attrs or "shroud" in attrs or isarr or (base == "type" and tn and tn.group(1) in plain_structs)) else "DObj"
                        else:
                            kinds[nm] = "DOther"
                    continue
                mm = re.match(r"^(?:call\s+|\w+(?:%\w+)?\s*=\s*)(c_\w+)\s*\((.*)\)\s*$", b, flags=re.I)
                if mm and mm.group(1) in iface:
                    calls.append((mm.group(1), split_top(mm.group(2))))
                    continue
                mm = re.match(r"^(SH_\w+)\s*=\s*(.+)$", b)
                if mm and not calls:
                    locals_[mm.group(1)] = mm.group(2).strip()
                    if re.match(r"^\w+$", mm.group(2).strip()):
                        boolc.add(mm.group(1))
                mm = re.match(r"^(\w+)\s*=\s*(SH_\w+)\s*(?:!.*)?$", b)
                if mm and calls and mm.group(1) in dummies:
                    copyback[mm.group(1)] = mm.group(2)
            row = {"name": name, "dummies": dummies, "kinds": kinds, "calls": [],
                   "outputs": [d for d in dummies if intents.get(d) in ("out", "inout")],
                   "copyback": [d for d in dummies if copyback.get(d) == "SH_" + d]}
            for cname, args in calls:
                cl = []
                for a in args:
                    c, r = classify(a, dummies, locals_)
                    if a.strip() in boolc and c == "FDirect":
                        c = "FBool"
                    # a logical passed through a local of kind C_BOOL: coerced before the call (in / inout), copied back after it
                    # (out / inout); an output that is never copied back is left unrecognised (fail closed)
                    if c == "FLocal" and a.strip().startswith("SH_") and a.strip()[3:] in dummies and kinds.get(a.strip()[3:]) == "DLog":
                        c, r = "FBool", a.strip()[3:]          # whether an output is copied back is the model's rule (outs_ok)
                    if c in ("FLen", "FLenTrim", "FSize") and re.match(r"^(DSH|SHT|SHF|SHadow)", r):
                        c = "FResult"         # the length of the result variable
                    cl.append((c, r))
                row["calls"].append({"cname": cname, "params": iface[cname], "args": cl})
            rows.append(row)
        i += 1
    return rows


def coq_s(x):
    if any(ord(c) > 126 or ord(c) < 32 for c in x):
        raise ValueError("non-ascii")
    return '"' + x.replace('"', '""') + '"'


def emit_coq(rows, path):
    items = []
    for r in rows:
        for c in r["calls"]:
            try:
                items.append("{| fc_name := %s; fc_dummies := [%s]; fc_kinds := [%s]; fc_params := [%s]; fc_args := [%s]; fc_outputs := [%s]; fc_copyback := [%s] |}" % (
                    coq_s(r.get("lib", "") + ":" + r["name"] + ">" + c["cname"]), "; ".join(coq_s(d) for d in r["dummies"]),
                    "; ".join("(%s, %s)" % (coq_s(d), r["kinds"].get(d, "DOther")) for d in r["dummies"]),
                    "; ".join(coq_s(p) for p in c["params"]),
                    "; ".join("(%s, %s)" % (cv if cv in ("FDirect", "FCapsule", "FSelf", "FBool", "FLenTrim", "FLen", "FSize", "FTrimNull", "FCLoc", "FResult", "FLocal", "FConvert") else "FUnknown", coq_s(root))
                              for cv, root in c["args"]),
                    "; ".join(coq_s(d) for d in r.get("outputs", [])), "; ".join(coq_s(d) for d in r.get("copyback", []))))
            except Exception:
                items.append('{| fc_name := "unwritable"; fc_dummies := []; fc_kinds := []; fc_params := ["?"]; fc_args := []; fc_outputs := []; fc_copyback := [] |}')
    with open(path, "w") as f:
        f.write("(* generated on this run: actual arguments of every bind(C) call in the generated Fortran specifics *)\n")
        f.write("From Coq Require Import List String.\nFrom Shroud Require Import Model.FCall.\nImport ListNotations.\nOpen Scope string_scope.\n")
        # (one list literal of several megabytes overflows coqc's stack: the table is written in pieces and concatenated)
        CH = 2000
        pieces = [items[i:i + CH] for i in range(0, len(items), CH)] or [[]]
        for k, piece in enumerate(pieces):
            f.write("Definition fcalls_%d : list fcall :=\n  [" % k + ";\n   ".join(piece) + "].\n")
        f.write("Definition fcalls : list fcall := " + " ++ ".join("fcalls_%d" % k for k in range(len(pieces))) + ".\n")
    return len(items)
