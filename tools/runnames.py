"""Run shroud.main on each YAML text of a job (one fresh process), observe the emitted names.
usage: runnames.py <workdir> <job.json> <out.json>"""
import contextlib
import io
import json
import os
import shutil
import sys

REPO = os.environ.get("SHROUD_REPO", "/repo")
sys.path.insert(0, REPO)
sys.path.insert(0, os.path.dirname(os.path.abspath(__file__)))
from shroud import main as smain  # noqa
import names_obs  # noqa

work, job, outp = sys.argv[1], json.load(open(sys.argv[2])), sys.argv[3]
res = []
for k, text in enumerate(job):
    od = os.path.join(work, "o%d" % k)
    shutil.rmtree(od, ignore_errors=True)
    os.makedirs(od)
    open(od + "/in.yaml", "w").write(text)
    old = sys.argv
    sys.argv = ["shroud", "--logdir", od, "--outdir", od, od + "/in.yaml"]
    err = ""
    try:
        with contextlib.redirect_stdout(io.StringIO()), contextlib.redirect_stderr(io.StringIO()):
            smain.main()
    except SystemExit as e:
        err = "" if e.code in (0, None) else "exit: " + str(e.code)[:200]
    except BaseException as e:
        err = type(e).__name__ + ": " + str(e)[:200]
    finally:
        sys.argv = old
    r = {"err": err, "nodes": [], "protos": [], "modules": [], "tables": []}
    try:
        if os.path.exists(od + "/in.json"):
            r["nodes"] = names_obs.nodes(od + "/in.json")
        r["protos"] = names_obs.c_prototypes(od)
        r["modules"] = names_obs.fortran_modules(od)
        r["tables"] = names_obs.tables(od)
    except Exception as e:
        r["err"] = r["err"] or ("observer: %s: %s" % (type(e).__name__, e))
    shutil.rmtree(od, ignore_errors=True)
    res.append(r)
json.dump(res, open(outp, "w"))
