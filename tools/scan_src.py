"""Translators working on /repo's SOURCE TEXT (python ast), fail closed.

registries(): every module-level / class-level binding of a mutable container in shroud/*.py.
nondeterminism(): imports / calls of nondeterminism sources, iteration over sets, open() modes.
"""
import ast
import os
import sys

REPO = os.environ.get("SHROUD_REPO", "/repo")
MUTABLE_CALLS = {"dict", "list", "set", "OrderedDict", "defaultdict", "Scope", "deque", "Counter"}


def is_mutable_expr(v):
    if isinstance(v, (ast.Dict, ast.List, ast.Set, ast.ListComp, ast.DictComp, ast.SetComp)):
        return type(v).__name__
    if isinstance(v, ast.Call):
        f = v.func
        name = f.id if isinstance(f, ast.Name) else f.attr if isinstance(f, ast.Attribute) else None
        if name in MUTABLE_CALLS:
            return "Call:" + name
    return None


def registries():
    """[(module, qualified name, line, kind)]"""
    out = []
    d = os.path.join(REPO, "shroud")
    for fn in sorted(os.listdir(d)):
        if not fn.endswith(".py"):
            continue
        mod = fn[:-3]
        tree = ast.parse(open(os.path.join(d, fn)).read())
        for node in tree.body:
            if isinstance(node, (ast.Assign, ast.AnnAssign)):
                targets = node.targets if isinstance(node, ast.Assign) else [node.target]
                kind = is_mutable_expr(node.value) if node.value is not None else None
                if kind:
                    for t in targets:
                        if isinstance(t, ast.Name):
                            out.append((mod, t.id, node.lineno, kind))
            elif isinstance(node, ast.ClassDef):
                for sub in node.body:
                    if isinstance(sub, ast.Assign):
                        kind = is_mutable_expr(sub.value)
                        if kind:
                            for t in sub.targets:
                                if isinstance(t, ast.Name):
                                    out.append((mod, node.name + "." + t.id, sub.lineno, kind))
        # module-level names rebound through `global`
        for node in ast.walk(tree):
            if isinstance(node, ast.Global):
                for n in node.names:
                    if not any(o[0] == mod and o[1] == n for o in out):
                        out.append((mod, n, node.lineno, "global"))
    return out


NONDET_MODULES = {"time", "datetime", "random", "socket", "getpass", "uuid", "secrets", "platform", "tempfile"}
NONDET_CALLS = {"id", "hash", "getcwd", "getpid", "urandom", "gethostname", "getuser"}


def nondeterminism():
    """[(module, line, what)] : imports of nondeterminism sources, calls of id()/hash()/os.getcwd()/os.environ,
    iteration over set expressions, open() with a mode other than r / w."""
    out = []
    d = os.path.join(REPO, "shroud")
    for fn in sorted(os.listdir(d)):
        if not fn.endswith(".py"):
            continue
        mod = fn[:-3]
        tree = ast.parse(open(os.path.join(d, fn)).read())
        for node in ast.walk(tree):
            if isinstance(node, ast.Import):
                for a in node.names:
                    if a.name.split(".")[0] in NONDET_MODULES:
                        out.append((mod, node.lineno, "import " + a.name))
            elif isinstance(node, ast.ImportFrom):
                if node.module and node.module.split(".")[0] in NONDET_MODULES:
                    out.append((mod, node.lineno, "from " + node.module))
            elif isinstance(node, ast.Call):
                f = node.func
                name = f.id if isinstance(f, ast.Name) else f.attr if isinstance(f, ast.Attribute) else None
                if name in NONDET_CALLS:
                    out.append((mod, node.lineno, "call " + name))
                if name == "open":
                    mode = None
                    if len(node.args) >= 2 and isinstance(node.args[1], ast.Constant):
                        mode = node.args[1].value
                    for k in node.keywords:
                        if k.arg == "mode" and isinstance(k.value, ast.Constant):
                            mode = k.value.value
                    if len(node.args) < 2 and not any(k.arg == "mode" for k in node.keywords):
                        mode = "r"
                    if mode not in ("r", "w"):
                        out.append((mod, node.lineno, "open mode %r" % (mode,)))
            elif isinstance(node, ast.Attribute) and node.attr == "environ":
                out.append((mod, node.lineno, "os.environ"))
            elif isinstance(node, (ast.For, ast.comprehension)):
                it = node.iter
                if isinstance(it, (ast.Set, ast.SetComp)) or (isinstance(it, ast.Call) and getattr(it.func, "id", None) in ("set", "frozenset")):
                    out.append((mod, getattr(node, "lineno", getattr(it, "lineno", 0)), "iteration over a set"))
        # names bound to a set-valued expression inside a function and then iterated / listed / joined (not through sorted())
        for fn_node in ast.walk(tree):
            if not isinstance(fn_node, (ast.FunctionDef, ast.AsyncFunctionDef)):
                continue
            setnames = set()

            def setvalued(e):
                if isinstance(e, (ast.Set, ast.SetComp)):
                    return True
                if isinstance(e, ast.Call):
                    if isinstance(e.func, ast.Name) and e.func.id in ("set", "frozenset"):
                        return True
                    if isinstance(e.func, ast.Attribute) and e.func.attr in ("intersection", "union", "difference", "symmetric_difference"):
                        return True
                if isinstance(e, ast.BinOp) and isinstance(e.op, (ast.BitAnd, ast.BitOr, ast.Sub, ast.BitXor)):
                    return setvalued(e.left) or setvalued(e.right)
                if isinstance(e, ast.Name) and e.id in setnames:
                    return True
                return False
            for _ in range(2):
                for n in ast.walk(fn_node):
                    if isinstance(n, ast.Assign) and setvalued(n.value):
                        for t in n.targets:
                            if isinstance(t, ast.Name):
                                setnames.add(t.id)
            for n in ast.walk(fn_node):
                if isinstance(n, (ast.For, ast.comprehension)):
                    it = n.iter
                    if (isinstance(it, ast.Name) and it.id in setnames) or \
                            (isinstance(it, ast.Call) and isinstance(it.func, ast.Attribute) and setvalued(it)):
                        out.append((mod, getattr(n, "lineno", getattr(it, "lineno", 0)), "iteration over a set"))
                elif isinstance(n, ast.Call):
                    f = n.func
                    nm = f.id if isinstance(f, ast.Name) else f.attr if isinstance(f, ast.Attribute) else None
                    if nm in ("list", "tuple", "join", "enumerate", "extend", "update") and n.args and setvalued(n.args[0]) \
                            and not (nm == "update" and isinstance(f, ast.Attribute) and isinstance(f.value, ast.Name) and f.value.id in setnames):
                        out.append((mod, n.lineno, "iteration over a set"))
    return out


if __name__ == "__main__":
    for r in registries():
        print("REG", *r)
    for r in nondeterminism():
        print("NONDET", *r)
