"""Run shroud.main on each YAML text of a job; extract the bind(C) call flows of the generated Fortran modules.
usage: runfflow.py <workdir> <job.json> <out.json>"""
import contextlib
import io
import json
import os
import shutil
import sys

REPO = os.environ.get("SHROUD_REPO", "/repo")
sys.path.insert(0, REPO)
sys.path.insert(0, os.path.dirname(os.path.abspath(__file__)))
from shroud import main as smain  # noqa
import fflow  # noqa

work, job, outp = sys.argv[1], json.load(open(sys.argv[2])), sys.argv[3]
res = []
for k, item in enumerate(job):
    od = os.path.join(work, "o%d" % k)
    shutil.rmtree(od, ignore_errors=True)
    os.makedirs(od)
    open(od + "/in.yaml", "w").write(item["yaml"])
    old = sys.argv
    sys.argv = ["shroud", "--logdir", od, "--outdir", od] + item.get("args", []) + [od + "/in.yaml"]
    err = ""
    try:
        with contextlib.redirect_stdout(io.StringIO()), contextlib.redirect_stderr(io.StringIO()):
            smain.main()
    except SystemExit as e:
        err = "" if e.code in (0, None) else "exit: " + str(e.code)[:200]
    except BaseException as e:
        err = type(e).__name__ + ": " + str(e)[:200]
    finally:
        sys.argv = old
    rows = []
    if not err:
        for f in sorted(os.listdir(od)):
            if f.lower().endswith(".f") and f.startswith("wrapf"):
                try:
                    for r in fflow.extract_module(os.path.join(od, f)):
                        r["module"] = f
                        rows.append(r)
                except Exception as e:
                    err = "extractor: %s: %s" % (type(e).__name__, e)
    shutil.rmtree(od, ignore_errors=True)
    res.append({"err": err, "rows": rows})
json.dump(res, open(outp, "w"))
