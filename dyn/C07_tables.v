(* dyn/C07_tables.v — theorems over tables REGENERATED on this run:
   ShroudGen.GenNondet   (python-ast scan of /repo/shroud/*.py: nondeterminism sources, open() modes, set iteration)
   ShroudGen.GenRegistry (python-ast scan of mutable module/class level objects + dynamic probe flags). *)
From Coq Require Import List String Bool.
From ShroudGen Require Import GenNondet GenRegistry.
Import ListNotations.
Open Scope string_scope.

(* the only admitted site: util.Scope.trace prints id() in a debugging helper that no emitter calls *)
Definition admitted (r : nondet_row) : bool :=
  String.eqb (nd_module r) "util" && String.eqb (nd_what r) "call id".

(* No source of run-to-run variation reaches the generators: no time / random / socket / getpass /
   uuid / tempfile / platform import, no hash() / os.getcwd() / os.environ, no iteration over a set,
   every open() is plain "r" or "w" (a "w" open truncates: earlier contents of the file cannot matter). *)
Theorem C07_no_nondeterminism_sources : forallb admitted nondet_rows = true.
Proof. vm_compute. reflexivity. Qed.
Print Assumptions C07_no_nondeterminism_sources.

(* Every process-wide registry is either never changed by a run, or its contents after a run do not
   depend on earlier runs (it is rebuilt), or it is one of the accumulating registries enumerated by
   name in the evidence (for those only the in-process history oracle applies). *)
Definition rebuilt_or_constant (r : reg_row) : bool := negb (rr_mutated r) || negb (rr_accumulates r).
Definition accumulating : list string := map rr_name (filter (fun r => negb (rebuilt_or_constant r)) reg_rows).

Theorem C07_registries_partition :
  forallb (fun r => rebuilt_or_constant r || existsb (String.eqb (rr_name r)) accumulating) reg_rows = true.
Proof. vm_compute. reflexivity. Qed.
Print Assumptions C07_registries_partition.

(* the accumulating set is exactly the reviewed one (a new accumulating registry breaks this obligation) *)
Definition reviewed : list string :=
  ["statements.default_scopes"; "whelpers.CHelpers"; "wrapl.lua_tree"; "wrapl.default_scope"].
Theorem C07_no_new_accumulating_registry :
  forallb (fun n => existsb (String.eqb n) reviewed) accumulating = true.
Proof. vm_compute. reflexivity. Qed.
Print Assumptions C07_no_new_accumulating_registry.

Example C07_tables_nonempty : Nat.ltb 20 (List.length reg_rows) = true.
Proof. vm_compute. reflexivity. Qed.
