(* dyn/C02_tables.v — translation validation of the C wrappers GENERATED on this run (ShroudGen.GenFlows: extracted from
   the wrapper sources of generated libraries and regression inputs; fail closed): every wrapper whose parameters are in
   the covered grammar passes the check for which Proof/CallEq.v shows that the callee receives the caller's values. *)
From Coq Require Import List String Bool Arith.
From Shroud Require Import Model.CallEq.
From ShroudGen Require Import GenFlows.
Import ListNotations.
Open Scope string_scope.

Fixpoint nodupb (l : list string) : bool :=
  match l with [] => true | x :: r => negb (existsb (String.eqb x) r) && nodupb r end.

(* every covered wrapper: recognised body, the right kind of call and 'this', each C++ parameter passed once, in order,
   from the C parameter of the same name, through the conversion its type documents; the result returned the
   documented way (as is, cast back from the enumeration, c_str() of the referenced string, through the capsule); copy-outs exactly for the string
   references the callee may change; parameter names pairwise distinct *)
Theorem C02_every_generated_wrapper_passes :
  forallb (fun w => negb (covered w) || (wrapper_ok w && result_ok w && nodupb (map fst (w_params w)))) flows = true.
Proof. vm_compute. reflexivity. Qed.
Print Assumptions C02_every_generated_wrapper_passes.

(* how much of the table is covered (the rest has parameters outside the covered grammar: vectors, function pointers,
   structs ...) *)
Example C02_table_coverage :
  Nat.leb 20 (List.length (filter covered flows)) && Nat.leb (List.length flows) (2 * List.length (filter covered flows)) = true.
Proof. vm_compute. reflexivity. Qed.
