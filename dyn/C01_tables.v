(* dyn/C01_tables.v — translation validation of the Fortran specifics GENERATED on this run (ShroudGen.GenFCalls: extracted
   from the generated modules of generated libraries and regression inputs; fail closed): every call of a bind(C)
   interface feeds each interface parameter from the dummy argument of the same name through the conversion its declared
   kind documents, the length / size parameters from len_trim / len / size of the right dummy, 'self' from the
   passed-object dummy. *)
From Coq Require Import List String Bool Arith.
From Shroud Require Import Model.FCall.
From ShroudGen Require Import GenFCalls.
Import ListNotations.
Open Scope string_scope.

Theorem C01_every_generated_call_passes : forallb fcall_ok fcalls = true.
Proof. vm_compute. reflexivity. Qed.
Print Assumptions C01_every_generated_call_passes.

Example C01_table_nonempty : Nat.leb 100 (List.length fcalls) = true.
Proof. vm_compute. reflexivity. Qed.
