(* dyn/C04_tables.v — interoperability theorems over tables REGENERATED from /repo on this run
   (ShroudGen.GenInterop: typemap.initialize(), the statement table, the helper texts, and an ast scan of
   wrapc.build_proto_list / wrapf.build_arg_list_interface). The interoperability rules below are the
   specification (Fortran 2003 15.2-15.3, TS 29113): trusted, validated against gfortran -fc-prototypes. *)
From Coq Require Import List String Bool Arith.
From ShroudGen Require Import GenInterop.
Import ListNotations.
Open Scope string_scope.

(* ---- intrinsic types: C type -> (Fortran declaration, kind) ---- *)
Definition iso_table : list (string * (string * string)) := [
  ("short", ("integer(C_SHORT)", "C_SHORT")); ("int", ("integer(C_INT)", "C_INT")); ("long", ("integer(C_LONG)", "C_LONG"));
  ("long long", ("integer(C_LONG_LONG)", "C_LONG_LONG"));
  ("unsigned short", ("integer(C_SHORT)", "C_SHORT")); ("unsigned int", ("integer(C_INT)", "C_INT"));
  ("unsigned long", ("integer(C_LONG)", "C_LONG")); ("unsigned long long", ("integer(C_LONG_LONG)", "C_LONG_LONG"));
  ("size_t", ("integer(C_SIZE_T)", "C_SIZE_T"));
  ("int8_t", ("integer(C_INT8_T)", "C_INT8_T")); ("int16_t", ("integer(C_INT16_T)", "C_INT16_T"));
  ("int32_t", ("integer(C_INT32_T)", "C_INT32_T")); ("int64_t", ("integer(C_INT64_T)", "C_INT64_T"));
  ("uint8_t", ("integer(C_INT8_T)", "C_INT8_T")); ("uint16_t", ("integer(C_INT16_T)", "C_INT16_T"));
  ("uint32_t", ("integer(C_INT32_T)", "C_INT32_T")); ("uint64_t", ("integer(C_INT64_T)", "C_INT64_T"));
  ("float", ("real(C_FLOAT)", "C_FLOAT")); ("double", ("real(C_DOUBLE)", "C_DOUBLE"));
  ("float complex", ("complex(C_FLOAT_COMPLEX)", "C_FLOAT_COMPLEX")); ("double complex", ("complex(C_DOUBLE_COMPLEX)", "C_DOUBLE_COMPLEX"));
  ("bool", ("logical(C_BOOL)", "C_BOOL")); ("char", ("character(kind=C_CHAR)", "C_CHAR")) ].

Fixpoint lookup {A} (k : string) (l : list (string * A)) : option A :=
  match l with [] => None | (k', v) :: r => if String.eqb k k' then Some v else lookup k r end.

Definition typemap_ok (t : tmrow) : bool :=
  match lookup (tm_c_type t) iso_table with
  | Some (decl, kind) => String.eqb (tm_f_iface t) decl && String.eqb (tm_f_kind t) kind
  | None => false
  end.

(* every native / bool / char typemap declares, in a bind(C) interface, the Fortran type and kind that is
   interoperable with its C type *)
Theorem C04_typemaps_interoperable : forallb typemap_ok typemaps = true.
Proof. vm_compute. reflexivity. Qed.
Print Assumptions C04_typemaps_interoperable.

(* ---- the implied (buf_arg) arguments: C prototype text vs Fortran dummy declaration ---- *)
Definition bufarg_spec : list (string * (string * string)) := [
  ("size", ("long {c_var_size}", "integer(C_LONG), value, intent(IN) :: %s"));
  ("len", ("int {c_var_len}", "integer(C_INT), value, intent(IN) :: %s"));
  ("len_trim", ("int {c_var_trim}", "integer(C_INT), value, intent(IN) :: %s"));
  ("capsule", ("{C_capsule_data_type} *{c_var_capsule}", "type(%s), intent(INOUT) :: %s"));
  ("context", ("{C_array_type} *{c_var_context}", "type(%s), intent(%s) :: %s")) ].

Definition bufarg_ok (p : string * string * string) : bool :=
  match p with
  | (k, c, f) => match lookup k bufarg_spec with
                 | Some (c', f') => String.eqb c c' && String.eqb f f'
                 | None => false
                 end
  end.

(* long <-> integer(C_LONG), value ; int <-> integer(C_INT), value ; struct pointer <-> derived type by reference:
   both emitters use exactly the interoperable pair, for every implied argument kind they know *)
Theorem C04_implied_arguments_interoperable :
  forallb bufarg_ok bufarg_pairs = true /\ List.length bufarg_pairs = List.length bufarg_spec.
Proof. split; vm_compute; reflexivity. Qed.
Print Assumptions C04_implied_arguments_interoperable.

(* ---- explicit c_arg_decl / f_arg_decl pairs of the statement table ---- *)
Fixpoint prefix (p s : string) : bool :=
  match p, s with
  | EmptyString, _ => true
  | String a p', String b s' => Ascii.eqb a b && prefix p' s'
  | _, _ => false
  end.
Fixpoint contains (sub s : string) : bool :=
  prefix sub s || match s with EmptyString => false | String _ r => contains sub r end.

Definition argdecl_ok (p : string * string * string) : bool :=
  match p with
  | (_, c, f) =>
      (* T **x  <->  type(C_PTR) (by value, or an array / scalar by reference) *)
      if contains "**" c then prefix "type(C_PTR)" f
      (* CFI_cdesc_t *x <-> a dummy passed by descriptor: assumed shape/rank, assumed or deferred length; never VALUE *)
      else if prefix "CFI_cdesc_t *" c then
        negb (contains "value" f) && (contains "{f_c_dimension}" f || contains "len=*" f || contains "len=:" f)
      (* char x <-> character(kind=C_CHAR), value *)
      else if prefix "char {" c then prefix "character(kind=C_CHAR), value" f
      (* char *x <-> character(kind=C_CHAR) :: x( * ) by reference *)
      else if prefix "char *" c then prefix "character(kind=C_CHAR)" f && negb (contains "value" f) && contains "(*)" f
      else false
  end.

Theorem C04_explicit_argument_declarations_interoperable : forallb argdecl_ok argdecl_pairs = true.
Proof. vm_compute. reflexivity. Qed.
Print Assumptions C04_explicit_argument_declarations_interoperable.

(* ---- bind(C) derived types vs C structs: same number of members, same order, interoperable member types ---- *)
Definition field_ok (cf ff : string * nat) : bool :=
  Nat.eqb (snd cf) (snd ff) &&
  (if String.eqb (fst cf) "ptr" then String.eqb (fst ff) "type(C_PTR)"
   else match lookup (fst cf) iso_table with
        | Some (decl, _) => String.eqb (fst ff) decl
        | None => String.eqb (fst ff) ("type(" ++ fst cf ++ ")")       (* nested struct of the same name *)
        end).

Fixpoint fields_ok (c f : list (string * nat)) : bool :=
  match c, f with
  | [], [] => true
  | x :: c', y :: f' => field_ok x y && fields_ok c' f'
  | _, _ => false
  end.

Theorem C04_helper_structs_match : forallb (fun r => fields_ok (snd (fst r)) (snd r)) helper_structs = true.
Proof. vm_compute. reflexivity. Qed.
Print Assumptions C04_helper_structs_match.

(* ---- shared constant table: same names, same values, in C and Fortran ---- *)
Definition pair_eqb (a b : string * string) : bool := String.eqb (fst a) (fst b) && String.eqb (snd a) (snd b).
Fixpoint pairs_eqb (a b : list (string * string)) : bool :=
  match a, b with
  | [], [] => true
  | x :: a', y :: b' => pair_eqb x y && pairs_eqb a' b'
  | _, _ => false
  end.
Theorem C04_type_constants_equal : pairs_eqb c_type_defines f_type_defines = true.
Proof. vm_compute. reflexivity. Qed.
Print Assumptions C04_type_constants_equal.

Example C04_tables_nonempty : Nat.ltb 20 (List.length typemaps) && Nat.ltb 25 (List.length c_type_defines) = true.
Proof. vm_compute. reflexivity. Qed.
