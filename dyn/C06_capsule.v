(* dyn/C06_capsule.v — translation validation of the release codes in the C++ sources GENERATED on this run (ShroudGen.GenCapsule,
   extracted by tools/capflow.py from the capsule library of this check and from regression inputs; fail closed: a statement
   that stores a release code beside a pointer whose declaration was not recognised has type "" and fails the check). *)
From Coq Require Import List String Bool Arith.
From Shroud Require Import Model.Release Proof.Release.
From ShroudGen Require Import GenCapsule.
Import ListNotations.
Open Scope string_scope.

(* every release code stored by a generated wrapper selects a case of its library's switch that casts the pointer to its own
   type and uses the matching deallocator; no switch lists a code twice *)
Theorem C06_every_release_code_matches_its_type : forallb lib_ok release_libs = true.
Proof. vm_compute. reflexivity. Qed.
Print Assumptions C06_every_release_code_matches_its_type.

Theorem C06_generated_handles_release_their_own_type : forall l s,
  In l release_libs -> In s (rl_sites l) -> rs_code s <> 0 ->
  exists c, In c (rl_cases l) /\ rc_code c = rs_code s /\
            (rc_action c = "other" \/
             (rc_type c = rs_type s /\ (rc_action c = "delete" \/ rc_action c = "free") /\ (rs_how s = "new" -> rc_action c = "delete"))).
Proof.
  intros l s Hl. apply checked_site_releases_its_own_type.
  pose proof C06_every_release_code_matches_its_type as H. rewrite forallb_forall in H. apply H. exact Hl.
Qed.
Print Assumptions C06_generated_handles_release_their_own_type.

Example C06_capsule_table_nonempty :
  Nat.leb 20 (fold_right (fun l n => List.length (rl_sites l) + n) 0 release_libs) = true.
Proof. vm_compute. reflexivity. Qed.
