(* dyn/C09_tables.v — theorems over tables REGENERATED from /repo/shroud on this run (ShroudGen.GenTypes):
   every list of type-specifier words that Shroud accepts denotes, by the C++ rules for simple type specifiers
   ([dcl.type.simple]: any order, optional int, signed by default), the same type as the C++ and C type texts of the
   typemap it is resolved to.  Complete for all lists up to four words; longer lists are never accepted. *)
From Coq Require Import List String Ascii Bool Arith.
From ShroudGen Require Import GenTypes.
From Shroud Require Import Base.Ustr Model.Splicer Model.Decl.
Import ListNotations.
Open Scope string_scope.
Open Scope nat_scope.

Inductive ty := Void | Bool | Float | Double | LongDouble | FloatComplex | DoubleComplex
              | Char (sign : nat)            (* 0 plain, 1 signed, 2 unsigned *)
              | Int (unsigned : bool) (size : nat)   (* 0 short, 1 int, 2 long, 3 long long *)
              | Invalid.

Definition cnt (w : string) (l : list string) : nat := List.length (filter (String.eqb w) l).

(* the C++ reading of a multiset of simple type specifiers *)
Definition meaning (l : list string) : ty :=
  let n := List.length l in
  let s := cnt "short" l in let i := cnt "int" l in let lg := cnt "long" l in let sg := cnt "signed" l in
  let u := cnt "unsigned" l in let ch := cnt "char" l in let f := cnt "float" l in let d := cnt "double" l in
  let b := cnt "bool" l in let v := cnt "void" l in let cx := cnt "complex" l in
  if (v =? 1) && (n =? 1) then Void
  else if (b =? 1) && (n =? 1) then Bool
  else if (f =? 1) && (n =? 1) then Float
  else if (d =? 1) && (n =? 1) then Double
  else if (d =? 1) && (lg =? 1) && (n =? 2) then LongDouble
  else if (f =? 1) && (cx =? 1) && (n =? 2) then FloatComplex
  else if (d =? 1) && (cx =? 1) && (n =? 2) then DoubleComplex
  else if (ch =? 1) && (sg + u <=? 1) && (n =? 1 + sg + u) then Char (sg + 2 * u)
  else if (ch + f + d + b + v + cx =? 0) && (sg + u <=? 1) && (i <=? 1) && (s <=? 1) && (lg <=? 2)
          && negb ((1 <=? s) && (1 <=? lg)) && (1 <=? n) && (n =? s + i + lg + sg + u)
       then Int (u =? 1) (if s =? 1 then 0 else 1 + lg)
  else Invalid.

Fixpoint split_sp (cur : string) (s : string) : list string :=
  match s with
  | EmptyString => match cur with EmptyString => [] | _ => [cur] end
  | String c r => if Ascii.eqb c " "%char then (match cur with EmptyString => split_sp EmptyString r | _ => cur :: split_sp EmptyString r end)
                  else split_sp (cur ++ String c EmptyString) r
  end.
Definition meaning_text (t : string) : ty :=
  if String.eqb t "std::complex<double>" then DoubleComplex
  else if String.eqb t "std::complex<float>" then FloatComplex
  else meaning (split_sp EmptyString t).

Definition ty_eqb (a b : ty) : bool :=
  match a, b with
  | Void, Void | Bool, Bool | Float, Float | Double, Double | LongDouble, LongDouble
  | FloatComplex, FloatComplex | DoubleComplex, DoubleComplex => true
  | Char x, Char y => x =? y
  | Int u s, Int u' s' => Bool.eqb u u' && (s =? s')
  | _, _ => false
  end.

Fixpoint lookup {A} (k : string) (l : list (string * A)) : option A :=
  match l with [] => None | (k', v) :: r => if String.eqb k k' then Some v else lookup k r end.
Definition canon (n : string) : string := match lookup n canonical_map with Some v => v | None => n end.

Fixpoint lists_of (n : nat) (w : list string) : list (list string) :=
  match n with
  | O => [[]]
  | S k => flat_map (fun x => map (cons x) (lists_of k w)) w
  end.
Definition lists_upto4 (w : list string) : list (list string) :=
  lists_of 1 w ++ lists_of 2 w ++ lists_of 3 w ++ lists_of 4 w.

Definition agrees (l : list string) : bool :=
  match lookup (canon (String.concat "_" l)) builtin_types with
  | Some (cxx, c, _) => negb (ty_eqb (meaning l) Invalid || match meaning l with Invalid => true | _ => false end)
                        && ty_eqb (meaning l) (meaning_text cxx) && ty_eqb (meaning l) (meaning_text c)
  | None => true
  end.

Theorem C09_accepted_specifier_lists_denote_their_typemap : forallb agrees (lists_upto4 specifier_words) = true.
Proof. vm_compute. reflexivity. Qed.
Print Assumptions C09_accepted_specifier_lists_denote_their_typemap.

(* lists of five or more words are never accepted: their joined name has at least four underscores, and no name that
   can be looked up (a typemap name, or a key / value of canonical_typemap) has more than three *)
Fixpoint count_us (s : string) : nat :=
  match s with EmptyString => 0 | String c r => (if Ascii.eqb c "_"%char then 1 else 0) + count_us r end.
Theorem C09_no_long_specifier_name :
  forallb (fun n => count_us n <=? 3) (map fst builtin_types ++ map fst canonical_map ++ map snd canonical_map) = true.
Proof. vm_compute. reflexivity. Qed.
Print Assumptions C09_no_long_specifier_name.

(* the model's canonical() (Shroud.Model.Decl) is the source's canonical_typemap *)
Theorem C09_model_canonical_is_the_source_map :
  forallb (fun kv => ueqb (canonical (cp (fst kv))) (cp (snd kv))) canonical_map
  && forallb (fun n => existsb (String.eqb n) (map fst canonical_map) || ueqb (canonical (cp n)) (cp n))
             (map fst builtin_types ++ map (String.concat "_") (lists_upto4 specifier_words)) = true.
Proof. vm_compute. reflexivity. Qed.
Print Assumptions C09_model_canonical_is_the_source_map.

(* the accepted lists (non-vacuity) *)
Example C09_some_lists_are_accepted :
  List.length (filter (fun l => match lookup (canon (String.concat "_" l)) builtin_types with Some _ => true | None => false end)
                      (lists_upto4 specifier_words)) = 24.
Proof. vm_compute. reflexivity. Qed.
