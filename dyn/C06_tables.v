(* dyn/C06_tables.v — theorems over the table REGENERATED from /repo/shroud/statements.py on this run
   (ShroudGen.GenOwnership, languages c and c++): temporaries and created objects of every C statement entry. *)
From Coq Require Import List String Bool Arith.
From ShroudGen Require Import GenOwnership.
Import ListNotations.
Open Scope string_scope.

Fixpoint str_list_eqb (a b : list string) : bool :=
  match a, b with
  | [], [] => true
  | x :: a', y :: b' => String.eqb x y && str_list_eqb a' b'
  | _, _ => false
  end.

(* every temporary buffer a wrapper allocates to convert an argument (ShroudStrAlloc / ShroudStrArrayAlloc / malloc) is
   freed by the same entry, on the same variable, in the same order *)
Theorem C06_temporaries_are_freed_by_the_same_entry :
  forallb (fun r => str_list_eqb (r_talloc r) (r_tfree r) && Nat.eqb (r_mallocs r) (r_frees r)) ownership_rows = true.
Proof. vm_compute. reflexivity. Qed.
Print Assumptions C06_temporaries_are_freed_by_the_same_entry.

(* every object an entry creates with new and hands out is recorded with a release code: either the entry carries its
   own capsule release code, which deletes a pointer of exactly the created type, or it is a class instance owned by the
   caller whose release code is the class's; in both cases the entry stores the destructor index *)
Definition new_is_covered (r : orow) (t : string) : bool :=
  (negb (String.eqb (r_dname r) "") && String.eqb (r_dkind r) "delete" && String.eqb (r_dcast r) t && r_sets_idtor r)
  || (String.eqb (r_owner r) "caller" && r_sets_idtor r).
Theorem C06_created_objects_have_matching_release_code :
  forallb (fun r => forallb (new_is_covered r) (r_news r)) ownership_rows = true.
Proof. vm_compute. reflexivity. Qed.
Print Assumptions C06_created_objects_have_matching_release_code.

(* a release code is a delete (of a typed pointer) or a free; nothing else *)
Theorem C06_release_codes_are_delete_or_free :
  forallb (fun r => String.eqb (r_dname r) "" ||
                    ((String.eqb (r_dkind r) "delete" || String.eqb (r_dkind r) "free") && negb (String.eqb (r_dcast r) ""))) ownership_rows = true.
Proof. vm_compute. reflexivity. Qed.
Print Assumptions C06_release_codes_are_delete_or_free.

(* no entry other than the class destructor deletes anything itself *)
Theorem C06_only_the_destructor_entry_deletes :
  forallb (fun r => match r_dels r with [] => true | _ => String.eqb (r_name r) "c_shadow_dtor" && str_list_eqb (r_dels r) ["{CXX_this}"] end)
          ownership_rows = true.
Proof. vm_compute. reflexivity. Qed.
Print Assumptions C06_only_the_destructor_entry_deletes.

Example C06_table_nonempty :
  Nat.ltb 40 (List.length ownership_rows) && Nat.ltb 3 (List.length (filter (fun r => match r_talloc r with [] => false | _ => true end) ownership_rows))
  && Nat.ltb 3 (List.length (filter (fun r => match r_news r with [] => false | _ => true end) ownership_rows)) = true.
Proof. vm_compute. reflexivity. Qed.
