(* dyn/C17_tables.v — theorems over tables REGENERATED from /repo/shroud on this run (ShroudGen.GenValidation:
   python-ast scan, fail closed): the exception class of every raise statement of the input-handling modules, and
   the constant lists of generate.VerifyAttrs, which must be the ones the model (Shroud.Model.Attrs) uses. *)
From Coq Require Import List String Bool.
From ShroudGen Require Import GenValidation.
From Shroud Require Import Model.Attrs.
Import ListNotations.
Open Scope string_scope.

Definition diagnostic_class (c : string) : bool :=
  existsb (String.eqb c) ["RuntimeError"; "NotImplementedError"; "SystemExit"; "bare:SystemExit"; "DeprecationWarning"; "reraise"].

(* reviewed sites that raise something else, each with the reason it is not an internal failure on user input:
   - ClassNode.__init__ TypeError x2: explicit messages about the YAML 'fields' type / an internal keyword;
   - util.Scope.__getattr__ AttributeError: the attribute protocol requires this class (hasattr/getattr default);
   - AstNode.unqualified_lookup 'raise NotImplemented': abstract method, overridden by every node class that can be a
     parser namespace (LibraryNode, NamespaceNode, ClassNode, BlockNode, FunctionNode) *)
Definition reviewed : list (string * string * string) :=
  [("ast.py", "ClassNode.__init__", "TypeError");
   ("util.py", "Scope.__getattr__", "AttributeError");
   ("ast.py", "AstNode.unqualified_lookup", "bare:NotImplemented")].

Definition site_eqb (a b : string * string * string) : bool :=
  String.eqb (fst (fst a)) (fst (fst b)) && String.eqb (snd (fst a)) (snd (fst b)) && String.eqb (snd a) (snd b).

Theorem C17_every_raise_is_a_diagnostic :
  forallb (fun s => diagnostic_class (snd s) || existsb (site_eqb s) reviewed) raise_sites = true.
Proof. vm_compute. reflexivity. Qed.
Print Assumptions C17_every_raise_is_a_diagnostic.

Fixpoint str_list_eqb (a b : list string) : bool :=
  match a, b with
  | [], [] => true
  | x :: a', y :: b' => String.eqb x y && str_list_eqb a' b'
  | _, _ => false
  end.

Definition the_list (fn lhs : string) : option (list string) :=
  match filter (fun e => String.eqb (fst (fst e)) fn && String.eqb (snd (fst e)) lhs) attr_lists with
  | [e] => Some (snd e)
  | _ => None
  end.
Definition same (o : option (list string)) (l : list string) : bool :=
  match o with Some x => str_list_eqb x l | None => false end.

(* the source's attribute-name and value lists are exactly the model's *)
Theorem C17_model_uses_the_source_lists :
  same (the_list "check_fcn_attrs" "attr") fcn_attr_names &&
  same (the_list "check_arg_attrs" "attr") arg_attr_names &&
  same (the_list "check_var_attrs" "attr") var_attr_names &&
  same (the_list "check_intent_attr" "intent") ["in"; "out"; "inout"] &&
  same (the_list "check_deref_attr" "deref") ["allocatable"; "pointer"; "raw"; "scalar"] &&
  same (the_list "check_common_attrs" "owner") ["caller"; "library"] = true.
Proof. vm_compute. reflexivity. Qed.
Print Assumptions C17_model_uses_the_source_lists.

Example C17_tables_nonempty : Nat.ltb 60 (List.length raise_sites) && Nat.ltb 5 (List.length attr_lists) = true.
Proof. vm_compute. reflexivity. Qed.
