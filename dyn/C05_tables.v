(* dyn/C05_tables.v — theorems over tables REGENERATED from /repo on this run (ShroudGen.GenHelpers). *)
From Coq Require Import List String Bool Arith ZArith NArith.
From Shroud Require Import Base.Ustr Model.Text Model.Splicer Model.HelperDeps Proof.HelperDeps.
From ShroudGen Require Import GenHelpers.
Import ListNotations.
Open Scope string_scope.

(* The dependency graphs of the C, Fortran and Lua helper tables have a rank certificate: every
   dependent_helpers entry names an existing helper (no KeyError) and the graph is acyclic. *)
Theorem C05_c_helper_table_ranked : ranked c_helpers_deps c_helpers_rank = true.
Proof. vm_compute. reflexivity. Qed.
Print Assumptions C05_c_helper_table_ranked.
Theorem C05_f_helper_table_ranked : ranked f_helpers_deps f_helpers_rank = true.
Proof. vm_compute. reflexivity. Qed.
Theorem C05_lua_helper_table_ranked : ranked lua_helpers_deps lua_helpers_rank = true.
Proof. vm_compute. reflexivity. Qed.

(* hence, for EVERY set of helpers a wrapper requests, the gathered helper code is duplicate free,
   closed under dependencies and every helper comes after the helpers it uses *)
Definition cfuel : nat := S (list_max c_helpers_rank).
Theorem C05_c_helpers_always_gathered_in_order : forall roots,
  forallb (fun r => Nat.ltb r (List.length c_helpers_deps)) roots = true ->
  let o := gather cfuel c_helpers_deps roots in
  NoDup o /\ (forall r, In r roots -> In r o) /\
  (forall m, In m o -> forall d, In d (deps c_helpers_deps m) -> In d o) /\
  (forall l1 m l2, o = (l1 ++ m :: l2)%list -> forall d, In d (deps c_helpers_deps m) -> In d l1).
Proof.
  intros roots Hr. apply gather_on_ranked_table with (rk := c_helpers_rank); [exact C05_c_helper_table_ranked|].
  rewrite forallb_forall in *. intros r Hin. specialize (Hr r Hin). apply Nat.ltb_lt. apply Nat.ltb_lt in Hr.
  unfold cfuel. apply Nat.lt_succ_r.
  assert (Hm : Forall (fun k => k <= list_max c_helpers_rank) c_helpers_rank) by (apply list_max_le; apply le_n).
  rewrite Forall_forall in Hm. apply Hm. apply nth_In.
  assert (E : List.length c_helpers_rank = List.length c_helpers_deps) by (vm_compute; reflexivity). rewrite E. exact Hr.
Qed.
Print Assumptions C05_c_helpers_always_gathered_in_order.

(* Every template block (statement clauses, helper texts) leaves the indentation where it found it and
   never makes write_lines fail: evaluated with the verified model of util.write_lines. *)
Definition wp : wparams := {| linelen := 10000; indent := 0%Z; spaces := cp " "; cont := [] |}.
Definition block_balanced (b : string * list string) : bool :=
  match write_lines wp (map (fun l => OStr (cp l)) (snd b)) with
  | Ok (_, i) => Z.eqb i 0
  | _ => false
  end.
Theorem C05_templates_keep_indentation_balanced : forallb block_balanced template_blocks = true.
Proof. vm_compute. reflexivity. Qed.
Print Assumptions C05_templates_keep_indentation_balanced.

(* Every (resolved) C statement entry lists in c_helper each string helper its clauses call, so the helper's
   code is requested for the file the wrapper lands in. *)
Definition use_ok (r : string * list string * list string) : bool :=
  match r with (_, declared, called) => forallb (fun h => existsb (String.eqb h) declared) called end.
Theorem C05_called_helpers_are_declared : forallb use_ok helper_use = true.
Proof. vm_compute. reflexivity. Qed.
Print Assumptions C05_called_helpers_are_declared.

Example C05_tables_nonempty : Nat.ltb 30 (List.length c_helpers_deps) && Nat.ltb 100 (List.length template_blocks) = true.
Proof. vm_compute. reflexivity. Qed.

(* a helper entry uses only the keys the gathering code reads: a misspelt key (and with it a lost dependency, include
   or prototype) is silently ignored by Python, so it is checked here *)
Definition known_helper_keys : list string :=
  ["c_include"; "c_source"; "cxx_include"; "cxx_proto"; "cxx_source"; "dependent_helpers"; "derived_type"; "include"; "interface";
   "modules"; "name"; "need_numpy"; "proto"; "scope"; "source"].
Theorem C05_helper_entries_use_known_keys :
  forallb (fun r => forallb (fun k => existsb (String.eqb k) known_helper_keys) (snd r)) helper_keys = true.
Proof. vm_compute. reflexivity. Qed.
Print Assumptions C05_helper_entries_use_known_keys.

(* every other helper a C helper's code calls is one of its declared dependencies (so that it is emitted, and before it) *)
Theorem C05_helper_code_calls_only_its_dependencies :
  forallb (fun r => match r with (_, called, deps) => forallb (fun c => existsb (String.eqb c) deps) called end) helper_calls = true.
Proof. vm_compute. reflexivity. Qed.
Print Assumptions C05_helper_code_calls_only_its_dependencies.
