(* dyn/C15_tables.v — theorems over the REGENERATED table of write_output_file() call sites
   (ShroudGen.GenWrites: python-ast scan of /repo/shroud/*.py on this run). *)
From Coq Require Import List String Bool.
From ShroudGen Require Import GenWrites.
Import ListNotations.
Open Scope string_scope.

(* the directory option each emitter must use *)
Definition dir_for (s : wsite) : string :=
  if String.eqb (ws_module s) "wrapc" || String.eqb (ws_module s) "wrapf" then "self.config.c_fortran_dir"
  else if String.eqb (ws_module s) "wrapp" then
         (if String.eqb (ws_func s) "write_setup" then "self.config.out_dir" else "self.config.python_dir")
  else if String.eqb (ws_module s) "wrapl" then "self.config.lua_dir"
  else if String.eqb (ws_module s) "main" then "self.config.yaml_dir"
  else "?".

(* every file is written inside the designated output directory for its kind *)
Theorem C15_every_write_site_uses_its_kinds_directory :
  forallb (fun s => String.eqb (ws_dir s) (dir_for s)) write_sites = true.
Proof. vm_compute. reflexivity. Qed.
Print Assumptions C15_every_write_site_uses_its_kinds_directory.

(* file lists: a C/C++ write site registers exactly os.path.join(<its dir>, <its file name>) in cfiles,
   a Fortran one in ffiles, nobody else registers in those lists *)
Definition joined (s : wsite) : string := "os.path.join(" ++ ws_dir s ++ ", " ++ ws_fname s ++ ")".
Definition list_for (s : wsite) : option string :=
  if String.eqb (ws_module s) "wrapc" then Some "cfiles"
  else if String.eqb (ws_module s) "wrapf" then Some "ffiles"
  else None.
Definition regs_ok (s : wsite) : bool :=
  match list_for s with
  | Some l =>
      match ws_regs s with
      | [(l', a)] => String.eqb l l' && String.eqb a (joined s)
      | _ => false
      end
  | None => forallb (fun r => negb (String.eqb (fst r) "cfiles" || String.eqb (fst r) "ffiles")) (ws_regs s)
  end.

Theorem C15_file_lists_register_exactly_what_is_written : forallb regs_ok write_sites = true.
Proof. vm_compute. reflexivity. Qed.
Print Assumptions C15_file_lists_register_exactly_what_is_written.

Example C15_table_nonempty : Nat.ltb 8 (List.length write_sites) = true.
Proof. vm_compute. reflexivity. Qed.
