(* dyn/C10_tables.v — theorems over the REGENERATED table of string-helper call sites
   (ShroudGen.CharCalls, produced from /repo/shroud/statements.py on this run). *)
From Coq Require Import List String Bool NArith ZArith.
From Shroud Require Import Base.Ustr Model.StrHelpers Proof.StrHelpers.
From ShroudGen Require Import CharCalls.
Import ListNotations.
Open Scope string_scope.

Definition is_len (s : string) : bool :=
  String.eqb s "{c_var_len}" || String.eqb s "{cfi_prefix}{c_var}->elem_len".
Definition is_trim (s : string) : bool := String.eqb s "{c_var_trim}".
Definition is_auto (s : string) : bool := String.eqb s "-1".

Fixpoint ends_with (suffix s : string) : bool :=
  String.eqb suffix s || match s with EmptyString => false | String _ r => ends_with suffix r end.

Definition classify (s : string) : option lenarg :=
  if is_len s then Some ALen else if is_trim s then Some ATrim else if is_auto s then Some AAuto else None.

Definition call_ok (c : hcall) : bool :=
  match c with
  | Call _ _ h args =>
      if String.eqb h "ShroudStrAlloc" then
        match args with
        | [_; nsrc; ntrim] =>
            match classify nsrc, classify ntrim with
            | Some a, Some b => alloc_form_ok a b
            | _, _ => false
            end
        | _ => false
        end
      else if String.eqb h "ShroudStrCopy" then
        match args with
        | [_; ndest; src; nsrc] =>
            is_len ndest && (is_auto nsrc || ends_with "size()" nsrc || (String.eqb src "{nullptr}" && String.eqb nsrc "0"))
        | _ => false
        end
      else if String.eqb h "ShroudStrBlankFill" then
        match args with [_; ndest] => is_len ndest | _ => false end
      else if String.eqb h "ShroudLenTrim" then
        match args with [_; n] => is_len n | _ => false end
      else if String.eqb h "ShroudStrFree" then
        match args with [_] => true | _ => false end
      else if String.eqb h "ShroudStrArrayAlloc" then
        match args with [_; n; len] => String.eqb n "{c_var_size}" && is_len len | _ => false end
      else if String.eqb h "ShroudStrArrayFree" then
        match args with [_; n] => String.eqb n "{c_var_size}" | _ => false end
      else false
  | UnknownCall _ _ => false
  (* a store by index into the caller's buffer: only the first character (a buffer has at least one), never at a computed
     position such as the trimmed length, which is outside a full variable *)
  | RawStore _ _ idx => String.eqb idx "0"
  (* a std::string built from the character argument: in a bufferify statement (the text is blank padded, not terminated) it is
     delimited by the trimmed length; from the argument alone only where the argument is a NUL-terminated C string *)
  | StringCtor stmt _ args =>
      match args with
      | [a] => if String.eqb a "{c_var}" then negb (ends_with "_buf" stmt) else true
      | [a; n] => if String.eqb a "{c_var}" then is_trim n else true
      | _ => true
      end
  end.

(* Every call site in the statement tables passes the declared length where a capacity is
   required and the trimmed length (or -1) where the text length is required. *)
Theorem C10_every_call_site_uses_the_right_length : forallb call_ok char_calls = true.
Proof. vm_compute. reflexivity. Qed.
Print Assumptions C10_every_call_site_uses_the_right_length.

(* ... which, for the ShroudStrAlloc sites, yields the documented input conversion: *)
Theorem C10_alloc_sites_trim_and_terminate : forall c stmt clause src nsrc ntrim,
  In c char_calls -> c = Call stmt clause "ShroudStrAlloc" [src; nsrc; ntrim] ->
  exists a b, classify nsrc = Some a /\ classify ntrim = Some b /\
    forall text, exists pad,
      str_alloc text (den_nsrc text a) (den_ntrim text b) = ((rtrim_blank text ++ [NUL] ++ pad)%list, true).
Proof.
  intros c stmt clause src nsrc ntrim Hin ->.
  pose proof C10_every_call_site_uses_the_right_length as H.
  rewrite forallb_forall in H. specialize (H _ Hin). simpl in H.
  destruct (classify nsrc) as [a|]; [|discriminate]. destruct (classify ntrim) as [b|]; [|discriminate].
  exists a, b. repeat split. intros text. apply alloc_form_sound. exact H.
Qed.
Print Assumptions C10_alloc_sites_trim_and_terminate.

(* the table is not empty (non-vacuity) *)
Example C10_table_nonempty : Nat.ltb 10 (List.length char_calls) = true.
Proof. vm_compute. reflexivity. Qed.
