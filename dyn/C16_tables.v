(* dyn/C16_tables.v — theorem over the REGENERATED table of emission sites guarded by the documentation /
   debug options (ShroudGen.GenGuards: python-ast scan of /repo/shroud/*.py on this run, fail closed). *)
From Coq Require Import List String Bool.
From ShroudGen Require Import GenGuards.
Import ListNotations.
Open Scope string_scope.

Definition comment_only (k : string) : bool :=
  String.eqb k "Comment" || String.eqb k "Blank" || String.eqb k "DocCall" || String.eqb k "Field" || String.eqb k "LocalTemp".

(* Every statement guarded by debug / debug_index / doxygen / literalinclude / show_splicer_comments
   (and every else-branch of such a test) only appends comment or blank lines, calls a comment producer,
   sets a literalinclude marker field to comment text, or computes declaration text for a comment.
   In particular none of these options guards a write_output_file() or a cfiles/ffiles registration,
   so the same set of files is produced. *)
Theorem C16_guarded_sites_are_comment_only :
  forallb (fun s => forallb (fun e => comment_only (fst e)) (gs_effects s)) guard_sites = true.
Proof. vm_compute. reflexivity. Qed.
Print Assumptions C16_guarded_sites_are_comment_only.

(* the version stamp is written as a comment line of the file's language *)
Theorem C16_version_stamp_is_a_comment : version_sites_ok = true.
Proof. vm_compute. reflexivity. Qed.
Print Assumptions C16_version_stamp_is_a_comment.

Example C16_table_nonempty : Nat.ltb 40 (List.length guard_sites) = true.
Proof. vm_compute. reflexivity. Qed.
