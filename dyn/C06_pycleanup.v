(* dyn/C06_pycleanup.v — table theorem over the Python wrapper statements of /repo (regenerated on every run): whatever a statement
   releases on the normal exit path (cleanup: the argument's temporary buffer / capsule object) it also releases on the error
   exit path (fail), so a later argument that fails to convert does not leak the buffers of the earlier ones. *)
From Coq Require Import List String Bool.
From ShroudGen Require Import GenPyCleanup.
Import ListNotations.
Open Scope string_scope.

Definition smem (s : string) (l : list string) : bool := existsb (String.eqb s) l.
Definition row_ok (r : string * list string * list string) : bool :=
  let '(_, c, f) := r in forallb (fun x => smem x f) c.

Theorem C06_python_error_path_releases_what_the_normal_path_releases : forallb row_ok py_cleanup_rows = true.
Proof. vm_compute. reflexivity. Qed.
Print Assumptions C06_python_error_path_releases_what_the_normal_path_releases.

Example C06_pycleanup_nonempty : Nat.leb 3 (List.length py_cleanup_rows) = true.
Proof. vm_compute. reflexivity. Qed.
