(* Line-protocol driver around the extracted model.
   stdin : one case per line, fields separated by '|':  cmd|f1|f2|...
           text field  = space separated decimal code points ("" = empty string)
   stdout: one result line per case. *)
open Model

let rec pos_of_int n = if n = 1 then XH else if n land 1 = 0 then XO (pos_of_int (n lsr 1)) else XI (pos_of_int (n lsr 1))
let n_of_int n = if n = 0 then N0 else Npos (pos_of_int n)
let z_of_int n = if n = 0 then Z0 else if n > 0 then Zpos (pos_of_int n) else Zneg (pos_of_int (-n))
let rec nat_of_int n = if n <= 0 then O else S (nat_of_int (n - 1))
let rec int_of_pos = function XH -> 1 | XO p -> 2 * int_of_pos p | XI p -> 2 * int_of_pos p + 1
let int_of_n = function N0 -> 0 | Npos p -> int_of_pos p
let int_of_z = function Z0 -> 0 | Zpos p -> int_of_pos p | Zneg p -> - (int_of_pos p)
let rec int_of_nat = function O -> 0 | S n -> 1 + int_of_nat n

let ustr_of_field s =
  if s = "" then [] else List.map (fun x -> n_of_int (int_of_string x)) (String.split_on_char ' ' s)
let field_of_ustr u = String.concat " " (List.map (fun c -> string_of_int (int_of_n c)) u)
let lines_out ls = String.concat ";" (List.map field_of_ustr ls)
let exc_name = function IndexError -> "IndexError" | KeyError -> "KeyError"
  | AttributeError -> "AttributeError" | TypeError -> "TypeError" | ValueError -> "ValueError"
let show_result f = function
  | Ok a -> "OK|" ^ f a
  | Reject m -> "REJECT|" ^ field_of_ustr m
  | Crash e -> "CRASH|" ^ exc_name e
  | OutOfFuel -> "FUEL|"

let wparams f1 f2 f3 f4 =
  { linelen = nat_of_int (int_of_string f1); indent = z_of_int (int_of_string f2);
    spaces = ustr_of_field f3; cont = ustr_of_field f4 }

(* oline list: items separated by ';' ; "i<int>" or "s<text>" *)
let olines_of_field s =
  if s = "" then [] else
  List.map (fun it ->
      if it.[0] = 'i' then OInt (z_of_int (int_of_string (String.sub it 1 (String.length it - 1))))
      else OStr (ustr_of_field (String.sub it 1 (String.length it - 1))))
    (String.split_on_char ';' s)

(* counted line list: "<n>:<l1>;<l2>..." *)
let clines_of_field s =
  let i = String.index s ':' in
  let n = int_of_string (String.sub s 0 i) in
  let rest = String.sub s (i + 1) (String.length s - i - 1) in
  if n = 0 then [] else List.map ustr_of_field (String.split_on_char ';' rest)
let opt_clines s = if s = "N" then None else Some (clines_of_field (String.sub s 1 (String.length s - 1)))

let rec show_tree = function
  | Leaf code -> "[" ^ string_of_int (List.length code) ^ ":" ^ lines_out code ^ "]"
  | Node kids -> show_kids kids
and show_kids kids =
  "{" ^ String.concat "," (List.map (fun (k, v) -> field_of_ustr k ^ ":" ^ show_tree v) kids) ^ "}"

(* flat level: "name=<clines>,name=<clines>" *)
let level_of_field s =
  if s = "" then [] else
  List.map (fun it ->
      let i = String.index it '=' in
      (ustr_of_field (String.sub it 0 i), Leaf (clines_of_field (String.sub it (i + 1) (String.length it - i - 1)))))
    (String.split_on_char ',' s)

(* scope ops *)
let alist_of s = if s = "" then [] else
  List.map (fun it -> match String.split_on_char '=' it with
    | [k; v] -> (n_of_int (int_of_string k), n_of_int (int_of_string v)) | _ -> failwith "alist") (String.split_on_char ',' s)
let optid s = if s = "-" then None else Some (nat_of_int (int_of_string s))
let sop_of s =
  let nn x = nat_of_int (int_of_string x) and kk x = n_of_int (int_of_string x) in
  match String.split_on_char ':' s with
  | ["new"; p; kw] -> ONew (optid p, alist_of kw)
  | ["set"; i; k; v] -> OSet (nn i, kk k, kk v)
  | ["get"; i; k] -> OGet (nn i, kk k)
  | ["has"; i; k] -> OHas (nn i, kk k)
  | ["getd"; i; k; v] -> OGetD (nn i, kk k, kk v)
  | ["setdefault"; i; k; v] -> OSetDefault (nn i, kk k, kk v)
  | ["update"; i; d; r] -> OUpdate (nn i, alist_of d, r = "1")
  | ["inlocal"; i; k] -> OInLocal (nn i, kk k)
  | ["del"; i; ks] -> ODel (nn i, if ks = "" then [] else List.map kk (String.split_on_char ',' ks))
  | ["clone"; i] -> OClone (nn i)
  | ["reparent"; i; p] -> OReparent (nn i, optid p)
  | _ -> failwith ("bad sop " ^ s)
let show_sout = function
  | RNone -> "N" | RVal v -> "V" ^ string_of_int (int_of_n v) | RBool b -> if b then "B1" else "B0"
  | RId n -> "I" ^ string_of_int (int_of_nat n) | RAttrErr -> "A" | RRecursion -> "R"

(* expressions *)
let rec show_expr = function
  | EIdent (n, None) -> "(id " ^ field_of_ustr n ^ ")"
  | EIdent (n, Some args) -> "(call " ^ field_of_ustr n ^ String.concat "" (List.map (fun a -> " " ^ show_expr a) args) ^ ")"
  | EConst v -> "(const " ^ field_of_ustr v ^ ")"
  | EBin (l, op, r) -> "(bin " ^ show_expr l ^ " " ^ field_of_ustr op ^ " " ^ show_expr r ^ ")"
  | EUn (op, e) -> "(un " ^ field_of_ustr op ^ " " ^ show_expr e ^ ")"
  | EParen e -> "(paren " ^ show_expr e ^ ")"
let kind_name = function
  | REAL -> "REAL" | INTEGER -> "INTEGER" | DQUOTE -> "DQUOTE" | SQUOTE -> "SQUOTE" | LPAREN -> "LPAREN" | RPAREN -> "RPAREN"
  | LCURLY -> "LCURLY" | RCURLY -> "RCURLY" | LBRACKET -> "LBRACKET" | RBRACKET -> "RBRACKET" | STAR -> "STAR"
  | EQUALS -> "EQUALS" | REF -> "REF" | PLUS -> "PLUS" | MINUS -> "MINUS" | SLASH -> "SLASH" | COMMA -> "COMMA"
  | SEMICOLON -> "SEMICOLON" | LT -> "LT" | GT -> "GT" | TILDE -> "TILDE" | NAMESPACE -> "NAMESPACE" | COLON -> "COLON"
  | VARARG -> "VARARG" | ID -> "ID" | OTHER -> "OTHER" | TYPE_SPECIFIER -> "TYPE_SPECIFIER" | TYPE_QUALIFIER -> "TYPE_QUALIFIER"
  | STORAGE_CLASS -> "STORAGE_CLASS" | KW_CLASS -> "CLASS" | KW_ENUM -> "ENUM" | KW_NAMESPACE -> "NAMESPACE"
  | KW_STRUCT -> "STRUCT" | KW_TEMPLATE -> "TEMPLATE" | KW_TYPENAME -> "TYPENAME" | KW_PUBLIC -> "PUBLIC"
  | KW_PRIVATE -> "PRIVATE" | KW_PROTECTED -> "PROTECTED" | EOF -> "EOF"
let sym_of_field s = if s = "" then [] else
  List.map (fun it -> match String.split_on_char '=' it with
    | [k; v] -> (ustr_of_field k, ustr_of_field v) | _ -> failwith "sym") (String.split_on_char ',' s)
let show_members ms = String.concat ";" (List.map (fun (n, v) ->
  field_of_ustr n ^ "=" ^ (match v with None -> "-" | Some e -> show_expr e)) ms)

(* lua dispatch: overloads "tags:defaults:hasresult;..." ("-" = none), stack tags *)
let ltag_of = function 'N' -> LNum | 'B' -> LBool | 'S' -> LStr | 'U' -> LUser | _ -> LNil
let chars s = if s = "-" then [] else List.init (String.length s) (String.get s)
let lfun_of s = match String.split_on_char ':' s with
  | [tags; dfl; res] ->
      { f_params = List.map2 (fun t d -> { p_tag = ltag_of t; p_default = (d = '1') }) (chars tags) (chars dfl);
        f_result = (res = "1") }
  | _ -> failwith "lfun"

(* python dispatch: overloads "fmts:defaults;..." ; positional tags ; keywords "idx=tag,..." (idx '-' = unknown name) *)
let pfmt_of = function 'i' -> FInt | 'd' -> FDouble | 'b' -> FBool | _ -> FStr
let ptag_of = function 'I' -> PInt | 'F' -> PFloat | 'B' -> PBool | _ -> PStr
let pfun_of s = match String.split_on_char ':' s with
  | [fm; dfl] -> List.map2 (fun f d -> { pp_fmt = pfmt_of f; pp_default = (d = '1') }) (chars fm) (chars dfl)
  | _ -> failwith "pfun"
let kws_of s = if s = "-" || s = "" then [] else
  List.map (fun it -> match String.split_on_char '=' it with
    | [k; t] -> ((if k = "-" then None else Some (nat_of_int (int_of_string k))), ptag_of t.[0])
    | _ -> failwith "kw") (String.split_on_char ',' s)
let show_src = function SPos i -> "P" ^ string_of_int (int_of_nat i) | SKw j -> "K" ^ string_of_int (int_of_nat j) | SUninit -> "U"


(* declarations *)
let us u = "[" ^ field_of_ustr u ^ "]"
let usl l = "{" ^ String.concat "," (List.map us l) ^ "}"
let b01 b = if b then "1" else "0"
let show_ptr p = "P(" ^ us p.p_ptr ^ b01 p.p_const ^ b01 p.p_volatile ^ ")"
let rec show_dtor = function
  | None -> "None"
  | Some (Dtor (ps, name, func)) ->
      "T(" ^ String.concat "" (List.map show_ptr ps) ^ ";" ^ (match name with None -> "None" | Some n -> us n) ^ ";" ^ show_dtor func ^ ")"
let rec strip0 = function c :: (_ :: _ as r) when int_of_n c = 48 -> strip0 r | l -> l
let show_av = function
  | AVTrue -> "T" | AVStr v -> "S" ^ us v | AVInt v -> "I" ^ us (strip0 v) | AVReal v -> "R" ^ us v | AVNone -> "N"
let rec show_decl (Decl (spec, storage, c, v, tm, dt, params, arr, attrs, init, targs, fc)) =
  "D(" ^ usl spec ^ ";" ^ usl storage ^ ";" ^ b01 c ^ b01 v ^ ";" ^ us tm ^ ";" ^ show_dtor dt ^ ";" ^
  (match params with None -> "None" | Some ps -> "<" ^ String.concat "," (List.map show_decl ps) ^ ">") ^ ";" ^
  "<" ^ String.concat "," (List.map show_expr arr) ^ ">;" ^
  "<" ^ String.concat "," (List.map (fun (k, v) -> us k ^ "=" ^ show_av v) attrs) ^ ">;" ^ show_av init ^ ";" ^
  "<" ^ String.concat "," (List.map show_decl targs) ^ ">;" ^ b01 fc ^ ")"
let rec show_stmt = function
  | SDecl d -> show_decl d
  | SClass (n, bases) -> "C(" ^ us n ^ ";" ^ String.concat "," (List.map (fun (a, b) -> us a ^ us b) bases) ^ ")"
  | SNamespace n -> "NS(" ^ us n ^ ")"
  | STemplate (ps, body) -> "TP(" ^ usl ps ^ ";" ^ show_stmt body ^ ")"
  | SStruct (n, ms) -> "ST(" ^ us n ^ ";" ^ String.concat "," (List.map show_decl ms) ^ ")"
  | SEnum e -> "E(" ^ us e.en_name ^ ";" ^ (match e.en_scope with None -> "-" | Some s -> us s) ^ ";" ^ show_members e.en_members ^ ")"

(* context: a flat list of ints.  name := len cp* ; sym := id kind tmtag [name] nmem (name sym)* *)
let ctx_of_field s =
  let a = Array.of_list (if s = "" then [] else List.map int_of_string (String.split_on_char ' ' s)) in
  let i = ref 0 in
  let nx () = let v = a.(!i) in incr i; v in
  let name () = let n = nx () in List.init n (fun _ -> n_of_int (nx ())) in
  let rec sym () =
    let id = nx () in
    let kind = (match nx () with 0 -> KScope | 1 -> KLeaf | _ -> KParam) in
    let tm = (match nx () with 0 -> TmMissing | 1 -> TmNone | _ -> TmName (name ())) in
    let n = nx () in
    let mem = List.init n (fun _ -> let k = name () in let v = sym () in (k, v)) in
    Sym (nat_of_int id, kind, tm, mem) in
  let cur = nx () in
  let isc = nx () <> 0 in
  let cname = name () in
  let n = nx () in
  let sc = List.init n (fun _ -> let k = name () in let v = sym () in (k, v)) in
  let m = nx () in
  let known = List.init m (fun _ -> name ()) in
  { cur_id = nat_of_int cur; cur_is_class = isc; cur_name = cname; scope = sc; known_types = known }

let aenv_of_field s =
  let a = Array.of_list (if s = "" then [] else List.map int_of_string (String.split_on_char ' ' s)) in
  let i = ref 0 in
  let nx () = let v = a.(!i) in incr i; v in
  let name () = let n = nx () in List.init n (fun _ -> n_of_int (nx ())) in
  let n = nx () in
  let tms = List.init n (fun _ -> let k = name () in let b = name () in let g = name () in (k, (b, g))) in
  let m = nx () in
  let pats = List.init m (fun _ -> name ()) in
  { tminfo = tms; patterns = pats }

(* names: fn list "name:ndef:suffix:das:tmpl:generic;..."  suffix = "-" | "S<ustr>", lists comma separated ("-" empty),
   tmpl items "ex/flat" with ex = "-" | "S<ustr>" *)
let optu s = if s = "-" then None else Some (ustr_of_field (String.sub s 1 (String.length s - 1)))
let lst f s = if s = "-" || s = "" then [] else List.map f (String.split_on_char ',' s)
let fn_of s = match String.split_on_char ':' s with
  | [n; nd; sx; das; tm; ge] ->
      { f_name = ustr_of_field n; f_ndef = nat_of_int (int_of_string nd); f_suffix = optu sx;
        f_das = lst (fun x -> ustr_of_field (String.sub x 1 (String.length x - 1))) das;
        f_tmpl = lst (fun x -> match String.split_on_char '/' x with [a; b] -> (optu a, ustr_of_field b) | _ -> failwith "tmpl") tm;
        f_generic = lst (fun x -> ustr_of_field (String.sub x 1 (String.length x - 1))) ge }
  | _ -> failwith "fn"
let show_origin = function Orig -> "O" | DefaultArg k -> "D" ^ string_of_int (int_of_nat k)
  | Template k -> "T" ^ string_of_int (int_of_nat k) | Generic k -> "G" ^ string_of_int (int_of_nat k)

let handle fields =
  match fields with
  | ["wc"; ll; ind; sp; ct; line] ->
      show_result lines_out (write_continue (wparams ll ind sp ct) (ustr_of_field line))
  | ["wl"; ll; ind; sp; ct; ols] ->
      show_result (fun (ls, i) -> string_of_int (int_of_z i) ^ "|" ^ lines_out ls)
        (write_lines (wparams ll ind sp ct) (olines_of_field ols))
  | "gs" :: files ->
      let r = List.fold_left (fun acc f -> bind acc (fun t -> get_splicers (clines_of_field f) t)) (Ok []) files in
      show_result show_kids r
  | ["cs"; show; comment; path; name; level; dflt; force] ->
      show_result (fun (ls, b) -> (if b then "T" else "F") ^ "|" ^ string_of_int (List.length ls) ^ ":" ^ lines_out ls)
        (create_splicer (show = "1") (ustr_of_field comment) (ustr_of_field path) (ustr_of_field name)
           (level_of_field level) (opt_clines dflt) (opt_clines force))
  | ["scope"; ops] ->
      let ops = if ops = "" then [] else List.map sop_of (String.split_on_char ';' ops) in
      String.concat " " (List.map show_sout (srun [] ops))
  | ["optval"; s] ->
      (match cli_value (ustr_of_field s) with
       | VBool b -> if b then "B1" else "B0"
       | VInt z -> "I" ^ string_of_int (int_of_z z)
       | VStr u -> "S" ^ field_of_ustr u)
  | ["lt"; src; nsrc] ->
      let (n, ok) = len_trim (ustr_of_field src) (nat_of_int (int_of_string nsrc)) in
      (if ok then "1|" else "0|") ^ string_of_int (int_of_nat n)
  | ["cp"; dest; ndest; src; nsrc] ->
      let s = if src = "-" then None else Some (ustr_of_field src) in
      let (o, ok) = str_copy (ustr_of_field dest) (nat_of_int (int_of_string ndest)) s (z_of_int (int_of_string nsrc)) in
      (if ok then "1|" else "0|") ^ field_of_ustr o
  | ["bf"; dest; ndest] ->
      let (o, ok) = blank_fill (ustr_of_field dest) (nat_of_int (int_of_string ndest)) in
      (if ok then "1|" else "0|") ^ field_of_ustr o
  | ["al"; src; nsrc; ntrim] ->
      let (o, ok) = str_alloc (ustr_of_field src) (nat_of_int (int_of_string nsrc)) (z_of_int (int_of_string ntrim)) in
      (if ok then "1|" else "0|") ^ field_of_ustr o
  | ["aa"; src; nsrc; len] ->
      let (o, ok) = str_array_alloc (ustr_of_field src) (nat_of_int (int_of_string nsrc)) (nat_of_int (int_of_string len)) in
      (if ok then "1|" else "0|") ^ lines_out o
  | ["tok"; s] ->
      String.concat ";" (List.map (fun t -> kind_name t.tk ^ ":" ^ field_of_ustr t.tv) (tokenize (ustr_of_field s)))
  | ["expr"; s] -> show_result show_expr (check_expr (ustr_of_field s))
  | ["printexpr"; s] -> show_result (fun e -> field_of_ustr (print_expr e)) (check_expr (ustr_of_field s))
  | ["enum"; s] ->
      show_result (fun e -> field_of_ustr e.en_name ^ "|" ^ (match e.en_scope with None -> "-" | Some x -> field_of_ustr x)
                            ^ "|" ^ show_members e.en_members) (parse_enum (ustr_of_field s))
  | ["derive"; s; csym; fsym] ->
      show_result (fun e ->
          String.concat ";" (List.map (fun m -> field_of_ustr m.mo_name ^ "=" ^
              (match m.mo_cvalue with None -> "-" | Some c -> "C" ^ field_of_ustr c) ^ "=" ^ field_of_ustr m.mo_fvalue)
            (derive (sym_of_field csym) (sym_of_field fsym) e.en_members))
          ^ "|" ^ (match cxx_values e.en_members with
                   | None -> "novalue"
                   | Some vs -> String.concat "," (List.map (fun (_, z) -> string_of_int (int_of_z z)) vs)))
        (parse_enum (ustr_of_field s))
  | ["lua"; meth; ovs; stack] ->
      let lay = if meth = "1" then lay_method else lay_function in
      (match dispatch lay (List.map lfun_of (String.split_on_char ';' ovs)) (List.map ltag_of (chars stack)) with
       | LError -> "ERR"
       | LCalls (cs, nres) ->
           "CALLS " ^ String.concat ";" (List.map (fun (c, ix) ->
               string_of_int (int_of_nat c.c_fun) ^ ":" ^ string_of_int (List.length c.c_in) ^ ":" ^
               String.concat "," (List.map (fun i -> string_of_int (int_of_nat i)) ix)) cs)
           ^ "|" ^ string_of_int (int_of_nat nres))
  | ["py"; ovs; pos; kws] ->
      (match py_dispatch (List.map pfun_of (String.split_on_char ';' ovs))
               { pc_pos = List.map ptag_of (chars pos); pc_kws = kws_of kws } with
       | None -> "NONE"
       | Some (i, PTypeError) -> "TypeError"
       | Some (i, PValueError) -> "ValueError"
       | Some (i, PCalled (n, srcs)) ->
           "CALL " ^ string_of_int (int_of_nat i) ^ " " ^ string_of_int (int_of_nat n) ^ " " ^ String.concat "," (List.map show_src srcs))
  | ["gather"; tbl; roots] ->
      let ints s = if s = "" then [] else List.map (fun x -> nat_of_int (int_of_string x)) (String.split_on_char ',' s) in
      let t = List.map ints (String.split_on_char ';' tbl) in
      let n = List.length t in
      String.concat " " (List.map (fun k -> string_of_int (int_of_nat k)) (gather (nat_of_int (n + 2)) t (ints roots)))
  | ["verify"; c; e; k; s] -> show_result (fun () -> "") (parse_and_verify (ctx_of_field c) (aenv_of_field e) (k = "var") (ustr_of_field s))
  | ["reparse"; c; s] ->
      show_result (fun ((st, t), r2) -> show_stmt st ^ "|" ^ field_of_ustr t ^ "|" ^ show_result show_stmt r2)
        (reparse (ctx_of_field c) (ustr_of_field s))
  | ["ecanon"; s] ->
      (* is the parsed expression in the canonical form of the C11 re-parse theorem, and does its rendering re-parse to it? *)
      (match check_expr (ustr_of_field s) with
       | Ok e -> if canon e && etext e then (match check_expr (print_expr e) with Ok e2 -> if e2 = e then "IN" else "IN-BUT-DIFFERS" | _ -> "IN-BUT-REJECTED") else "OUT"
       | _ -> "NA")
  | ["frag"; c; s] ->
      (* is the parsed declaration inside the fragment of the C09 round-trip theorems? *)
      let cx = ctx_of_field c in
      (match parse_statement cx (ustr_of_field s) with
       | Ok (SDecl d) -> if in_fragment cx d && text_fragment d then "IN" else "OUT"
       | _ -> "NA")
  | ["names"; prefix; scope; fscope; fns] ->
      let fs = if fns = "" then [] else List.map fn_of (String.split_on_char ';' fns) in
      let p, sc, fsc = ustr_of_field prefix, ustr_of_field scope, ustr_of_field fscope in
      String.concat ";" (List.map (fun e ->
        string_of_int (int_of_nat e.e_src) ^ show_origin e.e_origin ^ ":" ^
        (if e.e_c then field_of_ustr (nm_c_name p sc e) else "-") ^ ":" ^
        (if e.e_f then field_of_ustr (nm_f_impl fsc e) else "-") ^ ":" ^ field_of_ustr (nm_f_generic e)) (expand fs))
  | ["namesw"; prefix; scope; fscope; fns; flags] ->
      (* the same with wrap flags per declared function: "TT,TF,FF" = (wrap_c, wrap_fortran) *)
      let fs = if fns = "" then [] else List.map fn_of (String.split_on_char ';' fns) in
      let ws = if flags = "" then [] else List.map (fun w -> (w.[0] = 'T', w.[1] = 'T')) (String.split_on_char ',' flags) in
      let p, sc, fsc = ustr_of_field prefix, ustr_of_field scope, ustr_of_field fscope in
      String.concat ";" (List.map (fun e ->
        string_of_int (int_of_nat e.e_src) ^ show_origin e.e_origin ^ ":" ^
        (if e.e_c then field_of_ustr (nm_c_name p sc e) else "-") ^ ":" ^
        (if e.e_f then field_of_ustr (nm_f_impl fsc e) else "-") ^ ":" ^ field_of_ustr (nm_f_generic e)) (expand_w fs ws))
  | ["pycompile"; ops] ->
      (* Python-level operations -> the capsule operations a reference-counting extension performs (PyHandles.compile) *)
      let pop_of t = match String.split_on_char ':' t with
        | ["PN"; k] -> PNew (nat_of_int (int_of_string k)) | ["PB"; a] -> PBorrow (nat_of_int (int_of_string a)) | ["PL"] -> PLib
        | ["PA"; v] -> PAlias (nat_of_int (int_of_string v)) | ["PD"; v] -> PDrop (nat_of_int (int_of_string v))
        | ["PM"; v] -> PMethod (nat_of_int (int_of_string v)) | _ -> failwith "pyop" in
      let show_op = function
        | New k -> "N:" ^ string_of_int (int_of_nat k) | Borrow a -> "B:" ^ string_of_int (int_of_nat a) | LibObject -> "L"
        | Method h -> "M:" ^ string_of_int (int_of_nat h) | Destroy h -> "D:" ^ string_of_int (int_of_nat h)
        | Release h -> "R:" ^ string_of_int (int_of_nat h) | Copy h -> "C:" ^ string_of_int (int_of_nat h) in
      let l = if ops = "" then [] else List.map pop_of (String.split_on_char ',' ops) in
      String.concat "," (List.map show_op (compile py_init l))
  | ["capsule"; ops] ->
      let op_of t = match String.split_on_char ':' t with
        | ["N"; k] -> New (nat_of_int (int_of_string k)) | ["B"; a] -> Borrow (nat_of_int (int_of_string a)) | ["L"] -> LibObject
        | ["M"; h] -> Method (nat_of_int (int_of_string h)) | ["D"; h] -> Destroy (nat_of_int (int_of_string h))
        | ["R"; h] -> Release (nat_of_int (int_of_string h)) | ["C"; h] -> Copy (nat_of_int (int_of_string h)) | _ -> failwith "op" in
      let ops = if ops = "" then [] else List.map op_of (String.split_on_char ',' ops) in
      (* index of the first failing operation: run the prefixes *)
      let rec first_fail s i = function
        | [] -> (s, i, Done)
        | o :: r -> (match cstep s o with (s1, Done) -> first_fail s1 (i + 1) r | (s1, e) -> (s1, i, e)) in
      let (s, i, e) = first_fail init 0 ops in
      let name = (match e with Done -> "Done" | DoubleFree -> "DoubleFree" | UseAfterFree -> "UseAfterFree" | WrongDeallocator -> "WrongDeallocator"
        | FreeOfLibraryOwned -> "FreeOfLibraryOwned" | NullHandle -> "NullHandle" | BadOp -> "BadOp") in
      let live k = List.length (List.filter (fun o -> int_of_nat o.o_kind = k && o.o_live) s.oheap) in
      Printf.sprintf "%s %d live1=%d live2=%d live3=%d live4=%d live5=%d" name i (live 1) (live 2) (live 3) (live 4) (live 5)
  | ["uncamel"; s] -> field_of_ustr (un_camel (ustr_of_field s))
  | ["decl"; c; s] -> show_result show_stmt (parse_statement (ctx_of_field c) (ustr_of_field s))
  | ["lstrip"; s] -> field_of_ustr (lstrip (ustr_of_field s))
  | ["rstrip"; s] -> field_of_ustr (rstrip (ustr_of_field s))
  | _ -> "BADCMD"

let () =
  try
    while true do
      let l = input_line stdin in
      print_string (handle (String.split_on_char '|' l));
      print_char '\n'
    done
  with End_of_file -> ()
