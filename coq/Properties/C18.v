(* Properties/C18.v — the generated Lua binding is call-equivalent to the wrapped library
   (dispatch logic; the meaning of lua_to*/lua_push* templates is validated by execution). *)
From Coq Require Import List NArith Bool Arith.
From Shroud Require Import Model.LuaDispatch Proof.LuaDispatch.
Import ListNotations.

(* Every call variation the wrapper can make is an overload with a prefix of its parameters supplied,
   the first omitted parameter (hence, for C++, all omitted ones) having a default. *)
Theorem C18_variations_are_default_prefixes : forall ovs c, In c (all_calls ovs) ->
  exists f, nth_error ovs (c_fun c) = Some f /\
            exists k, c_in c = firstn k (f_params f) /\ k <= length (f_params f) /\
            (k < length (f_params f) -> exists p, nth_error (f_params f) k = Some p /\ p_default p = true).
Proof. exact all_calls_spec. Qed.
Print Assumptions C18_variations_are_default_prefixes.

(* Selection is sound: the selected variation takes exactly the supplied number of arguments and its
   parameter types are the Lua types found on the stack. *)
Theorem C18_selection_sound : forall lay ovs stack c ix nres, multi ovs -> length stack - count_off lay <> 0 ->
  dispatch lay ovs stack = LCalls [(c, ix)] nres ->
  In c (all_calls ovs) /\ length (c_in c) = length stack - count_off lay /\
  types_match lay stack 0 (c_in c) = true /\ ix = idxs lay (length (c_in c)) /\ nres = c_nres c.
Proof. exact select_sound. Qed.
Print Assumptions C18_selection_sound.

(* Selection is complete: the first matching variation in declaration order is taken ... *)
Theorem C18_first_match_selected : forall lay ovs stack c ix nres, multi ovs -> length stack - count_off lay <> 0 ->
  dispatch lay ovs stack = LCalls [(c, ix)] nres ->
  exists before after,
    filter (fun c => Nat.eqb (length (c_in c)) (length stack - count_off lay)) (all_calls ovs) = before ++ c :: after /\
    forallb (fun y => negb (types_match lay stack 0 (c_in y))) before = true.
Proof. exact select_first. Qed.
Print Assumptions C18_first_match_selected.

(* ... and a stack matching no variation raises a Lua error (wrong types, or wrong count). *)
Theorem C18_no_match_is_error : forall lay ovs stack, multi ovs ->
  (forall c, In c (all_calls ovs) -> length (c_in c) = length stack - count_off lay ->
             types_match lay stack 0 (c_in c) = false) ->
  length stack - count_off lay <> 0 -> dispatch lay ovs stack = LError.
Proof. exact select_none. Qed.
Print Assumptions C18_no_match_is_error.

Theorem C18_wrong_count_is_error : forall lay ovs stack, multi ovs ->
  (forall c, In c (all_calls ovs) -> length (c_in c) <> length stack - count_off lay) ->
  dispatch lay ovs stack = LError.
Proof. exact count_mismatch_error. Qed.
Print Assumptions C18_wrong_count_is_error.

(* Values: argument k of the selected call is read from the very stack slot whose type was checked,
   the k-th slot after the object (methods) / from the bottom (functions, constructors). *)
Theorem C18_values_from_checked_slots : forall lay ovs stack c ix nres k p, consistent lay -> multi ovs ->
  length stack - count_off lay <> 0 ->
  dispatch lay ovs stack = LCalls [(c, ix)] nres ->
  nth_error (c_in c) k = Some p ->
  exists i, nth_error ix k = Some i /\ i = first_arg lay + k /\
            nth_error stack (i - 1) = Some (p_tag p) /\ i - 1 = type_off lay + k.
Proof. exact values_from_checked_slots. Qed.
Print Assumptions C18_values_from_checked_slots.

Theorem C18_function_layout_consistent : consistent lay_function.
Proof. exact lay_function_consistent. Qed.
Theorem C18_method_layout_consistent : consistent lay_method.
Proof. exact lay_method_consistent. Qed.

(* Result count — PARTIAL: it is the result count of the FIRST overload for every variation ... *)
Theorem C18_result_count_partial : forall ovs c f0 r, ovs = f0 :: r -> In c (all_calls ovs) ->
  c_nres c = if f_result f0 then 1 else 0.
Proof. exact nres_is_first_overload. Qed.
Print Assumptions C18_result_count_partial.

(* ... so the full statement (each variation reports its own overload's result) is refuted for an
   overload set mixing void and value-returning functions: *)
Definition pN := {| p_tag := LNum; p_default := false |}.
Definition pS := {| p_tag := LStr; p_default := false |}.
Theorem C18_result_count_refuted : exists ovs stack c ix nres f,
  dispatch lay_function ovs stack = LCalls [(c, ix)] nres /\ nth_error ovs (c_fun c) = Some f /\
  f_result f = true /\ nres = 0.
Proof.
  exists [{| f_params := [pN]; f_result := false |}; {| f_params := [pS]; f_result := true |}], [LStr].
  eexists. eexists. eexists. eexists. split; [vm_compute; reflexivity|]. split; [reflexivity|]. split; reflexivity.
Qed.
Print Assumptions C18_result_count_refuted.

(* A wrapper with a single variation performs no check at all: "error on mismatch" is refuted there. *)
Theorem C18_single_variation_unchecked_refuted : exists ovs stack cs nres,
  ~ multi ovs /\ dispatch lay_function ovs stack = LCalls cs nres /\
  stack = [LNum; LNum] /\ ovs = [{| f_params := [pS]; f_result := true |}].
Proof. eexists. eexists. eexists. eexists. split; [|split; [|split; reflexivity]]; [intro H; exact H | reflexivity]. Qed.
Print Assumptions C18_single_variation_unchecked_refuted.

(* Non-vacuity: an overloaded, defaulted method *)
Example C18_example_method :
  let ovs := [{| f_params := [pN; {| p_tag := LBool; p_default := true |}]; f_result := true |};
              {| f_params := [pS]; f_result := true |}] in
  multi ovs /\
  dispatch lay_method ovs [LUser; LNum] = LCalls [({| c_fun := 0; c_in := [pN]; c_nres := 1 |}, [2])] 1 /\
  dispatch lay_method ovs [LUser; LStr] = LCalls [({| c_fun := 1; c_in := [pS]; c_nres := 1 |}, [2])] 1 /\
  dispatch lay_method ovs [LUser; LNum; LBool] =
    LCalls [({| c_fun := 0; c_in := [pN; {| p_tag := LBool; p_default := true |}]; c_nres := 1 |}, [2; 3])] 1 /\
  dispatch lay_method ovs [LUser; LBool] = LError /\ dispatch lay_method ovs [LUser] = LError.
Proof. vm_compute. repeat split; exact I. Qed.
