From Coq Require Import List NArith Bool Arith.
From Shroud Require Import Model.LuaDispatch.
Import ListNotations.
Example C18_placeholder : dispatch lay_function [{| f_params := [{| p_tag := LNum; p_default := false |}]; f_result := true |}] [LNum]
  = LCalls [({| c_fun := 0; c_in := [{| p_tag := LNum; p_default := false |}]; c_nres := 1 |}, [1])] 1.
Proof. reflexivity. Qed.
