(* Properties/C09.v — declarations are understood as a C++ compiler understands them (declarator structure part).
   Model: Decl.p_pointer / p_declarator (declast.Parser.pointer / declarator), Render.render_dtor / render_decl
   (Ptr / Declarator / Declaration.gen_decl_work).  The specifier-list part is dyn/C09_tables.v. *)
From Coq Require Import List NArith ZArith Bool Arith String.
From Shroud Require Import Base.Ustr Model.Splicer Model.Lexer Model.Expr Model.Decl Model.Render Proof.Render Proof.RoundTrip Proof.RenderLex Proof.ExprRT Proof.ExprLex.
Import ListNotations.

(* every chain of pointers and references with const / volatile at every level is recorded exactly as written:
   same operators, same order, each qualifier on the level it follows *)
Theorem C09_pointer_chain_recorded_as_written : forall ps rest, Forall wf_ptr ps -> stops rest ->
  p_pointer [] (List.concat (map ptr_toks ps) ++ rest) = (ps, rest).
Proof. exact pointer_chain_roundtrip. Qed.
Print Assumptions C09_pointer_chain_recorded_as_written.

(* every declarator (pointer chain, then a name, a parenthesised declarator to any depth, or nothing) is read back as
   the structure whose tokens were given, consuming exactly those tokens *)
Theorem C09_declarator_recorded_as_written : forall fuel d rest,
  depth d < fuel -> wf_dtor d -> follow d rest ->
  p_declarator fuel (dtor_toks d ++ rest) = Ok (Some d, rest).
Proof. exact declarator_roundtrip. Qed.
Print Assumptions C09_declarator_recorded_as_written.

(* a run of built-in type words, const / volatile and storage classes is consumed completely, the words recorded in the
   order written, each qualifier wherever it stands *)
Theorem C09_specifier_run_recorded : forall toks fuel c found s rest,
  forallb is_spec_tok toks = true -> ends_spec rest -> List.length toks < fuel ->
  p_specifier fuel c found s (toks ++ rest) = Ok (fold_left spec_step toks s, rest).
Proof. exact specifier_run_recorded. Qed.
Print Assumptions C09_specifier_run_recorded.

Theorem C09_const_anywhere_in_the_run : forall toks s,
  ss_const (fold_left spec_step toks s) = ss_const s || existsb (fun t => match tk t with TYPE_QUALIFIER => ueqb (tv t) (cp "const") | _ => false end) toks.
Proof. exact fold_spec_flags. Qed.
Print Assumptions C09_const_anywhere_in_the_run.

Theorem C09_words_in_written_order : forall toks s,
  ss_spec (fold_left spec_step toks s) = ss_spec s ++ map tv (filter (fun t => match tk t with TYPE_SPECIFIER => true | _ => false end) toks).
Proof. exact fold_spec_words. Qed.
Print Assumptions C09_words_in_written_order.

(* the C rendering of a declarator is the C++ rendering of its documented C counterpart (references as pointers) *)
Theorem C09_c_rendering_is_pointer_form : forall d, render_dtor true d = render_dtor false (as_c_dtor d).
Proof. exact c_rendering_is_pointer_form. Qed.
Print Assumptions C09_c_rendering_is_pointer_form.

(* ---- the whole-declaration round trip, for the fragment [in_fragment] /\ [text_fragment]:
   built-in type words in any number or ONE name of a type in scope, possibly qualified ("ns::Cls", "std::string":
   typedef, class, struct, enum, template parameter; not the enclosing class itself), const / volatile on the type, pointer / reference chains with qualifiers at every
   level, function-pointer declarators nested to any depth, parameter lists nested to any depth (each parameter again
   in the fragment), "(void)", a trailing const, array suffixes whose extents are expressions in the printer's canonical form;
   no storage class, template argument, attribute or default value, and the declared names are identifiers that are not
   type names in scope.
   Outside the fragment (template arguments, attributes, storage classes, default values) the round trip is evaluated by the harness on the
   model and on the implementation for every generated declaration; the harness also counts how many of its cases
   fall inside the fragment (evidence: fragment:in / fragment:out). ---- *)

(* on tokens: the parser reads back exactly the declaration, and leaves what follows untouched *)
Theorem C09_declaration_recorded_as_written : forall c d rest fuel,
  in_fragment c d = true -> ends_decl rest -> dsize d < fuel ->
  p_declaration fuel c (decl_toks d ++ rest) = Ok (d, rest).
Proof. exact declaration_roundtrip. Qed.
Print Assumptions C09_declaration_recorded_as_written.

(* Shroud's rendering of the declaration is a text whose tokens are exactly those *)
Theorem C09_rendering_lexes_to_its_tokens : forall c d,
  in_fragment c d = true -> text_fragment d = true -> tokenize (render_decl d) = decl_toks d.
Proof. exact rendering_lexes_to_its_tokens. Qed.
Print Assumptions C09_rendering_lexes_to_its_tokens.

(* hence: re-parsing Shroud's own rendering yields the same declaration (no bound on depth or length; the parser's
   own fuel is shown to suffice) *)
Theorem C09_reparse_of_rendering_is_identity : forall c d,
  in_fragment c d = true -> text_fragment d = true -> parse_statement c (render_decl d) = Ok (SDecl d).
Proof. exact reparse_rendering. Qed.
Print Assumptions C09_reparse_of_rendering_is_identity.

Definition rt_ctx : pctx :=
  {| cur_id := 1; cur_is_class := false; cur_name := []; scope := [];
     known_types := [cp "int"; cp "void"; cp "double"; cp "char"; cp "long"; cp "unsigned_int"; cp "long_long"; cp "unsigned_long_long"] |}.
Definition roundtrips (s : string) : bool :=
  match reparse rt_ctx (cp s) with
  | Ok (SDecl d, _, Ok (SDecl d')) => ueqb (render_decl d) (render_decl d')
  | _ => false
  end.
Example C09_roundtrip_examples :
  forallb roundtrips
    ["int * const * volatile p"; "const volatile unsigned int x"; "int (*fp)(int a, double * const b)"; "long long f(void) const";
     "void f(int *a +intent(out)+dimension(n), int n +implied(size(a)))"; "int a[3][n+1]"; "char const * const s"; "static const int z"]%string
  = true.
Proof. vm_compute. reflexivity. Qed.

(* array extents and dimension values are expressions: the text printed for one (canonical form, see Properties/C11.v) is read
   back as the same expression, so a rendered extent denotes the number that was declared *)
Theorem C09_rendered_extent_reparses : forall e, canon e = true -> etext e = true -> check_expr (print_expr e) = Ok e.
Proof. exact check_expr_of_print. Qed.
Print Assumptions C09_rendered_extent_reparses.

(* the hypotheses of the round-trip theorems are met by non-trivial declarations: these parse, and what they parse to
   is in the fragment *)
Definition in_both (s : string) : bool :=
  match parse_statement rt_ctx (cp s) with
  | Ok (SDecl d) => in_fragment rt_ctx d && text_fragment d
  | _ => false
  end.
Example C09_fragment_is_inhabited :
  forallb in_both
    ["int * const * volatile p"; "const volatile unsigned int x"; "int (*fp)(int a, double * const b)"; "long long f(void) const";
     "void (* * const fpp)(int (*inner)(double * x), char c)"; "char const * const s"; "double & r"; "unsigned long long int * * & q";
     "int f(int (*cb)(const char * msg, void * data), void * data)"]%string = true
  /\ in_both "int a[3][n+1]" = true /\ in_both "double cell[24/(2*3)]" = true
  /\ in_both "Foo x" = false /\ in_both "int a[2*-n]" = false /\ in_both "int x +intent(in)" = false.
Proof. vm_compute. repeat split; reflexivity. Qed.

(* ... and by declarations whose type is a name in scope *)
Definition named_ctx : pctx :=
  {| cur_id := 1; cur_is_class := true; cur_name := cp "Cls";
     scope := [(cp "Cls", Sym 1 KScope (TmName (cp "Cls")) []); (cp "MyInt", Sym 2 KLeaf (TmName (cp "MyInt")) []);
               (cp "Color", Sym 3 KLeaf (TmName (cp "Color")) []);
               (cp "std", Sym 4 KScope TmMissing [(cp "string", Sym 5 KLeaf (TmName (cp "std::string")) [])]);
               (cp "ns", Sym 6 KScope TmMissing [(cp "deep", Sym 7 KScope TmMissing [(cp "Leaf", Sym 8 KScope (TmName (cp "ns::deep::Leaf")) [])])])];
     known_types := [cp "int"; cp "void"; cp "double"] |}.
Definition in_both_named (s : string) : bool :=
  match parse_statement named_ctx (cp s) with
  | Ok (SDecl d) => in_fragment named_ctx d && text_fragment d
  | _ => false
  end.
Example C09_fragment_named_types :
  forallb in_both_named ["MyInt x"; "const Color * const * c"; "int f(MyInt a, Color & b, volatile MyInt * p)"; "Color (*pick)(MyInt n)";
                         "const std::string & name"; "ns::deep::Leaf * make(std::string s, const ns::deep::Leaf & other)"]%string = true
  /\ in_both_named "ns::deep x" = false      (* a namespace is not a type *)
  /\ in_both_named "Cls * self" = false      (* the enclosing class: "Cls (" would be a constructor *)
  /\ in_both_named "int MyInt" = false.      (* a declared name that is a type name *)
Proof. vm_compute. repeat split; reflexivity. Qed.
