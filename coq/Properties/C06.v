(* Properties/C06.v — wrapped objects and returned memory are released exactly once, never early.
   Model: Capsule (capsule {addr, idtor}; constructor / owned-result / borrowed-result wrappers; method wrappers; the class
   destructor wrapper; <PREFIX>SHROUD_memory_destructor).  The temporary-buffer and release-code parts are the table
   theorems of dyn/C06_tables.v; the bounds of the string helpers are C10's theorems. *)
From Coq Require Import List NArith Bool Arith String.
From Shroud Require Import Model.Capsule Proof.Capsule Model.PyHandles Proof.PyHandles Model.Release Proof.Release.
Import ListNotations.

(* every call sequence, of any length, in which the caller does not copy handles, does not use a handle after releasing
   it and calls a destructor only on objects it owns: no operation fails (no double free, no use after free, no release
   with the wrong deallocator, no release of library-owned memory), and the invariant below holds afterwards *)
Theorem C06_no_memory_error_in_any_admissible_history : forall ops, valid init ops ->
  snd (crun init ops) = Done /\ Inv (fst (crun init ops)).
Proof. intros ops H. apply run_ok; [exact inv_init | exact H]. Qed.
Print Assumptions C06_no_memory_error_in_any_admissible_history.

(* ... in which every object has been freed at most once, *)
Theorem C06_freed_at_most_once : forall s, Inv s -> forall a ob, nth_error (oheap s) a = Some ob -> o_frees ob <= 1.
Proof. exact freed_at_most_once. Qed.
Print Assumptions C06_freed_at_most_once.

(* library-owned objects have never been freed, *)
Theorem C06_library_owned_never_freed : forall s, Inv s -> forall a ob, nth_error (oheap s) a = Some ob -> o_kind ob = 0 ->
  o_live ob = true /\ o_frees ob = 0.
Proof. exact library_owned_never_freed. Qed.
Print Assumptions C06_library_owned_never_freed.

(* and once every handle has been released or destroyed, every caller-owned object has been freed exactly once *)
Theorem C06_released_exactly_once_when_all_handles_released : forall s, Inv s ->
  (forall h x, nth_error (handles s) h = Some x -> h_idtor x = 0 \/ h_addr x = None) ->
  forall a ob, nth_error (oheap s) a = Some ob -> o_kind ob <> 0 -> o_live ob = false /\ o_frees ob = 1.
Proof. exact all_released_no_leak. Qed.
Print Assumptions C06_released_exactly_once_when_all_handles_released.

(* releasing an already released handle does nothing *)
Theorem C06_release_twice_is_a_noop : forall s h, Inv s -> (exists x, nth_error (handles s) h = Some x) ->
  let s1 := fst (cstep s (Release h)) in cstep s1 (Release h) = (s1, Done).
Proof. exact release_twice_is_noop. Qed.
Print Assumptions C06_release_twice_is_a_noop.

(* The FULL statement (any sequence, handle copies included) is false of the model: a copied handle carries the same
   {addr, idtor}; releasing both copies frees the object twice, using one after releasing the other reads freed memory *)
Theorem C06_copied_handle_double_release_refuted : snd (crun init [New 1; Copy 0; Release 0; Release 1]) = DoubleFree.
Proof. exact copied_handle_refuted. Qed.
Print Assumptions C06_copied_handle_double_release_refuted.
Theorem C06_copied_handle_use_after_release_refuted : snd (crun init [New 1; Copy 0; Release 0; Method 1]) = UseAfterFree.
Proof. exact copied_handle_use_after_release_refuted. Qed.
Print Assumptions C06_copied_handle_use_after_release_refuted.

(* ---- the reference-counting layer of a Python extension (Model/PyHandles.v): variables refer to wrapped objects, copying a
   reference is aliasing, the release function runs when the LAST reference is dropped.  For EVERY sequence of Python-level
   operations (ill-formed ones included: they do nothing) the capsule operations performed are an admissible history ... ---- *)
Theorem C06_python_reference_counting_is_admissible : forall ops,
  valid init (compile py_init ops) /\ snd (crun init (compile py_init ops)) = Done /\ Inv (fst (crun init (compile py_init ops))).
Proof.
  intros ops. destruct (python_history_admissible ops py_init init inv_init j_init) as (H1 & H2 & H3 & _). auto.
Qed.
Print Assumptions C06_python_reference_counting_is_admissible.

(* ... and once no variable refers to anything, every caller-owned object has been released exactly once.
   (The generated extension does NOT implement this layer correctly on the unchanged tree: known finding
   python-class-instances-never-released.) *)
Theorem C06_python_all_references_dropped_no_leak : forall ops, Forall (fun x => x = None) (vars (py_run py_init ops)) ->
  let s := fst (crun init (compile py_init ops)) in
  forall a ob, nth_error (oheap s) a = Some ob -> o_kind ob <> 0 -> o_live ob = false /\ o_frees ob = 1.
Proof. exact python_no_leak. Qed.
Print Assumptions C06_python_all_references_dropped_no_leak.

Example C06_python_example :
  compile py_init [PLib; PNew 1; PAlias 0; PDrop 0; PMethod 1; PBorrow 0; PDrop 1; PDrop 2] =
    [LibObject; New 1; Method 0; Borrow 0; Release 0; Release 1] /\
  Forall (fun x => x = None) (vars (py_run py_init [PLib; PNew 1; PAlias 0; PDrop 0; PMethod 1; PBorrow 0; PDrop 1; PDrop 2])).
Proof. split; [reflexivity | cbn; repeat constructor]. Qed.

(* the release code a checked wrapper stores beside a pointer selects a case of the library's switch that casts the pointer to
   its own type and releases it with the matching deallocator (the regenerated table of dyn/C06_capsule.v passes lib_ok) *)
Theorem C06_checked_site_releases_its_own_type : forall l s,
  lib_ok l = true -> In s (rl_sites l) -> rs_code s <> 0 ->
  exists c, In c (rl_cases l) /\ rc_code c = rs_code s /\
            (rc_action c = "other"%string \/
             (rc_type c = rs_type s /\ (rc_action c = "delete"%string \/ rc_action c = "free"%string) /\
              (rs_how s = "new"%string -> rc_action c = "delete"%string))).
Proof. exact checked_site_releases_its_own_type. Qed.
Print Assumptions C06_checked_site_releases_its_own_type.

Theorem C06_checked_new_is_released : forall l s,
  lib_ok l = true -> In s (rl_sites l) -> rs_how s = "new"%string -> rs_code s <> 0.
Proof. exact checked_new_is_released. Qed.
Print Assumptions C06_checked_new_is_released.

Example C06_release_example :
  let l := {| rl_name := "ex"%string; rl_cases := [{| rc_code := 0; rc_type := ""%string; rc_action := "none"%string |};
                                             {| rc_code := 1; rc_type := "ns::Item"%string; rc_action := "delete"%string |};
                                             {| rc_code := 2; rc_type := "char"%string; rc_action := "free"%string |}];
              rl_sites := [{| rs_where := "ctor"%string; rs_code := 1; rs_type := "ns::Item"%string; rs_how := "new"%string |};
                           {| rs_where := "dup"%string; rs_code := 2; rs_type := "char"%string; rs_how := "call"%string |};
                           {| rs_where := "borrow"%string; rs_code := 0; rs_type := "ns::Item"%string; rs_how := "call"%string |}] |} in
  lib_ok l = true /\
  lib_ok {| rl_name := "bad"%string; rl_cases := rl_cases l; rl_sites := [{| rs_where := "dup"%string; rs_code := 1; rs_type := "char"%string; rs_how := "call"%string |}] |} = false.
Proof. exact release_example. Qed.

Example C06_admissible_history_exists :
  valid init [LibObject; New 1; New 2; Borrow 0; Method 0; Method 2; Destroy 0; Release 0; Release 0; Release 1; Release 2; Destroy 1] /\
  snd (crun init [LibObject; New 1; New 2; Borrow 0; Method 0; Method 2; Destroy 0; Release 0; Release 0; Release 1; Release 2; Destroy 1]) = Done.
Proof. exact valid_example. Qed.
