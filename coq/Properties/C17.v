(* Properties/C17.v — invalid input is rejected with a diagnostic, never by an internal failure.
   Model: Lexer.tokenize, Decl.parse_statement (declast.Parser.decl_statement), Attrs.check_fcn / check_arg /
   check_var / check_implied (generate.VerifyAttrs).  Result classes: Ok (accepted), Reject (RuntimeError
   diagnostic), Crash (internal Python exception), OutOfFuel (non-termination within the model's fuel). *)
From Coq Require Import List NArith ZArith Bool Arith String.
From Shroud Require Import Base.Ustr Model.Splicer Model.Options Model.Lexer Model.Expr Model.Decl Model.Attrs Proof.Decl Proof.Attrs Proof.Fuel.
Import ListNotations.

(* every text, in every scope: the declaration parser never ends in an internal exception *)
Theorem C17_parser_never_fails_internally : forall c s e, parse_statement c s <> Crash e.
Proof. exact parse_statement_no_crash. Qed.
Print Assumptions C17_parser_never_fails_internally.

(* it never hangs: for every text and every scope the parser model terminates within the fuel it is given
   (8 per token + 16 for declarations, 4 per token + 8 for expressions), i.e. the recursive descent always consumes input *)
Theorem C17_parser_always_terminates : forall c s, parse_statement c s <> OutOfFuel.
Proof. exact parse_statement_total. Qed.
Print Assumptions C17_parser_always_terminates.

Theorem C17_expression_parser_always_terminates : forall ts, parse_expression ts <> OutOfFuel.
Proof. exact parse_expression_total. Qed.
Print Assumptions C17_expression_parser_always_terminates.

(* parsing followed by attribute validation terminates as well *)
Theorem C17_validation_always_terminates : forall c e as_var s, parse_and_verify c e as_var s <> OutOfFuel.
Proof. exact parse_and_verify_total. Qed.
Print Assumptions C17_validation_always_terminates.

(* trailing text is never silently accepted: acceptance means the statement parser stopped exactly at the end *)
Theorem C17_accepted_statement_consumes_all : forall c s st,
  peek KW_ENUM (tokenize s) = false -> parse_statement c s = Ok st ->
  exists rest y, p_stmt c (tokenize s) = Ok (st, rest) /\
                 mustbe EOF (if peek SEMICOLON rest then tl rest else rest) = Ok y.
Proof. exact accepted_statement_consumes_all. Qed.
Print Assumptions C17_accepted_statement_consumes_all.

Theorem C17_end_of_text_test : forall ts y, mustbe EOF ts = Ok y -> ts = [] \/ exists t r, ts = t :: r /\ tk t = EOF.
Proof. exact mustbe_eof_shape. Qed.
Print Assumptions C17_end_of_text_test.

Theorem C17_lexer_emits_no_eof_token : forall s, Forall (fun t => tk t <> EOF) (tokenize s).
Proof. exact tokenize_not_eof. Qed.
Print Assumptions C17_lexer_emits_no_eof_token.

(* attribute validation never ends in an internal exception, for every declaration, attribute name and value *)
Theorem C17_validation_never_fails_internally : forall c e as_var s x, parse_and_verify c e as_var s <> Crash x.
Proof. exact parse_and_verify_no_crash. Qed.
Print Assumptions C17_validation_never_fails_internally.

Theorem C17_function_validation_never_fails_internally : forall e d x, check_fcn e d <> Crash x.
Proof. exact check_fcn_no_crash. Qed.
Print Assumptions C17_function_validation_never_fails_internally.

(* attribute names outside the documented lists are rejected *)
Theorem C17_illegal_function_attribute_rejected : forall e d, names_ok fcn_attr_names d = false -> exists m, check_fcn e d = Reject m.
Proof. exact illegal_function_attribute_rejected. Qed.
Print Assumptions C17_illegal_function_attribute_rejected.
Theorem C17_illegal_argument_attribute_rejected : forall f e d, names_ok arg_attr_names d = false -> exists m, check_arg (S f) e d = Reject m.
Proof. exact illegal_argument_attribute_rejected. Qed.
Print Assumptions C17_illegal_argument_attribute_rejected.
Theorem C17_illegal_variable_attribute_rejected : forall d, names_ok var_attr_names d = false -> exists m, check_var d = Reject m.
Proof. exact illegal_variable_attribute_rejected. Qed.
Print Assumptions C17_illegal_variable_attribute_rejected.

(* every documented illegal value or combination is rejected: whatever validation accepts has legal attribute
   names, a legal intent (and only intent(in) on a non-pointer), legal deref/owner/free_pattern values, an integer
   rank 0-7 on a pointer, a dimension expression list that parses to the end and excludes value and rank and
   non-pointers, no value with assumedtype, charlen only with a value on 'char *', template arguments exactly on
   std::vector, and implied expressions that parse to the end and name existing arguments in size/len/len_trim *)
Theorem C17_function_accepted_only_if_legal : forall e d, check_fcn e d = Ok tt ->
  names_ok fcn_attr_names d = true /\ common_legal e d /\ dimension_parses d /\
  Forall (arg_legal e) (fparams d) /\ Forall (implied_legal (fparams d)) (fparams d).
Proof. exact check_fcn_accepts_only_legal. Qed.
Print Assumptions C17_function_accepted_only_if_legal.

Theorem C17_variable_accepted_only_if_legal : forall d, check_var d = Ok tt ->
  names_ok var_attr_names d = true /\ (truthy (aget "dimension" d) = true -> is_pointer_like d) /\ dimension_parses d.
Proof. exact check_var_accepts_only_legal. Qed.
Print Assumptions C17_variable_accepted_only_if_legal.

(* non-vacuity and the other direction on concrete inputs (tests, not the universal claim): a documented
   declaration is accepted; unbalanced, trailing and unsupported texts are rejected with a diagnostic *)
Definition ex_ctx : pctx :=
  {| cur_id := 1; cur_is_class := false; cur_name := []; scope := [];
     known_types := [cp "int"; cp "void"; cp "double"; cp "char"; cp "long"] |}.
Definition ex_env : aenv :=
  {| tminfo := [(cp "int", (cp "integer", cp "native")); (cp "char", (cp "string", cp "char")); (cp "void", (cp "void", cp "void"))];
     patterns := [] |}.
Definition cls (r : result unit) : nat := match r with Ok _ => 0 | Reject _ => 1 | Crash _ => 2 | OutOfFuel => 3 end.

Example C17_examples :
  map (fun s => cls (parse_and_verify ex_ctx ex_env false (cp s)))
    ["void f(int *a +intent(out)+dimension(n), int n +implied(size(a)), const char *s +len_trim(ls))";
     "void f(int a) extra"; "void f(int a"; "void f(int a))"; "void f(int *a +dimension((n)m))"; "void f(int a +intent(out))";
     "void f(int *a +bogus)"; "void f(int *a +rank(9))"; "void f(int *a +value+dimension(3))"; "void f(int a, int n +implied(size(3)))";
     "void f(int *a +intent)"; "zzz f()"; "void f(int *a +rank())"; "void f(void (*cb)(int i +intent(out)))"; "{ }"]%string
  = [0; 1; 1; 1; 1; 1; 1; 1; 1; 1; 1; 1; 1; 1; 1].
Proof. vm_compute. reflexivity. Qed.
