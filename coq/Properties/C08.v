(* Properties/C08.v — every callable C++ signature gets exactly one, distinct wrapper name.
   Model: Names.expand (generate.GenFunctions.define_function_suffix: default-argument clones, template clones,
   overload numbering, fortran_generic clones), Names.un_camel (util.un_camel), the C_name / F_name_impl templates. *)
From Coq Require Import List NArith ZArith Bool Arith String.
From Shroud Require Import Base.Ustr Model.Splicer Model.Options Model.Names Proof.Names Proof.NamesPin Proof.NamesWrap.
Import ListNotations.

(* defaulted suffixes (no explicit function_suffix / default_arg_suffix, no templates, no fortran_generic), any number of
   functions, overloads and trailing default arguments, any prefix and scope: exactly one C entry point and one Fortran
   specific per callable signature (each overload x each admissible number of defaulted arguments) *)
Theorem C08_one_name_per_callable_signature : forall prefix scope fs, Forall plain fs ->
  List.length (c_names prefix scope fs) = fold_right (fun f n => S (f_ndef f) + n) 0 fs /\
  List.length (f_names scope fs) = fold_right (fun f n => S (f_ndef f) + n) 0 fs.
Proof. exact plain_count. Qed.
Print Assumptions C08_one_name_per_callable_signature.

(* ... and no two of them coincide, provided distinct C++ names have distinct underscore forms and no underscore form
   is another one followed by "_<number>" *)
Theorem C08_names_pairwise_distinct_partial : forall prefix scope fscope fs, Forall plain fs -> names_separable fs ->
  NoDup (c_names prefix scope fs) /\ NoDup (f_names fscope fs).
Proof. exact plain_names_distinct. Qed.
Print Assumptions C08_names_pairwise_distinct_partial.

(* each specific is listed under the generic name of its C++ name *)
Theorem C08_generic_name_is_cxx_name : forall fs e, In e (expand fs) -> nm_f_generic e = un_camel (e_name e).
Proof. exact generic_name_is_cxx_name. Qed.
Print Assumptions C08_generic_name_is_cxx_name.

(* an explicit function_suffix on ONE member of an overload set (functions without default arguments, templates or
   fortran_generic; any other explicit suffixes elsewhere) that spells the number of the member's own position changes no
   emitted C or Fortran name: the other members are still numbered by their position in the whole set, so the names stay
   exactly those of the unpinned library (distinct by the theorem above when that library is plain) *)
Theorem C08_pinning_the_default_number_changes_no_name : forall prefix scope fscope fs i f,
  Forall bare fs -> nth_error fs i = Some f -> f_suffix f = None ->
  1 < List.length (filter (same_name (f_name f)) fs) ->
  c_names prefix scope (upd i (pin_fn fs i f) fs) = c_names prefix scope fs /\
  f_names fscope (upd i (pin_fn fs i f) fs) = f_names fscope fs.
Proof. exact pinned_names_unchanged. Qed.
Print Assumptions C08_pinning_the_default_number_changes_no_name.

Example C08_pinning_example :
  let fs := [mkfn "g" 0 None; mkfn "g" 0 None; mkfn "g" 0 None] in
  match nth_error fs 1 with
  | Some f => c_names (cp "OVL_") [] (upd 1 (pin_fn fs 1 f) fs) = map cp ["OVL_g_0"; "OVL_g_1"; "OVL_g_2"]%string
              /\ f_suffix (pin_fn fs 1 f) = Some (cp "_1"%string)
  | None => False
  end.
Proof. exact pinned_example. Qed.

(* wrapper selection on single declarations (options wrap_c / wrap_fortran): the names emitted are exactly, in order, the names
   of the unflagged library whose declaration has the flag on — switching a wrapper off removes names and changes none, so no
   new name appears and distinct names stay distinct *)
Theorem C08_names_with_wrap_flags : forall prefix scope fs ws,
  c_names_w prefix scope fs ws = map (nm_c_name prefix scope) (filter (fun e => e_c e && flag_c ws e) (expand fs)).
Proof. exact c_names_w_spec. Qed.
Print Assumptions C08_names_with_wrap_flags.

Theorem C08_wrap_flags_only_remove_names : forall prefix scope fscope fs ws,
  (forall x, In x (c_names_w prefix scope fs ws) -> In x (c_names prefix scope fs)) /\
  (forall x, In x (f_names_w fscope fs ws) -> In x (f_names fscope fs)) /\
  (NoDup (c_names prefix scope fs) -> NoDup (c_names_w prefix scope fs ws)) /\
  (NoDup (f_names fscope fs) -> NoDup (f_names_w fscope fs ws)).
Proof. exact wrap_flags_only_remove_names. Qed.
Print Assumptions C08_wrap_flags_only_remove_names.

Example C08_wrap_flags_example :
  let fs := [mkfn "foo" 0 None; mkfn "foo" 1 None; mkfn "foo" 0 None] in
  c_names (cp "N_") [] fs = map cp ["N_foo_0"; "N_foo_1"; "N_foo_2"; "N_foo_3"]%string /\
  c_names_w (cp "N_") [] fs [(true, true); (false, false); (true, false)] = map cp ["N_foo_0"; "N_foo_3"]%string /\
  f_names_w [] fs [(true, true); (false, false); (true, false)] = map cp ["foo_0"]%string.
Proof. exact wrap_example. Qed.

(* The FULL statement (explicit suffixes; any names with pairwise distinct underscore forms) is false of the model: *)
Theorem C08_explicit_suffix_with_default_refuted :
  c_names (cp "NAM_") [] [mkfn "sfx" 1 (Some "_x"%string)] = [cp "NAM_sfx_x"; cp "NAM_sfx_x"].
Proof. exact explicit_suffix_with_default_refuted. Qed.
Print Assumptions C08_explicit_suffix_with_default_refuted.

Theorem C08_overload_number_collides_refuted :
  c_names (cp "NAM_") [] [mkfn "foo" 0 None; mkfn "foo" 0 None; mkfn "foo_1" 0 None] = [cp "NAM_foo_0"; cp "NAM_foo_1"; cp "NAM_foo_1"].
Proof. exact overload_number_collides_refuted. Qed.
Print Assumptions C08_overload_number_collides_refuted.

(* non-vacuity: a scope with overloads and default arguments meets the hypotheses *)
Example C08_example_hypotheses :
  Forall plain [mkfn "foo" 2 None; mkfn "foo" 0 None; mkfn "barBaz" 1 None] /\
  c_names (cp "N_") (cp "Cls_") [mkfn "foo" 2 None; mkfn "foo" 0 None; mkfn "barBaz" 1 None]
  = map cp ["N_Cls_foo_0"; "N_Cls_foo_1"; "N_Cls_foo_2"; "N_Cls_foo_3"; "N_Cls_bar_baz_0"; "N_Cls_bar_baz_1"]%string.
Proof. split; [repeat constructor | vm_compute; reflexivity]. Qed.
