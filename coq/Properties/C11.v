(* Properties/C11.v — enumeration constants keep their C++ values in C and Fortran. *)
From Coq Require Import List NArith ZArith Bool Arith String.
From Shroud Require Import Base.Ustr Model.Splicer Model.Options Model.Lexer Model.Expr Model.Enum Proof.Enum Proof.ExprRT Proof.ExprLex.
Import ListNotations.

(* For every enumeration whose explicit values are well formed (a canonical decimal literal with optional
   sign, or an expression over + - * / ( ) unary signs, canonical literals and EARLIER members that
   Python's int() does not accept as a number), and every injective naming of the members in C and in
   Fortran: each member's emitted C text (or, when no text is emitted, the C rule previous+1) and its
   emitted Fortran text denote exactly the value the C++ compiler assigns (AST level: the text is the
   rendering of an expression with that value; how compilers read rendered text is validated by
   compiling, see DESIGN.md). *)
Theorem C11_enum_values_agree : forall csym fsym ms vals,
  NoDup (map (rn csym) (map fst ms)) -> NoDup (map (rn fsym) (map fst ms)) ->
  wf_members [] ms = true ->
  cxx_values ms = Some vals ->
  agree csym fsym [] 0 (derive csym fsym ms) vals.
Proof. exact enum_values_agree. Qed.
Print Assumptions C11_enum_values_agree.

(* renaming members consistently does not change any value *)
Theorem C11_renaming_preserves_values : forall lit sym names env e,
  NoDup (map (rn sym) names) -> (forall k, In k (map fst env) -> In k names) ->
  simple e = true -> idents_in e names = true ->
  eval_expr lit (ren_env sym env) (rename sym e) = eval_expr lit env e.
Proof. exact eval_rename. Qed.
Print Assumptions C11_renaming_preserves_values.

(* the text written for an expression is the rendering of the renamed expression *)
Theorem C11_text_is_rendering : forall sym e, simple e = true -> print_ident sym e = print_expr (rename sym e).
Proof. exact print_ident_rename. Qed.
Print Assumptions C11_text_is_rendering.

(* the rendering can be read back: for every expression in the printer's canonical form (binary operators nested as their
   precedence and left associativity demand, everything else in explicit parentheses; a signed operand is never the right
   operand of an operator or of another sign; identifiers are identifiers, constants decimal integers) the printed text
   lexes to the expression's tokens and the expression parser -- with its own fuel -- returns exactly the expression.
   Dropping a needed parenthesis in the printer, or giving the operand of a sign more than one primary in the parser,
   falsifies this. *)
Theorem C11_printed_expression_reparses : forall e, canon e = true -> etext e = true -> check_expr (print_expr e) = Ok e.
Proof. exact check_expr_of_print. Qed.
Print Assumptions C11_printed_expression_reparses.

(* on tokens, whatever follows (a closing bracket, a comma, the end): the parser stops exactly at the end of the expression *)
Theorem C11_expression_tokens_roundtrip : forall e R, canon e = true -> fol 0 R -> parse_expression (etoks e ++ R) = Ok (e, R).
Proof. exact parse_expression_roundtrip. Qed.
Print Assumptions C11_expression_tokens_roundtrip.

Example C11_canonical_expressions_exist :
  forallb (fun s => match check_expr (cp s) with Ok e => canon e && etext e && ueqb (print_expr e) (cp s) | _ => false end)
          ["L_TOTAL/(L_UNIT*L_ROW)"; "2*(-LOW)+1"; "100-(W-H)"; "-(W-H)*2"; "f(a,b+1)*(c-2)/3"; "((D_A-D_B)-(D_B-D_A))"; "size(x)+1"]%string = true
  /\ (match check_expr (cp "10 - -LOW - 1") with Ok e => canon e | _ => true end) = false.
Proof. vm_compute. split; reflexivity. Qed.

(* on well-formed expressions Fortran and C read every literal alike *)
Theorem C11_fortran_reads_like_c : forall env e, simple e = true ->
  eval_expr f_literal env e = eval_expr c_literal env e.
Proof. exact simple_lit_agree. Qed.
Print Assumptions C11_fortran_reads_like_c.

(* The FULL statement (all accepted enumerations) is false of the faithful model: a leading-zero
   literal is octal for C++ (8) but the value loop reads it as decimal and emits 10. *)
Definition text_value (env : list (ustr * Z)) (t : ustr) : option Z :=
  match check_expr t with Ok e => eval_expr c_literal env e | _ => None end.

Theorem C11_enum_values_agree_full_refuted :
  exists decl e, parse_enum decl = Ok e /\
    cxx_values (en_members e) = Some [(cp "RED", 8%Z); (cp "BLUE", 9%Z)] /\
    map (fun o => (mo_cvalue o, mo_fvalue o)) (derive [] [] (en_members e)) =
      [(Some (cp "10"), cp "10"); (None, cp "11")] /\
    text_value [] (cp "10") = Some 10%Z.
Proof.
  exists (cp "enum E { RED = 010, BLUE };"). eexists.
  split; [vm_compute; reflexivity|]. split; [vm_compute; reflexivity|].
  split; [vm_compute; reflexivity|]. vm_compute; reflexivity.
Qed.
Print Assumptions C11_enum_values_agree_full_refuted.

(* non-vacuity: the regression suite's `val` enumeration meets every hypothesis; a signed operand is
   written with parentheses (after fix df990a9) *)
Example C11_example :
  match parse_enum (cp "enum val { a1, b1 = 3, c1, d1 = b1 - a1, e1 = d1, f1, g1, h1 = 100, i1 = 2*-b1, j1 };") with
  | Ok e => wf_members [] (en_members e) = true /\
            cxx_values (en_members e) =
            Some [(cp "a1", 0); (cp "b1", 3); (cp "c1", 4); (cp "d1", 3); (cp "e1", 3); (cp "f1", 4); (cp "g1", 5);
                  (cp "h1", 100); (cp "i1", -6); (cp "j1", -5)]%Z /\
            map mo_fvalue (derive [] [] (en_members e)) =
            [cp "0"; cp "3"; cp "4"; cp "b1-a1"; cp "d1"; cp "d1+1"; cp "d1+2"; cp "100"; cp "2*(-b1)"; cp "2*(-b1)+1"]
  | _ => False
  end.
Proof. vm_compute. split; [reflexivity|]. split; reflexivity. Qed.
