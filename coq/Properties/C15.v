(* Properties/C15.v — wrapper selection is honoured (flag algebra); the file-list and directory
   statements are table theorems in dyn/C15_tables.v (regenerated from /repo on every run). *)
From Coq Require Import List Bool.
From Shroud Require Import Model.WrapFlags Proof.WrapFlags.
Import ListNotations.

Theorem C15_promotion_is_exists : forall k n, flag_of k (promote n) = any_on k n.
Proof. exact promote_any. Qed.
Print Assumptions C15_promotion_is_exists.

Theorem C15_language_off_everywhere_writes_no_files : forall k lib, any_on k lib = false -> emitted lib k = false.
Proof. exact off_everywhere_no_files. Qed.
Print Assumptions C15_language_off_everywhere_writes_no_files.

Theorem C15_language_on_somewhere_writes_files : forall k lib, any_on k lib = true -> emitted lib k = true.
Proof. exact on_somewhere_files. Qed.
Print Assumptions C15_language_on_somewhere_writes_files.

Theorem C15_python_lua_flags_do_not_touch_c_fortran : forall k p l lib, (k = KC \/ k = KFortran) ->
  emitted (set_py_lua p l lib) k = emitted lib k.
Proof. exact py_lua_do_not_touch_c_fortran. Qed.
Print Assumptions C15_python_lua_flags_do_not_touch_c_fortran.

Example C15_example :
  let off := {| w_c := false; w_fortran := false; w_python := false; w_lua := false |} in
  let onf := {| w_c := true; w_fortran := true; w_python := false; w_lua := false |} in
  let lib := Container off [Leaf off; Container off [Leaf onf; Leaf off]] in
  emitted lib KC = true /\ emitted lib KFortran = true /\ emitted lib KPython = false /\ emitted lib KLua = false.
Proof. repeat split. Qed.
