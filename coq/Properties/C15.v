(* Properties/C15.v — wrapper selection is honoured (flag algebra); the file-list and directory
   statements are table theorems in dyn/C15_tables.v (regenerated from /repo on every run). *)
From Coq Require Import List Bool.
From Shroud Require Import Base.Ustr Model.Names Proof.Names Proof.NamesWrap Model.WrapFlags Proof.WrapFlags.
Import ListNotations.

Theorem C15_promotion_is_exists : forall k n, flag_of k (promote n) = any_on k n.
Proof. exact promote_any. Qed.
Print Assumptions C15_promotion_is_exists.

Theorem C15_language_off_everywhere_writes_no_files : forall k lib, any_on k lib = false -> emitted lib k = false.
Proof. exact off_everywhere_no_files. Qed.
Print Assumptions C15_language_off_everywhere_writes_no_files.

Theorem C15_language_on_somewhere_writes_files : forall k lib, any_on k lib = true -> emitted lib k = true.
Proof. exact on_somewhere_files. Qed.
Print Assumptions C15_language_on_somewhere_writes_files.

Theorem C15_python_lua_flags_do_not_touch_c_fortran : forall k p l lib, (k = KC \/ k = KFortran) ->
  emitted (set_py_lua p l lib) k = emitted lib k.
Proof. exact py_lua_do_not_touch_c_fortran. Qed.
Print Assumptions C15_python_lua_flags_do_not_touch_c_fortran.

(* the flags of single declarations never renumber or rename the wrappers of the others: with every flag on the names are
   those of the unflagged library, with some off they are a selection of them in the same order (Names.expand_w; the Python and
   Lua flags are not consulted by the naming model at all) *)
Theorem C15_declaration_flags_select_names : forall prefix scope fs ws,
  c_names_w prefix scope fs ws = map (nm_c_name prefix scope) (filter (fun e => e_c e && flag_c ws e) (expand fs)) /\
  f_names_w scope fs ws = map (nm_f_impl scope) (filter (fun e => e_f e && flag_f ws e) (expand fs)).
Proof. intros. split; [apply c_names_w_spec | apply f_names_w_spec]. Qed.
Print Assumptions C15_declaration_flags_select_names.

Theorem C15_all_flags_on_same_names : forall prefix scope fscope fs ws, Forall (fun w => w = (true, true)) ws ->
  c_names_w prefix scope fs ws = c_names prefix scope fs /\ f_names_w fscope fs ws = f_names fscope fs.
Proof. exact all_on_same_names. Qed.
Print Assumptions C15_all_flags_on_same_names.

Example C15_example :
  let off := {| w_c := false; w_fortran := false; w_python := false; w_lua := false |} in
  let onf := {| w_c := true; w_fortran := true; w_python := false; w_lua := false |} in
  let lib := Container off [Leaf off; Container off [Leaf onf; Leaf off]] in
  emitted lib KC = true /\ emitted lib KFortran = true /\ emitted lib KPython = false /\ emitted lib KLua = false.
Proof. repeat split. Qed.
