(* Properties/C13.v — line wrapping never alters code and respects the line limit.
   Only statements closed by [exact]; proofs are in Proof/Text.v. *)
From Coq Require Import List NArith ZArith Bool Arith.
From Shroud Require Import Base.Ustr Model.Text Proof.Text.
Import ListNotations.

(* For every logical line, every line length, indentation, indentation string and
   continuation marker: the non-blank text of the physical lines' payloads is the
   non-blank text of the logical line, in order, nothing lost or duplicated. *)
Theorem C13_text_preserved : forall p line,
  nows (concat (payloads (wc_body p line))) = nows line.
Proof. exact wc_preserves. Qed.
Print Assumptions C13_text_preserved.

(* Stronger: only white space at the START of a break-delimited part may vanish. *)
Theorem C13_only_leading_blanks_of_parts_dropped : forall p line,
  exists ts', Forall2 lstrip_or_same (texts (split_parts (body line))) ts' /\
              concat (payloads (wc_body p line)) = concat ts' /\
              concat (texts (split_parts (body line))) = dehint (body line).
Proof. exact wc_preserves_strong. Qed.
Print Assumptions C13_only_leading_blanks_of_parts_dropped.

(* Every physical line except the last ends with the continuation marker; the last has none. *)
Theorem C13_continuation_marker : forall p line,
  let s := wc_body p line in
  render p s = map (fun x => x ++ cont p) (map render_line (rev (done s)))
               ++ [render_line (base s, pieces s)].
Proof. exact wc_cont. Qed.
Print Assumptions C13_continuation_marker.

(* Physical lines consist of whole parts: breaks happen only at tab/form-feed positions. *)
Theorem C13_breaks_only_at_hints : forall p line,
  exists ts', Forall2 lstrip_or_same (texts (split_parts (body line))) ts' /\
              drop_empties (concat (groups (wc_body p line))) ts'.
Proof. exact wc_breaks_at_hints. Qed.
Print Assumptions C13_breaks_only_at_hints.

(* A physical line (without marker) exceeds linelen only if it holds <= 1 part,
   i.e. only when no break point could have shortened it. *)
Theorem C13_line_limit : forall p line,
  Forall (line_ok p) (all_lines (wc_body p line)).
Proof. exact wc_length. Qed.
Print Assumptions C13_line_limit.

(* A form feed always forces a break. *)
Theorem C13_formfeed_breaks : forall p line,
  S (count_ff (split_parts (body line))) <= length (render p (wc_body p line)).
Proof. exact wc_ff. Qed.
Print Assumptions C13_formfeed_breaks.

(* First line at the current indentation, continuation lines one (or, after CR, two) deeper. *)
Theorem C13_indentation : forall p line, bases_ok p (cindent line) (wc_body p line).
Proof. exact wc_indent. Qed.
Print Assumptions C13_indentation.

(* write_lines passes plain lines (no leading directive, no trailing '+', no newline)
   to write_continue untouched and leaves the indentation alone. *)
Theorem C13_write_lines_plain : forall p ls i, forallb plain ls = true ->
  write_lines_from p i (map OStr ls) =
  Ok (concat (map (fun s => render (with_indent p i) (wc_body (with_indent p i) s)) ls), i).
Proof. exact write_lines_plain. Qed.
Print Assumptions C13_write_lines_plain.

(* Non-vacuity: a line that actually breaks, with a dropped blank and a form feed. *)
Definition ex_p := {| linelen := 12; indent := 1%Z; spaces := [32;32]%N; cont := [32;38]%N |}.
Definition ex_line : ustr := [97;98;99;44;9;32;100;101;102;44;9;32;103;104;105;12;106]%N.
Example C13_example_breaks :
  write_continue ex_p ex_line =
  Ok [[32;32;97;98;99;44;32;100;101;102;44;32;38];
      [32;32;32;32;103;104;105;32;38];
      [32;32;32;32;106]]%N.
Proof. vm_compute. reflexivity. Qed.
