(* Properties/C03.v — the generated Python extension is call-equivalent to the wrapped library
   (argument handling and dispatch; in-arguments; the per-type conversion templates and result
   building are validated by execution against CPython 3.12). *)
From Coq Require Import List NArith Bool Arith.
From Shroud Require Import Model.PyDispatch Proof.PyDispatch.
Import ListNotations.

(* Delivery: whenever the library is called, every argument handed to it is the caller's value for that
   very parameter, taken from its position or from the keyword of that name, and of a class the
   parameter's type accepts; a parameter past the required ones that was not supplied is left to ... *)
Theorem C03_delivers : forall f c n srcs, call_fn f c = PCalled n srcs ->
  n <= length (pf_params f) /\ length srcs = n /\
  forall m p, m < n -> nth_error (pf_params f) m = Some p ->
    exists s, nth_error srcs m = Some s /\ slot_ok p m (required (pf_params f)) c s.
Proof. exact call_delivers. Qed.
Print Assumptions C03_delivers.

(* ... and when the supplied parameters form a prefix (any split into positional and keyword form, any
   keyword order), no uninitialised variable reaches the library: the first n parameters are the caller's
   values, the remaining ones the library's defaults (the call is made with n arguments). *)
Theorem C03_prefix_calls_deliver_only_supplied_values : forall f c n srcs, call_fn f c = PCalled n srcs ->
  (forall m, m < n -> supplied c m = true) ->
  forall m s, nth_error srcs m = Some s -> s <> SUninit.
Proof. exact call_prefix_no_uninit. Qed.
Print Assumptions C03_prefix_calls_deliver_only_supplied_values.

(* the converse: if every parameter can be given a slot, the parse succeeds *)
Theorem C03_good_arguments_parse : forall ps i req c,
  (forall m p, nth_error ps m = Some p -> exists s, slot_ok p (i + m) req c s) ->
  exists srcs, assign ps i req c = Some srcs.
Proof. exact assign_complete. Qed.
Print Assumptions C03_good_arguments_parse.

(* Bad calls raise TypeError: too many arguments; unknown keyword or a parameter given by name and
   position; a required parameter missing or a value of a class its type does not accept. *)
Theorem C03_too_many_arguments : forall f c,
  length (pf_params f) < length (pc_pos c) + length (pc_kws c) -> call_fn f c = PTypeError.
Proof. exact call_too_many. Qed.
Print Assumptions C03_too_many_arguments.

Theorem C03_bad_keyword : forall f c,
  existsb (bad_kw (length (pf_params f)) (length (pc_pos c))) (pc_kws c) = true -> call_fn f c = PTypeError.
Proof. exact call_bad_keyword. Qed.
Print Assumptions C03_bad_keyword.

Theorem C03_missing_or_wrong_type : forall f c m p, nth_error (pf_params f) m = Some p ->
  (forall s, ~ slot_ok p m (required (pf_params f)) c s) -> call_fn f c = PTypeError.
Proof. exact call_bad_slot. Qed.
Print Assumptions C03_missing_or_wrong_type.

(* Overloads: the first overload in declaration order whose argument-count window contains the count and
   which does not raise TypeError is the one reached; if every overload rejects the call: TypeError. *)
Theorem C03_overload_first_acceptor : forall ovs idx c j o, py_multi ovs idx c = Some (j, o) ->
  exists before f after, ovs = before ++ f :: after /\ j = idx + length before /\
    forallb (fun g => rejects g c) before = true /\ in_window f c = true /\ call_fn f c = o /\ o <> PTypeError.
Proof. exact multi_some. Qed.
Print Assumptions C03_overload_first_acceptor.

Theorem C03_overload_all_reject : forall ovs idx c, py_multi ovs idx c = None ->
  forallb (fun g => rejects g c) ovs = true.
Proof. exact multi_none. Qed.
Print Assumptions C03_overload_all_reject.

(* The FULL delivery statement (every valid Python call, including keywords that skip a defaulted
   parameter) is false of the faithful model: f(a0 = 8, a1 = 8) called as f(a1 = 12). *)
Theorem C03_keyword_skip_refuted : exists f c n srcs,
  call_fn f c = PCalled n srcs /\ nth_error srcs 0 = Some SUninit /\ n = 1 /\
  supplied c 1 = true /\ supplied c 0 = false.
Proof.
  exists {| pf_params := [{| pp_fmt := FInt; pp_default := true |}; {| pp_fmt := FInt; pp_default := true |}] |},
         {| pc_pos := []; pc_kws := [(Some 1, PInt)] |}.
  eexists. eexists. split; [vm_compute; reflexivity|]. repeat split.
Qed.
Print Assumptions C03_keyword_skip_refuted.

(* non-vacuity *)
Example C03_example :
  let f := {| pf_params := [{| pp_fmt := FInt; pp_default := false |}; {| pp_fmt := FDouble; pp_default := true |};
                            {| pp_fmt := FStr; pp_default := true |}] |} in
  call_fn f {| pc_pos := [PInt]; pc_kws := [(Some 2, PStr); (Some 1, PFloat)] |} = PCalled 3 [SPos 0; SKw 1; SKw 0] /\
  call_fn f {| pc_pos := [PInt; PInt]; pc_kws := [] |} = PCalled 2 [SPos 0; SPos 1] /\
  call_fn f {| pc_pos := [PStr]; pc_kws := [] |} = PTypeError /\
  call_fn f {| pc_pos := []; pc_kws := [(Some 1, PFloat)] |} = PTypeError /\
  call_fn f {| pc_pos := [PInt]; pc_kws := [(None, PInt)] |} = PTypeError.
Proof. vm_compute. repeat split. Qed.
