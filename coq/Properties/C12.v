(* Properties/C12.v — user splicer code is carried into the named blocks unchanged. *)
From Coq Require Import List NArith ZArith Bool Arith String.
From Shroud Require Import Base.Ustr Model.Text Model.Splicer Proof.Text Proof.Splicer.
Import ListNotations.

(* One block with an arbitrary dotted name, for every body without an end marker:
   the reader returns exactly the body (trailing blanks stripped) under the nested name. *)
Theorem C12_block_read_back : forall b e body path name,
  let tag := join_dot (path ++ [name]) in
  forallb nodot path = true -> nodot name = true ->
  is_begin b = Some tag -> is_end e = Some tag -> forallb no_end body = true ->
  get_splicers (b :: body ++ [e]) [] = Ok (nest path name (Leaf (map rstrip body))).
Proof. exact one_block. Qed.
Print Assumptions C12_block_read_back.

(* Any number of blocks with distinct simple names, arbitrary text between them that has no
   begin marker, read into any dictionary that does not hold the names yet. *)
Theorem C12_blocks_and_junk : forall junk0 ks t,
  forallb no_begin junk0 = true -> forallb block_wf ks = true -> tags_fresh ks t = true ->
  get_splicers (junk0 ++ List.concat (map block_lines ks)) t = Ok (spec_result ks t).
Proof. exact get_splicers_many. Qed.
Print Assumptions C12_blocks_and_junk.

(* The marker lines Shroud writes are recognised by its reader, for every comment leader
   without the letter 's' (// ! # --) and every blank-free name. *)
Theorem C12_written_begin_marker_recognised : forall c tag,
  no_s c = true -> c <> [] -> tag <> [] -> nospace tag = true ->
  exists rest, after_marker str_begin (c ++ cp " splicer begin " ++ tag) = Some rest /\
               first_field rest = Some tag.
Proof. exact begin_line_recognised. Qed.
Print Assumptions C12_written_begin_marker_recognised.

Theorem C12_written_end_marker_recognised : forall c tag,
  no_s c = true -> c <> [] -> tag <> [] -> nospace tag = true ->
  exists rest, after_marker str_end (c ++ cp " splicer end " ++ tag) = Some rest /\
               first_field rest = Some tag.
Proof. exact end_line_recognised. Qed.
Print Assumptions C12_written_end_marker_recognised.

(* Precedence: force > user block > default. *)
Theorem C12_force_wins : forall show c path name level d f,
  create_splicer show c path name level d (Some f) =
  Ok ((if show then [c ++ cp " splicer begin " ++ path ++ name] else []) ++ f ++
      (if show then [c ++ cp " splicer end " ++ path ++ name] else []), true).
Proof. exact create_force. Qed.
Print Assumptions C12_force_wins.

Theorem C12_user_replaces_default : forall show c path name level d code,
  assoc_get name level = Some (Leaf code) ->
  create_splicer show c path name level d None =
  Ok ((if show then [c ++ cp " splicer begin " ++ path ++ name] else []) ++ code ++
      (if show then [c ++ cp " splicer end " ++ path ++ name] else []), true).
Proof. exact create_user. Qed.
Print Assumptions C12_user_replaces_default.

Theorem C12_default_when_no_user_block : forall show c path name level d,
  assoc_get name level = None ->
  create_splicer show c path name level (Some d) None =
  Ok ((if show then [c ++ cp " splicer begin " ++ path ++ name] else []) ++ d ++
      (if show then [c ++ cp " splicer end " ++ path ++ name] else []), true).
Proof. exact create_default. Qed.
Print Assumptions C12_default_when_no_user_block.

(* Regeneration round trip: what _create_splicer writes for a user block is read back as that block. *)
Theorem C12_regenerate_roundtrip : forall c path name level code,
  no_s c = true -> c <> [] ->
  forallb nodot path = true -> nodot name = true ->
  forallb nospace path = true -> nospace name = true -> name <> [] ->
  forallb no_end code = true ->
  assoc_get name level = Some (Leaf code) ->
  exists lines, create_splicer true c (path_prefix path) name level None None = Ok (lines, true) /\
                get_splicers lines [] = Ok (nest path name (Leaf (map rstrip code))).
Proof. exact regenerate_roundtrip. Qed.
Print Assumptions C12_regenerate_roundtrip.

(* Body lines reach the file verbatim after the indentation — PARTIAL: only for lines that do not
   start with a directive character, hold no tab / form feed, do not start with CR and do not end in '+'. *)
Theorem C12_lines_verbatim_partial : forall p body i, forallb verbatim_ok body = true ->
  write_lines_from p i (map OStr body) = Ok (map (fun s => ind (with_indent p i) 0 ++ s) body, i).
Proof. exact write_lines_verbatim. Qed.
Print Assumptions C12_lines_verbatim_partial.

(* The full statement (all lines not starting with a metacharacter) is FALSE of the faithful model. *)
Definition starts_plain (s : ustr) : bool :=
  match s with c :: _ => negb (is_directive c) | [] => false end.
Definition wp0 := {| linelen := 80; indent := 0%Z; spaces := cp "    "; cont := [] |}.

Theorem C12_lines_verbatim_refuted_trailing_plus :
  exists s, starts_plain s = true /\
    exists out i, write_lines wp0 [OStr s] = Ok (out, i) /\ nows (List.concat out) <> nows s.
Proof.
  exists (cp "x = a +"). split; [reflexivity|].
  eexists. eexists. split; [vm_compute; reflexivity|]. vm_compute. discriminate.
Qed.
Print Assumptions C12_lines_verbatim_refuted_trailing_plus.

Theorem C12_lines_verbatim_refuted_tab :
  exists s, starts_plain s = true /\
    exists out i, write_lines wp0 [OStr s] = Ok (out, i) /\ out <> [rstrip s].
Proof.
  exists (cp "int" ++ [9%N] ++ cp "x;"). split; [reflexivity|].
  eexists. eexists. split; [vm_compute; reflexivity|]. vm_compute. discriminate.
Qed.
Print Assumptions C12_lines_verbatim_refuted_tab.

(* Non-vacuity *)
Example C12_example_file :
  get_splicers [cp "junk"; cp "// splicer begin class.Foo.method.bar"; cp "  return 1;   ";
                cp "// splicer end class.Foo.method.bar"; cp "splicer begin not_a_marker_in_col_0"] []
  = Ok [(cp "class", Node [(cp "Foo", Node [(cp "method", Node [(cp "bar", Leaf [cp "  return 1;"])])])])].
Proof. vm_compute. reflexivity. Qed.
