(* Properties/C05.v — every accepted input yields wrapper sources that compile and link (PARTIAL).
   What is logic is proved: helper code is gathered once, dependency-closed and in dependency order,
   for EVERY dependency table with a rank certificate and EVERY list of requested helpers.
   The table theorems (certificates for the real helper tables, balanced indentation directives of every
   template) are in dyn/C05_tables.v.  That the emitted text is accepted by gcc/g++/gfortran is validated
   by compiling (it is not a theorem). *)
From Coq Require Import List Bool Arith.
From Shroud Require Import Model.HelperDeps Proof.HelperDeps.
Import ListNotations.

Theorem C05_helpers_gathered_once_closed_in_order : forall t rank fuel roots,
  (forall n d, In d (deps t n) -> rank d < rank n) ->
  (forall r, In r roots -> rank r < fuel) ->
  let o := gather fuel t roots in
  NoDup o /\ (forall r, In r roots -> In r o) /\
  (forall m, In m o -> forall d, In d (deps t m) -> In d o) /\
  (forall l1 m l2, o = l1 ++ m :: l2 -> forall d, In d (deps t m) -> In d l1).
Proof. exact gather_closed_topological. Qed.
Print Assumptions C05_helpers_gathered_once_closed_in_order.

Theorem C05_certificate_is_sound : forall t rk fuel roots,
  ranked t rk = true -> forallb (fun r => Nat.ltb (nth r rk 0) fuel) roots = true ->
  let o := gather fuel t roots in
  NoDup o /\ (forall r, In r roots -> In r o) /\
  (forall m, In m o -> forall d, In d (deps t m) -> In d o) /\
  (forall l1 m l2, o = l1 ++ m :: l2 -> forall d, In d (deps t m) -> In d l1).
Proof. exact gather_on_ranked_table. Qed.
Print Assumptions C05_certificate_is_sound.

Theorem C05_dependencies_exist : forall t rk, ranked t rk = true -> forall n d, In d (deps t n) -> d < length t.
Proof. exact ranked_deps_exist. Qed.
Print Assumptions C05_dependencies_exist.

(* helper 0 needs 1 and 2, 1 needs 2: requesting [0; 1] emits 2, 1, 0 *)
Example C05_example : ranked [[1; 2]; [2]; []] [2; 1; 0] = true /\ gather 3 [[1; 2]; [2]; []] [0; 1] = [2; 1; 0].
Proof. split; reflexivity. Qed.
