(* Properties/C14.v — equivalent ways of stating the same customisation give identical results. *)
From Coq Require Import List NArith ZArith Bool Arith.
From Shroud Require Import Base.Ustr Model.Scope Model.Options Proof.Scope Proof.Options.
Import ListNotations.

(* A scope that does not bind k sees exactly what its parent sees. *)
Theorem C14_scope_inherits : forall h c o p k, wf h -> nth_error h c = Some o ->
  aget k (locals o) = None -> parent o = Some p -> getattr h c k = getattr h p k.
Proof. exact getattr_inherit. Qed.
Print Assumptions C14_scope_inherits.

(* Setting k on a container c is seen from every scope d nested (at any depth) inside it,
   as long as nothing between d and c binds k itself ... *)
Theorem C14_container_setting_reaches_nested : forall h k v d c,
  c < length h -> reach (S (length h)) h k d c = true -> getattr (setattr h c k v) d k = Ok v.
Proof. exact getattr_container. Qed.
Print Assumptions C14_container_setting_reaches_nested.

(* ... and that is what setting it on the nested declaration itself gives. *)
Theorem C14_container_equals_each_contained : forall h k v d c,
  c < length h -> d < length h -> reach (S (length h)) h k d c = true ->
  getattr (setattr h c k v) d k = getattr (setattr h d k v) d k.
Proof. intros. rewrite getattr_container, getattr_self by assumption. reflexivity. Qed.
Print Assumptions C14_container_equals_each_contained.

(* A setting changes no lookup (of any key) from a scope that is not nested inside the one it
   was made on: siblings, parents and unrelated scopes are unaffected. *)
Theorem C14_sibling_and_parent_unaffected : forall h a k v s k',
  ~ In a (chain (S (length h)) h s) -> getattr (setattr h a k v) s k' = getattr h s k'.
Proof. exact getattr_frame. Qed.
Print Assumptions C14_sibling_and_parent_unaffected.

(* Setting one key never disturbs another key. *)
Theorem C14_other_keys_unaffected : forall h a k v s k', k' <> k ->
  getattr (setattr h a k v) s k' = getattr h s k'.
Proof. exact getattr_other_key. Qed.
Print Assumptions C14_other_keys_unaffected.

(* Lookups terminate (no RecursionError) on heaps where parents are older than children. *)
Theorem C14_lookup_terminates : forall h k, wf h -> forall f id, id < f -> lookup f h id k <> OutOfFuel.
Proof. exact lookup_never_out_of_fuel. Qed.
Print Assumptions C14_lookup_terminates.

(* clone() and a fresh empty child scope (BlockNode, FunctionNode) are transparent for lookups. *)
Theorem C14_clone_transparent : forall h id k, wf h -> id < length h ->
  let '(h', n) := clone h id in getattr h' n k = getattr h id k /\ wf h'.
Proof. exact clone_lookup. Qed.
Print Assumptions C14_clone_transparent.

Theorem C14_empty_child_transparent : forall h p k, wf h -> p < length h ->
  let '(h', n) := new_scope h (Some p) [] in getattr h' n k = getattr h p k /\ wf h'.
Proof. exact new_child_lookup. Qed.
Print Assumptions C14_empty_child_transparent.

(* --option name=value stores what the YAML file would for booleans, for strings that are neither a
   boolean word nor an integer literal ... *)
Theorem C14_cli_bool_equals_yaml : forall b, cli_value (typed (VBool b)) = VBool b.
Proof. exact cli_bool. Qed.
Print Assumptions C14_cli_bool_equals_yaml.

Theorem C14_cli_string_equals_yaml : forall s, reserved s = false -> py_int s = None ->
  cli_value (typed (VStr s)) = VStr s.
Proof. exact cli_string. Qed.
Print Assumptions C14_cli_string_equals_yaml.

(* ... and (after the repair of main.py, see known_findings.json "fixed") for every integer. *)
Theorem C14_cli_int_equals_yaml : forall z, cli_value (typed (VInt z)) = VInt z.
Proof. exact cli_int. Qed.
Print Assumptions C14_cli_int_equals_yaml.

(* Non-vacuity: library(0) > namespace(1) > class(2) > function(3), sibling function(4) *)
Definition ex_heap : heap :=
  [ {| parent := None; locals := [(1, 10)]%N |}; {| parent := Some 0; locals := [] |};
    {| parent := Some 1; locals := [] |}; {| parent := Some 2; locals := [] |};
    {| parent := Some 1; locals := [(7, 70)]%N |} ].
Example C14_example : wf ex_heap /\ reach 6 ex_heap 7%N 3 1 = true /\
  ~ In 2 (chain 6 ex_heap 4) /\ getattr (setattr ex_heap 1 7%N 5%N) 3 7%N = Ok 5%N.
Proof.
  split; [|split; [reflexivity | split; [simpl; intuition discriminate | reflexivity]]].
  intros id o p Hn Hp. do 5 (destruct id as [|id]; [simpl in Hn; injection Hn as <-; simpl in Hp; try discriminate; injection Hp as <-; auto with arith|]).
  destruct id; discriminate.
Qed.
