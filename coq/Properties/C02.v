(* Properties/C02.v — the generated C API is call-equivalent to the C++ API (argument passing part).
   Model: CallEq (per wrapper: which C parameter each C++ argument is formed from and by which conversion; value semantics
   of the conversions).  dyn/C02_tables.v checks every wrapper generated on the run against wrapper_ok. *)
From Coq Require Import List NArith ZArith Bool Arith String.
From Shroud Require Import Base.Ustr Model.CallEq Proof.CallEq.
Import ListNotations.
Open Scope string_scope.

(* for every wrapper that passes the check and for ALL argument values representable in C: the C++ callee receives
   exactly the caller's values, in declaration order (references, enumerations, std::string and class arguments
   reconstructed from their C forms) *)
Theorem C02_checked_wrapper_delivers_arguments : forall w vs,
  wrapper_ok w = true -> NoDup (map fst (w_params w)) -> all_fit (w_params w) vs ->
  received w (caller_env (w_params w) vs) = vs.
Proof. exact checked_wrapper_delivers_arguments. Qed.
Print Assumptions C02_checked_wrapper_delivers_arguments.

(* the right object is 'this' *)
Theorem C02_checked_method_uses_self : forall w, wrapper_ok w = true -> w_kind w = "method" -> w_this w = "self" /\ w_call w = "method".
Proof. exact checked_method_uses_self. Qed.
Print Assumptions C02_checked_method_uses_self.

(* output string arguments are copied back, and only those *)
Theorem C02_checked_wrapper_copies_out_exactly : forall w, wrapper_ok w = true ->
  str_list_eqb (w_copyouts w) (map fst (filter (fun p => needs_copyout (snd p)) (w_params w))) = true.
Proof. exact checked_wrapper_copies_out_exactly. Qed.
Print Assumptions C02_checked_wrapper_copies_out_exactly.

(* each conversion undoes the C representation *)
Theorem C02_conversion_round_trip : forall c x, fits c x -> sem c (c_form c x) = x.
Proof. exact sem_c_form. Qed.
Print Assumptions C02_conversion_round_trip.

(* results: the conversion back is the inverse of the conversion in *)
Theorem C02_result_round_trip : forall z s id,
  sem Cast (rsem RCastBack (XEnum z)) = XEnum z /\ sem StringFrom (rsem RCStr (XStr s)) = XStr s /\
  sem ShadowAddr (rsem RShadow (XObjPtr id)) = XObjPtr id /\ sem Direct (rsem RDirect (XNum z)) = XNum z.
Proof. exact result_round_trip. Qed.
Print Assumptions C02_result_round_trip.

(* a std::string argument is built with the trimmed length L<name> exactly when the C prototype has that parameter: in the
   bufferify wrappers the text is blank padded, not terminated *)
Theorem C02_checked_string_uses_its_length : forall w c r, wrapper_ok w = true -> In (c, r) (w_args w) -> c = StringFrom ->
  smem (String.append "L" r) (w_cparams w) = smem r (w_lens w).
Proof. exact checked_string_uses_its_length. Qed.
Print Assumptions C02_checked_string_uses_its_length.

Example C02_example : wrapper_ok ex_w = true /\
  received ex_w (caller_env (w_params ex_w) [XNum 7; XEnum 5; XStr [104%N; 105%N]; XObj 3]) = [XNum 7; XEnum 5; XStr [104%N; 105%N]; XObj 3].
Proof. exact ex_w_delivers. Qed.
