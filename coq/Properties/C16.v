(* Properties/C16.v — documentation and debug options change comments only.
   Static part: a comment line without break hints stays one physical line that starts (after the
   indentation) with its comment leader, whatever the line length.  The guarded-site table theorem is in
   dyn/C16_tables.v (regenerated from /repo on every run). *)
From Coq Require Import List NArith ZArith Bool Arith String.
From Shroud Require Import Base.Ustr Model.Text Model.Splicer Proof.Text Proof.Splicer Proof.CommentsOnly.
Import ListNotations.

Theorem C16_comment_line_stays_one_comment_line : forall p s, verbatim_ok s = true ->
  write_continue p s = Ok [ind p 0 ++ s].
Proof. exact write_continue_verbatim. Qed.
Print Assumptions C16_comment_line_stays_one_comment_line.

Theorem C16_comment_lines_do_not_move_indentation : forall p body i, forallb verbatim_ok body = true ->
  write_lines_from p i (map OStr body) = Ok (map (fun s => ind (with_indent p i) 0 ++ s) body, i).
Proof. exact write_lines_verbatim. Qed.
Print Assumptions C16_comment_lines_do_not_move_indentation.

(* a block of comment lines (what doxygen / debug / show_splicer_comments add) inserted ANYWHERE in the line list of a file
   changes nothing but itself: the lines before and after it are rendered exactly as without the block — same text, same
   indentation, same final indentation — for every line list, line length and indentation unit *)
Theorem C16_comment_block_changes_only_itself : forall p a cs b i la ia lb ib,
  forallb verbatim_ok cs = true ->
  write_lines_from p i a = Ok (la, ia) -> write_lines_from p ia b = Ok (lb, ib) ->
  write_lines_from p i (a ++ b) = Ok (la ++ lb, ib) /\
  write_lines_from p i (a ++ map OStr cs ++ b) = Ok (la ++ comment_block p ia cs ++ lb, ib).
Proof. exact comments_only. Qed.
Print Assumptions C16_comment_block_changes_only_itself.

(* ... so erasing the block's own lines from the output with the option on gives the output with the option off *)
Theorem C16_erasing_the_block_gives_the_other_output : forall p a cs b i la ia lb ib,
  forallb verbatim_ok cs = true ->
  write_lines_from p i a = Ok (la, ia) -> write_lines_from p ia b = Ok (lb, ib) ->
  exists out, write_lines_from p i (a ++ map OStr cs ++ b) = Ok (out, ib) /\
              firstn (List.length la) out = la /\ skipn (List.length la + List.length cs) out = lb /\
              write_lines_from p i (a ++ b) = Ok (firstn (List.length la) out ++ skipn (List.length la + List.length cs) out, ib).
Proof. exact comments_only_erase. Qed.
Print Assumptions C16_erasing_the_block_gives_the_other_output.

Example C16_comment_block_example :
  let p := {| linelen := 40; indent := 1; spaces := cp "  "%string; cont := [] |} in
  let a := [OStr (cp "int f(int a)"%string); OStr (cp "{+"%string)] in
  let b := [OStr (cp "return a;"%string); OStr (cp "-}"%string)] in
  let cs := [cp "// Function:  int f"%string; cp "// Argument:  int a +value"%string] in
  forallb verbatim_ok cs = true /\
  write_lines_from p 1 (a ++ b) = Ok (map cp ["  int f(int a)"; "  {"; "    return a;"; "  }"]%string, 1%Z) /\
  write_lines_from p 1 (a ++ map OStr cs ++ b) =
    Ok (map cp ["  int f(int a)"; "  {"; "    // Function:  int f"; "    // Argument:  int a +value"; "    return a;"; "  }"]%string, 1%Z).
Proof. exact comments_only_example. Qed.

Example C16_example : verbatim_ok (cp "// Argument:  int a +value"%string) = true /\ verbatim_ok (cp "! Function:  void f"%string) = true.
Proof. split; reflexivity. Qed.
