(* Properties/C16.v — documentation and debug options change comments only.
   Static part: a comment line without break hints stays one physical line that starts (after the
   indentation) with its comment leader, whatever the line length.  The guarded-site table theorem is in
   dyn/C16_tables.v (regenerated from /repo on every run). *)
From Coq Require Import List NArith ZArith Bool Arith String.
From Shroud Require Import Base.Ustr Model.Text Model.Splicer Proof.Text Proof.Splicer.
Import ListNotations.

Theorem C16_comment_line_stays_one_comment_line : forall p s, verbatim_ok s = true ->
  write_continue p s = Ok [ind p 0 ++ s].
Proof. exact write_continue_verbatim. Qed.
Print Assumptions C16_comment_line_stays_one_comment_line.

Theorem C16_comment_lines_do_not_move_indentation : forall p body i, forallb verbatim_ok body = true ->
  write_lines_from p i (map OStr body) = Ok (map (fun s => ind (with_indent p i) 0 ++ s) body, i).
Proof. exact write_lines_verbatim. Qed.
Print Assumptions C16_comment_lines_do_not_move_indentation.

Example C16_example : verbatim_ok (cp "// Argument:  int a +value"%string) = true /\ verbatim_ok (cp "! Function:  void f"%string) = true.
Proof. split; reflexivity. Qed.
