(* Properties/C01.v — Fortran wrapper calls are equivalent to calling the library directly (Fortran -> C boundary).
   Model: FCall (per call of a bind(C) interface inside a generated specific: source dummy argument and conversion of
   every actual argument; value semantics: trailing-blank trimming, NUL termination, len / len_trim / size, logical
   coercion, capsule).  The C -> C++ boundary is Properties/C02.v, the agreement of the bind(C) interface with the C
   prototype is Properties/C04.v, the C string helpers (copy, blank fill) are Properties/C10.v. *)
From Coq Require Import List NArith ZArith Bool Arith String.
From Shroud Require Import Base.Ustr Model.FCall Proof.FCall.
Import ListNotations.
Open Scope string_scope.

(* for every specific that passes the check and ALL values of its dummy arguments (of their declared kinds): each
   parameter of the C interface whose value the documentation fixes — a dummy argument passed through, the trimmed length,
   the declared length, the array extent — receives exactly that value, in the order of the interface *)
Theorem C01_checked_call_delivers : forall f env,
  fcall_ok f = true ->
  (forall p, mem p (fc_dummies f) = true -> has_kind (kind_of p (fc_kinds f)) (flookup p env)) ->
  Forall2 (fun p act => forall v, documented (fc_dummies f) env p = Some v -> act = v) (fc_params f) (actuals f env).
Proof. exact checked_call_delivers. Qed.
Print Assumptions C01_checked_call_delivers.

(* character input: the C side sees the caller's characters — the buffer itself, or a NUL-terminated copy without the
   trailing blanks (the documented conversion) *)
Theorem C01_character_argument : forall ks ds env p a s,
  arg_ok ks ds p a = true -> mem p ds = true -> String.eqb p "self" = false -> kind_of p ks = DChar -> flookup p env = VChar s ->
  fsem (fst a) (flookup (snd a) env) = AText s \/ fsem (fst a) (flookup (snd a) env) = ACStr (rtrim s).
Proof. exact char_arg_delivers. Qed.
Print Assumptions C01_character_argument.

(* trimming removes the trailing blanks and nothing else *)
Theorem C01_trim_removes_only_trailing_blanks : forall s, exists t, s = (rtrim s ++ t)%list /\ Forall (fun c => c = blank) t /\
  match rev (rtrim s) with c :: _ => c <> blank | [] => True end.
Proof. exact rtrim_spec. Qed.
Print Assumptions C01_trim_removes_only_trailing_blanks.

(* the object of a type-bound call is the passed-object dummy argument *)
Theorem C01_self_is_the_passed_object : forall ks ds a, arg_ok ks ds "self" a = true -> fst a = FSelf.
Proof. exact self_is_the_passed_object. Qed.
Print Assumptions C01_self_is_the_passed_object.

(* an output argument of a checked call (intent out / inout): the caller's variable holds what the C function stored through
   the argument it was given; it was given the variable's own storage, or a C_BOOL local that is copied back after the call *)
Theorem C01_checked_outputs_reach_the_caller : forall f stored before r c,
  fcall_ok f = true -> mem r (fc_outputs f) = true -> In (c, r) (fc_args f) -> passes_value c = true ->
  caller_sees f stored before r = stored r.
Proof. exact checked_outputs_reach_the_caller. Qed.
Print Assumptions C01_checked_outputs_reach_the_caller.

(* without the copy back the caller keeps the old value, and the call is not accepted: the rule is needed *)
Example C01_copy_back_is_needed :
  let f := {| fc_name := "flip"; fc_dummies := ["flag"]; fc_kinds := [("flag", DLog)]; fc_params := ["flag"];
              fc_args := [(FBool, "flag")]; fc_outputs := ["flag"]; fc_copyback := [] |} in
  fcall_ok f = false /\ caller_sees f (fun _ => 1) (fun _ => 0) "flag" = 0.
Proof. exact copy_back_is_needed. Qed.

(* a character dummy handed to C as its own (blank padded, not terminated) storage always travels with a length parameter *)
Theorem C01_direct_character_has_a_length : forall f p r,
  fcall_ok f = true -> In (p, (FDirect, r)) (combine (fc_params f) (fc_args f)) ->
  kind_of p (fc_kinds f) = DChar -> mem p (fc_dummies f) = true ->
  has_length (fc_args f) p = true.
Proof. exact direct_character_has_a_length. Qed.
Print Assumptions C01_direct_character_has_a_length.

(* non-vacuity *)
Definition ex_f : fcall :=
  {| fc_name := "fn0>c_fn0_bufferify"; fc_dummies := ["a0"; "a1"; "a3"; "a4"]; fc_kinds := [("a0", DObj); ("a1", DNum); ("a3", DChar); ("a4", DArr)];
     fc_params := ["a0"; "a1"; "a3"; "La3"; "a4"; "na4"; "DSHF_rv"];
     fc_args := [(FCapsule, "a0"); (FDirect, "a1"); (FDirect, "a3"); (FLenTrim, "a3"); (FDirect, "a4"); (FSize, "a4"); (FResult, "DSHF_rv")];
     fc_outputs := ["a4"]; fc_copyback := [] |}.
Example C01_example : fcall_ok ex_f = true /\
  actuals ex_f [("a0", VObj 2); ("a1", VNum 7); ("a3", VChar [104; 105; 32; 32]%N); ("a4", VArr [1; 2; 3]%Z)]
  = [ACap 2; ANum 7; AText [104; 105; 32; 32]%N; ANum 2; AArr [1; 2; 3]%Z; ANum 3; AOther].
Proof. split; vm_compute; reflexivity. Qed.
