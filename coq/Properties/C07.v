(* Properties/C07.v — output is a pure, repeatable function of the inputs and command line.
   Abstract part; the theorems over the regenerated registry / nondeterminism tables are in dyn/C07_tables.v. *)
From Coq Require Import List Bool.
From Shroud Require Import Model.Registry Proof.Registry.
Import ListNotations.

Theorem C07_history_independent : forall (regs input output : Type) (fresh : regs)
    (reinit : regs -> input -> regs) (body : regs -> input -> regs * output),
  (forall s1 s2 x, reinit s1 x = reinit s2 x) ->
  forall h1 h2 x, output_after regs input output fresh reinit body h1 x =
                  output_after regs input output fresh reinit body h2 x.
Proof. exact history_independent. Qed.
Print Assumptions C07_history_independent.

Theorem C07_leftover_state_depends_on_last_input : forall (regs input output : Type) (fresh : regs)
    (reinit : regs -> input -> regs) (body : regs -> input -> regs * output),
  (forall s1 s2 x, reinit s1 x = reinit s2 x) ->
  forall h1 h2 x, after regs input output reinit body fresh (h1 ++ [x]) =
                  after regs input output reinit body fresh (h2 ++ [x]).
Proof. exact state_depends_on_last_input. Qed.
Print Assumptions C07_leftover_state_depends_on_last_input.

(* non-vacuity: a two-registry process whose driver rebuilds both registries from the input *)
Example C07_example :
  let reinit := fun (_ : nat * nat) (x : nat) => (x, x + 1) in
  let body := fun (s : nat * nat) (x : nat) => ((fst s + 7, snd s), fst s + snd s) in
  output_after (nat * nat) nat nat (0, 0) reinit body [3; 9] 5 = output_after (nat * nat) nat nat (0, 0) reinit body [] 5.
Proof. reflexivity. Qed.
