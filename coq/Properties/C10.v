(* Properties/C10.v — character data crosses the language boundary by the documented rules.
   Statements about the executable model of the C helpers (Model/StrHelpers.v).  The theorems over
   the regenerated call-site table are in dyn/C10_tables.v (compiled on every run). *)
From Coq Require Import List NArith ZArith Bool Arith.
From Shroud Require Import Base.Ustr Model.StrHelpers Proof.StrHelpers.
Import ListNotations.

(* Fortran text -> C: every text is its trailing-blank-free part followed by blanks ... *)
Theorem C10_rtrim_is_text_without_trailing_blanks : forall t, exists k,
  t = rtrim_blank t ++ repeat BL k /\
  (match rev (rtrim_blank t) with c :: _ => c <> BL | [] => True end).
Proof. exact rtrim_blank_spec. Qed.
Print Assumptions C10_rtrim_is_text_without_trailing_blanks.

(* ... and C receives exactly that part, NUL terminated, with no access outside a buffer:
   ShroudStrAlloc(text, len, -1)  (CFI route) *)
Theorem C10_input_auto_trim : forall text, exists pad,
  str_alloc text (length text) (-1) = (rtrim_blank text ++ [NUL] ++ pad, true).
Proof. exact str_alloc_auto. Qed.
Print Assumptions C10_input_auto_trim.

(* ShroudStrAlloc(text, len_trim, len_trim)  (bufferify route, intent in) *)
Theorem C10_input_buf_trim : forall text, let nt := fst (len_trim text (length text)) in
  str_alloc text nt (Z.of_nat nt) = (rtrim_blank text ++ [NUL], true).
Proof. exact str_alloc_trim. Qed.
Print Assumptions C10_input_buf_trim.

(* ShroudStrAlloc(text, len, len_trim)  (bufferify route, intent inout) *)
Theorem C10_inout_buf_trim : forall text, let nt := fst (len_trim text (length text)) in
  exists pad, str_alloc text (length text) (Z.of_nat nt) = (rtrim_blank text ++ [NUL] ++ pad, true).
Proof. exact str_alloc_len_trim. Qed.
Print Assumptions C10_inout_buf_trim.

(* in every in-bounds call the block handed to C has room for the whole Fortran variable (nsrc characters) and the NUL:
   the C function's result for an intent(inout) argument, at most nsrc characters, is written inside it *)
Theorem C10_buffer_has_room_for_the_variable : forall src nsrc ntrim,
  snd (str_alloc src nsrc ntrim) = true -> length (fst (str_alloc src nsrc ntrim)) = S nsrc.
Proof. exact str_alloc_room. Qed.
Print Assumptions C10_buffer_has_room_for_the_variable.

(* what strlen/C code sees in that buffer is the trimmed text (for text without NUL) *)
Theorem C10_input_c_string_is_trimmed_text : forall text,
  forallb (fun c => negb (N.eqb c NUL)) text = true ->
  forall pad, cstr (rtrim_blank text ++ [NUL] ++ pad) = rtrim_blank text.
Proof. exact str_alloc_cstr. Qed.
Print Assumptions C10_input_c_string_is_trimmed_text.

(* C string -> fixed-length Fortran variable of ndest characters: truncate or blank pad;
   bytes after the variable untouched; no out-of-bounds access. *)
Theorem C10_output_strlen : forall dest ndest s k, cstrlen s = Some k -> ndest <= length dest ->
  str_copy dest ndest (Some s) (-1) =
  (firstn ndest (firstn k s ++ repeat BL ndest) ++ skipn ndest dest, true).
Proof. exact str_copy_strlen. Qed.
Print Assumptions C10_output_strlen.

(* std::string data()/size() route *)
Theorem C10_output_explicit_length : forall dest ndest s n, n <= length s -> ndest <= length dest ->
  str_copy dest ndest (Some s) (Z.of_nat n) =
  (firstn ndest (firstn n s ++ repeat BL ndest) ++ skipn ndest dest, true).
Proof. exact str_copy_explicit. Qed.
Print Assumptions C10_output_explicit_length.

(* NULL pointer (and, with k = 0, the empty string) -> all blank *)
Theorem C10_output_null_is_blank : forall dest ndest, ndest <= length dest ->
  str_copy dest ndest None 0 = (repeat BL ndest ++ skipn ndest dest, true).
Proof. exact str_copy_null. Qed.
Print Assumptions C10_output_null_is_blank.

(* no NUL ends up inside the Fortran variable *)
Theorem C10_output_has_no_nul : forall t ndest,
  forallb (fun c => negb (N.eqb c NUL)) t = true ->
  forallb (fun c => negb (N.eqb c NUL)) (firstn ndest (t ++ repeat BL ndest)) = true.
Proof. exact no_nul_firstn_pad. Qed.
Print Assumptions C10_output_has_no_nul.

(* the bytes before the NUL that strlen finds hold no NUL (so the theorem above applies) *)
Theorem C10_cstrlen_prefix_has_no_nul : forall s k, cstrlen s = Some k ->
  k < length s /\ nth k s 1%N = NUL /\ forallb (fun c => negb (N.eqb c NUL)) (firstn k s) = true.
Proof. exact cstrlen_spec. Qed.
Print Assumptions C10_cstrlen_prefix_has_no_nul.

(* char* intent(out): the library wrote a NUL-terminated string into the Fortran buffer *)
Theorem C10_blank_fill : forall dest ndest nm, cstrlen dest = Some nm -> nm < ndest -> ndest <= length dest ->
  blank_fill dest ndest = (firstn nm dest ++ repeat BL (ndest - nm) ++ skipn ndest dest, true).
Proof. exact blank_fill_spec. Qed.
Print Assumptions C10_blank_fill.

(* ... the exact-fit case (library filled all ndest characters, no room for NUL) reads past the buffer *)
Theorem C10_blank_fill_exact_fit_reads_out_of_bounds : forall dest ndest,
  cstrlen (firstn ndest dest) = None -> ndest = length dest -> snd (blank_fill dest ndest) = false.
Proof. exact blank_fill_exact_fit_oob. Qed.
Print Assumptions C10_blank_fill_exact_fit_reads_out_of_bounds.

(* every admitted call form of ShroudStrAlloc is sound *)
Theorem C10_alloc_forms_sound : forall text nsrc ntrim, alloc_form_ok nsrc ntrim = true ->
  exists pad, str_alloc text (den_nsrc text nsrc) (den_ntrim text ntrim) = (rtrim_blank text ++ [NUL] ++ pad, true).
Proof. exact alloc_form_sound. Qed.
Print Assumptions C10_alloc_forms_sound.

Example C10_example : str_copy [1;2;3;4;5;6;7]%N 5 (Some [104;105;0;9]%N) (-1) = ([104;105;32;32;32;6;7]%N, true)
  /\ fst (str_alloc [97;32;98;32;32]%N 5 (-1)) = [97;32;98;0;256;256]%N.
Proof. split; vm_compute; reflexivity. Qed.
