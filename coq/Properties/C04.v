(* Properties/C04.v — Fortran bind(C) interfaces agree with the C functions they bind to.
   Static part: argument count and order.  The interoperability of every declaration pair, of the
   helper structs and of the shared constants are table theorems in dyn/C04_tables.v. *)
From Coq Require Import List Bool Arith.
From Shroud Require Import Model.Interop Proof.Interop.
Import ListNotations.

(* For every function signature (any number of arguments, any buf_args per argument, any extra result
   arguments, method or not): if every arg_decl statement entry lists as many C as Fortran declarations,
   the C prototype and the Fortran interface have the same parameters in the same order. *)
Theorem C04_same_arguments_same_order : forall s, sig_balanced s = true -> c_prototype s = f_interface s.
Proof. exact layouts_agree. Qed.
Print Assumptions C04_same_arguments_same_order.

Theorem C04_balance_is_needed : exists s, sig_balanced s = false /\ length (c_prototype s) <> length (f_interface s).
Proof. exact unbalanced_differs. Qed.
Print Assumptions C04_balance_is_needed.

Example C04_example :
  let s := {| has_this := true; arg_bufs := [[]; [BArg; BLenTrim; BLen]; [BArgDecl 1 1; BSize]]; extra_bufs := [BContext] |} in
  sig_balanced s = true /\ length (c_prototype s) = 8.
Proof. split; reflexivity. Qed.
