(* Extraction of the executable models for the correspondence harness.
   ExtrOcamlBasic only: bool/option/list/prod/unit/sumbool map to OCaml's;
   N, Z, positive, nat stay the extracted inductives. *)
From Coq Require Import Extraction ExtrOcamlBasic.
From Shroud Require Import Base.Ustr Model.Text Model.Splicer Model.Scope Model.Options Model.StrHelpers Model.Lexer Model.Expr Model.Enum Model.Decl Model.Attrs Model.Render Model.Names Model.Capsule Model.LuaDispatch Model.PyDispatch Model.HelperDeps Model.PyHandles Proof.RoundTrip Proof.RenderLex Proof.ExprRT Proof.ExprLex.
Extraction Language OCaml.
Extraction "model.ml" Text.write_continue Text.write_lines Ustr.lstrip Ustr.rstrip
  Splicer.get_splicers Splicer.create_splicer
  Scope.srun Options.cli_value
  StrHelpers.len_trim StrHelpers.str_copy StrHelpers.blank_fill StrHelpers.str_alloc StrHelpers.str_array_alloc
  Lexer.tokenize Expr.check_expr Expr.parse_enum Expr.print_expr Enum.derive Enum.cxx_values
  LuaDispatch.dispatch LuaDispatch.lay_function LuaDispatch.lay_method
  PyDispatch.py_dispatch HelperDeps.gather Decl.parse_statement Attrs.parse_and_verify Render.render_decl Render.reparse Names.expand Names.expand_w Names.nm_c_name Names.nm_f_impl Names.nm_f_generic Names.un_camel Capsule.crun Capsule.cstep Capsule.init RoundTrip.in_fragment RenderLex.text_fragment PyHandles.compile PyHandles.py_init ExprRT.canon ExprLex.etext.
