(* Base/Ustr.v — text as lists of Unicode code points, Python str helpers.
   No facts about shroud here. *)
From Coq Require Import List NArith Bool Arith Lia.
Import ListNotations.
Local Open Scope N_scope.

Definition ustr := list N.

(* Python str.isspace() for a single code point (CPython 3.12 _PyUnicode_IsWhitespace). *)
Definition py_isspace (c : N) : bool :=
  ((9 <=? c) && (c <=? 13)) || ((28 <=? c) && (c <=? 32)) ||
  (c =? 133) || (c =? 160) || (c =? 5760) ||
  ((8192 <=? c) && (c <=? 8202)) || (c =? 8232) || (c =? 8233) ||
  (c =? 8239) || (c =? 8287) || (c =? 12288).

Fixpoint lstrip (s : ustr) : ustr :=
  match s with
  | [] => []
  | c :: r => if py_isspace c then lstrip r else s
  end.

Definition rstrip (s : ustr) : ustr := rev (lstrip (rev s)).

Definition nows (s : ustr) : ustr := filter (fun c => negb (py_isspace c)) s.

Fixpoint ueqb (a b : ustr) : bool :=
  match a, b with
  | [], [] => true
  | x :: a', y :: b' => (x =? y) && ueqb a' b'
  | _, _ => false
  end.

Fixpoint repeat_str (s : ustr) (n : nat) : ustr :=
  match n with O => [] | S k => s ++ repeat_str s k end.

(* Python exceptions that are not diagnostics *)
Inductive pyexc := IndexError | KeyError | AttributeError | TypeError | ValueError.

Inductive result (A : Type) :=
| Ok (a : A)
| Reject (m : ustr)
| Crash (e : pyexc)
| OutOfFuel.
Arguments Ok {A} a.
Arguments Reject {A} m.
Arguments Crash {A} e.
Arguments OutOfFuel {A}.

Definition bind {A B} (r : result A) (f : A -> result B) : result B :=
  match r with
  | Ok a => f a
  | Reject m => Reject m
  | Crash e => Crash e
  | OutOfFuel => OutOfFuel
  end.

(* split on a separator code point, Python str.split(sep) semantics: always >= 1 field *)
Fixpoint split_on_aux (sep : N) (cur : ustr) (s : ustr) : list ustr :=
  match s with
  | [] => [rev cur]
  | c :: r => if c =? sep then rev cur :: split_on_aux sep [] r
              else split_on_aux sep (c :: cur) r
  end.
Definition split_on (sep : N) (s : ustr) : list ustr := split_on_aux sep [] s.

Fixpoint starts_with (p s : ustr) : bool :=
  match p, s with
  | [], _ => true
  | x :: p', y :: s' => (x =? y) && starts_with p' s'
  | _ :: _, [] => false
  end.

(* Python str.find(sub): index of first occurrence or None *)
Fixpoint find_sub_aux (sub s : ustr) (i : nat) : option nat :=
  match s with
  | [] => if starts_with sub [] then Some i else None
  | _ :: r => if starts_with sub s then Some i else find_sub_aux sub r (S i)
  end.
Definition find_sub (sub s : ustr) : option nat := find_sub_aux sub s 0.
