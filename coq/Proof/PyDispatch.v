From Coq Require Import List NArith Bool Arith Lia.
From Shroud Require Import Model.PyDispatch.
Import ListNotations.

(* what one C variable holds after a successful parse *)
Definition slot_ok (p : pparam) (idx req : nat) (c : pcall) (s : psrc) : Prop :=
  match nth_error (pc_pos c) idx with
  | Some t => accepts (pp_fmt p) t = true /\ s = SPos idx
  | None =>
      match find_kw idx (pc_kws c) 0 with
      | Some (j, t) => accepts (pp_fmt p) t = true /\ s = SKw j
      | None => req <= idx /\ s = SUninit
      end
  end.

Lemma assign_sound ps : forall i req c srcs, assign ps i req c = Some srcs ->
  length srcs = length ps /\
  forall m p, nth_error ps m = Some p -> exists s, nth_error srcs m = Some s /\ slot_ok p (i + m) req c s.
Proof.
  induction ps as [|p r IH]; intros i req c srcs H; simpl in H.
  - injection H as <-. split; [reflexivity|]. intros m q Hm. destruct m; discriminate.
  - set (here := match nth_error (pc_pos c) i with
                 | Some t => if accepts (pp_fmt p) t then Some (SPos i) else None
                 | None => match find_kw i (pc_kws c) 0 with
                           | Some (j, t) => if accepts (pp_fmt p) t then Some (SKw j) else None
                           | None => if Nat.ltb i req then None else Some SUninit
                           end
                 end) in *.
    destruct here as [s|] eqn:Eh; [|discriminate].
    destruct (assign r (S i) req c) as [rest|] eqn:Er; [|discriminate].
    injection H as <-. destruct (IH _ _ _ _ Er) as [Hl Hn]. split; [simpl; congruence|].
    intros m q Hm. destruct m as [|m].
    + simpl in Hm. injection Hm as <-. exists s. split; [reflexivity|].
      rewrite Nat.add_0_r. unfold slot_ok. unfold here in Eh.
      destruct (nth_error (pc_pos c) i) as [t|].
      * destruct (accepts (pp_fmt p) t) eqn:Ea; [|discriminate]. injection Eh as <-. split; reflexivity.
      * destruct (find_kw i (pc_kws c) 0) as [[j t]|].
        -- destruct (accepts (pp_fmt p) t) eqn:Ea; [|discriminate]. injection Eh as <-. split; reflexivity.
        -- destruct (Nat.ltb_spec i req); [discriminate|]. injection Eh as <-. split; [assumption | reflexivity].
    + simpl in Hm. destruct (Hn m q Hm) as [s' [H1 H2]]. exists s'. split; [exact H1|].
      replace (i + S m) with (S i + m) by lia. exact H2.
Qed.

Lemma assign_complete ps : forall i req c,
  (forall m p, nth_error ps m = Some p -> exists s, slot_ok p (i + m) req c s) ->
  exists srcs, assign ps i req c = Some srcs.
Proof.
  induction ps as [|p r IH]; intros i req c H; simpl; [eexists; reflexivity|].
  destruct (H 0 p eq_refl) as [s Hs]. rewrite Nat.add_0_r in Hs. unfold slot_ok in Hs.
  destruct (IH (S i) req c) as [rest Hr].
  { intros m q Hm. destruct (H (S m) q Hm) as [s' Hs']. exists s'. replace (S i + m) with (i + S m) by lia. exact Hs'. }
  rewrite Hr.
  destruct (nth_error (pc_pos c) i) as [t|].
  - destruct Hs as [Ha _]. rewrite Ha. eexists; reflexivity.
  - destruct (find_kw i (pc_kws c) 0) as [[j t]|].
    + destruct Hs as [Ha _]. rewrite Ha. eexists; reflexivity.
    + destruct Hs as [Hreq _]. destruct (Nat.ltb_spec i req); [lia|]. eexists; reflexivity.
Qed.

(* a required parameter that is not supplied, or a supplied value of an unaccepted class: TypeError *)
Lemma assign_fails ps : forall i req c m p,
  nth_error ps m = Some p ->
  (forall s, ~ slot_ok p (i + m) req c s) ->
  assign ps i req c = None.
Proof.
  intros i req c m p Hm Hno. destruct (assign ps i req c) as [srcs|] eqn:E; [|reflexivity].
  destruct (assign_sound _ _ _ _ _ E) as [_ H]. destruct (H m p Hm) as [s [_ Hs]]. exfalso. exact (Hno s Hs).
Qed.

Lemma nth_error_firstn_lt {A} (l : list A) : forall n m, m < n -> nth_error (firstn n l) m = nth_error l m.
Proof.
  induction l as [|x r IH]; intros n m H; destruct n, m; simpl; try reflexivity; try lia. apply IH. lia.
Qed.

(* ---------- call_fn ---------- *)
Lemma call_too_many f c : length (pf_params f) < length (pc_pos c) + length (pc_kws c) -> call_fn f c = PTypeError.
Proof.
  intros H. unfold call_fn, parse. destruct (Nat.ltb_spec (length (pf_params f)) (length (pc_pos c) + length (pc_kws c))); [reflexivity | lia].
Qed.

Definition bad_kw (nps npos : nat) (kw : option nat * ptag) : bool :=
  match fst kw with None => true | Some k => Nat.ltb k npos || Nat.leb nps k end.

Lemma call_bad_keyword f c : existsb (bad_kw (length (pf_params f)) (length (pc_pos c))) (pc_kws c) = true ->
  call_fn f c = PTypeError.
Proof.
  intros H. unfold call_fn, parse.
  destruct (Nat.ltb (length (pf_params f)) (length (pc_pos c) + length (pc_kws c))); [reflexivity|].
  unfold bad_kw in H. rewrite H. reflexivity.
Qed.

Lemma call_bad_slot f c m p : nth_error (pf_params f) m = Some p ->
  (forall s, ~ slot_ok p m (required (pf_params f)) c s) -> call_fn f c = PTypeError.
Proof.
  intros Hm Hno. unfold call_fn, parse.
  destruct (Nat.ltb (length (pf_params f)) (length (pc_pos c) + length (pc_kws c))); [reflexivity|].
  destruct (existsb _ (pc_kws c)); [reflexivity|].
  rewrite (assign_fails (pf_params f) 0 _ c m p Hm); [reflexivity|]. exact Hno.
Qed.

(* delivery: whatever is called, every C variable handed to the library satisfies slot_ok *)
Lemma call_delivers f c n srcs : call_fn f c = PCalled n srcs ->
  n <= length (pf_params f) /\ length srcs = n /\
  forall m p, m < n -> nth_error (pf_params f) m = Some p ->
    exists s, nth_error srcs m = Some s /\ slot_ok p m (required (pf_params f)) c s.
Proof.
  unfold call_fn, parse.
  destruct (Nat.ltb (length (pf_params f)) (length (pc_pos c) + length (pc_kws c))); [discriminate|].
  destruct (existsb _ (pc_kws c)); [discriminate|].
  destruct (assign (pf_params f) 0 (required (pf_params f)) c) as [all|] eqn:Ea; [|discriminate].
  destruct (assign_sound _ _ _ _ _ Ea) as [Hl Hn].
  destruct (has_default (pf_params f)).
  - set (n0 := length (pc_pos c) + length (pc_kws c)).
    destruct (Nat.leb (required (pf_params f)) n0 && Nat.leb n0 (length (pf_params f))) eqn:Ew; [|discriminate].
    intros H. injection H as <- <-. apply andb_true_iff in Ew. destruct Ew as [_ Hle]. apply Nat.leb_le in Hle.
    split; [exact Hle|]. split; [rewrite firstn_length; lia|].
    intros m p Hm Hp. destruct (Hn m p Hp) as [s [H1 H2]]. exists s. split; [|exact H2].
    rewrite nth_error_firstn_lt by exact Hm. exact H1.
  - intros H. injection H as <- <-. split; [lia|]. split; [exact Hl|].
    intros m p _ Hp. destruct (Hn m p Hp) as [s [H1 H2]]. exists s. split; assumption.
Qed.

(* no gap among the supplied parameters => no uninitialised variable reaches the library *)
Definition supplied (c : pcall) (idx : nat) : bool :=
  match nth_error (pc_pos c) idx with
  | Some _ => true
  | None => match find_kw idx (pc_kws c) 0 with Some _ => true | None => false end
  end.

Lemma call_prefix_no_uninit f c n srcs : call_fn f c = PCalled n srcs ->
  (forall m, m < n -> supplied c m = true) ->
  forall m s, nth_error srcs m = Some s -> s <> SUninit.
Proof.
  intros Hc Hsup m s Hs. destruct (call_delivers _ _ _ _ Hc) as [Hn [Hl Hd]].
  assert (Hm : m < n) by (rewrite <- Hl; apply nth_error_Some; congruence).
  destruct (nth_error (pf_params f) m) as [p|] eqn:Ep; [|apply nth_error_None in Ep; lia].
  destruct (Hd m p Hm Ep) as [s' [H1 H2]]. rewrite H1 in Hs. injection Hs as <-.
  specialize (Hsup m Hm). unfold supplied in Hsup. unfold slot_ok in H2.
  destruct (nth_error (pc_pos c) m); [destruct H2 as [_ ->]; discriminate|].
  destruct (find_kw m (pc_kws c) 0) as [[j t]|]; [destruct H2 as [_ ->]; discriminate | discriminate].
Qed.

(* ---------- multi_dispatch ---------- *)
Definition in_window (f : pfun) (c : pcall) : bool :=
  let n := length (pc_pos c) + length (pc_kws c) in
  let ps := pf_params f in
  if has_default ps then Nat.leb (required ps) n && Nat.leb n (length ps) else Nat.eqb n (length ps).

Definition rejects (f : pfun) (c : pcall) : bool :=
  negb (in_window f c) || match call_fn f c with PTypeError => true | _ => false end.

Lemma multi_some ovs : forall idx c j o, py_multi ovs idx c = Some (j, o) ->
  exists before f after, ovs = before ++ f :: after /\ j = idx + length before /\
    forallb (fun g => rejects g c) before = true /\ in_window f c = true /\ call_fn f c = o /\ o <> PTypeError.
Proof.
  induction ovs as [|f r IH]; intros idx c j o H; simpl in H; [discriminate|].
  fold (in_window f c) in H.
  destruct (in_window f c) eqn:Ew.
  - destruct (call_fn f c) eqn:Ec.
    + injection H as <- <-. exists [], f, r. simpl. repeat split; try lia; try assumption; discriminate.
    + destruct (IH _ _ _ _ H) as [b [g [a [H1 [H2 [H3 H4]]]]]]. exists (f :: b), g, a. subst. simpl.
      repeat split; try lia; try tauto. unfold rejects. rewrite Ew, Ec. simpl. tauto.
    + injection H as <- <-. exists [], f, r. simpl. repeat split; try lia; try assumption; discriminate.
  - destruct (IH _ _ _ _ H) as [b [g [a [H1 [H2 [H3 H4]]]]]]. exists (f :: b), g, a. subst. simpl.
    repeat split; try lia; try tauto. unfold rejects. rewrite Ew. simpl. tauto.
Qed.

Lemma multi_none ovs : forall idx c, py_multi ovs idx c = None -> forallb (fun g => rejects g c) ovs = true.
Proof.
  induction ovs as [|f r IH]; intros idx c H; simpl in H; [reflexivity|].
  fold (in_window f c) in H. simpl. unfold rejects at 1.
  destruct (in_window f c) eqn:Ew.
  - destruct (call_fn f c) eqn:Ec; try discriminate. simpl. eapply IH; eassumption.
  - simpl. eapply IH; eassumption.
Qed.
