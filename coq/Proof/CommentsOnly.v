(* Proof/CommentsOnly.v — a block of comment lines inserted anywhere in the line list of a file changes nothing but itself:
   the lines before and after it are rendered exactly as without it (same text, same indentation, same final state). *)
From Coq Require Import List NArith ZArith Bool Arith Lia.
From Shroud Require Import Base.Ustr Model.Text Model.Splicer Proof.Text Proof.Splicer.
Import ListNotations.

Lemma write_lines_app p : forall a b i,
  write_lines_from p i (a ++ b) =
  bind (write_lines_from p i a) (fun o1 =>
  bind (write_lines_from p (snd o1) b) (fun o2 => Ok (fst o1 ++ fst o2, snd o2))).
Proof.
  induction a as [|x r IH]; intros b i.
  - cbn [app write_lines_from bind fst snd]. destruct (write_lines_from p i b) as [[l j]| | |]; reflexivity.
  - destruct x as [d|s].
    + cbn [app write_lines_from]. apply IH.
    + cbn [app write_lines_from]. destruct (write_sublines p i (split_on LF s)) as [[l1 i1]| | |]; cbn [bind]; try reflexivity.
      cbn [snd fst]. rewrite IH. destruct (write_lines_from p i1 r) as [[l2 i2]| | |]; cbn [bind]; try reflexivity.
      cbn [snd fst]. destruct (write_lines_from p i2 b) as [[l3 i3]| | |]; cbn [bind]; try reflexivity.
      cbn [fst snd]. rewrite app_assoc. reflexivity.
Qed.

(* the rendering of a comment block at indentation i *)
Definition comment_block (p : wparams) (i : Z) (cs : list ustr) : list ustr := map (fun s => ind (with_indent p i) 0 ++ s) cs.

Theorem comments_only : forall p a cs b i la ia lb ib,
  forallb verbatim_ok cs = true ->
  write_lines_from p i a = Ok (la, ia) -> write_lines_from p ia b = Ok (lb, ib) ->
  write_lines_from p i (a ++ b) = Ok (la ++ lb, ib) /\
  write_lines_from p i (a ++ map OStr cs ++ b) = Ok (la ++ comment_block p ia cs ++ lb, ib).
Proof.
  intros p a cs b i la ia lb ib Hc Ha Hb. split.
  - rewrite write_lines_app, Ha. cbn [bind snd fst]. rewrite Hb. reflexivity.
  - rewrite write_lines_app, Ha. cbn [bind snd fst]. rewrite write_lines_app.
    rewrite (write_lines_verbatim p cs ia Hc). cbn [bind snd fst]. rewrite Hb. reflexivity.
Qed.

(* removing the block's own lines from the output with the block gives the output without it *)
Corollary comments_only_erase : forall p a cs b i la ia lb ib,
  forallb verbatim_ok cs = true ->
  write_lines_from p i a = Ok (la, ia) -> write_lines_from p ia b = Ok (lb, ib) ->
  exists out, write_lines_from p i (a ++ map OStr cs ++ b) = Ok (out, ib) /\
              firstn (length la) out = la /\ skipn (length la + length cs) out = lb /\
              write_lines_from p i (a ++ b) = Ok (firstn (length la) out ++ skipn (length la + length cs) out, ib).
Proof.
  intros p a cs b i la ia lb ib Hc Ha Hb. destruct (comments_only p a cs b i la ia lb ib Hc Ha Hb) as [H0 H1].
  exists (la ++ comment_block p ia cs ++ lb). split; [exact H1|].
  assert (F : firstn (length la) (la ++ comment_block p ia cs ++ lb) = la).
  { rewrite firstn_app, Nat.sub_diag, firstn_O, app_nil_r, firstn_all. reflexivity. }
  assert (S : skipn (length la + length cs) (la ++ comment_block p ia cs ++ lb) = lb).
  { rewrite skipn_app, Nat.add_comm, Nat.add_sub.
    rewrite (skipn_all2 la) by lia. cbn [app]. rewrite skipn_app.
    assert (L : length (comment_block p ia cs) = length cs) by (unfold comment_block; apply map_length).
    rewrite L, Nat.sub_diag. rewrite skipn_all2 by lia. reflexivity. }
  rewrite F, S. repeat split; try reflexivity. exact H0.
Qed.

From Coq Require Import String.
(* non-vacuity: a code line, an indentation step, a doxygen-style comment block, a code line *)
Example comments_only_example :
  let p := {| linelen := 40; indent := 1; spaces := cp "  "%string; cont := [] |} in
  let a := [OStr (cp "int f(int a)"%string); OStr (cp "{+"%string)] in
  let b := [OStr (cp "return a;"%string); OStr (cp "-}"%string)] in
  let cs := [cp "// Function:  int f"%string; cp "// Argument:  int a +value"%string] in
  forallb verbatim_ok cs = true /\
  write_lines_from p 1 (a ++ b) = Ok (map cp ["  int f(int a)"; "  {"; "    return a;"; "  }"]%string, 1%Z) /\
  write_lines_from p 1 (a ++ map OStr cs ++ b) =
    Ok (map cp ["  int f(int a)"; "  {"; "    // Function:  int f"; "    // Argument:  int a +value"; "    return a;"; "  }"]%string, 1%Z).
Proof. vm_compute. repeat split; reflexivity. Qed.
