From Coq Require Import List Bool.
From Shroud Require Import Model.WrapFlags.
Import ListNotations.

Lemma flag_wor k a b : flag_of k (wor a b) = flag_of k a || flag_of k b.
Proof. destruct k; reflexivity. Qed.

Lemma fold_flag k (f : dnode -> wflags) kids : forall acc,
  flag_of k (fold_left (fun a x => wor a (f x)) kids acc) = flag_of k acc || existsb (fun x => flag_of k (f x)) kids.
Proof.
  induction kids as [|x r IH]; intros acc; simpl; [rewrite orb_false_r; reflexivity|].
  rewrite IH, flag_wor, orb_assoc. reflexivity.
Qed.

(* promotion is exactly "some declaration in the subtree has the language on" *)
Fixpoint promote_any k (n : dnode) {struct n} : flag_of k (promote n) = any_on k n.
Proof.
  destruct n as [w|own kids]; simpl; [reflexivity|].
  rewrite fold_flag. f_equal.
  induction kids as [|x r IH]; simpl; [reflexivity|]. rewrite promote_any, IH. reflexivity.
Qed.

(* a language that is off on the library and on every declaration in it produces no wrapper file *)
Lemma off_everywhere_no_files k lib : any_on k lib = false -> emitted lib k = false.
Proof. intros H. unfold emitted. rewrite promote_any. exact H. Qed.

Lemma on_somewhere_files k lib : any_on k lib = true -> emitted lib k = true.
Proof. intros H. unfold emitted. rewrite promote_any. exact H. Qed.

(* flags of different languages do not interact: changing the python / lua flags of any node leaves the
   C and Fortran emission decisions unchanged *)
Fixpoint set_py_lua (p l : bool) (n : dnode) : dnode :=
  match n with
  | Leaf w => Leaf {| w_c := w_c w; w_fortran := w_fortran w; w_python := p; w_lua := l |}
  | Container own kids =>
      Container {| w_c := w_c own; w_fortran := w_fortran own; w_python := p; w_lua := l |} (map (set_py_lua p l) kids)
  end.

Fixpoint any_on_set_py_lua k p l (n : dnode) {struct n} : (k = KC \/ k = KFortran) ->
  any_on k (set_py_lua p l n) = any_on k n.
Proof.
  intros Hk. destruct n as [w|own kids]; simpl.
  - destruct Hk as [-> | ->]; reflexivity.
  - f_equal; [destruct Hk as [-> | ->]; reflexivity|].
    induction kids as [|x r IH]; simpl; [reflexivity|]. rewrite any_on_set_py_lua by exact Hk. rewrite IH. reflexivity.
Qed.

Lemma py_lua_do_not_touch_c_fortran k p l lib : (k = KC \/ k = KFortran) ->
  emitted (set_py_lua p l lib) k = emitted lib k.
Proof. intros Hk. unfold emitted. rewrite !promote_any. apply any_on_set_py_lua. exact Hk. Qed.
