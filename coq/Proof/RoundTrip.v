(* Proof/RoundTrip.v — the whole-declaration round trip on tokens: for every declaration of the fragment [in_fragment]
   (built-in type words, cv-qualifiers, any pointer / reference / function-pointer declarator, parameter lists nested to
   any depth, a trailing const) the parser reads back, from the tokens the declaration stands for, exactly that
   declaration and leaves what follows untouched. *)
From Coq Require Import List NArith ZArith Bool Arith String Lia.
From Shroud Require Import Base.Ustr Model.Splicer Model.Lexer Model.Expr Model.Decl Model.Render Proof.Splicer Proof.Render Proof.ExprRT Proof.ExprLex.
Import ListNotations.

(* ---- the tokens a declaration of the fragment stands for ---- *)
(* a built-in type word is a TYPE_SPECIFIER token, any other word of a specifier is an identifier (a type name) *)
Definition spec_wordb (w : ustr) : bool := ustr_in w (map cp type_specifier).
Definition spec_tok (w : ustr) : tok := {| tk := if spec_wordb w then TYPE_SPECIFIER else ID; tv := w |}.
(* a qualified name "a::b::c": its components, and the tokens it stands for *)
Fixpoint split_colons_aux (cur : ustr) (s : ustr) : list ustr :=
  match s with
  | [] => [rev cur]
  | c :: r =>
      if (c =? 58)%N then
        match r with
        | c2 :: r2 => if (c2 =? 58)%N then rev cur :: split_colons_aux [] r2 else split_colons_aux (c :: cur) r
        | [] => split_colons_aux (c :: cur) r
        end
      else split_colons_aux (c :: cur) r
  end.
Definition split_colons (s : ustr) : list ustr := split_colons_aux [] s.
Definition id_tok (n : ustr) : tok := {| tk := ID; tv := n |}.
Definition ns_tok : tok := {| tk := NAMESPACE; tv := [58; 58]%N |}.
Definition path_toks (names : list ustr) : list tok :=
  match names with
  | [] => []
  | n0 :: rest => id_tok n0 :: flat_map (fun n => [ns_tok; id_tok n]) rest
  end.
Definition type_toks (spec : list ustr) : list tok :=
  match spec with
  | [w] => if spec_wordb w then [spec_tok w] else path_toks (split_colons w)
  | _ => map spec_tok spec
  end.
(* number of name components of the type (fuel the parser spends on it) *)
Definition spec_len (spec : list ustr) : nat :=
  match spec with
  | [w] => if spec_wordb w then 1 else List.length (split_colons w)
  | _ => List.length spec
  end.

Fixpoint join_toks (l : list (list tok)) : list tok :=
  match l with [] => [] | [x] => x | x :: r => x ++ tok_of COMMA "," :: join_toks r end.

Definition lb_tok : tok := {| tk := LBRACKET; tv := [91%N] |}.
Definition rb_tok : tok := {| tk := RBRACKET; tv := [93%N] |}.
Definition arr_toks (arr : list expr) : list tok := flat_map (fun e => lb_tok :: etoks e ++ [rb_tok]) arr.

Fixpoint decl_toks (d : decl) : list tok :=
  let '(Decl spec _ c v _ dt params arr _ _ _ fconst) := d in
  (if c then [tok_of TYPE_QUALIFIER "const"] else []) ++ (if v then [tok_of TYPE_QUALIFIER "volatile"] else []) ++
  type_toks spec ++
  (match dt with Some x => dtor_toks x | None => [] end) ++
  (match params with
   | None => []
   | Some ps => tok_of LPAREN "(" :: (match ps with [] => [spec_tok (cp "void")] | _ => join_toks (map decl_toks ps) end)
                ++ tok_of RPAREN ")" :: (if fconst then [tok_of TYPE_QUALIFIER "const"] else [])
   end) ++
  arr_toks arr.

(* ---- the fragment, as a boolean predicate ---- *)
Definition wf_ptrb (p : ptr) : bool := ueqb (p_ptr p) (cp "*") || ueqb (p_ptr p) (cp "&").
Fixpoint wf_dtorb (c : pctx) (d : declarator) : bool :=
  let '(Dtor ps name func) := d in
  forallb wf_ptrb ps &&
  match func with
  | Some f => match name with None => wf_dtorb c f | Some _ => false end
  | None => match name with
            | Some n => match sym_lookup n (scope c) with None => true | Some _ => false end   (* the declared name is not a type name *)
            | None => match ps with [] => false | _ => true end
            end
  end.
(* a declarator that can carry a parameter list: it ends in a name or a parenthesised declarator *)
Definition callable (d : declarator) : bool :=
  match d with Dtor _ None None => false | _ => true end.

Definition void_decl : decl := Decl [cp "void"] [] false false (cp "void") None None [] [] AVNone [] false.

(* the type: built-in words resolving to a known typemap, or one unqualified name of a type in scope (not the
   enclosing class itself, which would make "Name (" a constructor) *)
Fixpoint walk (ns : sym) (names : list ustr) : option sym :=
  match names with
  | [] => Some ns
  | n :: r => match ns with
              | Sym _ KScope _ members => match sym_lookup n members with Some ns2 => walk ns2 r | None => None end
              | _ => None
              end
  end.
Definition resolve (c : pctx) (names : list ustr) : option sym :=
  match names with
  | [] => None
  | n0 :: rest => match sym_lookup n0 (scope c) with Some ns => walk ns rest | None => None end
  end.
Definition named_type (c : pctx) (spec : list ustr) : option (nat * ustr) :=
  match spec with
  | [w] => if spec_wordb w then None else
           if ueqb (join_colons (split_colons w)) w then
             match resolve c (split_colons w) with
             | Some (Sym id _ (TmName tm) _) => Some (id, tm)
             | _ => None
             end
           else None
  | _ => None
  end.
Definition spec_okb (c : pctx) (spec : list ustr) (tm : ustr) : bool :=
  match named_type c spec with
  | Some (id, tm') => ueqb tm tm' && negb (cur_is_class c && Nat.eqb (cur_id c) id)
  | None => forallb spec_wordb spec && ueqb tm (canonical (join_us spec)) && ustr_in tm (known_types c)
  end.

Fixpoint in_fragment (c : pctx) (d : decl) : bool :=
  let '(Decl spec storage cst vol tm dt params arr attrs init targs fconst) := d in
  match spec with [] => false | _ => true end &&
  match storage with [] => true | _ => false end &&
  forallb canon arr &&
  match attrs with [] => true | _ => false end &&
  match init with AVNone => true | _ => false end &&
  match targs with [] => true | _ => false end &&
  spec_okb c spec tm &&
  match dt with Some x => wf_dtorb c x | None => true end &&
  match params with
  | None => negb fconst
  | Some ps => match dt with Some x => callable x | None => false end &&
               forallb (in_fragment c) ps &&
               match ps with
               | [] => ustr_in (cp "void") (known_types c)
               | [p] => negb (is_void_param p)
               | _ => true
               end
  end.

Fixpoint dsize (d : decl) : nat :=
  let '(Decl spec _ _ _ _ dt params arr _ _ _ _) := d in
  4 + spec_len spec + (match dt with Some x => depth x | None => 0 end) + List.length arr +
  match params with None => 0 | Some ps => 4 + list_sum (map (fun p => S (dsize p)) ps) end.

(* what may follow a declaration: the end, a comma, a closing parenthesis or a semicolon *)
Definition ends_decl (rest : list tok) : Prop :=
  match rest with [] => True | t :: _ => tk t = COMMA \/ tk t = RPAREN \/ tk t = SEMICOLON end.

(* ... or, before the array suffixes have been read, an opening bracket *)
Definition mid (rest : list tok) : Prop :=
  match rest with [] => True | t :: _ => tk t = COMMA \/ tk t = RPAREN \/ tk t = SEMICOLON \/ tk t = LBRACKET end.
Lemma ends_mid rest : ends_decl rest -> mid rest.
Proof. destruct rest as [|t r]; [auto|]. cbn. tauto. Qed.

(* ---- specifier run followed by something that is not a type name ---- *)
Definition ends_spec_in (c : pctx) (rest : list tok) : Prop :=
  match rest with
  | [] => True
  | t :: _ => is_spec_tok t = false /\ (tk t = ID -> sym_lookup (tv t) (scope c) = None)
  end.

Lemma specifier_run_then_name : forall toks fuel c s rest,
  forallb is_spec_tok toks = true -> ends_spec_in c rest -> List.length toks < fuel ->
  p_specifier fuel c false s (toks ++ rest) = Ok (fold_left spec_step toks s, rest).
Proof.
  induction toks as [|t toks IH]; intros fuel c s rest Hall Hend Hf.
  - cbn [app fold_left]. destruct fuel as [|f]; [cbn in Hf; lia|]. cbn [p_specifier].
    destruct rest as [|r0 rr]; [reflexivity|]. destruct Hend as (Hs & Hid). unfold is_spec_tok in Hs.
    destruct (tk r0) eqn:Ek; try reflexivity; try discriminate.
    rewrite (Hid eq_refl). reflexivity.
  - cbn [forallb] in Hall. apply andb_true_iff in Hall. destruct Hall as [Ht Hall].
    destruct fuel as [|f]; [cbn in Hf; lia|]. cbn [List.length] in Hf.
    cbn [app p_specifier fold_left]. unfold is_spec_tok in Ht. unfold spec_step at 2.
    destruct (tk t) eqn:Ek; try discriminate.
    + apply IH; [exact Hall | exact Hend | lia].
    + destruct (ueqb (tv t) (cp "const")); apply IH; try assumption; lia.
    + apply IH; [exact Hall | exact Hend | lia].
Qed.

Definition s_init : spec_state :=
  {| ss_spec := []; ss_storage := []; ss_const := false; ss_volatile := false; ss_tm := None; ss_targs := [];
     ss_ctor := false; ss_dtor := None |}.

Lemma fold_spec_words_only : forall ws s, forallb spec_wordb ws = true ->
  fold_left spec_step (map spec_tok ws) s =
  {| ss_spec := ss_spec s ++ ws; ss_storage := ss_storage s; ss_const := ss_const s; ss_volatile := ss_volatile s;
     ss_tm := ss_tm s; ss_targs := ss_targs s; ss_ctor := ss_ctor s; ss_dtor := ss_dtor s |}.
Proof.
  induction ws as [|w ws IH]; intros s Hw; cbn [map fold_left].
  - rewrite app_nil_r. destruct s; reflexivity.
  - cbn [forallb] in Hw. apply andb_true_iff in Hw. destruct Hw as [Hw Hws].
    rewrite IH by exact Hws. unfold spec_step, spec_tok. rewrite Hw. cbn [tk tv ss_spec ss_storage ss_const ss_volatile ss_tm ss_targs ss_ctor ss_dtor].
    rewrite <- app_assoc. reflexivity.
Qed.

Definition head_toks (c v : bool) (spec : list ustr) : list tok :=
  (if c then [tok_of TYPE_QUALIFIER "const"] else []) ++ (if v then [tok_of TYPE_QUALIFIER "volatile"] else []) ++ type_toks spec.

Lemma type_toks_native spec : forallb spec_wordb spec = true -> type_toks spec = map spec_tok spec.
Proof.
  destruct spec as [|w [|w2 l]]; try reflexivity. cbn [forallb]. intros H. apply andb_true_iff in H. destruct H as [H _].
  unfold type_toks. rewrite H. reflexivity.
Qed.
Lemma spec_len_native spec : forallb spec_wordb spec = true -> spec_len spec = List.length spec.
Proof.
  destruct spec as [|w [|w2 l]]; try reflexivity. cbn [forallb]. intros H. apply andb_true_iff in H. destruct H as [H _].
  unfold spec_len. rewrite H. reflexivity.
Qed.

Lemma head_toks_spec c v spec : forallb spec_wordb spec = true -> forallb is_spec_tok (head_toks c v spec) = true.
Proof.
  intros Hw. unfold head_toks. rewrite (type_toks_native spec Hw), !forallb_app.
  assert (Hm : forallb is_spec_tok (map spec_tok spec) = true).
  { induction spec as [|w ws IH]; [reflexivity|]. cbn [forallb] in Hw. apply andb_true_iff in Hw. destruct Hw as [Hw Hws].
    cbn [map forallb]. rewrite (IH Hws). unfold is_spec_tok, spec_tok. rewrite Hw. reflexivity. }
  rewrite Hm. destruct c, v; reflexivity.
Qed.

Lemma head_toks_fold c v spec : forallb spec_wordb spec = true ->
  fold_left spec_step (head_toks c v spec) s_init =
  {| ss_spec := spec; ss_storage := []; ss_const := c; ss_volatile := v; ss_tm := None; ss_targs := [];
     ss_ctor := false; ss_dtor := None |}.
Proof.
  intros Hw. unfold head_toks. rewrite (type_toks_native spec Hw), !fold_left_app, fold_spec_words_only by exact Hw.
  destruct c, v; reflexivity.
Qed.

Lemma head_toks_length c v spec : forallb spec_wordb spec = true -> List.length (head_toks c v spec) <= 2 + List.length spec.
Proof. intros Hw. unfold head_toks. rewrite (type_toks_native spec Hw), !app_length, map_length. destruct c, v; cbn [List.length]; lia. Qed.

Lemma split_aux_nonempty : forall s cur, exists x l, split_colons_aux cur s = x :: l.
Proof.
  induction s as [|c r IH]; intros cur; cbn [split_colons_aux]; [eauto|].
  destruct (c =? 58)%N; [|apply IH]. destruct r as [|c2 r2]; [cbn [split_colons_aux]; eauto|].
  destruct (c2 =? 58)%N; [eauto | apply IH].
Qed.

Definition starts_decl (t : tok) : bool :=
  match tk t with TYPE_QUALIFIER | TYPE_SPECIFIER | ID => true | _ => false end.

Lemma head_first c v spec : spec <> [] ->
  exists t r, head_toks c v spec = t :: r /\ starts_decl t = true.
Proof.
  intros Hs. unfold head_toks. destruct c; [eexists; eexists; split; [reflexivity | reflexivity]|].
  destruct v; [eexists; eexists; split; [reflexivity | reflexivity]|].
  destruct spec as [|w ws]; [contradiction|]. unfold type_toks.
  destruct ws as [|w2 ws'].
  - destruct (spec_wordb w) eqn:Ew.
    + eexists; eexists; split; [reflexivity|]. unfold starts_decl, spec_tok. rewrite Ew. reflexivity.
    + unfold split_colons. destruct (split_aux_nonempty w []) as (x & l & E). rewrite E. cbn [path_toks app].
      eexists; eexists; split; [reflexivity | reflexivity].
  - cbn [map app]. eexists; eexists; split; [reflexivity|].
    unfold starts_decl, spec_tok. cbn [tk]. destruct (spec_wordb w); reflexivity.
Qed.

(* ---- consequences of [ends_decl] ---- *)
Ltac ends_tac H := destruct H as [H | [H | H]]; rewrite H.
Ltac mid_tac H := destruct H as [H | [H | [H | H]]]; rewrite H.

Lemma ends_decl_stops rest : mid rest -> stops rest.
Proof. destruct rest as [|t r]; [exact (fun _ => I)|]. intros H. cbn [stops]. mid_tac H; repeat split; discriminate. Qed.

Lemma ends_decl_spec c rest : mid rest -> ends_spec_in c rest.
Proof.
  destruct rest as [|t r]; [exact (fun _ => I)|]. intros H. cbn [ends_spec_in]. unfold is_spec_tok.
  mid_tac H; split; try reflexivity; intros; discriminate.
Qed.

Lemma wf_ptrb_ok p : wf_ptrb p = true -> wf_ptr p.
Proof.
  unfold wf_ptrb, wf_ptr. intros H. apply orb_true_iff in H. destruct H as [H | H]; apply Proof.Splicer.ueqb_eq in H; auto.
Qed.

Lemma wf_dtorb_ok c : forall d, wf_dtorb c d = true -> wf_dtor d.
Proof.
  fix IH 1. intros [ps name func] H. cbn [wf_dtorb] in H. apply andb_true_iff in H. destruct H as [Hp H].
  cbn [wf_dtor]. split.
  - apply Forall_forall. intros p Hin. apply wf_ptrb_ok. rewrite forallb_forall in Hp. apply Hp; exact Hin.
  - destruct func as [f|].
    + destruct name; [discriminate|]. split; [reflexivity | apply IH; exact H].
    + destruct name; [exact I|]. destruct ps; [discriminate | discriminate].
Qed.

(* the first token of a declarator's tokens, when it is an identifier, is the declared name *)
Lemma dtor_first_in c d rest : wf_dtorb c d = true -> mid rest \/ (exists r, rest = tok_of LPAREN "(" :: r) ->
  ends_spec_in c (dtor_toks d ++ rest).
Proof.
  destruct d as [ps name func]. intros H Hr. cbn [wf_dtorb] in H. apply andb_true_iff in H. destruct H as [Hp H].
  cbn [dtor_toks]. destruct ps as [|p ps].
  - cbn [map List.concat app]. destruct func as [f|].
    + cbn [app ends_spec_in]. split; [reflexivity | intros; discriminate].
    + destruct name as [n|]; [|discriminate]. cbn [app ends_spec_in tk tv]. split; [reflexivity|].
      intros _. destruct (sym_lookup n (scope c)); [discriminate | reflexivity].
  - cbn [map List.concat ptr_toks app ends_spec_in]. unfold is_spec_tok. cbn [tk].
    destruct (ueqb (p_ptr p) (cp "&")); split; try reflexivity; intros; discriminate.
Qed.

(* the kinds of token that can follow the type of a fragment declaration *)
Definition after_spec (rest : list tok) : Prop :=
  match rest with
  | [] => True
  | t :: _ => match tk t with STAR | REF | ID | LPAREN | COMMA | RPAREN | SEMICOLON | LBRACKET => True | _ => False end
  end.

Lemma ends_decl_after rest : mid rest -> after_spec rest.
Proof. destruct rest as [|t r]; [exact (fun _ => I)|]. intros H. cbn [after_spec]. mid_tac H; exact I. Qed.

Lemma dtor_first_kind c d rest : wf_dtorb c d = true -> mid rest \/ (exists r, rest = tok_of LPAREN "(" :: r) ->
  after_spec (dtor_toks d ++ rest).
Proof.
  destruct d as [ps name func]. intros H Hr. cbn [wf_dtorb] in H. apply andb_true_iff in H. destruct H as [Hp H].
  cbn [dtor_toks]. destruct ps as [|p ps].
  - cbn [map List.concat app]. destruct func as [f|]; [exact I|].
    destruct name as [n|]; [exact I | discriminate].
  - cbn [map List.concat ptr_toks app after_spec tk]. destruct (ueqb (p_ptr p) (cp "&")); exact I.
Qed.

(* ---- the specifier phase of a fragment declaration ---- *)
Definition s_of (cst vol : bool) (spec : list ustr) (otm : option ustr) : spec_state :=
  {| ss_spec := spec; ss_storage := []; ss_const := cst; ss_volatile := vol; ss_tm := otm; ss_targs := [];
     ss_ctor := false; ss_dtor := None |}.

Lemma decl_spec_head f c cst vol spec R : spec <> [] -> forallb spec_wordb spec = true -> ends_spec_in c R -> 3 + List.length spec < f ->
  p_decl_spec f c (head_toks cst vol spec ++ R) = Ok (s_of cst vol spec None, R).
Proof.
  intros Hs Hw HR Hf. destruct f as [|f']; [lia|]. cbn [p_decl_spec].
  destruct (head_first cst vol spec Hs) as (t & r & Eh & Ht).
  assert (Hp : peek TILDE (head_toks cst vol spec ++ R) = false).
  { rewrite Eh. cbn [app peek]. unfold starts_decl in Ht. destruct (tk t); try discriminate; reflexivity. }
  rewrite Hp.
  rewrite specifier_run_then_name; [| apply head_toks_spec; exact Hw | exact HR | pose proof (head_toks_length cst vol spec Hw); lia].
  change (fold_left spec_step (head_toks cst vol spec) _) with (fold_left spec_step (head_toks cst vol spec) s_init).
  rewrite head_toks_fold by exact Hw. cbn [bind fst ss_spec]. destruct spec; [contradiction|]. reflexivity.
Qed.

(* a type name: looked up in scope, no "::" and no "<" follow, it is not the enclosing class *)
Lemma after_spec_peeks c s f R : after_spec R ->
  peek NAMESPACE R = false /\ peek LT R = false /\ p_specifier (S f) c true s R = Ok (s, R).
Proof.
  destruct R as [|t r]; [intros _; repeat split; reflexivity|]. cbn [after_spec peek p_specifier].
  destruct (tk t); intros H; try contradiction; repeat split; reflexivity.
Qed.

Lemma p_nested_path : forall rest fuel ns acc R ns',
  walk ns rest = Some ns' -> List.length rest < fuel -> peek NAMESPACE R = false ->
  p_nested fuel ns acc (flat_map (fun n => [ns_tok; id_tok n]) rest ++ R) = Ok (ns', acc ++ rest, R).
Proof.
  induction rest as [|n rest IH]; intros fuel ns acc R ns' Hw Hf HR.
  - cbn [walk] in Hw. inversion Hw; subst ns'. cbn [flat_map app]. destruct fuel as [|f]; [cbn in Hf; lia|].
    cbn [p_nested]. rewrite HR, app_nil_r. reflexivity.
  - destruct fuel as [|f]; [cbn in Hf; lia|]. cbn [List.length] in Hf.
    cbn [flat_map app p_nested peek ns_tok id_tok tk tv kind_eqb tl mustbe bind fst snd].
    cbn [walk] in Hw. destruct ns as [nid [| |] ntm members]; try discriminate.
    destruct (sym_lookup n members) as [ns2|] eqn:El; [|discriminate].
    rewrite (IH f ns2 (acc ++ [n]) R ns' Hw ltac:(lia) HR). rewrite <- app_assoc. reflexivity.
Qed.

Lemma p_spec_named F c s n0 rest ns0 id k tm ms R :
  sym_lookup n0 (scope c) = Some ns0 -> walk ns0 rest = Some (Sym id k (TmName tm) ms) ->
  cur_is_class c && Nat.eqb (cur_id c) id = false -> after_spec R -> List.length rest < F ->
  p_specifier (S F) c false s (path_toks (n0 :: rest) ++ R) =
  Ok ({| ss_spec := ss_spec s ++ [join_colons (n0 :: rest)]; ss_storage := ss_storage s; ss_const := ss_const s; ss_volatile := ss_volatile s;
         ss_tm := Some tm; ss_targs := ss_targs s; ss_ctor := false; ss_dtor := ss_dtor s |}, R).
Proof.
  intros Hl Hw Hc HR HF. destruct F as [|f]; [lia|].
  destruct (after_spec_peeks c s f R HR) as (Hns & Hlt & _).
  cbn [path_toks app p_specifier id_tok tk tv]. rewrite Hl.
  rewrite (p_nested_path rest (S f) ns0 [n0] R _ Hw HF Hns). cbn [bind app p_targs]. rewrite Hlt. cbn [bind].
  rewrite Hc. cbn [andb ss_spec ss_storage ss_const ss_volatile ss_tm ss_targs ss_ctor ss_dtor].
  destruct (after_spec_peeks c {| ss_spec := ss_spec s ++ [join_colons (n0 :: rest)]; ss_storage := ss_storage s; ss_const := ss_const s; ss_volatile := ss_volatile s;
         ss_tm := Some tm; ss_targs := ss_targs s; ss_ctor := false; ss_dtor := ss_dtor s |} f R HR) as (_ & _ & Hp).
  exact Hp.
Qed.

Definition dt_toks (dt : option declarator) : list tok := match dt with Some x => dtor_toks x | None => [] end.
Definition par_toks (params : option (list decl)) (fconst : bool) : list tok :=
  match params with
  | None => []
  | Some ps => tok_of LPAREN "(" :: (match ps with [] => [spec_tok (cp "void")] | _ => join_toks (map decl_toks ps) end)
               ++ tok_of RPAREN ")" :: (if fconst then [tok_of TYPE_QUALIFIER "const"] else [])
  end.

Lemma decl_toks_eq spec st c v tm dt params arr at_ init ta fc :
  decl_toks (Decl spec st c v tm dt params arr at_ init ta fc) = head_toks c v spec ++ dt_toks dt ++ par_toks params fc ++ arr_toks arr.
Proof. cbn [decl_toks]. unfold head_toks, dt_toks, par_toks. rewrite <- !app_assoc. reflexivity. Qed.

Lemma decl_toks_first c d : in_fragment c d = true -> exists t r, decl_toks d = t :: r /\ starts_decl t = true.
Proof.
  destruct d as [spec st cst vol tm dt params arr at_ init ta fc]. intros H. rewrite decl_toks_eq.
  assert (Hs : spec <> []). { cbn [in_fragment] in H. destruct spec; [discriminate | discriminate]. }
  destruct (head_first cst vol spec Hs) as (t & r & Eh & Ht). rewrite Eh. cbn [app]. eauto.
Qed.

Lemma spec_tok_not k t : starts_decl t = true -> k <> TYPE_SPECIFIER -> k <> TYPE_QUALIFIER -> k <> ID -> kind_eqb (tk t) k = false.
Proof. unfold starts_decl. destruct (tk t); try discriminate; destruct k; try reflexivity; intros; contradiction. Qed.

Definition psum (ps : list decl) : nat := list_sum (map (fun p => S (dsize p)) ps).

Lemma in_fragment_fields c spec st cst vol tm dt params arr at_ init ta fc :
  in_fragment c (Decl spec st cst vol tm dt params arr at_ init ta fc) = true ->
  spec <> [] /\ st = [] /\ forallb canon arr = true /\ at_ = [] /\ init = AVNone /\ ta = [] /\
  spec_okb c spec tm = true /\
  match dt with Some x => wf_dtorb c x = true | None => True end /\
  match params with
  | None => fc = false
  | Some ps => (exists x, dt = Some x /\ callable x = true) /\ forallb (in_fragment c) ps = true /\
               match ps with [] => ustr_in (cp "void") (known_types c) = true | [p] => is_void_param p = false | _ => True end
  end.
Proof.
  intros H. cbn [in_fragment] in H.
  repeat match type of H with (_ && _) = true => apply andb_true_iff in H; let H2 := fresh "H" in destruct H as [H H2] end.
  repeat split.
  - destruct spec; [discriminate | discriminate].
  - destruct st; [reflexivity | discriminate].
  - assumption.
  - destruct at_; [reflexivity | discriminate].
  - destruct init; try discriminate; reflexivity.
  - destruct ta; [reflexivity | discriminate].
  - assumption.
  - destruct dt; [assumption | exact I].
  - destruct params as [ps|].
    + repeat match goal with Hx : (_ && _) = true |- _ => apply andb_true_iff in Hx; let H2 := fresh "H" in destruct Hx as [Hx H2] end.
      repeat split.
      * destruct dt as [x|]; [exists x; split; [reflexivity | assumption] | discriminate].
      * assumption.
      * destruct ps as [|p [|q l]]; [assumption | | exact I].
        match goal with Hx : negb _ = true |- _ => apply negb_true_iff in Hx; exact Hx end.
    + match goal with Hx : negb fc = true |- _ => apply negb_true_iff in Hx; exact Hx end.
Qed.

Lemma p_spec_const f c found s r :
  p_specifier (S f) c found s (tok_of TYPE_QUALIFIER "const" :: r) =
  p_specifier f c found {| ss_spec := ss_spec s; ss_storage := ss_storage s; ss_const := true; ss_volatile := ss_volatile s;
                           ss_tm := ss_tm s; ss_targs := ss_targs s; ss_ctor := ss_ctor s; ss_dtor := ss_dtor s |} r.
Proof. reflexivity. Qed.
Lemma p_spec_volatile f c found s r :
  p_specifier (S f) c found s (tok_of TYPE_QUALIFIER "volatile" :: r) =
  p_specifier f c found {| ss_spec := ss_spec s; ss_storage := ss_storage s; ss_const := ss_const s; ss_volatile := true;
                           ss_tm := ss_tm s; ss_targs := ss_targs s; ss_ctor := ss_ctor s; ss_dtor := ss_dtor s |} r.
Proof. reflexivity. Qed.

(* the specifier phase, for both kinds of type *)
Lemma spec_phase f c cst vol spec tm R : spec <> [] -> spec_okb c spec tm = true -> ends_spec_in c R -> after_spec R ->
  3 + spec_len spec < f ->
  exists otm, p_decl_spec f c (head_toks cst vol spec ++ R) = Ok (s_of cst vol spec otm, R) /\
              get_canonical c (s_of cst vol spec otm) = Ok tm.
Proof.
  intros Hs Hok HR HA Hf. unfold spec_okb in Hok. destruct (named_type c spec) as [[id tm']|] eqn:En.
  - (* a type name *)
    apply andb_true_iff in Hok. destruct Hok as [Htm Hcls]. apply Proof.Splicer.ueqb_eq in Htm. subst tm'.
    apply negb_true_iff in Hcls. unfold named_type in En.
    destruct spec as [|w [|w2 l]]; try discriminate. destruct (spec_wordb w) eqn:Ew; [discriminate|].
    destruct (ueqb (join_colons (split_colons w)) w) eqn:Ej; [|discriminate]. apply Proof.Splicer.ueqb_eq in Ej.
    unfold resolve in En. destruct (split_colons w) as [|n0 rest] eqn:Esp; [discriminate|].
    destruct (sym_lookup n0 (scope c)) as [ns0|] eqn:El; [|discriminate].
    destruct (walk ns0 rest) as [[id0 k0 [| |tm0] ms0]|] eqn:Ewk; try discriminate. inversion En; subst id0 tm0.
    exists (Some tm). split; [|reflexivity].
    unfold spec_len in Hf. rewrite Ew, Esp in Hf. cbn [List.length] in Hf.
    destruct f as [|f1]; [lia|]. cbn [p_decl_spec].
    destruct (head_first cst vol [w] Hs) as (t & r & Eh & Ht).
    assert (Hp : peek TILDE (head_toks cst vol [w] ++ R) = false).
    { rewrite Eh. cbn [app peek]. unfold starts_decl in Ht. destruct (tk t); try discriminate; reflexivity. }
    rewrite Hp. clear Hp Eh Ht t r.
    unfold head_toks, type_toks. rewrite Ew, Esp.
    assert (Hres : forall F s0, List.length rest < F ->
              p_specifier (S F) c false s0 (path_toks (n0 :: rest) ++ R) =
              Ok ({| ss_spec := ss_spec s0 ++ [w]; ss_storage := ss_storage s0; ss_const := ss_const s0; ss_volatile := ss_volatile s0;
                     ss_tm := Some tm; ss_targs := ss_targs s0; ss_ctor := false; ss_dtor := ss_dtor s0 |}, R)).
    { intros F s0 HF. rewrite (p_spec_named F c s0 n0 rest ns0 id k0 tm ms0 R El Ewk Hcls HA HF). rewrite Ej. reflexivity. }
    destruct f1 as [|f2]; [lia|]. destruct f2 as [|f3]; [lia|]. destruct f3 as [|f4]; [lia|].
    destruct cst, vol; rewrite <- ?app_assoc; cbn [app];
      rewrite ?p_spec_const, ?p_spec_volatile;
      (rewrite Hres by lia); reflexivity.
  - (* built-in words *)
    apply andb_true_iff in Hok. destruct Hok as [Hok Hkn]. apply andb_true_iff in Hok. destruct Hok as [Hw Htm].
    apply Proof.Splicer.ueqb_eq in Htm. exists None. split.
    + rewrite (spec_len_native spec Hw) in Hf. apply decl_spec_head; [exact Hs | exact Hw | exact HR | lia].
    + unfold get_canonical, s_of. cbn [ss_tm ss_spec]. rewrite <- Htm, Hkn. reflexivity.
Qed.

Lemma psum_cons p ps : psum (p :: ps) = S (dsize p) + psum ps.
Proof. reflexivity. Qed.

Lemma void_in_fragment c : ustr_in (cp "void") (known_types c) = true -> in_fragment c void_decl = true.
Proof.
  intros H. cbn [in_fragment void_decl]. unfold spec_okb, named_type. change (spec_wordb (cp "void")) with true.
  cbn [forallb andb]. change (spec_wordb (cp "void")) with true. change (canonical (join_us [cp "void"])) with (cp "void").
  change (ueqb (cp "void") (cp "void")) with true. rewrite H. reflexivity.
Qed.

(* array suffixes: each extent is an expression in the printer's canonical form *)
Lemma arrays_rt : forall arr acc rest f, forallb canon arr = true -> List.length arr < f -> peek LBRACKET rest = false ->
  p_arrays f acc (arr_toks arr ++ rest) = Ok (acc ++ arr, rest).
Proof.
  induction arr as [|e arr IH]; intros acc rest f Hc Hf Hp.
  - destruct f as [|f']; [cbn in Hf; lia|]. cbn [arr_toks flat_map app p_arrays]. rewrite Hp, app_nil_r. reflexivity.
  - destruct f as [|f']; [cbn in Hf; lia|]. cbn [forallb] in Hc. apply andb_true_iff in Hc. destruct Hc as [He Hc].
    cbn [arr_toks flat_map]. fold (arr_toks arr). rewrite <- !app_assoc. cbn [app p_arrays peek lb_tok tk kind_eqb tl].
    rewrite <- app_assoc. cbn [app].
    rewrite (parse_expression_roundtrip e (rb_tok :: arr_toks arr ++ rest) He); [| cbn; split; [discriminate | exact I]].
    cbn [bind fst snd mustbe rb_tok tk kind_eqb]. cbn [List.length] in Hf.
    rewrite (IH (acc ++ [e]) rest f' Hc ltac:(lia) Hp). rewrite <- app_assoc. reflexivity.
Qed.

Lemma mid_arr arr rest : ends_decl rest -> mid (arr_toks arr ++ rest).
Proof. destruct arr as [|e arr]; [cbn [arr_toks flat_map app]; apply ends_mid | intros _; cbn; tauto]. Qed.

Lemma roundtrip_both : forall fuel c,
  (forall d rest, dsize d < fuel -> in_fragment c d = true -> ends_decl rest ->
     p_declaration fuel c (decl_toks d ++ rest) = Ok (d, rest)) /\
  (forall ps acc rest, 1 + psum ps < fuel -> ps <> [] -> forallb (in_fragment c) ps = true ->
     p_params fuel c (join_toks (map decl_toks ps) ++ tok_of RPAREN ")" :: rest) acc = Ok (rev acc ++ ps, rest)).
Proof.
  induction fuel as [|f IH]; intros c; [split; intros; lia|].
  destruct (IH c) as [IHd IHp]. split.
  - (* a declaration *)
    intros d rest Hsz Hfr Hend.
    destruct d as [spec st cst vol tm dt params arr at_ init ta fc].
    destruct (in_fragment_fields _ _ _ _ _ _ _ _ _ _ _ _ _ Hfr) as (Hs & -> & Harr & -> & -> & -> & Hok & Hdt & Hpar).
    rewrite decl_toks_eq. cbn [dsize] in Hsz. rewrite <- !app_assoc.
    pose proof (mid_arr arr rest Hend) as Hmid. set (rest2 := arr_toks arr ++ rest) in *.
    cbn [p_declaration].
    assert (HR : ends_spec_in c (dt_toks dt ++ par_toks params fc ++ rest2)).
    { destruct dt as [x|]; cbn [dt_toks].
      - apply dtor_first_in; [exact Hdt|]. destruct params as [ps|]; cbn [par_toks app]; [right; eauto | left; exact Hmid].
      - destruct params as [ps|]; [destruct Hpar as ((x & Hx & _) & _); discriminate|]. cbn [par_toks app]. apply ends_decl_spec; exact Hmid. }
    assert (HA : after_spec (dt_toks dt ++ par_toks params fc ++ rest2)).
    { destruct dt as [x|]; cbn [dt_toks].
      - apply (dtor_first_kind c); [exact Hdt|]. destruct params as [ps|]; cbn [par_toks app]; [right; eauto | left; exact Hmid].
      - destruct params as [ps|]; [destruct Hpar as ((x & Hx & _) & _); discriminate|]. cbn [par_toks app]. apply ends_decl_after; exact Hmid. }
    destruct (spec_phase f c cst vol spec tm _ Hs Hok HR HA ltac:(lia)) as (otm & Hspec & Hcanon).
    rewrite Hspec. cbn [bind]. rewrite Hcanon. cbn [bind].
    change (ss_ctor (s_of cst vol spec otm)) with false. change (ss_dtor (s_of cst vol spec otm)) with (@None ustr). cbn [orb].
    (* the declarator *)
    assert (Hdtor : p_declarator f (dt_toks dt ++ par_toks params fc ++ rest2) = Ok (dt, par_toks params fc ++ rest2)).
    { destruct dt as [x|]; cbn [dt_toks].
      - apply declarator_roundtrip; [lia | apply (wf_dtorb_ok c); exact Hdt |].
        destruct x as [ps0 [n0|] [f0|]]; cbn [follow]; auto.
        destruct params as [ps|]; [destruct Hpar as ((x & Hx & Hc) & _); inversion Hx; subst; discriminate|].
        cbn [par_toks app]. split; [apply ends_decl_stops; exact Hmid|].
        destruct rest2 as [|t r]; [exact I|]. cbn [mid] in Hmid. mid_tac Hmid; split; discriminate.
      - destruct params as [ps|]; [destruct Hpar as ((x & Hx & _) & _); discriminate|]. cbn [par_toks app].
        destruct f as [|f']; [lia|]. cbn [p_declarator]. rewrite p_pointer_stop by (apply ends_decl_stops; exact Hmid).
        destruct rest2 as [|t r]; [reflexivity|]. cbn [mid] in Hmid. mid_tac Hmid; reflexivity. }
    rewrite Hdtor. cbn [bind snd fst].
    assert (Htail : forall plist fconst,
      bind (p_arrays f [] rest2) (fun ar =>
      bind (p_attribute f (ctor_attrs (s_of cst vol spec otm)) (snd ar)) (fun at0 =>
      let ts6 := snd at0 in
      let '(init, ts7) := if peek EQUALS ts6 then initializer (tl ts6) else (AVNone, ts6) in
      Ok (decl_of (s_of cst vol spec otm) tm dt plist (fst ar) (fst at0) init fconst, ts7)))
      = Ok (Decl spec [] cst vol tm dt plist arr [] AVNone [] fconst, rest)).
    { intros plist fconst.
      assert (Hpk : peek LBRACKET rest = false /\ peek PLUS rest = false /\ peek EQUALS rest = false).
      { destruct rest as [|t r]; [repeat split; reflexivity|]. cbn [ends_decl] in Hend. cbn [peek]. ends_tac Hend; repeat split; reflexivity. }
      destruct Hpk as (H1 & H2 & H3). subst rest2. rewrite (arrays_rt arr [] rest f Harr ltac:(lia) H1). cbn [bind snd fst app].
      destruct f as [|f']; [lia|]. cbn [p_attribute]. rewrite H2. cbn [bind snd fst]. rewrite H3. reflexivity. }
    destruct params as [ps|]; cbn [par_toks].
    + (* a parameter list *)
      destruct Hpar as (_ & Hall & Hshape). cbn [app peek tok_of tk kind_eqb tl]. rewrite <- app_assoc. cbn [app].
      set (ps' := match ps with [] => [void_decl] | _ => ps end).
      assert (Hbody : (match ps with [] => [spec_tok (cp "void")] | _ => join_toks (map decl_toks ps) end) = join_toks (map decl_toks ps')).
      { subst ps'. destruct ps; reflexivity. }
      rewrite Hbody.
      assert (Hps' : p_params f c (join_toks (map decl_toks ps') ++ tok_of RPAREN ")" :: (if fc then [tok_of TYPE_QUALIFIER "const"] else []) ++ rest2) []
                     = Ok (ps', (if fc then [tok_of TYPE_QUALIFIER "const"] else []) ++ rest2)).
      { apply (IHp ps' [] _).
        - subst ps'. assert (Hl : 1 <= List.length spec) by (destruct spec; [contradiction | cbn [List.length]; lia]).
          destruct ps as [|p0 ps0]; [change (psum [void_decl]) with 6; cbn [map list_sum] in Hsz; lia | fold (psum (p0 :: ps0)) in Hsz; lia].
        - subst ps'. destruct ps; discriminate.
        - subst ps'. destruct ps as [|p0 ps0]; [cbn [forallb]; rewrite (void_in_fragment c Hshape); reflexivity | exact Hall]. }
      rewrite Hps'. cbn [bind fst snd].
      assert (Hplist : match ps' with [] => [] | [d0] => if is_void_param d0 then [] else [d0] | d0 :: d1 :: l1 => d0 :: d1 :: l1 end = ps).
      { subst ps'. destruct ps as [|p0 [|p1 l]]; [reflexivity | rewrite Hshape; reflexivity | reflexivity]. }
      rewrite Hplist.
      destruct fc; cbn [app tk tv tok_of].
      * change (ueqb (cp "const") (cp "const")) with true. cbn [bind]. apply Htail.
      * destruct rest2 as [|t r]; [cbn [bind]; apply Htail|]. cbn [mid] in Hmid.
        mid_tac Hmid; cbn [bind]; apply Htail.
    + (* no parameter list *)
      subst fc. cbn [app]. 
      assert (Hlp : peek LPAREN rest2 = false).
      { destruct rest2 as [|t r]; [reflexivity|]. cbn [mid] in Hmid. cbn [peek]. mid_tac Hmid; reflexivity. }
      rewrite Hlp. cbn [bind]. apply Htail.
  - (* a parameter list, after the opening parenthesis *)
    intros ps acc rest Hsz Hne Hall. destruct ps as [|p ps]; [contradiction|]. clear Hne.
    cbn [forallb] in Hall. apply andb_true_iff in Hall. destruct Hall as [Hp Hall].
    rewrite psum_cons in Hsz.
    destruct (decl_toks_first c p Hp) as (t & r & Et & Hst).
    cbn [p_params].
    assert (Hpk : peek RPAREN (join_toks (map decl_toks (p :: ps)) ++ tok_of RPAREN ")" :: rest) = false).
    { cbn [map join_toks]. destruct (map decl_toks ps); rewrite Et; cbn [app peek]; apply spec_tok_not; try exact Hst; discriminate. }
    rewrite Hpk.
    destruct ps as [|q l].
    + cbn [map join_toks]. rewrite IHd; [| lia | exact Hp | cbn; auto].
      cbn [bind snd fst peek tok_of tk kind_eqb mustbe rev]. reflexivity.
    + change (join_toks (map decl_toks (p :: q :: l))) with (decl_toks p ++ tok_of COMMA "," :: join_toks (map decl_toks (q :: l))).
      rewrite <- app_assoc. cbn [app].
      rewrite IHd; [| lia | exact Hp | cbn; auto].
      cbn [bind snd fst peek tok_of tk kind_eqb tl].
      cbn [forallb] in Hall. pose proof Hall as Hall'. apply andb_true_iff in Hall'. destruct Hall' as [Hq _].
      destruct (decl_toks_first c q Hq) as (t2 & r2 & Et2 & Hst2).
      assert (Hva : peek VARARG (join_toks (map decl_toks (q :: l)) ++ tok_of RPAREN ")" :: rest) = false).
      { cbn [map join_toks]. destruct (map decl_toks l); rewrite Et2; cbn [app peek]; apply spec_tok_not; try exact Hst2; discriminate. }
      rewrite Hva.
      rewrite IHp; [| rewrite psum_cons in *; lia | discriminate | exact Hall].
      cbn [rev]. rewrite <- app_assoc. reflexivity.
Qed.

(* ---- the theorem ---- *)
Theorem declaration_roundtrip : forall c d rest fuel,
  in_fragment c d = true -> ends_decl rest -> dsize d < fuel ->
  p_declaration fuel c (decl_toks d ++ rest) = Ok (d, rest).
Proof. intros c d rest fuel Hf He Hs. destruct (roundtrip_both fuel c) as [H _]. apply H; assumption. Qed.

(* a whole statement: the text's tokens followed by an optional semicolon *)
Lemma decl_toks_not_kw c d : in_fragment c d = true ->
  match tk_of (decl_toks d) with KW_CLASS | KW_ENUM | KW_STRUCT | NAMESPACE | KW_TEMPLATE => False | _ => True end.
Proof.
  intros H. destruct (decl_toks_first c d H) as (t & r & Et & Hst). rewrite Et. cbn [tk_of]. unfold starts_decl in Hst.
  destruct (tk t); try discriminate; exact I.
Qed.
