From Coq Require Import List Bool Arith.
From Shroud Require Import Model.Interop.
Import ListNotations.

Lemma expand_balanced src bi b : balanced b = true -> c_expand src bi b = f_expand src bi b.
Proof. destruct b; simpl; try reflexivity. intros H. apply Nat.eqb_eq in H. subst. reflexivity. Qed.

Lemma expand_bufs_eq bs : forall src bi, forallb balanced bs = true ->
  expand_bufs c_expand src bi bs = expand_bufs f_expand src bi bs.
Proof.
  induction bs as [|b r IH]; intros src bi H; simpl; [reflexivity|].
  simpl in H. apply andb_true_iff in H. destruct H as [Hb Hr].
  rewrite (expand_balanced _ _ _ Hb), (IH _ _ Hr). reflexivity.
Qed.

Lemma expand_args_eq args : forall src, forallb (forallb balanced) args = true ->
  expand_args c_expand src args = expand_args f_expand src args.
Proof.
  induction args as [|bs r IH]; intros src H; simpl; [reflexivity|].
  simpl in H. apply andb_true_iff in H. destruct H as [Hb Hr].
  rewrite (IH _ Hr). f_equal. apply expand_bufs_eq. destruct bs; [reflexivity | exact Hb].
Qed.

(* same number of parameters, in the same order, position-wise the same argument identity *)
Lemma layouts_agree s : sig_balanced s = true -> c_prototype s = f_interface s.
Proof.
  unfold sig_balanced, c_prototype, f_interface, layout. intros H. apply andb_true_iff in H. destruct H as [Ha He].
  rewrite (expand_args_eq _ _ Ha), (expand_bufs_eq _ _ _ He). reflexivity.
Qed.

(* and an unbalanced arg_decl entry does shift everything after it *)
Lemma unbalanced_differs : exists s, sig_balanced s = false /\ length (c_prototype s) <> length (f_interface s).
Proof.
  exists {| has_this := false; arg_bufs := [[BArgDecl 1 2]]; extra_bufs := [] |}. split; [reflexivity | simpl; discriminate].
Qed.
