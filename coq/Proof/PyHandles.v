(* Proof/PyHandles.v — whatever a Python program does with its references (copy them, drop them in any order, call
   methods through any of them), the capsule operations a reference-counting extension performs form an admissible
   history: nothing is released twice or used after release, and when the last reference to every object is gone every
   caller-owned object has been released exactly once. *)
From Coq Require Import List NArith Bool Arith Lia.
From Shroud Require Import Model.Capsule Proof.Capsule.
From Shroud Require Import Model.PyHandles.
Import ListNotations.

Lemma valid_app : forall a s b, Inv s -> valid s a -> valid (fst (crun s a)) b -> valid s (a ++ b).
Proof.
  induction a as [|o a IH]; intros s b I Ha Hb; cbn [app]; [exact Hb|].
  destruct Ha as (Hc & Hr). cbn [valid]. split; [exact Hc|].
  destruct (step_ok s o I Hc) as (s' & Hs & I'). cbn [crun] in Hb. rewrite Hs in *. cbn [fst] in *.
  apply IH; assumption.
Qed.

Lemma crun_app : forall a s b, snd (crun s a) = Done -> crun s (a ++ b) = crun (fst (crun s a)) b.
Proof.
  induction a as [|o a IH]; intros s b H; cbn [app crun]; [reflexivity|].
  cbn [crun] in H. destruct (cstep s o) as [s' r] eqn:E. destruct r; cbn [snd] in H; try discriminate; cbn [fst].
  apply IH. exact H.
Qed.

Lemma map_set_nth_kind : forall (l : list obj) a ob x, nth_error l a = Some ob -> o_kind x = o_kind ob ->
  map o_kind (set_nth a x l) = map o_kind l.
Proof.
  induction l as [|y l IH]; intros a ob x H Hk; [destruct a; discriminate|].
  destruct a as [|a]; cbn [set_nth map nth_error] in *.
  - inversion H; subst y. rewrite Hk. reflexivity.
  - rewrite (IH a ob x H Hk). reflexivity.
Qed.

(* the effect of a release on the state, explicitly *)
Lemma release_effect s h x : Inv s -> nth_error (handles s) h = Some x ->
  exists s', cstep s (Release h) = (s', Done) /\ Inv s' /\
             handles s' = set_nth h {| h_addr := None; h_idtor := 0 |} (handles s) /\
             map o_kind (oheap s') = map o_kind (oheap s).
Proof.
  intros I Hh. cbn [cstep]. rewrite Hh.
  destruct (h_idtor x) as [|k] eqn:Hk.
  - eexists. split; [reflexivity|]. unfold set_handle. split; [eapply inv_clear; eauto|]. split; reflexivity.
  - destruct (h_addr x) as [a|] eqn:Ha.
    + assert (Hown : h_idtor x <> 0) by lia.
      destruct (free_obj_owned s h x a I Hh Ha Hown) as (ob & Hob & Hfree). rewrite Hk in Hfree. rewrite Hfree.
      unfold set_handle; cbn [oheap handles]. eexists. split; [reflexivity|].
      split; [eapply inv_after_free; eauto|]. split; [reflexivity|].
      apply (map_set_nth_kind (oheap s) a ob); [exact Hob | reflexivity].
    + eexists. split; [reflexivity|]. unfold set_handle. split; [eapply inv_clear; eauto|]. split; reflexivity.
Qed.

(* ---- the simulation invariant ---- *)
Record J (p : pystate) (s : state) : Prop := {
  j_count : nhandles p = List.length (handles s);
  j_kinds : kinds p = map o_kind (oheap s);
  j_live : forall v h, nth_error (vars p) v = Some (Some h) ->
           exists x a, nth_error (handles s) h = Some x /\ h_addr x = Some a;
  j_dead : forall h x, nth_error (handles s) h = Some x -> refs_to h (vars p) = 0 -> h_addr x = None
}.

Lemma refs_to_app h vs x : refs_to h (vs ++ [x]) = refs_to h vs + refs_to h [x].
Proof. unfold refs_to. rewrite filter_app, app_length. reflexivity. Qed.

Lemma refs_to_pos : forall vs v h, nth_error vs v = Some (Some h) -> refs_to h vs <> 0.
Proof.
  induction vs as [|y vs IH]; intros v h H; [destruct v; discriminate|].
  destruct v as [|v]; cbn [nth_error] in H.
  - inversion H; subst y. unfold refs_to. cbn [filter]. rewrite Nat.eqb_refl. cbn [List.length]. lia.
  - specialize (IH v h H). unfold refs_to in *. cbn [filter]. destruct y as [h'|]; [destruct (Nat.eqb h h'); cbn [List.length]; lia | exact IH].
Qed.

Lemma refs_to_zero : forall vs v h, refs_to h vs = 0 -> nth_error vs v <> Some (Some h).
Proof. intros vs v h H E. exact (refs_to_pos vs v h E H). Qed.

Lemma set_var_nth : forall l n m, n <> m -> nth_error (set_var n l) m = nth_error l m.
Proof.
  induction l as [|y l IH]; intros n m H; [destruct n; reflexivity|].
  destruct n as [|n], m as [|m]; cbn [set_var nth_error]; try reflexivity; [lia | apply IH; lia].
Qed.

Lemma set_var_nth_eq : forall l n y, nth_error (set_var n l) n = Some y -> y = None.
Proof.
  induction l as [|z l IH]; intros n y H; [destruct n; discriminate|].
  destruct n as [|n]; cbn [set_var nth_error] in H; [inversion H; reflexivity | eapply IH; exact H].
Qed.

Lemma refs_to_set_var_other : forall l n h h', nth_error l n = Some (Some h') -> h <> h' ->
  refs_to h (set_var n l) = refs_to h l.
Proof.
  induction l as [|y l IH]; intros n h h' H Hne; [destruct n; discriminate|].
  destruct n as [|n]; cbn [set_var nth_error] in *.
  - inversion H; subst y. unfold refs_to. cbn [filter]. destruct (Nat.eqb h h') eqn:E; [apply Nat.eqb_eq in E; contradiction | reflexivity].
  - unfold refs_to in *. cbn [filter]. destruct y as [h2|]; [destruct (Nat.eqb h h2); cbn [List.length]; rewrite (IH n h h' H Hne); reflexivity | apply (IH n h h' H Hne)].
Qed.

Ltac noop_case :=
  cbn [valid crun fst snd]; split; [exact Logic.I | split; [reflexivity | split; [assumption | constructor; assumption]]].

(* one Python operation keeps the invariant and performs only admissible capsule operations *)
Lemma py_step_ok p s o : Inv s -> J p s ->
  let '(p', cs) := py_step p o in
  valid s cs /\ snd (crun s cs) = Done /\ Inv (fst (crun s cs)) /\ J p' (fst (crun s cs)).
Proof.
  intros I Jp. destruct Jp as [Hc Hk Hl Hd]. destruct o as [k| a | | v | v | v]; cbn [py_step].
  - (* PNew *)
    destruct (Nat.eqb k 0) eqn:Ek; [noop_case|].
    apply Nat.eqb_neq in Ek. cbn [valid crun cstep]. rewrite (proj2 (Nat.eqb_neq k 0) Ek). cbn [fst snd].
    destruct (step_new s k I Ek) as (s' & Hs & I'). cbn [cstep] in Hs. rewrite (proj2 (Nat.eqb_neq k 0) Ek) in Hs. inversion Hs; subst s'.
    split; [cbn [client_ok]; auto | split; [reflexivity | split; [assumption|]]].
    constructor; cbn [vars kinds nhandles handles oheap].
    + rewrite app_length. cbn [List.length]. lia.
    + rewrite map_app. cbn [map o_kind]. rewrite Hk. reflexivity.
    + intros v h Hv. destruct (nth_app_cases _ _ _ _ Hv) as [Ho | (En & Ey)].
      * destruct (Hl v h Ho) as (x & a & Hx & Ha). exists x, a. split; [apply nth_app_old; exact Hx | exact Ha].
      * inversion Ey; subst h. rewrite Hc. eexists. eexists. split; [apply nth_app_new | reflexivity].
    + intros h x Hx Hr. rewrite refs_to_app in Hr. destruct (nth_app_cases _ _ _ _ Hx) as [Ho | (En & Ey)].
      * apply (Hd h x Ho). lia.
      * subst h. exfalso. unfold refs_to in Hr at 2. cbn [filter] in Hr. rewrite <- Hc, Nat.eqb_refl in Hr. cbn [List.length] in Hr. lia.
  - (* PBorrow *)
    destruct (nth_error (kinds p) a) as [[|k]|] eqn:Ea; try (noop_case).
    rewrite Hk in Ea. rewrite nth_error_map in Ea. destruct (nth_error (oheap s) a) as [ob|] eqn:Eo; [|discriminate].
    cbn [option_map] in Ea. inversion Ea as [Ek0].
    assert (Hb : exists ob0, nth_error (oheap s) a = Some ob0 /\ o_kind ob0 = 0) by (exists ob; auto).
    destruct (step_borrow s a I Hb) as (s' & Hs & I'). cbn [valid crun]. rewrite Hs. cbn [fst snd client_ok].
    cbn [cstep] in Hs. rewrite Eo, Ek0 in Hs. cbn [Nat.eqb] in Hs. inversion Hs; subst s'.
    split; [cbn [client_ok]; auto | split; [reflexivity | split; [assumption|]]].
    constructor; cbn [vars kinds nhandles handles oheap].
    + rewrite app_length. cbn [List.length]. lia.
    + exact Hk.
    + intros v h Hv. destruct (nth_app_cases _ _ _ _ Hv) as [Ho | (En & Ey)].
      * destruct (Hl v h Ho) as (x & a' & Hx & Ha). exists x, a'. split; [apply nth_app_old; exact Hx | exact Ha].
      * inversion Ey; subst h. rewrite Hc. eexists. eexists. split; [apply nth_app_new | reflexivity].
    + intros h x Hx Hr. rewrite refs_to_app in Hr. destruct (nth_app_cases _ _ _ _ Hx) as [Ho | (En & Ey)].
      * apply (Hd h x Ho). lia.
      * subst h. exfalso. unfold refs_to in Hr at 2. cbn [filter] in Hr. rewrite <- Hc, Nat.eqb_refl in Hr. cbn [List.length] in Hr. lia.
  - (* PLib *)
    destruct (step_libobject s I) as (s' & Hs & I'). cbn [valid crun client_ok]. rewrite Hs. cbn [fst snd].
    cbn [cstep] in Hs. inversion Hs; subst s'. split; [cbn [client_ok]; auto | split; [reflexivity | split; [assumption|]]].
    constructor; cbn [vars kinds nhandles handles oheap]; auto.
    rewrite map_app. cbn [map o_kind]. rewrite Hk. reflexivity.
  - (* PAlias *)
    destruct (nth_error (vars p) v) as [[h|]|] eqn:Ev; try (noop_case).
    cbn [valid crun fst snd]. split; [exact Logic.I | split; [reflexivity | split; [assumption|]]].
    constructor; cbn [vars kinds nhandles]; auto.
    + intros v' h' Hv. destruct (nth_app_cases _ _ _ _ Hv) as [Ho | (En & Ey)]; [exact (Hl v' h' Ho)|].
      inversion Ey; subst h'. exact (Hl v h Ev).
    + intros h' x Hx Hr. rewrite refs_to_app in Hr. apply (Hd h' x Hx). lia.
  - (* PDrop *)
    destruct (nth_error (vars p) v) as [[h|]|] eqn:Ev; try (noop_case).
    destruct (Hl v h Ev) as (x & a & Hx & Ha).
    destruct (Nat.eqb (refs_to h (set_var v (vars p))) 0) eqn:Er.
    + (* the last reference: release *)
      apply Nat.eqb_eq in Er.
      destruct (release_effect s h x I Hx) as (s' & Hs & I' & Hh' & Hk').
      cbn [valid crun client_ok]. rewrite Hs. cbn [fst snd]. split; [split; [eauto | exact Logic.I] | split; [reflexivity | split; [assumption|]]].
      constructor; cbn [vars kinds nhandles].
      * rewrite Hh', set_nth_length. exact Hc.
      * rewrite Hk'. exact Hk.
      * intros v' h' Hv'. destruct (Nat.eq_dec v v') as [E | Ne].
        { subst v'. apply set_var_nth_eq in Hv'. discriminate. }
        rewrite set_var_nth in Hv' by exact Ne.
        assert (h' <> h). { intros E. subst h'. apply (refs_to_zero _ v' h Er). rewrite set_var_nth by exact Ne. exact Hv'. }
        destruct (Hl v' h' Hv') as (x' & a' & Hx' & Ha'). exists x', a'. rewrite Hh', nth_set_nth_neq by auto. auto.
      * intros h' x' Hx' Hr. rewrite Hh' in Hx'. apply set_nth_cases in Hx'. destruct Hx' as [[E1 E2] | [Ne Ho]]; [subst x'; reflexivity|].
        apply (Hd h' x' Ho). rewrite <- Hr. symmetry. apply (refs_to_set_var_other _ _ _ h Ev). auto.
    + (* other references remain *)
      cbn [valid crun fst snd]. split; [exact Logic.I | split; [reflexivity | split; [assumption|]]].
      apply Nat.eqb_neq in Er.
      constructor; cbn [vars kinds nhandles]; auto.
      * intros v' h' Hv'. destruct (Nat.eq_dec v v') as [E | Ne].
        { subst v'. apply set_var_nth_eq in Hv'. discriminate. }
        rewrite set_var_nth in Hv' by exact Ne. exact (Hl v' h' Hv').
      * intros h' x' Hx' Hr. destruct (Nat.eq_dec h' h) as [E | Ne]; [subst h'; contradiction|].
        apply (Hd h' x' Hx'). rewrite <- Hr. symmetry. apply (refs_to_set_var_other _ _ _ h Ev). exact Ne.
  - (* PMethod *)
    destruct (nth_error (vars p) v) as [[h|]|] eqn:Ev; try (noop_case).
    destruct (Hl v h Ev) as (x & a & Hx & Ha).
    assert (Hm : exists x0 a0, nth_error (handles s) h = Some x0 /\ h_addr x0 = Some a0) by eauto.
    destruct (step_method s h I Hm) as (s' & Hs & I'). cbn [valid crun client_ok]. rewrite Hs. cbn [fst snd].
    assert (s' = s). { cbn [cstep] in Hs. rewrite Hx, Ha in Hs. destruct (inv_target s I h x a Hx Ha) as (ob & Hob & Hlv & _). rewrite Hob, Hlv in Hs. inversion Hs; reflexivity. }
    subst s'. split; [split; [eauto | exact Logic.I] | split; [reflexivity | split; [assumption | constructor; assumption]]].
Qed.

Lemma j_init : J py_init init.
Proof. constructor; cbn; auto; intros; destruct v || destruct h; discriminate. Qed.

(* every Python program gives an admissible capsule history *)
Theorem python_history_admissible : forall ops p s, Inv s -> J p s ->
  valid s (compile p ops) /\ snd (crun s (compile p ops)) = Done /\
  Inv (fst (crun s (compile p ops))) /\ J (py_run p ops) (fst (crun s (compile p ops))).
Proof.
  induction ops as [|o ops IH]; intros p s I Jp; cbn [compile py_run]; [cbn [valid crun fst snd]; auto|].
  pose proof (py_step_ok p s o I Jp) as H. destruct (py_step p o) as [p' cs] eqn:E. destruct H as (Hv & Hd & I' & J').
  cbn [fst]. destruct (IH p' (fst (crun s cs)) I' J') as (Hv2 & Hd2 & I2 & J2).
  rewrite (crun_app cs s _ Hd). split; [apply valid_app; auto | split; [exact Hd2 | split; [exact I2 | exact J2]]].
Qed.

(* when no variable refers to anything any more, every caller-owned object has been released exactly once *)
Theorem python_no_leak : forall ops, Forall (fun x => x = None) (vars (py_run py_init ops)) ->
  let s := fst (crun init (compile py_init ops)) in
  forall a ob, nth_error (oheap s) a = Some ob -> o_kind ob <> 0 -> o_live ob = false /\ o_frees ob = 1.
Proof.
  intros ops Hall s a ob Hob Hk.
  destruct (python_history_admissible ops py_init init inv_init j_init) as (_ & _ & I & Jf).
  apply (all_released_no_leak _ I) with (a := a); [| exact Hob | exact Hk].
  intros h x Hx. right. apply (j_dead _ _ Jf h x Hx).
  unfold refs_to. clear -Hall. induction Hall as [|y l Hy Hl IH]; [reflexivity|]. subst y. cbn [filter]. exact IH.
Qed.
