(* Proof/Splicer.v — lemmas about Model/Splicer.v *)
From Coq Require Import List NArith ZArith Bool Arith Lia String.
From Shroud Require Import Base.Ustr Model.Text Model.Splicer Proof.Text.
Import ListNotations.

Lemma ueqb_refl a : ueqb a a = true.
Proof. induction a; simpl; [reflexivity|]. rewrite N.eqb_refl. assumption. Qed.

Lemma ueqb_eq a : forall b, ueqb a b = true <-> a = b.
Proof.
  induction a as [|x a IH]; intros [|y b]; simpl; split; intros H; try discriminate; try reflexivity.
  - apply andb_true_iff in H. destruct H as [H1 H2]. apply N.eqb_eq in H1. apply IH in H2. congruence.
  - injection H as -> ->. rewrite N.eqb_refl. apply ueqb_refl.
Qed.

Lemma ueqb_neq a b : a <> b -> ueqb a b = false.
Proof. intros H. destruct (ueqb a b) eqn:E; [|reflexivity]. apply ueqb_eq in E. contradiction. Qed.

(* ---------- tags ---------- *)
Definition nodot (s : ustr) : bool := forallb (fun c => negb (N.eqb c DOT)) s.
Definition nospace (s : ustr) : bool := forallb (fun c => negb (py_isspace c)) s.

Fixpoint join_dot (comps : list ustr) : ustr :=
  match comps with
  | [] => []
  | [c] => c
  | c :: r => c ++ DOT :: join_dot r
  end.

Lemma split_on_aux_nodot s : forall cur, nodot s = true -> split_on_aux DOT cur s = [rev cur ++ s].
Proof.
  induction s as [|c r IH]; intros cur H; simpl.
  - rewrite app_nil_r. reflexivity.
  - simpl in H. apply andb_true_iff in H. destruct H as [H1 H2]. apply negb_true_iff in H1.
    rewrite H1, IH by assumption. simpl. rewrite <- app_assoc. reflexivity.
Qed.

Lemma split_on_aux_app c rest : forall cur, nodot c = true ->
  split_on_aux DOT cur (c ++ DOT :: rest) = (rev cur ++ c) :: split_on_aux DOT [] rest.
Proof.
  induction c as [|x c IH]; intros cur H; simpl.
  - rewrite app_nil_r. reflexivity.
  - simpl in H. apply andb_true_iff in H. destruct H as [H1 H2]. apply negb_true_iff in H1.
    rewrite H1, IH by assumption. simpl. rewrite <- app_assoc. reflexivity.
Qed.

Lemma split_join comps : comps <> [] -> forallb nodot comps = true ->
  split_on DOT (join_dot comps) = comps.
Proof.
  induction comps as [|c r IH]; intros Hne H; [contradiction|].
  simpl in H. apply andb_true_iff in H. destruct H as [Hc Hr].
  destruct r as [|c2 r2].
  - simpl. unfold split_on. rewrite split_on_aux_nodot by assumption. reflexivity.
  - change (join_dot (c :: c2 :: r2)) with (c ++ DOT :: join_dot (c2 :: r2)).
    unfold split_on. rewrite split_on_aux_app by assumption. simpl rev. simpl app.
    f_equal. apply IH; [discriminate | assumption].
Qed.

Lemma split_tag_join path name : forallb nodot path = true -> nodot name = true ->
  split_tag (join_dot (path ++ [name])) = (path, name).
Proof.
  intros Hp Hn. unfold split_tag. rewrite split_join.
  - rewrite removelast_last, last_last. reflexivity.
  - destruct path; discriminate.
  - rewrite forallb_app, Hp. simpl. rewrite Hn. reflexivity.
Qed.

(* ---------- first_field ---------- *)
Lemma take_field_tag tag rest : nospace tag = true ->
  (rest = [] \/ exists c r, rest = c :: r /\ py_isspace c = true) ->
  take_field (tag ++ rest) = tag.
Proof.
  intros H Hr. induction tag as [|x t IH]; simpl.
  - destruct Hr as [->|[c [r [-> Hc]]]]; simpl; [reflexivity | rewrite Hc; reflexivity].
  - simpl in H. apply andb_true_iff in H. destruct H as [H1 H2]. apply negb_true_iff in H1.
    rewrite H1, IH by assumption. reflexivity.
Qed.

Lemma first_field_tag tag rest : tag <> [] -> nospace tag = true ->
  (rest = [] \/ exists c r, rest = c :: r /\ py_isspace c = true) ->
  first_field (32%N :: tag ++ rest) = Some tag.
Proof.
  intros Hne H Hr. unfold first_field. simpl lstrip.
  destruct tag as [|x t]; [contradiction|]. simpl in H.
  apply andb_true_iff in H. destruct H as [H1 H2]. apply negb_true_iff in H1.
  simpl. rewrite H1. f_equal. simpl. rewrite H1. f_equal.
  apply take_field_tag; assumption.
Qed.

(* ---------- markers after a comment leader ---------- *)
Definition no_s (c : ustr) : bool := forallb (fun x => negb (N.eqb x 115%N)) c.

Lemma starts_with_app p s : starts_with p (p ++ s) = true.
Proof. induction p; simpl; [reflexivity|]. rewrite N.eqb_refl. assumption. Qed.

Lemma find_after_leader marker c rest i :
  (exists m, marker = 115%N :: m) -> no_s c = true ->
  find_sub_aux marker (c ++ 32%N :: marker ++ rest) i = Some (i + List.length c + 1).
Proof.
  intros [m ->] H. revert i. induction c as [|x c IH]; intros i.
  - simpl. rewrite starts_with_app. f_equal. lia.
  - simpl in H. apply andb_true_iff in H. destruct H as [H1 H2]. apply negb_true_iff in H1.
    cbn [app find_sub_aux starts_with].
    rewrite N.eqb_sym in H1. rewrite H1. cbn [andb]. rewrite IH by assumption. f_equal. simpl. lia.
Qed.

Lemma skipn_app_exact {A} (a b : list A) n : n = List.length a -> skipn n (a ++ b) = b.
Proof. intros ->. induction a; simpl; auto. Qed.

Lemma after_marker_leader marker c rest :
  (exists m, marker = 115%N :: m) -> no_s c = true -> c <> [] ->
  after_marker marker (c ++ 32%N :: marker ++ rest) = Some rest.
Proof.
  intros Hm H Hne. unfold after_marker, find_sub. rewrite find_after_leader by assumption.
  destruct c as [|x c]; [contradiction|]. simpl List.length.
  replace (0 + S (List.length c) + 1) with (S (S (List.length c))) by lia.
  f_equal.
  replace ((x :: c) ++ 32%N :: marker ++ rest) with (((x :: c) ++ [32%N] ++ marker) ++ rest)
    by (rewrite <- !app_assoc; reflexivity).
  apply skipn_app_exact. rewrite !app_length. simpl. lia.
Qed.

(* the lines _create_splicer writes are recognised by get_splicers *)
Lemma begin_line_recognised c tag : no_s c = true -> c <> [] -> tag <> [] -> nospace tag = true ->
  exists rest, after_marker str_begin (c ++ cp " splicer begin " ++ tag) = Some rest /\
               first_field rest = Some tag.
Proof.
  intros Hc Hne Ht Hs. exists (32%N :: tag ++ []). split.
  - rewrite app_nil_r.
    replace (c ++ cp " splicer begin " ++ tag) with (c ++ 32%N :: str_begin ++ 32%N :: tag) by reflexivity.
    apply after_marker_leader; [eexists; reflexivity | assumption | assumption].
  - apply first_field_tag; auto.
Qed.

Lemma end_line_recognised c tag : no_s c = true -> c <> [] -> tag <> [] -> nospace tag = true ->
  exists rest, after_marker str_end (c ++ cp " splicer end " ++ tag) = Some rest /\
               first_field rest = Some tag.
Proof.
  intros Hc Hne Ht Hs. exists (32%N :: tag ++ []). split.
  - rewrite app_nil_r.
    replace (c ++ cp " splicer end " ++ tag) with (c ++ 32%N :: str_end ++ 32%N :: tag) by reflexivity.
    apply after_marker_leader; [eexists; reflexivity | assumption | assumption].
  - apply first_field_tag; auto.
Qed.

(* ---------- the state machine on one block ---------- *)
Definition is_begin (l : ustr) : option ustr :=
  match after_marker str_begin l with Some r => first_field r | None => None end.
Definition is_end (l : ustr) : option ustr :=
  match after_marker str_end l with Some r => first_field r | None => None end.
Definition no_end (l : ustr) : bool := match after_marker str_end l with None => true | Some _ => false end.
Definition no_begin (l : ustr) : bool := match after_marker str_begin l with None => true | Some _ => false end.

Lemma collect_body body : forall t cl, forallb no_end body = true ->
  fold_left sp_step body (Ok (t, Some cl)) =
  Ok (t, Some {| c_tag := c_tag cl; c_path := c_path cl; c_name := c_name cl;
                 c_save := rev (map rstrip body) ++ c_save cl |}).
Proof.
  induction body as [|l r IH]; intros t cl H; simpl.
  - destruct cl; reflexivity.
  - simpl in H. apply andb_true_iff in H. destruct H as [H1 H2].
    unfold no_end in H1. destruct (after_marker str_end l) eqn:E; [discriminate|].
    rewrite IH by assumption. simpl. rewrite <- app_assoc. reflexivity.
Qed.

Lemma skip_junk junk : forall t, forallb no_begin junk = true ->
  fold_left sp_step junk (Ok (t, None)) = Ok (t, None).
Proof.
  induction junk as [|l r IH]; intros t H; simpl; [reflexivity|].
  simpl in H. apply andb_true_iff in H. destruct H as [H1 H2].
  unfold no_begin in H1. destruct (after_marker str_begin l) eqn:E; [discriminate|].
  apply IH. assumption.
Qed.

Lemma fold_app {A B} (f : A -> B -> A) l1 l2 a : fold_left f (l1 ++ l2) a = fold_left f l2 (fold_left f l1 a).
Proof. apply fold_left_app. Qed.

(* nested single-entry tree *)
Fixpoint nest (path : list ustr) (name : ustr) (v : stree) : kids_t :=
  match path with
  | [] => [(name, v)]
  | p :: ps => [(p, Node (nest ps name v))]
  end.

Lemma ensure_empty path : ensure path [] = Ok (match path with [] => [] | _ => nest (removelast path) (last path []) (Node []) end).
Proof.
  induction path as [|p ps IH]; simpl; [reflexivity|].
  rewrite IH. simpl. destruct ps as [|q qs]; reflexivity.
Qed.

(* set_leaf on the tree ensure built from nothing *)
Lemma set_leaf_cons_node p ps name tag save k rest :
  set_leaf (p :: ps) name tag save ((p, Node k) :: rest) =
  bind (set_leaf ps name tag save k) (fun sub => Ok ((p, Node sub) :: rest)).
Proof.
  cbn [set_leaf assoc_get]. rewrite ueqb_refl.
  destruct (set_leaf ps name tag save k); cbn [bind assoc_set]; rewrite ?ueqb_refl; reflexivity.
Qed.

Lemma set_leaf_nest path : forall name tag save,
  path <> [] ->
  set_leaf path name tag save (nest (removelast path) (last path []) (Node [])) = Ok (nest path name (Leaf save)).
Proof.
  induction path as [|p ps IH]; intros name tag save Hne; [contradiction|].
  destruct ps as [|q qs].
  - cbn [removelast last nest]. rewrite set_leaf_cons_node.
    cbn [set_leaf assoc_mem assoc_get bind assoc_set]. reflexivity.
  - change (removelast (p :: q :: qs)) with (p :: removelast (q :: qs)).
    change (last (p :: q :: qs) []) with (last (q :: qs) []).
    cbn [nest]. rewrite set_leaf_cons_node.
    rewrite IH; [reflexivity | discriminate].
Qed.

Lemma step_begin t b tag path name : is_begin b = Some tag -> split_tag tag = (path, name) ->
  sp_step (Ok (t, None)) b =
  bind (ensure path t) (fun t' => Ok (t', Some {| c_tag := tag; c_path := path; c_name := name; c_save := [] |})).
Proof.
  intros Hb Hs. unfold sp_step. cbn [bind]. unfold is_begin in Hb.
  destruct (after_marker str_begin b) as [rb|]; [|discriminate]. rewrite Hb, Hs. reflexivity.
Qed.

Lemma step_end t cl e : is_end e = Some (c_tag cl) ->
  sp_step (Ok (t, Some cl)) e =
  bind (set_leaf (c_path cl) (c_name cl) (c_tag cl) (rev (c_save cl)) t) (fun t' => Ok (t', None)).
Proof.
  intros He. unfold sp_step. cbn [bind]. unfold is_end in He.
  destruct (after_marker str_end e) as [re|]; [|discriminate]. rewrite He, ueqb_refl. reflexivity.
Qed.

(* ONE BLOCK, arbitrary dotted tag, read into an empty dictionary *)
Lemma one_block b e body path name :
  let tag := join_dot (path ++ [name]) in
  forallb nodot path = true -> nodot name = true ->
  is_begin b = Some tag -> is_end e = Some tag -> forallb no_end body = true ->
  get_splicers (b :: body ++ [e]) [] = Ok (nest path name (Leaf (map rstrip body))).
Proof.
  intros tag Hp Hn Hb He Hbody. unfold get_splicers.
  cbn [fold_left]. rewrite (step_begin [] b tag path name Hb (split_tag_join path name Hp Hn)).
  rewrite ensure_empty. cbn [bind].
  rewrite fold_app, collect_body by assumption. cbn [fold_left].
  rewrite step_end by exact He. cbn [c_path c_name c_tag c_save].
  rewrite app_nil_r, rev_involutive.
  destruct path as [|p ps].
  - reflexivity.
  - rewrite set_leaf_nest; [reflexivity | discriminate].
Qed.

(* SEVERAL BLOCKS with simple (dot-free) tags, into any dictionary, junk in between *)
Record block := { b_begin : ustr; b_tag : ustr; b_body : list ustr; b_end : ustr; b_junk : list ustr }.
Definition block_lines (k : block) : list ustr := b_begin k :: b_body k ++ [b_end k] ++ b_junk k.
Definition block_wf (k : block) : bool :=
  nodot (b_tag k) && forallb no_end (b_body k) && forallb no_begin (b_junk k) &&
  (match is_begin (b_begin k) with Some t => ueqb t (b_tag k) | None => false end) &&
  (match is_end (b_end k) with Some t => ueqb t (b_tag k) | None => false end).

Fixpoint tags_fresh (ks : list block) (t : kids_t) : bool :=
  match ks with
  | [] => true
  | k :: r => negb (assoc_mem (b_tag k) t) && tags_fresh r (assoc_set (b_tag k) (Leaf (map rstrip (b_body k))) t)
  end.

Definition spec_result (ks : list block) (t : kids_t) : kids_t :=
  fold_left (fun acc k => assoc_set (b_tag k) (Leaf (map rstrip (b_body k))) acc) ks t.

Lemma one_simple_block k t : block_wf k = true -> assoc_mem (b_tag k) t = false ->
  fold_left sp_step (block_lines k) (Ok (t, None)) =
  Ok (assoc_set (b_tag k) (Leaf (map rstrip (b_body k))) t, None).
Proof.
  unfold block_wf. intros H Hfresh.
  repeat (apply andb_true_iff in H; destruct H as [H ?]).
  rename H into Hnd. rename H0 into He. rename H1 into Hb. rename H2 into Hj. rename H3 into Hbody.
  destruct (is_begin (b_begin k)) as [tb|] eqn:Eb; [|discriminate]. apply ueqb_eq in Hb. subst tb.
  destruct (is_end (b_end k)) as [te|] eqn:Ee; [|discriminate]. apply ueqb_eq in He. subst te.
  assert (Hs : split_tag (b_tag k) = ([], b_tag k)).
  { unfold split_tag, split_on. rewrite split_on_aux_nodot by assumption. reflexivity. }
  unfold block_lines. cbn [fold_left]. rewrite (step_begin t _ _ _ _ Eb Hs). cbn [ensure bind].
  rewrite fold_app, collect_body by assumption.
  rewrite fold_app. cbn [fold_left]. rewrite step_end by exact Ee.
  cbn [c_path c_name c_tag c_save set_leaf]. rewrite Hfresh. cbn [bind].
  rewrite app_nil_r, rev_involutive. apply skip_junk. assumption.
Qed.

Lemma many_blocks ks : forall t, forallb block_wf ks = true -> tags_fresh ks t = true ->
  fold_left sp_step (List.concat (map block_lines ks)) (Ok (t, None)) = Ok (spec_result ks t, None).
Proof.
  induction ks as [|k r IH]; intros t Hwf Hfr; [reflexivity|]. cbn [map List.concat spec_result fold_left].
  simpl in Hwf. apply andb_true_iff in Hwf. destruct Hwf as [Hk Hr].
  simpl in Hfr. apply andb_true_iff in Hfr. destruct Hfr as [Hf1 Hf2]. apply negb_true_iff in Hf1.
  rewrite fold_app, one_simple_block by assumption. apply IH; assumption.
Qed.

Lemma get_splicers_many junk0 ks t : forallb no_begin junk0 = true ->
  forallb block_wf ks = true -> tags_fresh ks t = true ->
  get_splicers (junk0 ++ List.concat (map block_lines ks)) t = Ok (spec_result ks t).
Proof.
  intros Hj Hwf Hfr. unfold get_splicers. rewrite fold_app, skip_junk by assumption.
  rewrite many_blocks by assumption. reflexivity.
Qed.

(* ---------- _create_splicer precedence ---------- *)
Lemma create_force show c path name level d f :
  create_splicer show c path name level d (Some f) =
  Ok ((if show then [c ++ cp " splicer begin " ++ path ++ name] else []) ++ f ++
      (if show then [c ++ cp " splicer end " ++ path ++ name] else []), true).
Proof. reflexivity. Qed.

Lemma create_user show c path name level d code : assoc_get name level = Some (Leaf code) ->
  create_splicer show c path name level d None =
  Ok ((if show then [c ++ cp " splicer begin " ++ path ++ name] else []) ++ code ++
      (if show then [c ++ cp " splicer end " ++ path ++ name] else []), true).
Proof. intros H. unfold create_splicer. rewrite H. reflexivity. Qed.

Lemma create_default show c path name level d : assoc_get name level = None ->
  create_splicer show c path name level (Some d) None =
  Ok ((if show then [c ++ cp " splicer begin " ++ path ++ name] else []) ++ d ++
      (if show then [c ++ cp " splicer end " ++ path ++ name] else []), true).
Proof. intros H. unfold create_splicer. rewrite H. reflexivity. Qed.

(* ---------- a user line reaches the file verbatim (after indentation) ---------- *)
Definition verbatim_ok (s : ustr) : bool :=
  plain s && forallb (fun c => negb (is_hint c)) s &&
  match s with c :: _ => negb (N.eqb c CR) | [] => false end.

Lemma split_aux_nohint s : forall cur, forallb (fun c => negb (is_hint c)) s = true ->
  split_aux cur s = flush (rev s ++ cur).
Proof.
  induction s as [|c r IH]; intros cur H; simpl; [reflexivity|].
  simpl in H. apply andb_true_iff in H. destruct H as [H1 H2]. apply negb_true_iff in H1.
  unfold is_hint in H1. apply orb_false_iff in H1. destruct H1 as [Ht Hf]. rewrite Ht, Hf.
  rewrite IH by assumption. rewrite <- app_assoc. reflexivity.
Qed.

Lemma write_continue_verbatim p s : verbatim_ok s = true ->
  write_continue p s = Ok [ind p 0 ++ s].
Proof.
  unfold verbatim_ok. intros H. apply andb_true_iff in H. destruct H as [H Hcr].
  apply andb_true_iff in H. destruct H as [_ Hh].
  destruct s as [|c r]; [discriminate|]. apply negb_true_iff in Hcr.
  unfold write_continue, wc_body. rewrite Hcr. unfold split_parts.
  rewrite split_aux_nohint by assumption. rewrite app_nil_r.
  assert (E : flush (rev (c :: r)) = [PText (c :: r)]).
  { unfold flush. destruct (rev (c :: r)) eqn:Er.
    - apply (f_equal (@List.length N)) in Er. rewrite rev_length in Er. discriminate.
    - rewrite <- Er, rev_involutive. reflexivity. }
  rewrite E. unfold run. simpl fold_left. unfold step.
  change (Nat.ltb 0 0) with false. rewrite andb_false_r.
  unfold render, render_line. simpl. rewrite app_nil_r. reflexivity.
Qed.

Lemma write_lines_verbatim p body i : forallb verbatim_ok body = true ->
  write_lines_from p i (map OStr body) = Ok (map (fun s => ind (with_indent p i) 0 ++ s) body, i).
Proof.
  intros H. rewrite write_lines_plain.
  - f_equal. f_equal. induction body as [|s r IH]; [reflexivity|].
    simpl in H. apply andb_true_iff in H. destruct H as [Hs Hr].
    pose proof (write_continue_verbatim (with_indent p i) s Hs) as W.
    unfold write_continue in W. destruct s as [|c s']; [discriminate|].
    assert (W' : render (with_indent p i) (wc_body (with_indent p i) (c :: s')) =
                 [ind (with_indent p i) 0 ++ c :: s']) by congruence.
    cbn [map List.concat]. rewrite W'. cbn [app]. f_equal. apply IH. assumption.
  - rewrite forallb_forall in *. intros x Hx. specialize (H x Hx). unfold verbatim_ok in H.
    apply andb_true_iff in H. destruct H as [H _]. apply andb_true_iff in H. destruct H as [H _]. exact H.
Qed.

(* ---------- regenerate round trip: what _create_splicer writes is read back ---------- *)
Definition path_prefix (path : list ustr) : ustr :=
  match path with [] => [] | _ => join_dot path ++ [DOT] end.

Lemma join_dot_cons p r : r <> [] -> join_dot (p :: r) = p ++ DOT :: join_dot r.
Proof. destruct r; [contradiction | reflexivity]. Qed.

Lemma join_dot_snoc path name : join_dot (path ++ [name]) = path_prefix path ++ name.
Proof.
  induction path as [|p ps IH]; [reflexivity|].
  change ((p :: ps) ++ [name]) with (p :: (ps ++ [name])).
  rewrite join_dot_cons by (destruct ps; simpl; discriminate). rewrite IH.
  unfold path_prefix. destruct ps as [|q qs].
  - simpl. rewrite <- app_assoc. reflexivity.
  - rewrite (join_dot_cons p (q :: qs)) by discriminate. rewrite <- !app_assoc. simpl. reflexivity.
Qed.

Lemma nospace_app a b : nospace (a ++ b) = nospace a && nospace b.
Proof. apply forallb_app. Qed.

Lemma nospace_join comps : forallb nospace comps = true -> nospace (join_dot comps) = true.
Proof.
  induction comps as [|c r IH]; intros H; [reflexivity|].
  simpl in H. apply andb_true_iff in H. destruct H as [Hc Hr].
  destruct r as [|c2 r2]; [exact Hc|].
  rewrite join_dot_cons by discriminate. rewrite nospace_app, Hc. simpl. apply IH. exact Hr.
Qed.

Lemma regenerate_roundtrip c path name level code :
  no_s c = true -> c <> [] ->
  forallb nodot path = true -> nodot name = true ->
  forallb nospace path = true -> nospace name = true -> name <> [] ->
  forallb no_end code = true ->
  assoc_get name level = Some (Leaf code) ->
  exists lines, create_splicer true c (path_prefix path) name level None None = Ok (lines, true) /\
                get_splicers lines [] = Ok (nest path name (Leaf (map rstrip code))).
Proof.
  intros Hc Hne Hpd Hnd Hps Hns Hnn Hcode Hget.
  eexists. split; [apply create_user; exact Hget|].
  set (tag := join_dot (path ++ [name])).
  assert (Htag : path_prefix path ++ name = tag) by (symmetry; apply join_dot_snoc).
  assert (Htne : tag <> []).
  { unfold tag. rewrite join_dot_snoc. destruct name; [contradiction|]. destruct (path_prefix path); discriminate. }
  assert (Hts : nospace tag = true).
  { unfold tag. apply nospace_join. rewrite forallb_app, Hps. simpl. rewrite Hns. reflexivity. }
  cbn [app]. rewrite Htag.
  destruct (begin_line_recognised c tag Hc Hne Htne Hts) as [rb [Hb1 Hb2]].
  destruct (end_line_recognised c tag Hc Hne Htne Hts) as [re [He1 He2]].
  apply one_block; try assumption.
  - unfold is_begin. rewrite Hb1. exact Hb2.
  - unfold is_end. rewrite He1. exact He2.
Qed.
