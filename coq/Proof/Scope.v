(* Proof/Scope.v — algebra of scoped lookup (Model/Scope.v). *)
From Coq Require Import List NArith Bool Arith Lia.
From Shroud Require Import Base.Ustr Model.Scope.
Import ListNotations.

(* ---------- association lists ---------- *)
Lemma aget_aset_same k v l : aget k (aset k v l) = Some v.
Proof.
  induction l as [|[k' v'] r IH]; simpl.
  - rewrite N.eqb_refl. reflexivity.
  - destruct (N.eqb k k') eqn:E; simpl; [rewrite N.eqb_refl; reflexivity | rewrite E; exact IH].
Qed.

Lemma aget_aset_other k k' v l : k' <> k -> aget k' (aset k v l) = aget k' l.
Proof.
  intros Hne. induction l as [|[k2 v2] r IH]; simpl.
  - destruct (N.eqb k' k) eqn:E; [apply N.eqb_eq in E; contradiction | reflexivity].
  - destruct (N.eqb k k2) eqn:E; simpl.
    + apply N.eqb_eq in E. subst k2.
      destruct (N.eqb k' k) eqn:E2; [apply N.eqb_eq in E2; contradiction | reflexivity].
    + destruct (N.eqb k' k2); [reflexivity | exact IH].
Qed.

(* ---------- heap updates ---------- *)
Lemma set_nth_length h : forall id o, length (set_nth h id o) = length h.
Proof. induction h as [|x r IH]; intros [|n] o; simpl; auto. Qed.

Lemma nth_error_set_nth_same h : forall id o, id < length h -> nth_error (set_nth h id o) id = Some o.
Proof.
  induction h as [|x r IH]; intros [|n] o H; simpl in *; try lia; [reflexivity|].
  apply IH. lia.
Qed.

Lemma nth_error_set_nth_other h : forall id j o, j <> id -> nth_error (set_nth h id o) j = nth_error h j.
Proof.
  induction h as [|x r IH]; intros [|n] [|j] o H; simpl; try reflexivity; try contradiction.
  apply IH. lia.
Qed.

Lemma setattr_length h id k v : length (setattr h id k v) = length h.
Proof. unfold setattr, with_locals. destruct (nth_error h id); [apply set_nth_length | reflexivity]. Qed.

Lemma setattr_other h a k v j : j <> a -> nth_error (setattr h a k v) j = nth_error h j.
Proof.
  intros H. unfold setattr, with_locals. destruct (nth_error h a); [|reflexivity].
  apply nth_error_set_nth_other. exact H.
Qed.

Lemma setattr_same h a k v o : nth_error h a = Some o ->
  nth_error (setattr h a k v) a = Some {| parent := parent o; locals := aset k v (locals o) |}.
Proof.
  intros H. unfold setattr, with_locals. rewrite H. apply nth_error_set_nth_same.
  apply nth_error_Some. congruence.
Qed.

(* ---------- chains ---------- *)
(* the scopes visited by a lookup from [s] (itself first) *)
Fixpoint chain (fuel : nat) (h : heap) (s : nat) : list nat :=
  match fuel with
  | O => []
  | S f => s :: match nth_error h s with
                | Some o => match parent o with Some p => chain f h p | None => [] end
                | None => []
                end
  end.

(* T3: a binding made in scope [a] changes no lookup (of any key) made from a scope whose
   chain does not contain [a]: siblings, parents, unrelated scopes. *)
Lemma lookup_frame f : forall h a k v s k',
  ~ In a (chain f h s) -> lookup f (setattr h a k v) s k' = lookup f h s k'.
Proof.
  induction f as [|f IH]; intros h a k v s k' Hn; simpl; [reflexivity|].
  simpl in Hn. assert (Hs : s <> a) by (intro E; apply Hn; left; auto).
  rewrite setattr_other by exact Hs.
  destruct (nth_error h s) as [o|]; [|reflexivity].
  destruct (aget k' (locals o)); [reflexivity|].
  destruct (parent o) as [p|]; [|reflexivity].
  apply IH. intro Hin. apply Hn. right. exact Hin.
Qed.

(* a binding of key k disturbs no other key, from anywhere *)
Lemma lookup_other_key f : forall h a k v s k', k' <> k ->
  lookup f (setattr h a k v) s k' = lookup f h s k'.
Proof.
  induction f as [|f IH]; intros h a k v s k' Hk; simpl; [reflexivity|].
  destruct (Nat.eq_dec s a) as [->|Hs].
  - destruct (nth_error h a) as [o|] eqn:E.
    + rewrite (setattr_same _ _ _ _ _ E). simpl. rewrite aget_aset_other by exact Hk.
      destruct (aget k' (locals o)); [reflexivity|].
      destruct (parent o); [apply IH; exact Hk | reflexivity].
    + unfold setattr, with_locals. rewrite E. rewrite E. reflexivity.
  - rewrite setattr_other by exact Hs.
    destruct (nth_error h s) as [o|]; [|reflexivity].
    destruct (aget k' (locals o)); [reflexivity|].
    destruct (parent o); [apply IH; exact Hk | reflexivity].
Qed.

(* T2: [reach f h k d c]: walking up from d, c is met before any scope that binds k locally *)
Fixpoint reach (fuel : nat) (h : heap) (k : key) (d c : nat) : bool :=
  match fuel with
  | O => false
  | S f =>
      if Nat.eqb d c then true
      else match nth_error h d with
           | Some o => match aget k (locals o) with
                       | Some _ => false
                       | None => match parent o with Some p => reach f h k p c | None => false end
                       end
           | None => false
           end
  end.

Lemma lookup_container f : forall h k v d c,
  c < length h -> reach f h k d c = true -> lookup f (setattr h c k v) d k = Ok v.
Proof.
  induction f as [|f IH]; intros h k v d c Hc Hr; simpl in *; [discriminate|].
  destruct (Nat.eqb d c) eqn:E.
  - apply Nat.eqb_eq in E. subst d.
    destruct (nth_error h c) as [o|] eqn:Eo; [|apply nth_error_None in Eo; lia].
    rewrite (setattr_same _ _ _ _ _ Eo). simpl. rewrite aget_aset_same. reflexivity.
  - apply Nat.eqb_neq in E. rewrite setattr_other by exact E.
    destruct (nth_error h d) as [o|]; [|discriminate].
    destruct (aget k (locals o)); [discriminate|].
    destruct (parent o) as [p|]; [|discriminate].
    apply IH; assumption.
Qed.

Lemma lookup_self f h k v d : d < length h -> lookup (S f) (setattr h d k v) d k = Ok v.
Proof.
  intros Hd. simpl. destruct (nth_error h d) as [o|] eqn:Eo; [|apply nth_error_None in Eo; lia].
  rewrite (setattr_same _ _ _ _ _ Eo). simpl. rewrite aget_aset_same. reflexivity.
Qed.

(* ---------- well-formed heaps: parents are older objects ---------- *)
Definition wf (h : heap) : Prop :=
  forall id o p, nth_error h id = Some o -> parent o = Some p -> p < id.

Lemma lookup_fuel_irrel h k : wf h -> forall f1 f2 id, id < f1 -> id < f2 ->
  lookup f1 h id k = lookup f2 h id k.
Proof.
  intros W. induction f1 as [|f1 IH]; intros f2 id H1 H2; [lia|].
  destruct f2 as [|f2]; [lia|]. simpl.
  destruct (nth_error h id) as [o|] eqn:Eo; [|reflexivity].
  destruct (aget k (locals o)); [reflexivity|].
  destruct (parent o) as [p|] eqn:Ep; [|reflexivity].
  pose proof (W id o p Eo Ep). apply IH; lia.
Qed.

Lemma lookup_never_out_of_fuel h k : wf h -> forall f id, id < f -> lookup f h id k <> OutOfFuel.
Proof.
  intros W. induction f as [|f IH]; intros id H; [lia|]. simpl.
  destruct (nth_error h id) as [o|] eqn:Eo; [|discriminate].
  destruct (aget k (locals o)); [discriminate|].
  destruct (parent o) as [p|] eqn:Ep; [|discriminate].
  pose proof (W id o p Eo Ep). apply IH. lia.
Qed.

Lemma lookup_S f h id k : lookup (S f) h id k =
  match nth_error h id with
  | None => Crash AttributeError
  | Some o => match aget k (locals o) with
              | Some v => Ok v
              | None => match parent o with Some p => lookup f h p k | None => Crash AttributeError end
              end
  end.
Proof. reflexivity. Qed.

(* T1: inheritance *)
Lemma getattr_inherit h c o p k : wf h -> nth_error h c = Some o ->
  aget k (locals o) = None -> parent o = Some p -> getattr h c k = getattr h p k.
Proof.
  intros W Ho Hk Hp. unfold getattr. rewrite (lookup_S _ h c). rewrite Ho, Hk, Hp.
  pose proof (W c o p Ho Hp) as Hlt.
  assert (c < length h) by (apply nth_error_Some; congruence).
  apply lookup_fuel_irrel; [exact W | lia | lia].
Qed.

Lemma getattr_local h c o k v : nth_error h c = Some o -> aget k (locals o) = Some v -> getattr h c k = Ok v.
Proof. intros Ho Hk. unfold getattr. cbn [lookup]. rewrite Ho, Hk. reflexivity. Qed.

(* ---------- statements at getattr level ---------- *)
Lemma getattr_container h k v d c : c < length h -> reach (S (length h)) h k d c = true ->
  getattr (setattr h c k v) d k = Ok v.
Proof. intros Hc Hr. unfold getattr. rewrite setattr_length. apply lookup_container; assumption. Qed.

Lemma getattr_self h k v d : d < length h -> getattr (setattr h d k v) d k = Ok v.
Proof. intros Hd. unfold getattr. rewrite setattr_length. apply lookup_self. exact Hd. Qed.

Lemma getattr_frame h a k v s k' : ~ In a (chain (S (length h)) h s) ->
  getattr (setattr h a k v) s k' = getattr h s k'.
Proof. intros H. unfold getattr. rewrite setattr_length. apply lookup_frame. exact H. Qed.

Lemma getattr_other_key h a k v s k' : k' <> k -> getattr (setattr h a k v) s k' = getattr h s k'.
Proof. intros H. unfold getattr. rewrite setattr_length. apply lookup_other_key. exact H. Qed.

(* clone: same lookups as the original *)
Lemma nth_error_app_last {A} (l : list A) x : nth_error (l ++ [x]) (length l) = Some x.
Proof. induction l; simpl; auto. Qed.

Lemma wf_snoc h o : wf h -> (forall p, parent o = Some p -> p < length h) -> wf (h ++ [o]).
Proof.
  intros W Ho id o' p Hn Hp.
  destruct (Nat.lt_ge_cases id (length h)) as [Hlt|Hge].
  - rewrite nth_error_app1 in Hn by exact Hlt. eapply W; eassumption.
  - assert (id = length h).
    { assert (id < length (h ++ [o])) by (apply nth_error_Some; congruence).
      rewrite app_length in H. simpl in H. lia. }
    subst id. rewrite nth_error_app_last in Hn. injection Hn as <-. specialize (Ho p Hp). lia.
Qed.

Lemma lookup_app f : forall h x id k, id < length h -> wf (h ++ [x]) ->
  lookup f (h ++ [x]) id k = lookup f h id k.
Proof.
  induction f as [|f IH]; intros h x id k Hid W; simpl; [reflexivity|].
  rewrite nth_error_app1 by exact Hid.
  destruct (nth_error h id) as [o|] eqn:Eo; [|reflexivity].
  destruct (aget k (locals o)); [reflexivity|].
  destruct (parent o) as [p|] eqn:Ep; [|reflexivity].
  apply IH; [|exact W].
  assert (p < id); [|lia]. apply (W id o p); [rewrite nth_error_app1 by exact Hid; exact Eo | exact Ep].
Qed.

Lemma clone_lookup h id k : wf h -> id < length h ->
  let '(h', n) := clone h id in getattr h' n k = getattr h id k /\ wf h'.
Proof.
  intros W Hid. unfold clone. destruct (nth_error h id) as [o|] eqn:Eo; [|apply nth_error_None in Eo; lia].
  set (o' := {| parent := parent o; locals := locals o |}).
  assert (W' : wf (h ++ [o'])).
  { apply wf_snoc; [exact W|]. intros p Hp. simpl in Hp. pose proof (W id o p Eo Hp). lia. }
  split; [|exact W'].
  unfold getattr. rewrite app_length. simpl length.
  rewrite (lookup_S _ (h ++ [o'])). rewrite nth_error_app_last. rewrite (lookup_S _ h id), Eo. simpl.
  destruct (aget k (locals o)); [reflexivity|].
  destruct (parent o) as [p|] eqn:Ep; [|reflexivity].
  pose proof (W id o p Eo Ep) as Hp.
  rewrite lookup_app by (try exact W'; lia).
  apply lookup_fuel_irrel; [exact W | lia | lia].
Qed.

(* a new empty child scope sees exactly what its parent sees *)
Lemma new_child_lookup h p k : wf h -> p < length h ->
  let '(h', n) := new_scope h (Some p) [] in getattr h' n k = getattr h p k /\ wf h'.
Proof.
  intros W Hp. unfold new_scope. simpl fold_left.
  set (o := {| parent := Some p; locals := [] |}).
  assert (W' : wf (h ++ [o])).
  { apply wf_snoc; [exact W|]. intros q Hq. simpl in Hq. injection Hq as <-. exact Hp. }
  split; [|exact W'].
  unfold getattr. rewrite app_length. simpl length. rewrite (lookup_S _ (h ++ [o])). rewrite nth_error_app_last. unfold o at 1 2. cbn [parent locals aget].
  rewrite lookup_app by (try exact W'; lia).
  apply lookup_fuel_irrel; [exact W | lia | lia].
Qed.

Lemma setattr_wf h a k v : wf h -> wf (setattr h a k v).
Proof.
  intros W id o p Hn Hp. destruct (Nat.eq_dec id a) as [->|Hne].
  - destruct (nth_error h a) as [o0|] eqn:E.
    + rewrite (setattr_same _ _ _ _ _ E) in Hn. injection Hn as <-. simpl in Hp. eapply W; eassumption.
    + unfold setattr, with_locals in Hn. rewrite E in Hn. congruence.
  - rewrite setattr_other in Hn by exact Hne. eapply W; eassumption.
Qed.
