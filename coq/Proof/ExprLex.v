(* Proof/ExprLex.v — the printed text of a canonical expression lexes to the tokens the expression stands for; with
   Proof/ExprRT.v:  check_expr (print_expr e) = Ok e. *)
From Coq Require Import List NArith Bool Arith Lia String.
From Shroud Require Import Base.Ustr Model.Splicer Model.Lexer Model.Expr Proof.Splicer Proof.LexComp Proof.Enum Proof.Fuel.
From Shroud Require Import Proof.ExprRT.
Import ListNotations.

(* what may follow a number or a word inside an expression: not a word character and not a decimal point *)
Definition brk2 (r : ustr) : Prop := match r with [] => True | c :: _ => is_alnum_ c = false /\ (c =? 46)%N = false end.
Definition Weak2 (s : ustr) (ts : list tok) : Prop :=
  forall r f, brk2 r -> List.length (s ++ r) < f -> exists f', List.length r < f' /\ lex_fuel f (s ++ r) = ts ++ lex_fuel f' r.
Definition okstart2 (s : ustr) : Prop := match s with [] => False | c :: _ => is_alnum_ c = false /\ (c =? 46)%N = false end.

Lemma brk2_brk r : brk2 r -> brk r.
Proof. destruct r; [auto | intros (H & _); exact H]. Qed.
Lemma weak_weak2 s ts : Weak s ts -> Weak2 s ts.
Proof. intros H r f Hb Hf. apply H; [apply brk2_brk; exact Hb | exact Hf]. Qed.
Lemma any_weak2 s ts : Any s ts -> Weak2 s ts.
Proof. intros H r f _ Hf. apply H; exact Hf. Qed.

Lemma any_weak2_app s1 t1 s2 t2 : Any s1 t1 -> Weak2 s2 t2 -> Weak2 (s1 ++ s2) (t1 ++ t2).
Proof.
  intros H1 H2 r f Hb Hf. rewrite <- app_assoc in *. destruct (H1 (s2 ++ r) f Hf) as (f1 & Hf1 & E1).
  destruct (H2 r f1 Hb Hf1) as (f2 & Hf2 & E2). exists f2. split; [exact Hf2|]. rewrite E1, E2, app_assoc. reflexivity.
Qed.
Lemma weak2_any_app s1 t1 s2 t2 : Weak2 s1 t1 -> Any s2 t2 -> okstart2 s2 -> Any (s1 ++ s2) (t1 ++ t2).
Proof.
  intros H1 H2 Hs r f Hf. destruct s2 as [|c s2']; [contradiction|].
  rewrite <- app_assoc in *. destruct (H1 ((c :: s2') ++ r) f Hs Hf) as (f1 & Hf1 & E1).
  destruct (H2 r f1 Hf1) as (f2 & Hf2 & E2). exists f2. split; [exact Hf2|]. rewrite E1, E2, app_assoc. reflexivity.
Qed.

(* ---- numbers ---- *)
Definition digitsb (v : ustr) : bool := match v with [] => false | _ => forallb is_dig v end.

Lemma span_digits : forall w r, forallb is_dig w = true -> (match r with [] => True | c :: _ => is_dig c = false end) ->
  span is_dig (w ++ r) = (w, r).
Proof.
  induction w as [|c w IH]; intros r Hw Hb.
  - cbn [app]. destruct r as [|c r]; [reflexivity|]. cbn [span]. rewrite Hb. reflexivity.
  - cbn [forallb] in Hw. apply andb_true_iff in Hw. destruct Hw as [Hc Hw]. cbn [app span]. rewrite Hc, (IH r Hw Hb). reflexivity.
Qed.

Lemma dig_alnum c : is_dig c = true -> is_alnum_ c = true.
Proof. unfold is_alnum_. intros H. rewrite H. apply orb_true_r. Qed.

Lemma brk2_facts r : brk2 r ->
  (match r with [] => True | c :: _ => is_dig c = false end) /\ exponent r = ([], r) /\
  (match r with c :: _ => (c =? 46)%N = false | [] => True end).
Proof.
  destruct r as [|c r]; [intros _; repeat split; reflexivity|]. intros (Ha & Hd).
  assert (Hdig : is_dig c = false). { destruct (is_dig c) eqn:E; [rewrite (dig_alnum c E) in Ha; discriminate | reflexivity]. }
  repeat split; auto.
  unfold exponent.
  assert (He : (c =? 69)%N || (c =? 101)%N = false).
  { apply orb_false_iff. unfold is_alnum_, is_alpha_ in Ha. apply orb_false_iff in Ha. destruct Ha as (Hal & _).
    apply orb_false_iff in Hal. destruct Hal as (Hal & _). apply orb_false_iff in Hal. destruct Hal as (Hup & Hlo).
    split; apply N.eqb_neq; intros E; subst c; cbn in *; discriminate. }
  rewrite He. reflexivity.
Qed.

Lemma next_token_int v r : digitsb v = true -> brk2 r -> next_token (v ++ r) = (Some {| tk := INTEGER; tv := v |}, r).
Proof.
  intros Hv Hb. destruct v as [|c v']; [discriminate|]. cbn [digitsb] in Hv.
  destruct (brk2_facts r Hb) as (Hnd & Hex & Hdot).
  pose proof (span_digits (c :: v') r Hv Hnd) as Hsp.
  assert (Hc : is_dig c = true). { cbn [forallb] in Hv. apply andb_true_iff in Hv. tauto. }
  assert (Hmr : match_real ((c :: v') ++ r) = None).
  { unfold match_real. rewrite Hsp. destruct r as [|d r']; [reflexivity|]. rewrite Hdot, Hex. reflexivity. }
  unfold next_token. rewrite Hmr. cbn [app]. rewrite Hc.
  change (c :: v' ++ r) with ((c :: v') ++ r). rewrite Hsp. reflexivity.
Qed.

Lemma weak2_int v : digitsb v = true -> Weak2 v [{| tk := INTEGER; tv := v |}].
Proof.
  intros Hv r f Hb Hf. destruct f as [|f']; [lia|]. exists f'.
  assert (Hl : 1 <= List.length v) by (destruct v; [discriminate | cbn [List.length]; lia]).
  rewrite app_length in Hf. split; [lia|].
  cbn [lex_fuel]. destruct (v ++ r) eqn:E; [destruct v; discriminate|]. rewrite <- E, next_token_int by assumption. reflexivity.
Qed.

(* ---- operators and punctuation of expressions ---- *)
Lemma any_sym c k : In (c, k) [(40, LPAREN); (41, RPAREN); (44, COMMA); (43, PLUS); (45, MINUS); (42, STAR); (47, SLASH)]%N ->
  Any [c] [{| tk := k; tv := [c] |}].
Proof.
  intros Hin r f Hf. destruct f as [|f']; [cbn in Hf; lia|]. exists f'. split; [cbn in Hf; lia|].
  cbn [In] in Hin. repeat (destruct Hin as [Hin | Hin]; [inversion Hin; subst; reflexivity|]). contradiction.
Qed.

(* ---- the text conditions: identifiers are identifiers, constants are decimal integers ---- *)
Definition identb (n : ustr) : bool := wordb n && match classify_id n with ID => true | _ => false end.
Fixpoint etext (e : expr) : bool :=
  match e with
  | EIdent n None => identb n
  | EIdent n (Some args) => identb n && forallb etext args
  | EConst v => digitsb v
  | EBin l _ r => etext l && etext r
  | EUn _ x => etext x
  | EParen x => etext x
  end.

Lemma ident_ok n : identb n = true -> Weak n [e_id n].
Proof.
  unfold identb. intros H. apply andb_true_iff in H. destruct H as [Hw Hk].
  assert (E : word_tok n = e_id n). { unfold word_tok, e_id. destruct (classify_id n); try discriminate. reflexivity. }
  rewrite <- E. apply weak_word; exact Hw.
Qed.

Definition pargs : list expr -> ustr :=
  fix go (l : list expr) : ustr := match l with [] => [] | x :: t => cp "," ++ print_expr x ++ go t end.
Lemma print_call n a r : print_expr (EIdent n (Some (a :: r))) = n ++ cp "(" ++ print_expr a ++ pargs r ++ cp ")".
Proof. reflexivity. Qed.
Lemma pargs_cons x t : pargs (x :: t) = cp "," ++ print_expr x ++ pargs t.
Proof. reflexivity. Qed.

Lemma op_char op p : opinfo op = Some p -> exists c, op = [c] /\ In (c, op_kind op) [(43, PLUS); (45, MINUS); (42, STAR); (47, SLASH)]%N.
Proof.
  unfold opinfo. destruct op as [|c [|c2 r]]; try discriminate. intros H. exists c. split; [reflexivity|].
  unfold op_kind. cbn [In].
  destruct (c =? 43)%N eqn:E1; [apply N.eqb_eq in E1; subst; auto|].
  destruct (c =? 45)%N eqn:E2; [apply N.eqb_eq in E2; subst; auto|].
  destruct (c =? 42)%N eqn:E3; [apply N.eqb_eq in E3; subst; auto 6|].
  destruct (c =? 47)%N eqn:E4; [apply N.eqb_eq in E4; subst; auto 8|]. cbn in H. discriminate.
Qed.

Lemma any_op op p : opinfo op = Some p -> Any op [op_tok op] /\ okstart2 op.
Proof.
  intros H. destruct (op_char op p H) as (c & -> & Hin). cbn [In] in Hin.
  destruct Hin as [Hin | [Hin | [Hin | [Hin | []]]]]; inversion Hin as [[Hc Hk]]; subst c; clear Hin Hk; (split; [| split; reflexivity]).
  - apply (any_sym 43 PLUS); cbn; auto 10.
  - apply (any_sym 45 MINUS); cbn; auto 10.
  - apply (any_sym 42 STAR); cbn; auto 10.
  - apply (any_sym 47 SLASH); cbn; auto 10.
Qed.

Lemma wrap_un_not r t : is_un r = false -> wrap_un r t = t.
Proof. destruct r; cbn; intros H; try reflexivity; discriminate. Qed.

Lemma args_text : forall r a,
  (forall x, In x (a :: r) -> Weak2 (print_expr x) (etoks x)) ->
  Any (print_expr a ++ pargs r ++ cp ")") (jtoks (map etoks (a :: r)) ++ [e_rp]).
Proof.
  induction r as [|b r IH]; intros a H.
  - cbn [pargs map jtoks app]. apply weak2_any_app; [apply H; left; reflexivity | apply (any_sym 41 RPAREN); cbn; auto | split; reflexivity].
  - rewrite pargs_cons.
    change (jtoks (map etoks (a :: b :: r))) with (etoks a ++ e_comma :: jtoks (map etoks (b :: r))).
    rewrite <- !app_assoc. cbn [app].
    apply weak2_any_app; [apply H; left; reflexivity | | split; reflexivity].
    change (cp "," ++ print_expr b ++ pargs r ++ cp ")") with ([44%N] ++ (print_expr b ++ pargs r ++ cp ")")).
    change (e_comma :: jtoks (map etoks (b :: r)) ++ [e_rp]) with ([e_comma] ++ (jtoks (map etoks (b :: r)) ++ [e_rp])).
    apply any_app; [apply (any_sym 44 COMMA); cbn; auto|]. apply IH. intros x Hx. apply H. right. exact Hx.
Qed.

Lemma text_of_expression : forall n e, esize e < n -> canon e = true -> etext e = true -> Weak2 (print_expr e) (etoks e).
Proof.
  induction n as [|n IH]; intros e Hs Hc Ht; [lia|].
  assert (Hlp : Any (cp "(") [e_lp]) by (apply (any_sym 40 LPAREN); cbn; auto).
  assert (Hrp : Any (cp ")") [e_rp]) by (apply (any_sym 41 RPAREN); cbn; auto).
  destruct e as [nm [args|] | v | l op r | op x | x]; cbn [esize canon etext] in *.
  - (* call *)
    apply andb_true_iff in Ht. destruct Ht as [Hn Hta]. pose proof (ident_ok nm Hn) as Wn.
    destruct args as [|a r].
    + cbn [print_expr etoks map jtoks app]. apply any_weak2.
      change (e_id nm :: e_lp :: [e_rp]) with ([e_id nm] ++ ([e_lp] ++ [e_rp])).
      apply weak_any_app; [exact Wn | apply (any_app _ _ _ _ Hlp Hrp) | discriminate | reflexivity].
    + rewrite print_call. cbn [etoks]. apply any_weak2.
      change (e_id nm :: e_lp :: jtoks (map etoks (a :: r)) ++ [e_rp]) with ([e_id nm] ++ ([e_lp] ++ (jtoks (map etoks (a :: r)) ++ [e_rp]))).
      apply weak_any_app; [exact Wn | | discriminate | reflexivity].
      apply any_app; [exact Hlp|]. apply args_text. intros y Hy. apply IH.
      * pose proof (esize_in y (a :: r) Hy). lia.
      * rewrite forallb_forall in Hc. apply Hc; exact Hy.
      * rewrite forallb_forall in Hta. apply Hta; exact Hy.
  - apply weak_weak2. apply ident_ok; exact Ht.
  - apply weak2_int; exact Ht.
  - (* binary *)
    destruct (opinfo op) as [p|] eqn:Eop; [|discriminate].
    apply andb_true_iff in Hc. destruct Hc as [Hc Hnu]. apply andb_true_iff in Hc. destruct Hc as [Hc _].
    apply andb_true_iff in Hc. destruct Hc as [Hc _]. apply andb_true_iff in Hc. destruct Hc as [Hcl Hcr].
    apply andb_true_iff in Ht. destruct Ht as [Htl Htr]. apply negb_true_iff in Hnu.
    rewrite Proof.Enum.print_bin, (wrap_un_not r _ Hnu). cbn [etoks].
    destruct (any_op op p Eop) as (Aop & Sop).
    change (etoks l ++ op_tok op :: etoks r) with (etoks l ++ [op_tok op] ++ etoks r). rewrite !app_assoc.
    apply any_weak2_app; [| apply IH; [lia | exact Hcr | exact Htr]].
    apply weak2_any_app; [apply IH; [lia | exact Hcl | exact Htl] | exact Aop | exact Sop].
  - (* sign *)
    apply andb_true_iff in Hc. destruct Hc as [Hc _]. apply andb_true_iff in Hc. destruct Hc as [Hc Hnu].
    apply andb_true_iff in Hc. destruct Hc as [Hu Hcx]. apply negb_true_iff in Hnu.
    rewrite Proof.Enum.print_un, (wrap_un_not x _ Hnu). cbn [etoks].
    assert (Eop : exists p, opinfo op = Some p).
    { unfold unop in Hu. unfold opinfo. destruct op as [|c [|c2 rr]]; try discriminate. rewrite Hu. eauto. }
    destruct Eop as (p & Eop). destruct (any_op op p Eop) as (Aop & _).
    change (op_tok op :: etoks x) with ([op_tok op] ++ etoks x).
    apply any_weak2_app; [exact Aop | apply IH; [lia | exact Hcx | exact Ht]].
  - (* parentheses *)
    cbn [print_expr etoks]. apply any_weak2.
    change (e_lp :: etoks x ++ [e_rp]) with ([e_lp] ++ (etoks x ++ [e_rp])).
    apply any_app; [exact Hlp|]. apply weak2_any_app; [apply IH; [lia | exact Hc | exact Ht] | exact Hrp | split; reflexivity].
Qed.

Lemma weak2_tokenize s ts : Weak2 s ts -> tokenize s = ts.
Proof.
  intros H. unfold tokenize. destruct (H [] (S (List.length s)) I) as (f' & _ & E).
  - rewrite app_nil_r. lia.
  - rewrite app_nil_r in E. rewrite E. destruct f'; cbn [lex_fuel]; rewrite app_nil_r; reflexivity.
Qed.

(* the printed text lexes to the expression's tokens *)
Theorem print_lexes : forall e, canon e = true -> etext e = true -> tokenize (print_expr e) = etoks e.
Proof. intros e Hc Ht. apply weak2_tokenize. apply (text_of_expression (S (esize e))); [lia | exact Hc | exact Ht]. Qed.

(* the parser's own fuel suffices *)
Theorem parse_expression_roundtrip : forall e R, canon e = true -> fol 0 R -> parse_expression (etoks e ++ R) = Ok (e, R).
Proof.
  intros e R Hc Hf. destruct (expression_roundtrip e 0 R Hc ltac:(lia) Hf) as (F & HF).
  unfold parse_expression. set (ts := etoks e ++ R) in *.
  pose proof (parse_expression_total ts) as Ht. unfold parse_expression in Ht.
  pose proof (proj1 (expr_stable (expr_fuel ts)) 0 ts Ht (Nat.max F (expr_fuel ts)) (Nat.le_max_r _ _)) as Hs.
  rewrite <- Hs. apply HF. apply Nat.le_max_l.
Qed.

(* re-reading the printed text of an expression gives the expression back *)
Theorem check_expr_of_print : forall e, canon e = true -> etext e = true -> check_expr (print_expr e) = Ok e.
Proof.
  intros e Hc Ht. unfold check_expr. rewrite (print_lexes e Hc Ht).
  rewrite <- (app_nil_r (etoks e)). rewrite (parse_expression_roundtrip e [] Hc I). reflexivity.
Qed.
