(* Proof/ExprRT.v — the expression parser reads back, from the tokens an expression stands for, exactly that expression
   (precedence climbing with left-associative operators, unary signs, parentheses, calls), for every expression in the
   printer's canonical form; with the lexer lemmas this gives  parse (print e) = e  on text. *)
From Coq Require Import List NArith Bool Arith Lia.
From Shroud Require Import Base.Ustr Model.Splicer Model.Lexer Model.Expr.
Import ListNotations.

(* ---- fuel monotonicity of the expression parser ---- *)
Lemma expr_mono : forall f,
  (forall m ts x, p_expr f m ts = Ok x -> forall f', f <= f' -> p_expr f' m ts = Ok x) /\
  (forall m l ts x, p_loop f m l ts = Ok x -> forall f', f <= f' -> p_loop f' m l ts = Ok x) /\
  (forall ts x, p_primary f ts = Ok x -> forall f', f <= f' -> p_primary f' ts = Ok x) /\
  (forall ts acc x, p_args f ts acc = Ok x -> forall f', f <= f' -> p_args f' ts acc = Ok x).
Proof.
  induction f as [|f IH]; [repeat split; intros; discriminate|].
  destruct IH as (IHe & IHl & IHp & IHa).
  repeat split.
  - intros m ts x H f' Hf. destruct f' as [|f']; [lia|]. cbn [p_expr] in *.
    destruct (p_primary f ts) as [[e r]| | |] eqn:E; try discriminate. cbn [bind fst snd] in *.
    rewrite (IHp ts (e, r) E f' ltac:(lia)). cbn [bind fst snd]. apply (IHl m e r x H); lia.
  - intros m l ts x H f' Hf. destruct f' as [|f']; [lia|]. cbn [p_loop] in *.
    destruct ts as [|t r]; [exact H|]. destruct (opinfo (tv t)) as [p|]; [|exact H].
    destruct (Nat.ltb p m); [exact H|].
    destruct (p_expr f (S p) r) as [[e r']| | |] eqn:E; try discriminate. cbn [bind fst snd] in *.
    rewrite (IHe (S p) r (e, r') E f' ltac:(lia)). cbn [bind fst snd]. apply (IHl m _ r' x H); lia.
  - intros ts x H f' Hf. destruct f' as [|f']; [lia|]. cbn [p_primary] in *.
    destruct ts as [|t r]; [exact H|]. destruct (tk t); try exact H.
    + (* LPAREN *)
      destruct (p_expr f 0 r) as [[e r']| | |] eqn:E; try discriminate. cbn [bind fst snd] in *.
      rewrite (IHe 0 r (e, r') E f' ltac:(lia)). exact H.
    + (* PLUS *)
      destruct (p_primary f r) as [[e r']| | |] eqn:E; try discriminate. cbn [bind fst snd] in *.
      rewrite (IHp r (e, r') E f' ltac:(lia)). exact H.
    + (* MINUS *)
      destruct (p_primary f r) as [[e r']| | |] eqn:E; try discriminate. cbn [bind fst snd] in *.
      rewrite (IHp r (e, r') E f' ltac:(lia)). exact H.
    + (* ID *)
      destruct (peek LPAREN r); [|exact H].
      destruct (p_args f (tl r) []) as [[a r']| | |] eqn:E; try discriminate. cbn [bind fst snd] in *.
      rewrite (IHa (tl r) [] (a, r') E f' ltac:(lia)). exact H.
  - intros ts acc x H f' Hf. destruct f' as [|f']; [lia|]. cbn [p_args] in *.
    destruct (peek RPAREN ts); [exact H|].
    destruct (p_expr f 0 ts) as [[e r']| | |] eqn:E; try discriminate. cbn [bind fst snd] in *.
    rewrite (IHe 0 ts (e, r') E f' ltac:(lia)). cbn [bind fst snd].
    destruct (peek COMMA r'); [apply (IHa (tl r') (e :: acc) x H); lia | exact H].
Qed.

Lemma p_expr_mono f f' m ts x : p_expr f m ts = Ok x -> f <= f' -> p_expr f' m ts = Ok x.
Proof. intros H L. exact (proj1 (expr_mono f) m ts x H f' L). Qed.
Lemma p_loop_mono f f' m l ts x : p_loop f m l ts = Ok x -> f <= f' -> p_loop f' m l ts = Ok x.
Proof. intros H L. exact (proj1 (proj2 (expr_mono f)) m l ts x H f' L). Qed.
Lemma p_primary_mono f f' ts x : p_primary f ts = Ok x -> f <= f' -> p_primary f' ts = Ok x.
Proof. intros H L. exact (proj1 (proj2 (proj2 (expr_mono f))) ts x H f' L). Qed.
Lemma p_args_mono f f' ts acc x : p_args f ts acc = Ok x -> f <= f' -> p_args f' ts acc = Ok x.
Proof. intros H L. exact (proj2 (proj2 (proj2 (expr_mono f))) ts acc x H f' L). Qed.

(* ---- the tokens an expression stands for ---- *)
Definition e_id (n : ustr) : tok := {| tk := ID; tv := n |}.
Definition e_lp : tok := {| tk := LPAREN; tv := [40%N] |}.
Definition e_rp : tok := {| tk := RPAREN; tv := [41%N] |}.
Definition e_comma : tok := {| tk := COMMA; tv := [44%N] |}.
Definition op_kind (op : ustr) : tkind :=
  match op with
  | [c] => if (c =? 43)%N then PLUS else if (c =? 45)%N then MINUS else if (c =? 42)%N then STAR else if (c =? 47)%N then SLASH else OTHER
  | _ => OTHER
  end.
Definition op_tok (op : ustr) : tok := {| tk := op_kind op; tv := op |}.
Fixpoint jtoks (l : list (list tok)) : list tok :=
  match l with [] => [] | [x] => x | x :: r => x ++ e_comma :: jtoks r end.

Fixpoint etoks (e : expr) : list tok :=
  match e with
  | EIdent n None => [e_id n]
  | EIdent n (Some args) => e_id n :: e_lp :: jtoks (map etoks args) ++ [e_rp]
  | EConst v => [{| tk := INTEGER; tv := v |}]
  | EBin l op r => etoks l ++ op_tok op :: etoks r
  | EUn op x => op_tok op :: etoks x
  | EParen x => e_lp :: etoks x ++ [e_rp]
  end.

(* ---- the printer's canonical form ---- *)
Definition level (e : expr) : nat :=
  match e with EBin _ op _ => match opinfo op with Some p => p | None => 0 end | _ => 3 end.
Definition is_un (e : expr) : bool := match e with EUn _ _ => true | _ => false end.
Definition is_bin (e : expr) : bool := match e with EBin _ _ _ => true | _ => false end.
Definition unop (op : ustr) : bool := match op with [c] => (c =? 43)%N || (c =? 45)%N | _ => false end.

Fixpoint canon (e : expr) : bool :=
  match e with
  | EIdent _ None => true
  | EIdent _ (Some args) => forallb canon args
  | EConst _ => true
  | EBin l op r =>
      match opinfo op with
      | Some p => canon l && canon r && (p <=? level l) && (S p <=? level r) && negb (is_un r)
      | None => false
      end
  | EUn op x => unop op && canon x && negb (is_un x) && negb (is_bin x)
  | EParen x => canon x
  end.

Fixpoint esize (e : expr) : nat :=
  match e with
  | EIdent _ None => 1
  | EIdent _ (Some args) => S (list_sum (map esize args))
  | EConst _ => 1
  | EBin l _ r => S (esize l + esize r)
  | EUn _ x => S (esize x)
  | EParen x => S (esize x)
  end.

(* what follows an expression parsed at level m: not an opening parenthesis, not an operator of precedence >= m *)
Definition fol (m : nat) (R : list tok) : Prop :=
  match R with
  | [] => True
  | t :: _ => tk t <> LPAREN /\ match opinfo (tv t) with Some q => q < m | None => True end
  end.
(* what may follow e when the enclosing loop goes on: an operator that does not bind tighter than e's own top operator *)
Definition rfol (e : expr) (R : list tok) : Prop :=
  match R with
  | [] => True
  | t :: _ => tk t <> LPAREN /\ match opinfo (tv t) with Some q => q <= level e | None => True end
  end.

Lemma opinfo_le2 v q : opinfo v = Some q -> q <= 2.
Proof.
  unfold opinfo. destruct v as [|c [|c2 r]]; try discriminate.
  destruct ((c =? 43)%N || (c =? 45)%N); [intros H; inversion H; lia|].
  destruct ((c =? 42)%N || (c =? 47)%N); intros H; inversion H; lia.
Qed.

Lemma loop_stops f m e R : fol m R -> p_loop (S f) m e R = Ok (e, R).
Proof.
  intros H. cbn [p_loop]. destruct R as [|t r]; [reflexivity|]. destruct H as (_ & H).
  destruct (opinfo (tv t)) as [q|]; [|reflexivity].
  destruct (Nat.ltb_spec q m); [reflexivity | lia].
Qed.

Lemma op_kind_not_lp op : op_kind op <> LPAREN /\ op_kind op <> RPAREN.
Proof.
  unfold op_kind. destruct op as [|c [|c2 r]]; try (split; discriminate).
  destruct (c =? 43)%N; [split; discriminate|]. destruct (c =? 45)%N; [split; discriminate|].
  destruct (c =? 42)%N; [split; discriminate|]. destruct (c =? 47)%N; split; discriminate.
Qed.

Lemma unop_kind op : unop op = true -> op_kind op = PLUS \/ op_kind op = MINUS.
Proof.
  unfold unop, op_kind. destruct op as [|c [|c2 r]]; try discriminate. intros H.
  destruct (c =? 43)%N; [left; reflexivity|]. cbn [orb] in H. rewrite H. right; reflexivity.
Qed.

Lemma etoks_head e : exists t r, etoks e = t :: r /\ tk t <> RPAREN.
Proof.
  induction e as [n [args|] | v | l IHl op r IHr | op x IHx | x IHx]; cbn [etoks].
  - eexists; eexists; split; [reflexivity | discriminate].
  - eexists; eexists; split; [reflexivity | discriminate].
  - eexists; eexists; split; [reflexivity | discriminate].
  - destruct IHl as (t & r0 & E & H). rewrite E. cbn [app]. eauto.
  - eexists; eexists; split; [reflexivity | apply op_kind_not_lp].
  - eexists; eexists; split; [reflexivity | discriminate].
Qed.

Definition nolp (R : list tok) : Prop := match R with [] => True | t :: _ => tk t <> LPAREN end.

Lemma fol_nolp m R : fol m R -> nolp R.
Proof. destruct R; [auto | intros (H & _); exact H]. Qed.
Lemma rfol_nolp e R : rfol e R -> nolp R.
Proof. destruct R; [auto | intros (H & _); exact H]. Qed.
Lemma fol_rfol m e R : m <= level e -> fol m R -> rfol e R.
Proof.
  destruct R as [|t r]; [auto|]. intros Hm (H1 & H2). split; [exact H1|].
  destruct (opinfo (tv t)); [lia | exact I].
Qed.

Lemma jtoks_cons2 x y l : jtoks (x :: y :: l) = x ++ e_comma :: jtoks (y :: l).
Proof. reflexivity. Qed.

Section Step.
  Variable n : nat.
  (* induction hypotheses: everything of size < n *)
  Hypothesis IHprim : forall e, esize e < n -> canon e = true -> is_bin e = false -> forall R, nolp R ->
    exists F, p_primary F (etoks e ++ R) = Ok (e, R).
  Hypothesis IHexpr : forall e, esize e < n -> canon e = true -> forall m R x, m <= level e -> rfol e R ->
    (exists F1, p_loop F1 m e R = Ok x) -> exists F, p_expr F m (etoks e ++ R) = Ok x.

  Lemma T_small e m R : esize e < n -> canon e = true -> m <= level e -> fol m R ->
    exists F, p_expr F m (etoks e ++ R) = Ok (e, R).
  Proof.
    intros Hs Hc Hm Hf. apply IHexpr; auto; [apply (fol_rfol m); auto | exists 1; apply loop_stops; exact Hf].
  Qed.

  Lemma args_small : forall args, (forall a, In a args -> esize a < n /\ canon a = true) ->
    forall acc R, exists F, p_args F (jtoks (map etoks args) ++ e_rp :: R) acc = Ok (rev acc ++ args, R).
  Proof.
    induction args as [|a rest IH]; intros Hall acc R.
    - exists 1. cbn [map jtoks app p_args peek e_rp tk kind_eqb mustbe bind snd]. rewrite app_nil_r. reflexivity.
    - destruct (Hall a (or_introl eq_refl)) as (Hsz & Hc).
      destruct (etoks_head a) as (t0 & r0 & E0 & Hk0).
      assert (Hpk : forall tail, peek RPAREN (etoks a ++ tail) = false).
      { intros tail. rewrite E0. cbn [app peek]. destruct (tk t0); try reflexivity. contradiction. }
      destruct rest as [|b rest'].
      + cbn [map jtoks].
        destruct (T_small a 0 (e_rp :: R) Hsz Hc ltac:(lia)) as (Fa & Ea); [cbn; split; [discriminate | exact I]|].
        exists (S Fa). cbn [p_args]. rewrite Hpk, Ea. cbn [bind fst snd peek e_rp tk kind_eqb mustbe rev]. reflexivity.
      + rewrite (map_cons etoks a (b :: rest')). change (map etoks (b :: rest')) with (etoks b :: map etoks rest').
        rewrite jtoks_cons2. rewrite <- app_assoc. cbn [app].
        change (etoks b :: map etoks rest') with (map etoks (b :: rest')).
        destruct (T_small a 0 (e_comma :: jtoks (map etoks (b :: rest')) ++ e_rp :: R) Hsz Hc ltac:(lia)) as (Fa & Ea);
          [cbn; split; [discriminate | exact I]|].
        destruct (IH (fun x Hx => Hall x (or_intror Hx)) (a :: acc) R) as (Fr & Er).
        exists (S (Nat.max Fa Fr)). cbn [p_args]. rewrite Hpk.
        rewrite (p_expr_mono Fa (Nat.max Fa Fr) _ _ _ Ea (Nat.le_max_l _ _)).
        cbn [bind fst snd peek e_comma tk kind_eqb tl].
        rewrite (p_args_mono Fr (Nat.max Fa Fr) _ _ _ Er (Nat.le_max_r _ _)).
        cbn [rev]. rewrite <- app_assoc. reflexivity.
  Qed.
End Step.

Lemma esize_in a args : In a args -> esize a <= list_sum (map esize args).
Proof.
  induction args as [|b args IH]; [contradiction|]. intros [-> | H]; cbn [map]; unfold list_sum in *; cbn [fold_right]; [lia | specialize (IH H); lia].
Qed.

Lemma expr_rt_both : forall n,
  (forall e, esize e < n -> canon e = true -> is_bin e = false -> forall R, nolp R ->
     exists F, p_primary F (etoks e ++ R) = Ok (e, R)) /\
  (forall e, esize e < n -> canon e = true -> forall m R x, m <= level e -> rfol e R ->
     (exists F1, p_loop F1 m e R = Ok x) -> exists F, p_expr F m (etoks e ++ R) = Ok x).
Proof.
  induction n as [|n (IHp & IHe)]; [split; intros; lia|].
  assert (P1 : forall e, esize e < S n -> canon e = true -> is_bin e = false -> forall R, nolp R ->
                 exists F, p_primary F (etoks e ++ R) = Ok (e, R)).
  { intros e Hs Hc Hb R HR. destruct e as [nm [args|] | v | l op r | op x | x]; cbn [is_bin] in Hb; try discriminate.
    - (* call *)
      cbn [canon] in Hc. cbn [esize] in Hs.
      assert (Hall : forall a, In a args -> esize a < n /\ canon a = true).
      { intros a Ha. split; [pose proof (esize_in a args Ha); lia | rewrite forallb_forall in Hc; apply Hc; exact Ha]. }
      destruct (args_small n IHe args Hall [] R) as (Fa & Ea).
      exists (S Fa). cbn [etoks app p_primary e_id tk tv peek e_lp kind_eqb tl]. rewrite <- app_assoc. cbn [app].
      rewrite Ea. reflexivity.
    - (* plain identifier *)
      exists 1. cbn [etoks app p_primary e_id tk tv].
      assert (Hpk : peek LPAREN R = false). { destruct R as [|t r]; [reflexivity|]. cbn [nolp] in HR. cbn [peek]. destruct (tk t); try reflexivity. contradiction. }
      rewrite Hpk. reflexivity.
    - (* constant *)
      exists 1. reflexivity.
    - (* sign *)
      cbn [canon] in Hc. apply andb_true_iff in Hc. destruct Hc as [Hc Hnb]. apply andb_true_iff in Hc. destruct Hc as [Hc Hnu].
      apply andb_true_iff in Hc. destruct Hc as [Hu Hcx]. apply negb_true_iff in Hnb. cbn [esize] in Hs.
      destruct (IHp x ltac:(lia) Hcx Hnb R HR) as (Fx & Ex).
      exists (S Fx). cbn [etoks app p_primary op_tok tk tv].
      destruct (unop_kind op Hu) as [Ek | Ek]; rewrite Ek, Ex; reflexivity.
    - (* parentheses *)
      cbn [canon] in Hc. cbn [esize] in Hs.
      destruct (T_small n IHe x 0 (e_rp :: R) ltac:(lia) Hc ltac:(lia)) as (Fx & Ex); [cbn; split; [discriminate | exact I]|].
      exists (S Fx). cbn [etoks app p_primary e_lp tk]. rewrite <- app_assoc. cbn [app]. rewrite Ex.
      cbn [bind fst snd mustbe e_rp tk kind_eqb]. reflexivity. }
  split; [exact P1|].
  intros e Hs Hc m R x Hm Hr (F1 & HL).
  destruct (is_bin e) eqn:Eb.
  - (* a binary operation: the left operand, then the loop takes the operator and the right operand *)
    destruct e as [| | l op r | |]; cbn [is_bin] in Eb; try discriminate.
    cbn [canon] in Hc. destruct (opinfo op) as [p|] eqn:Eop; [|discriminate].
    apply andb_true_iff in Hc. destruct Hc as [Hc Hnu]. apply andb_true_iff in Hc. destruct Hc as [Hc Hlr].
    apply andb_true_iff in Hc. destruct Hc as [Hc Hll]. apply andb_true_iff in Hc. destruct Hc as [Hcl Hcr].
    apply Nat.leb_le in Hll. apply Nat.leb_le in Hlr. cbn [esize] in Hs.
    cbn [level] in Hm. rewrite Eop in Hm.
    (* the right operand, parsed one level up, stops at R *)
    assert (HfR : fol (S p) R).
    { destruct R as [|t rr]; [exact I|]. destruct Hr as (H1 & H2). split; [exact H1|]. cbn [level] in H2. rewrite Eop in H2.
      destruct (opinfo (tv t)); [lia | exact I]. }
    destruct (T_small n IHe r (S p) R ltac:(lia) Hcr Hlr HfR) as (Fr & Er).
    cbn [etoks]. rewrite <- app_assoc. cbn [app].
    apply (IHe l ltac:(lia) Hcl m (op_tok op :: etoks r ++ R) x ltac:(lia)).
    + cbn [rfol op_tok tk tv]. split; [apply op_kind_not_lp|]. rewrite Eop. exact Hll.
    + exists (S (Nat.max Fr F1)). cbn [p_loop op_tok tv]. rewrite Eop.
      destruct (Nat.ltb_spec p m); [lia|].
      rewrite (p_expr_mono Fr (Nat.max Fr F1) _ _ _ Er (Nat.le_max_l _ _)). cbn [bind fst snd].
      apply (p_loop_mono F1); [exact HL | apply Nat.le_max_r].
  - (* a primary, then the loop *)
    destruct (P1 e Hs Hc Eb R (rfol_nolp e R Hr)) as (Fp & Ep).
    exists (S (Nat.max Fp F1)). cbn [p_expr].
    rewrite (p_primary_mono Fp (Nat.max Fp F1) _ _ Ep (Nat.le_max_l _ _)). cbn [bind fst snd].
    apply (p_loop_mono F1); [exact HL | apply Nat.le_max_r].
Qed.

(* ---- the theorem on tokens ---- *)
Theorem expression_roundtrip : forall e m R, canon e = true -> m <= level e -> fol m R ->
  exists F, forall F', F <= F' -> p_expr F' m (etoks e ++ R) = Ok (e, R).
Proof.
  intros e m R Hc Hm Hf.
  destruct (expr_rt_both (S (esize e))) as (_ & H).
  destruct (H e ltac:(lia) Hc m R (e, R) Hm (fol_rfol m e R Hm Hf)) as (F & EF); [exists 1; apply loop_stops; exact Hf|].
  exists F. intros F' HF. apply (p_expr_mono F); assumption.
Qed.

(* ---- a result other than OutOfFuel does not change with more fuel; hence the parser's own fuel suffices ---- *)
Lemma bind_stable {A B} (c c' : result A) (k k' : A -> result B) :
  bind c k <> OutOfFuel -> (c <> OutOfFuel -> c' = c) -> (forall a, c = Ok a -> k a <> OutOfFuel -> k' a = k a) ->
  bind c' k' = bind c k.
Proof.
  intros H Hc Hk. destruct c as [a|mm|ee|]; cbn [bind] in *.
  - rewrite (Hc ltac:(discriminate)). cbn [bind]. apply Hk; auto.
  - rewrite (Hc ltac:(discriminate)). reflexivity.
  - rewrite (Hc ltac:(discriminate)). reflexivity.
  - contradiction.
Qed.

Lemma expr_stable : forall f,
  (forall m ts, p_expr f m ts <> OutOfFuel -> forall f', f <= f' -> p_expr f' m ts = p_expr f m ts) /\
  (forall m l ts, p_loop f m l ts <> OutOfFuel -> forall f', f <= f' -> p_loop f' m l ts = p_loop f m l ts) /\
  (forall ts, p_primary f ts <> OutOfFuel -> forall f', f <= f' -> p_primary f' ts = p_primary f ts) /\
  (forall ts acc, p_args f ts acc <> OutOfFuel -> forall f', f <= f' -> p_args f' ts acc = p_args f ts acc).
Proof.
  induction f as [|f IH]; [repeat split; intros; cbn in *; contradiction|].
  destruct IH as (IHe & IHl & IHp & IHa).
  repeat split.
  - intros m ts H f' Hf. destruct f' as [|f']; [lia|]. cbn [p_expr] in *.
    apply bind_stable; [exact H | intros Hn; apply IHp; [exact Hn | lia] | intros a _ Hn; apply IHl; [exact Hn | lia]].
  - intros m l ts H f' Hf. destruct f' as [|f']; [lia|]. cbn [p_loop] in *.
    destruct ts as [|t r]; [reflexivity|]. destruct (opinfo (tv t)) as [p|]; [|reflexivity].
    destruct (Nat.ltb p m); [reflexivity|].
    apply bind_stable; [exact H | intros Hn; apply IHe; [exact Hn | lia] | intros a _ Hn; apply IHl; [exact Hn | lia]].
  - intros ts H f' Hf. destruct f' as [|f']; [lia|]. cbn [p_primary] in *.
    destruct ts as [|t r]; [reflexivity|]. destruct (tk t); try reflexivity.
    + apply bind_stable; [exact H | intros Hn; apply IHe; [exact Hn | lia] | intros a _ Hn; reflexivity].
    + apply bind_stable; [exact H | intros Hn; apply IHp; [exact Hn | lia] | intros a _ Hn; reflexivity].
    + apply bind_stable; [exact H | intros Hn; apply IHp; [exact Hn | lia] | intros a _ Hn; reflexivity].
    + destruct (peek LPAREN r); [|reflexivity].
      apply bind_stable; [exact H | intros Hn; apply IHa; [exact Hn | lia] | intros a _ Hn; reflexivity].
  - intros ts acc H f' Hf. destruct f' as [|f']; [lia|]. cbn [p_args] in *.
    destruct (peek RPAREN ts); [reflexivity|].
    apply bind_stable; [exact H | intros Hn; apply IHe; [exact Hn | lia] |].
    intros a _ Hn. destruct (peek COMMA (snd a)); [apply IHa; [exact Hn | lia] | reflexivity].
Qed.
