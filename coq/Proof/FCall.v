(* Proof/FCall.v — a checked Fortran specific hands the C function the documented value for every interface parameter. *)
From Coq Require Import List NArith ZArith Bool Arith String Lia.
From Shroud Require Import Base.Ustr Model.FCall.
Import ListNotations.
Open Scope string_scope.

Lemma fconv_eqb_eq a b : fconv_eqb a b = true -> a = b.
Proof. destruct a, b; cbn; intros H; try discriminate; reflexivity. Qed.

(* one parameter: whenever the documentation fixes its value, the actual argument has that value *)
Lemma arg_delivers ks ds env p a v : arg_ok ks ds p a = true -> documented ds env p = Some v ->
  (mem p ds = true -> has_kind (kind_of p ks) (flookup p env)) ->
  fsem (fst a) (flookup (snd a) env) = v.
Proof.
  destruct a as [c r]. unfold arg_ok, documented. cbn [fst snd]. intros Hok Hdoc Hk.
  destruct (String.eqb p "self") eqn:Es; [discriminate|].
  destruct (mem p ds) eqn:Em.
  - apply andb_true_iff in Hok. destruct Hok as [Hpv Hr]. apply String.eqb_eq in Hr. subst r.
    specialize (Hk eq_refl).
    destruct (flookup p env) eqn:El; try discriminate; inversion Hdoc; subst v;
      destruct (kind_of p ks); cbn in Hk; try contradiction;
      destruct c; cbn in Hpv; try discriminate; reflexivity.
  - destruct (prefixed "L" p ds) as [d|] eqn:EL.
    { apply andb_true_iff in Hok. destruct Hok as [Hc Hr]. apply fconv_eqb_eq in Hc. apply String.eqb_eq in Hr. subst c r.
      destruct (flookup d env); try discriminate. inversion Hdoc. reflexivity. }
    destruct (prefixed "N" p ds) as [d|] eqn:EN.
    { apply andb_true_iff in Hok. destruct Hok as [Hc Hr]. apply fconv_eqb_eq in Hc. apply String.eqb_eq in Hr. subst c r.
      destruct (flookup d env); try discriminate. inversion Hdoc. reflexivity. }
    destruct (prefixed "S" p ds) as [d|] eqn:ES.
    { apply andb_true_iff in Hok. destruct Hok as [Hc Hr]. apply fconv_eqb_eq in Hc. apply String.eqb_eq in Hr. subst c r.
      destruct (flookup d env); try discriminate. inversion Hdoc. reflexivity. }
    discriminate.
Qed.

(* character dummies: the C function gets either the buffer itself (its length goes in the N / L parameter) or a
   NUL-terminated copy without the trailing blanks *)
Lemma char_arg_delivers ks ds env p a s : arg_ok ks ds p a = true -> mem p ds = true -> String.eqb p "self" = false ->
  kind_of p ks = DChar -> flookup p env = VChar s ->
  fsem (fst a) (flookup (snd a) env) = AText s \/ fsem (fst a) (flookup (snd a) env) = ACStr (rtrim s).
Proof.
  destruct a as [c r]. unfold arg_ok. cbn [fst snd]. intros Hok Hm Hs Hk Hv. rewrite Hs, Hm in Hok.
  apply andb_true_iff in Hok. destruct Hok as [Hc Hr]. apply String.eqb_eq in Hr. subst r. rewrite Hk in Hc. rewrite Hv.
  destruct c; cbn in Hc; try discriminate; [left | right]; reflexivity.
Qed.

(* all parameters, in order *)
Theorem checked_call_delivers : forall f env,
  fcall_ok f = true ->
  (forall p, mem p (fc_dummies f) = true -> has_kind (kind_of p (fc_kinds f)) (flookup p env)) ->
  Forall2 (fun p act => forall v, documented (fc_dummies f) env p = Some v -> act = v) (fc_params f) (actuals f env).
Proof.
  intros f env Hok Hk. unfold fcall_ok in Hok. apply andb_true_iff in Hok. destruct Hok as [Hok _].
  apply andb_true_iff in Hok. destruct Hok as [Hok _]. unfold actuals.
  generalize dependent (fc_args f). induction (fc_params f) as [|p ps IH]; intros args Hok.
  - destruct args; [constructor | discriminate].
  - destruct args as [|a args]; [discriminate|]. cbn [args_ok] in Hok. apply andb_true_iff in Hok. destruct Hok as [Ha Hr].
    cbn [map]. constructor.
    + intros v Hd. eapply arg_delivers; eauto.
    + apply IH; exact Hr.
Qed.

(* the object of a type-bound call is the passed-object dummy *)
Theorem self_is_the_passed_object : forall ks ds a, arg_ok ks ds "self" a = true -> fst a = FSelf.
Proof. intros ks ds [c r]. unfold arg_ok. cbn. intros H. apply fconv_eqb_eq in H. exact H. Qed.

(* trimming removes exactly the trailing blanks *)
Lemma drop_blanks_no_leading_blank s : match drop_blanks s with c :: _ => (c =? blank)%N = false | [] => True end.
Proof. induction s as [|c r IH]; cbn; [exact I|]. destruct (c =? blank)%N eqn:E; [exact IH | exact E]. Qed.

Theorem rtrim_spec s : exists t, s = (rtrim s ++ t)%list /\ Forall (fun c => c = blank) t /\
  match rev (rtrim s) with c :: _ => c <> blank | [] => True end.
Proof.
  unfold rtrim.
  assert (H : forall l, exists t, l = (t ++ drop_blanks l)%list /\ Forall (fun c => c = blank) t).
  { induction l as [|c r IH]; [exists []; split; [reflexivity | constructor]|].
    cbn [drop_blanks]. destruct (c =? blank)%N eqn:E.
    - destruct IH as (t & Ht & Hb). exists (c :: t). split; [cbn; f_equal; exact Ht | constructor; [apply N.eqb_eq; exact E | exact Hb]].
    - exists []. split; [reflexivity | constructor]. }
  destruct (H (rev s)) as (t & Ht & Hb). exists (rev t). split; [|split].
  - rewrite <- (rev_involutive s) at 1. rewrite Ht at 1. rewrite rev_app_distr. reflexivity.
  - apply Forall_rev. exact Hb.
  - rewrite rev_involutive. pose proof (drop_blanks_no_leading_blank (rev s)) as Hd.
    destruct (drop_blanks (rev s)) as [|c r]; [exact I|]. intros E. subst c. rewrite N.eqb_refl in Hd. discriminate.
Qed.


(* an output dummy of a checked call: the caller's variable holds what the C function stored *)
Theorem checked_outputs_reach_the_caller : forall f stored before r c,
  fcall_ok f = true -> mem r (fc_outputs f) = true -> In (c, r) (fc_args f) -> passes_value c = true ->
  caller_sees f stored before r = stored r.
Proof.
  intros f stored before r c Hok Hout Hin Hp. unfold fcall_ok in Hok. apply andb_true_iff in Hok. destruct Hok as [Hok _].
  apply andb_true_iff in Hok. destruct Hok as [_ Hok].
  unfold outs_ok in Hok. rewrite forallb_forall in Hok. specialize (Hok (c, r) Hin). cbn [out_ok] in Hok.
  rewrite Hout, Hp in Hok. cbn [andb] in Hok. unfold caller_sees.
  apply orb_true_iff in Hok. destruct Hok as [Hb | Hb].
  - assert (E : existsb (fun a => by_ref (fst a) && String.eqb (snd a) r) (fc_args f) = true).
    { apply existsb_exists. exists (c, r). split; [exact Hin|]. cbn [fst snd]. rewrite Hb, String.eqb_refl. reflexivity. }
    rewrite E. reflexivity.
  - apply andb_true_iff in Hb. destruct Hb as [Hc Hcb].
    destruct (existsb (fun a => by_ref (fst a) && String.eqb (snd a) r) (fc_args f)); [reflexivity|].
    assert (E : existsb (fun a => fconv_eqb (fst a) FBool && String.eqb (snd a) r) (fc_args f) = true).
    { apply existsb_exists. exists (c, r). split; [exact Hin|]. cbn [fst snd]. rewrite Hc, String.eqb_refl. reflexivity. }
    rewrite E, Hcb. reflexivity.
Qed.

(* without the copy back the caller keeps the old value: the rule is needed *)
Example copy_back_is_needed :
  let f := {| fc_name := "flip"; fc_dummies := ["flag"]; fc_kinds := [("flag", DLog)]; fc_params := ["flag"];
              fc_args := [(FBool, "flag")]; fc_outputs := ["flag"]; fc_copyback := [] |} in
  fcall_ok f = false /\ caller_sees f (fun _ => 1) (fun _ => 0) "flag" = 0.
Proof. split; reflexivity. Qed.


(* a character dummy of a checked call that is handed over as its own (blank padded) storage travels with a length parameter
   of the same interface: the C side never has to look for a terminator that is not there *)
Theorem direct_character_has_a_length : forall f p r,
  fcall_ok f = true -> In (p, (FDirect, r)) (combine (fc_params f) (fc_args f)) ->
  kind_of p (fc_kinds f) = DChar -> mem p (fc_dummies f) = true ->
  has_length (fc_args f) p = true.
Proof.
  intros f p r Hok Hin Hk Hm. unfold fcall_ok in Hok. apply andb_true_iff in Hok. destruct Hok as [_ Hc].
  unfold chars_ok in Hc. rewrite forallb_forall in Hc. specialize (Hc _ Hin). cbn [char_ok] in Hc.
  rewrite Hk, Hm in Hc. cbn [negb orb] in Hc. exact Hc.
Qed.

Example length_is_needed :
  let f := {| fc_name := "tag>c_tag"; fc_dummies := ["name"]; fc_kinds := [("name", DChar)]; fc_params := ["name"];
              fc_args := [(FDirect, "name")]; fc_outputs := []; fc_copyback := [] |} in
  fcall_ok f = false.
Proof. reflexivity. Qed.
