(* Proof/Render.v — the declarator parser reads back exactly the pointer / reference / cv structure that was written. *)
From Coq Require Import List NArith ZArith Bool Arith String Lia.
From Shroud Require Import Base.Ustr Model.Splicer Model.Lexer Model.Expr Model.Decl Model.Render.
Import ListNotations.

Definition wf_ptr (p : ptr) : Prop := p_ptr p = cp "*" \/ p_ptr p = cp "&".

Lemma set_last_snoc v acc p :
  set_last_qual v (acc ++ [p]) =
  acc ++ [if ueqb v (cp "const") then {| p_ptr := p_ptr p; p_const := true; p_volatile := p_volatile p |}
          else {| p_ptr := p_ptr p; p_const := p_const p; p_volatile := true |}].
Proof. unfold set_last_qual. rewrite rev_app_distr. cbn [rev app]. rewrite rev_involutive. reflexivity. Qed.

Lemma p_pointer_qual acc p v r :
  p_pointer (acc ++ [p]) ({| tk := TYPE_QUALIFIER; tv := v |} :: r) = p_pointer (set_last_qual v (acc ++ [p])) r.
Proof. cbn [p_pointer tk tv]. destruct (acc ++ [p]) eqn:E; [destruct acc; discriminate|]. reflexivity. Qed.

Lemma p_pointer_one p acc rest : wf_ptr p -> p_pointer acc (ptr_toks p ++ rest) = p_pointer (acc ++ [p]) rest.
Proof.
  intros Hw. destruct p as [s c v]. unfold ptr_toks, tok_of. cbn [p_ptr p_const p_volatile].
  assert (H1 : forall q, p_pointer acc ({| tk := if ueqb s (cp "&") then REF else STAR; tv := s |} :: q)
                         = p_pointer (acc ++ [{| p_ptr := s; p_const := false; p_volatile := false |}]) q).
  { intros q. cbn [p_pointer tk tv]. destruct (ueqb s (cp "&")); reflexivity. }
  rewrite <- app_comm_cons. rewrite H1.
  destruct c, v; cbn [app]; repeat (rewrite p_pointer_qual, set_last_snoc); cbn [p_ptr p_const p_volatile];
    try reflexivity.
Qed.

Lemma p_pointer_many : forall ps acc rest, Forall wf_ptr ps ->
  p_pointer acc (List.concat (map ptr_toks ps) ++ rest) = p_pointer (acc ++ ps) rest.
Proof.
  induction ps as [|p ps IH]; intros acc rest Hw; cbn [map List.concat].
  - rewrite app_nil_r. reflexivity.
  - inversion Hw as [|? ? Hp Hps]; subst. rewrite <- app_assoc. rewrite p_pointer_one by exact Hp.
    rewrite IH by exact Hps. rewrite <- app_assoc. reflexivity.
Qed.

(* the next token does not continue a pointer chain *)
Definition stops (rest : list tok) : Prop :=
  match rest with [] => True | t :: _ => tk t <> STAR /\ tk t <> REF /\ tk t <> TYPE_QUALIFIER end.

Lemma p_pointer_stop acc rest : stops rest -> p_pointer acc rest = (acc, rest).
Proof.
  destruct rest as [|t r]; [reflexivity|]. intros (H1 & H2 & H3). cbn [p_pointer].
  destruct (tk t); try reflexivity; contradiction.
Qed.

(* the pointer / reference chain with cv-qualifiers at every level is read back exactly *)
Theorem pointer_chain_roundtrip : forall ps rest, Forall wf_ptr ps -> stops rest ->
  p_pointer [] (List.concat (map ptr_toks ps) ++ rest) = (ps, rest).
Proof. intros ps rest Hw Hs. rewrite p_pointer_many by exact Hw. apply p_pointer_stop; exact Hs. Qed.

Fixpoint depth (d : declarator) : nat :=
  let '(Dtor _ _ func) := d in match func with Some f => S (depth f) | None => 0 end.

Fixpoint wf_dtor (d : declarator) : Prop :=
  let '(Dtor ps name func) := d in
  Forall wf_ptr ps /\
  match func with
  | Some f => name = None /\ wf_dtor f
  | None => match name with Some _ => True | None => ps <> [] end
  end.

(* what may follow: an abstract declarator ends where no identifier or parenthesis follows *)
Definition follow (d : declarator) (rest : list tok) : Prop :=
  match d with
  | Dtor _ None None => stops rest /\ match rest with [] => True | t :: _ => tk t <> ID /\ tk t <> LPAREN end
  | _ => True
  end.

Theorem declarator_roundtrip : forall fuel d rest,
  depth d < fuel -> wf_dtor d -> follow d rest ->
  p_declarator fuel (dtor_toks d ++ rest) = Ok (Some d, rest).
Proof.
  induction fuel as [|f IH]; intros d rest Hd Hw Hf; [lia|].
  destruct d as [ps name func]. cbn [wf_dtor] in Hw. destruct Hw as (Hps & Hw).
  cbn [p_declarator dtor_toks]. rewrite <- app_assoc.
  destruct func as [fd|].
  - destruct Hw as (Hn & Hwf). subst name.
    rewrite p_pointer_many by exact Hps. cbn [app].
    rewrite p_pointer_stop by (cbn; repeat split; discriminate).
    cbn [tk tok_of]. rewrite <- app_assoc. cbn [app].
    cbn [depth] in Hd.
    rewrite IH; [| lia | exact Hwf |].
    + cbn [bind snd fst mustbe tk tok_of kind_eqb]. reflexivity.
    + destruct fd as [ps' [n'|] [f'|]]; cbn [follow]; auto. split; cbn; repeat split; discriminate.
  - destruct name as [n|].
    + rewrite p_pointer_many by exact Hps. cbn [app].
      rewrite p_pointer_stop by (cbn; repeat split; discriminate).
      cbn [tk tv]. reflexivity.
    + cbn [app]. cbn [follow] in Hf. destruct Hf as (Hs & Hnx).
      rewrite p_pointer_many by exact Hps. rewrite p_pointer_stop by exact Hs. cbn [app].
      destruct rest as [|t r].
      * destruct ps; [contradiction Hw; reflexivity | reflexivity].
      * destruct Hnx as (Hid & Hlp). destruct (tk t) eqn:Et; try contradiction;
          (destruct ps; [contradiction Hw; reflexivity | reflexivity]).
Qed.

(* the C rendering of a declarator is the rendering of its C counterpart: every reference written as a pointer *)
Lemma render_ptr_as_c p :
  render_ptr true p = render_ptr false {| p_ptr := (match p_ptr p with [] => [] | _ => cp "*" end); p_const := p_const p; p_volatile := p_volatile p |}.
Proof. unfold render_ptr. cbn [p_ptr p_const p_volatile]. destruct (p_ptr p); reflexivity. Qed.

Theorem c_rendering_is_pointer_form : forall d, render_dtor true d = render_dtor false (as_c_dtor d).
Proof.
  fix IH 1. intros [ps name func]. cbn [render_dtor as_c_dtor]. f_equal.
  - rewrite map_map. f_equal. apply map_ext. intros p. apply render_ptr_as_c.
  - destruct func as [f|]; cbn [option_map]; [rewrite IH; reflexivity | reflexivity].
Qed.

(* non-vacuity: a cv-qualified pointer chain around a parenthesised named declarator meets the hypotheses *)
Example declarator_example :
  let d := Dtor [{| p_ptr := cp "*"; p_const := true; p_volatile := false |}; {| p_ptr := cp "*"; p_const := false; p_volatile := true |}]
               None (Some (Dtor [{| p_ptr := cp "*"; p_const := false; p_volatile := false |}] (Some (cp "fp")) None)) in
  p_declarator 5 (dtor_toks d ++ [tok_of LPAREN "("]) = Ok (Some d, [tok_of LPAREN "("]) /\
  render_dtor false d = cp " * const * volatile ( * fp)".
Proof. split; vm_compute; reflexivity. Qed.

(* ---- the specifier phase: built-in type words, cv-qualifiers and storage classes in any order ---- *)
Definition is_spec_tok (t : tok) : bool :=
  match tk t with TYPE_SPECIFIER | TYPE_QUALIFIER | STORAGE_CLASS => true | _ => false end.

(* what a run of specifier tokens adds to the state, independent of their relative order for the flags *)
Definition spec_step (s : spec_state) (t : tok) : spec_state :=
  match tk t with
  | TYPE_SPECIFIER => {| ss_spec := ss_spec s ++ [tv t]; ss_storage := ss_storage s; ss_const := ss_const s; ss_volatile := ss_volatile s;
                         ss_tm := ss_tm s; ss_targs := ss_targs s; ss_ctor := ss_ctor s; ss_dtor := ss_dtor s |}
  | TYPE_QUALIFIER =>
      if ueqb (tv t) (cp "const")
      then {| ss_spec := ss_spec s; ss_storage := ss_storage s; ss_const := true; ss_volatile := ss_volatile s;
              ss_tm := ss_tm s; ss_targs := ss_targs s; ss_ctor := ss_ctor s; ss_dtor := ss_dtor s |}
      else {| ss_spec := ss_spec s; ss_storage := ss_storage s; ss_const := ss_const s; ss_volatile := true;
              ss_tm := ss_tm s; ss_targs := ss_targs s; ss_ctor := ss_ctor s; ss_dtor := ss_dtor s |}
  | STORAGE_CLASS => {| ss_spec := ss_spec s; ss_storage := ss_storage s ++ [tv t]; ss_const := ss_const s; ss_volatile := ss_volatile s;
                        ss_tm := ss_tm s; ss_targs := ss_targs s; ss_ctor := ss_ctor s; ss_dtor := ss_dtor s |}
  | _ => s
  end.

(* the next token ends the specifier run: not a specifier word, and not an identifier (which would be looked up) *)
Definition ends_spec (rest : list tok) : Prop :=
  match rest with [] => True | t :: _ => is_spec_tok t = false /\ tk t <> ID end.

Theorem specifier_run_recorded : forall toks fuel c found s rest,
  forallb is_spec_tok toks = true -> ends_spec rest -> List.length toks < fuel ->
  p_specifier fuel c found s (toks ++ rest) = Ok (fold_left spec_step toks s, rest).
Proof.
  induction toks as [|t toks IH]; intros fuel c found s rest Hall Hend Hf.
  - cbn [app fold_left]. destruct fuel as [|f]; [cbn in Hf; lia|]. cbn [p_specifier].
    destruct rest as [|r0 rr]; [reflexivity|]. destruct Hend as (Hs & Hid). unfold is_spec_tok in Hs.
    destruct (tk r0); try reflexivity; try discriminate; contradiction.
  - cbn [forallb] in Hall. apply andb_true_iff in Hall. destruct Hall as [Ht Hall].
    destruct fuel as [|f]; [cbn in Hf; lia|]. cbn [List.length] in Hf.
    cbn [app p_specifier fold_left]. unfold is_spec_tok in Ht. unfold spec_step at 2.
    destruct (tk t) eqn:Ek; try discriminate.
    + apply IH; [exact Hall | exact Hend | lia].
    + destruct (ueqb (tv t) (cp "const")); apply IH; try assumption; lia.
    + apply IH; [exact Hall | exact Hend | lia].
Qed.

(* consequences: the words are recorded in the order written; a const / volatile anywhere in the run sets the flag *)
Lemma fold_spec_flags : forall toks s,
  ss_const (fold_left spec_step toks s) = ss_const s || existsb (fun t => match tk t with TYPE_QUALIFIER => ueqb (tv t) (cp "const") | _ => false end) toks.
Proof.
  induction toks as [|t toks IH]; intros s; cbn [fold_left existsb]; [rewrite orb_false_r; reflexivity|].
  rewrite IH. unfold spec_step. destruct (tk t); cbn [ss_const]; try (rewrite orb_false_l; reflexivity);
    try reflexivity.
  destruct (ueqb (tv t) (cp "const")); cbn [ss_const]; [rewrite orb_true_r; reflexivity | reflexivity].
Qed.

Lemma fold_spec_words : forall toks s,
  ss_spec (fold_left spec_step toks s) = ss_spec s ++ map tv (filter (fun t => match tk t with TYPE_SPECIFIER => true | _ => false end) toks).
Proof.
  induction toks as [|t toks IH]; intros s; cbn [fold_left filter map]; [rewrite app_nil_r; reflexivity|].
  rewrite IH. unfold spec_step. destruct (tk t); cbn [ss_spec map]; try reflexivity.
  - rewrite <- app_assoc. reflexivity.
  - destruct (ueqb (tv t) (cp "const")); reflexivity.
Qed.
