(* Proof/NamesWrap.v — wrap flags only remove names *)
From Coq Require Import List NArith ZArith Bool Arith Lia.
From Shroud Require Import Base.Ustr Model.Splicer Model.Options Model.Names Proof.Names.
Import ListNotations.

Definition flag_c (ws : list (bool * bool)) (e : emitted) : bool := match nth_error ws (e_src e) with Some (wc, _) => wc | None => true end.
Definition flag_f (ws : list (bool * bool)) (e : emitted) : bool := match nth_error ws (e_src e) with Some (_, wf) => wf | None => true end.

Lemma apply_wrap_c ws e : e_c (apply_wrap ws e) = e_c e && flag_c ws e.
Proof. unfold apply_wrap, flag_c. destruct (nth_error ws (e_src e)) as [[wc wf]|]; cbn; [reflexivity | rewrite andb_true_r; reflexivity]. Qed.
Lemma apply_wrap_f ws e : e_f (apply_wrap ws e) = e_f e && flag_f ws e.
Proof. unfold apply_wrap, flag_f. destruct (nth_error ws (e_src e)) as [[wc wf]|]; cbn; [reflexivity | rewrite andb_true_r; reflexivity]. Qed.
Lemma apply_wrap_cname ws p s e : nm_c_name p s (apply_wrap ws e) = nm_c_name p s e.
Proof. unfold apply_wrap. destruct (nth_error ws (e_src e)) as [[wc wf]|]; reflexivity. Qed.
Lemma apply_wrap_fname ws s e : nm_f_impl s (apply_wrap ws e) = nm_f_impl s e.
Proof. unfold apply_wrap. destruct (nth_error ws (e_src e)) as [[wc wf]|]; reflexivity. Qed.

Lemma map_filter_map {A B} (g : A -> A) (p q : A -> bool) (f : A -> B) :
  (forall x, p (g x) = q x) -> (forall x, f (g x) = f x) ->
  forall l, map f (filter p (map g l)) = map f (filter q l).
Proof.
  intros Hp Hf. induction l as [|a r IH]; [reflexivity|]. cbn [map filter]. rewrite Hp.
  destruct (q a); cbn [map]; [rewrite Hf, IH | rewrite IH]; reflexivity.
Qed.

(* the names emitted with flags are exactly the names, in order, of the emitted functions whose declaration's flag is on *)
Theorem c_names_w_spec prefix scope fs ws :
  c_names_w prefix scope fs ws = map (nm_c_name prefix scope) (filter (fun e => e_c e && flag_c ws e) (expand fs)).
Proof. unfold c_names_w, expand_w. apply map_filter_map; intros x; [apply apply_wrap_c | apply apply_wrap_cname]. Qed.
Theorem f_names_w_spec scope fs ws :
  f_names_w scope fs ws = map (nm_f_impl scope) (filter (fun e => e_f e && flag_f ws e) (expand fs)).
Proof. unfold f_names_w, expand_w. apply map_filter_map; intros x; [apply apply_wrap_f | apply apply_wrap_fname]. Qed.

Lemma in_map_filter_and {A B} (f : A -> B) (p q : A -> bool) l x :
  In x (map f (filter (fun e => p e && q e) l)) -> In x (map f (filter p l)).
Proof.
  intros H. apply in_map_iff in H. destruct H as (e & He & Hin). apply filter_In in Hin. destruct Hin as [Hin Hpq].
  apply andb_true_iff in Hpq. apply in_map_iff. exists e. split; [exact He|]. apply filter_In. split; [exact Hin | apply Hpq].
Qed.

Lemma nodup_map_filter_and {A B} (f : A -> B) (p q : A -> bool) : forall l,
  NoDup (map f (filter p l)) -> NoDup (map f (filter (fun e => p e && q e) l)).
Proof.
  induction l as [|a r IH]; intros H; [constructor|]. cbn [filter] in *.
  destruct (p a) eqn:Hp; cbn [andb].
  - cbn [map] in H. inversion H as [|? ? Hn Hr]; subst. destruct (q a); cbn [map].
    + constructor; [|apply IH; exact Hr]. intros Hin. apply Hn. eapply in_map_filter_and. exact Hin.
    + apply IH. exact Hr.
  - apply IH. exact H.
Qed.

(* switching wrappers of some declarations off removes names and changes none: no new name appears, no name changes place
   relative to the others, distinct names stay distinct *)
Theorem wrap_flags_only_remove_names prefix scope fscope fs ws :
  (forall x, In x (c_names_w prefix scope fs ws) -> In x (c_names prefix scope fs)) /\
  (forall x, In x (f_names_w fscope fs ws) -> In x (f_names fscope fs)) /\
  (NoDup (c_names prefix scope fs) -> NoDup (c_names_w prefix scope fs ws)) /\
  (NoDup (f_names fscope fs) -> NoDup (f_names_w fscope fs ws)).
Proof.
  rewrite c_names_w_spec, f_names_w_spec. unfold c_names, f_names. repeat split.
  - intros x. apply in_map_filter_and.
  - intros x. apply in_map_filter_and.
  - apply nodup_map_filter_and.
  - apply nodup_map_filter_and.
Qed.

Lemma filter_ext_in' {A} (p q : A -> bool) l : (forall x, In x l -> p x = q x) -> filter p l = filter q l.
Proof.
  induction l as [|a r IH]; intros H; [reflexivity|]. cbn [filter]. rewrite (H a (or_introl eq_refl)).
  rewrite IH; [reflexivity|]. intros x Hx. apply H. right. exact Hx.
Qed.

(* all flags on: the names of the library without flags *)
Theorem all_on_same_names prefix scope fscope fs ws : Forall (fun w => w = (true, true)) ws ->
  c_names_w prefix scope fs ws = c_names prefix scope fs /\ f_names_w fscope fs ws = f_names fscope fs.
Proof.
  intros Hall. rewrite c_names_w_spec, f_names_w_spec. unfold c_names, f_names.
  assert (Hc : forall e, flag_c ws e = true).
  { intros e. unfold flag_c. destruct (nth_error ws (e_src e)) as [[wc wf]|] eqn:E; [|reflexivity].
    rewrite Forall_forall in Hall. specialize (Hall _ (nth_error_In _ _ E)). congruence. }
  assert (Hf : forall e, flag_f ws e = true).
  { intros e. unfold flag_f. destruct (nth_error ws (e_src e)) as [[wc wf]|] eqn:E; [|reflexivity].
    rewrite Forall_forall in Hall. specialize (Hall _ (nth_error_In _ _ E)). congruence. }
  split; f_equal; apply filter_ext_in'; intros x _; [rewrite Hc | rewrite Hf]; apply andb_true_r.
Qed.

From Coq Require Import String.
Example wrap_example :
  let fs := [mkfn "foo"%string 0 None; mkfn "foo"%string 1 None; mkfn "foo"%string 0 None] in
  c_names (cp "N_"%string) [] fs = map cp ["N_foo_0"; "N_foo_1"; "N_foo_2"; "N_foo_3"]%string /\
  c_names_w (cp "N_"%string) [] fs [(true, true); (false, false); (true, false)] = map cp ["N_foo_0"; "N_foo_3"]%string /\
  f_names_w [] fs [(true, true); (false, false); (true, false)] = map cp ["foo_0"]%string.
Proof. vm_compute. repeat split; reflexivity. Qed.
