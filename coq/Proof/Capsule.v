(* Proof/Capsule.v — the ownership protocol of the generated C API releases caller-owned memory exactly once. *)
From Coq Require Import List NArith Bool Arith Lia.
From Shroud Require Import Model.Capsule.
Import ListNotations.

(* ---- lists ---- *)
Lemma set_nth_length {A} (x : A) : forall l n, List.length (set_nth n x l) = List.length l.
Proof. induction l as [|y l IH]; intros [|n]; cbn; auto. Qed.
Lemma nth_set_nth_eq {A} (x : A) : forall l n, n < List.length l -> nth_error (set_nth n x l) n = Some x.
Proof.
  induction l as [|y l IH]; intros n H; [cbn in H; lia|]. destruct n as [|n]; cbn; [reflexivity|].
  apply IH. cbn in H. lia.
Qed.
Lemma nth_set_nth_neq {A} (x : A) : forall l n m, n <> m -> nth_error (set_nth n x l) m = nth_error l m.
Proof.
  induction l as [|y l IH]; intros n m H; [destruct n; reflexivity|].
  destruct n as [|n], m as [|m]; cbn; try reflexivity; try lia. apply IH. lia.
Qed.
Lemma nth_app_new {A} (l : list A) x : nth_error (l ++ [x]) (List.length l) = Some x.
Proof. rewrite nth_error_app2 by lia. rewrite Nat.sub_diag. reflexivity. Qed.
Lemma nth_app_old {A} (l : list A) x n y : nth_error l n = Some y -> nth_error (l ++ [x]) n = Some y.
Proof. intros H. rewrite nth_error_app1; [exact H | apply nth_error_Some; rewrite H; discriminate]. Qed.
Lemma nth_app_cases {A} (l : list A) x n y : nth_error (l ++ [x]) n = Some y ->
  (nth_error l n = Some y) \/ (n = List.length l /\ y = x).
Proof.
  intros H. destruct (Nat.lt_ge_cases n (List.length l)) as [Hl|Hl].
  - left. rewrite nth_error_app1 in H by exact Hl. exact H.
  - right. rewrite nth_error_app2 in H by exact Hl. destruct (n - List.length l) as [|k] eqn:E.
    + cbn in H. inversion H. split; [lia | reflexivity].
    + cbn in H. destruct k; discriminate.
Qed.

(* ---- invariant ---- *)
Definition owning (x : handle) : Prop := h_idtor x <> 0 /\ h_addr x <> None.

Record Inv (s : state) : Prop := {
  (* a handle with an address points to a live object whose allocation matches the handle's release code *)
  inv_target : forall h x a, nth_error (handles s) h = Some x -> h_addr x = Some a ->
               exists ob, nth_error (oheap s) a = Some ob /\ o_live ob = true /\ o_kind ob = h_idtor x;
  (* a caller-owned object has exactly one handle *)
  inv_unique : forall h1 h2 x1 x2 a, nth_error (handles s) h1 = Some x1 -> nth_error (handles s) h2 = Some x2 ->
               h_addr x1 = Some a -> h_addr x2 = Some a -> h_idtor x1 <> 0 -> h1 = h2;
  (* objects: library-owned ones are never freed; no object is freed twice; dead means freed once *)
  inv_objs : forall a ob, nth_error (oheap s) a = Some ob ->
             (o_kind ob = 0 -> o_live ob = true) /\ (o_live ob = true -> o_frees ob = 0) /\ (o_live ob = false -> o_frees ob = 1);
  (* no leak: a live caller-owned object is still reachable through a handle *)
  inv_reach : forall a ob, nth_error (oheap s) a = Some ob -> o_kind ob <> 0 -> o_live ob = true ->
              exists h x, nth_error (handles s) h = Some x /\ h_addr x = Some a
}.

(* what the caller may do: not copy handles, not use a handle after releasing it, call the destructor only on objects it owns *)
Definition client_ok (s : state) (o : op) : Prop :=
  match o with
  | New k => k <> 0
  | LibObject => True
  | Borrow a => exists ob, nth_error (oheap s) a = Some ob /\ o_kind ob = 0
  | Method h => exists x a, nth_error (handles s) h = Some x /\ h_addr x = Some a
  | Destroy h => exists x, nth_error (handles s) h = Some x /\ (h_addr x <> None -> h_idtor x <> 0)
  | Release h => exists x, nth_error (handles s) h = Some x
  | Copy _ => False
  end.

Lemma inv_init : Inv init.
Proof. constructor; cbn; intros; try (destruct h; discriminate); try (destruct h1; discriminate); destruct a; discriminate. Qed.

(* freeing the object of an owning handle *)
Lemma free_obj_owned s h x a : Inv s -> nth_error (handles s) h = Some x -> h_addr x = Some a -> h_idtor x <> 0 ->
  exists ob, nth_error (oheap s) a = Some ob /\
  free_obj s a (h_idtor x) =
    ({| oheap := set_nth a {| o_kind := o_kind ob; o_live := false; o_frees := 1 |} (oheap s); handles := handles s |}, Done).
Proof.
  intros I Hh Ha Hk. destruct (inv_target s I h x a Hh Ha) as (ob & Hob & Hl & Hkind).
  exists ob. split; [exact Hob|]. unfold free_obj. rewrite Hob.
  destruct (Nat.eqb (o_kind ob) 0) eqn:E0; [apply Nat.eqb_eq in E0; lia|].
  rewrite Hl. cbn [negb]. rewrite Hkind, Nat.eqb_refl. cbn [negb].
  destruct (inv_objs s I a ob Hob) as (_ & Hf & _). rewrite (Hf Hl). rewrite <- Hkind. reflexivity.
Qed.

Lemma set_nth_cases {A} (x : A) l n m y : nth_error (set_nth n x l) m = Some y ->
  (m = n /\ y = x) \/ (m <> n /\ nth_error l m = Some y).
Proof.
  intros H. destruct (Nat.eq_dec m n) as [E|E].
  - subst. left. split; [reflexivity|].
    assert (Hl : n < List.length l).
    { rewrite <- (set_nth_length x l n). apply nth_error_Some. rewrite H. discriminate. }
    rewrite nth_set_nth_eq in H by exact Hl. inversion H. reflexivity.
  - right. split; [exact E|]. rewrite nth_set_nth_neq in H by auto. exact H.
Qed.

Lemma nth_lt {A} (l : list A) n y : nth_error l n = Some y -> n < List.length l.
Proof. intros H. apply nth_error_Some. rewrite H. discriminate. Qed.

(* ---- each admissible operation succeeds and keeps the invariant ---- *)
Lemma step_new s k : Inv s -> k <> 0 -> exists s', cstep s (New k) = (s', Done) /\ Inv s'.
Proof.
  intros I Hk. cbn [cstep]. destruct (Nat.eqb k 0) eqn:E; [apply Nat.eqb_eq in E; lia|].
  eexists. split; [reflexivity|]. constructor; cbn [oheap handles].
  - intros h x a Hh Ha. apply nth_app_cases in Hh. destruct Hh as [Hh|[Hn Hx]].
    + destruct (inv_target s I h x a Hh Ha) as (ob & Hob & Hl & Hkd). exists ob. split; [apply nth_app_old; exact Hob | auto].
    + subst x. cbn in Ha. inversion Ha; subst a. eexists. split; [apply nth_app_new|]. cbn. auto.
  - intros h1 h2 x1 x2 a H1 H2 A1 A2 Hown.
    apply nth_app_cases in H1. apply nth_app_cases in H2.
    destruct H1 as [H1|[N1 X1]], H2 as [H2|[N2 X2]].
    + eapply (inv_unique s I); eauto.
    + subst x2. cbn in A2. inversion A2; subst a.
      destruct (inv_target s I h1 x1 _ H1 A1) as (ob & Hob & _). apply nth_lt in Hob. lia.
    + subst x1. cbn in A1. inversion A1; subst a.
      destruct (inv_target s I h2 x2 _ H2 A2) as (ob & Hob & _). apply nth_lt in Hob. lia.
    + lia.
  - intros a ob Hob. apply nth_app_cases in Hob. destruct Hob as [Hob|[_ Hx]].
    + exact (inv_objs s I a ob Hob).
    + subst ob. cbn. repeat split; auto; try discriminate; intros; lia.
  - intros a ob Hob Hkd Hl. apply nth_app_cases in Hob. destruct Hob as [Hob|[Hn Hx]].
    + destruct (inv_reach s I a ob Hob Hkd Hl) as (h & x & Hh & Ha). exists h, x. split; [apply nth_app_old; exact Hh | exact Ha].
    + subst a. eexists _, _. split; [apply nth_app_new | reflexivity].
Qed.

Lemma step_libobject s : Inv s -> exists s', cstep s LibObject = (s', Done) /\ Inv s'.
Proof.
  intros I. cbn [cstep]. eexists. split; [reflexivity|]. constructor; cbn [oheap handles].
  - intros h x a Hh Ha. destruct (inv_target s I h x a Hh Ha) as (ob & Hob & Hl & Hkd). exists ob. split; [apply nth_app_old; exact Hob | auto].
  - exact (inv_unique s I).
  - intros a ob Hob. apply nth_app_cases in Hob. destruct Hob as [Hob|[_ Hx]].
    + exact (inv_objs s I a ob Hob).
    + subst ob. cbn. repeat split; auto; discriminate.
  - intros a ob Hob Hkd Hl. apply nth_app_cases in Hob. destruct Hob as [Hob|[_ Hx]].
    + exact (inv_reach s I a ob Hob Hkd Hl).
    + subst ob. cbn in Hkd. lia.
Qed.

Lemma step_borrow s a : Inv s -> (exists ob, nth_error (oheap s) a = Some ob /\ o_kind ob = 0) ->
  exists s', cstep s (Borrow a) = (s', Done) /\ Inv s'.
Proof.
  intros I (ob & Hob & Hk). cbn [cstep]. rewrite Hob, Hk. cbn [Nat.eqb].
  eexists. split; [reflexivity|]. constructor; cbn [oheap handles].
  - intros h x a' Hh Ha. apply nth_app_cases in Hh. destruct Hh as [Hh|[_ Hx]].
    + exact (inv_target s I h x a' Hh Ha).
    + subst x. cbn in Ha. inversion Ha; subst a'. exists ob. split; [exact Hob|]. cbn.
      destruct (inv_objs s I a ob Hob) as (Hlive & _). auto.
  - intros h1 h2 x1 x2 a' H1 H2 A1 A2 Hown.
    apply nth_app_cases in H1. apply nth_app_cases in H2.
    destruct H1 as [H1|[N1 X1]], H2 as [H2|[N2 X2]].
    + eapply (inv_unique s I); eauto.
    + subst x2. cbn in A2. inversion A2; subst a'.
      destruct (inv_target s I h1 x1 a H1 A1) as (ob' & Hob' & _ & Hkd). rewrite Hob in Hob'. inversion Hob'; subst ob'. lia.
    + subst x1. cbn in Hown. lia.
    + lia.
  - exact (inv_objs s I).
  - intros a' ob' Hob' Hkd Hl. destruct (inv_reach s I a' ob' Hob' Hkd Hl) as (h & x & Hh & Ha).
    exists h, x. split; [apply nth_app_old; exact Hh | exact Ha].
Qed.

Lemma step_method s h : Inv s -> (exists x a, nth_error (handles s) h = Some x /\ h_addr x = Some a) ->
  exists s', cstep s (Method h) = (s', Done) /\ Inv s'.
Proof.
  intros I (x & a & Hh & Ha). cbn [cstep]. rewrite Hh, Ha.
  destruct (inv_target s I h x a Hh Ha) as (ob & Hob & Hl & _). rewrite Hob, Hl. exists s. auto.
Qed.

(* the state after the object of handle h has been freed and the handle cleared to x' (x' has no address) *)
Lemma inv_after_free s h x a ob x' : Inv s -> nth_error (handles s) h = Some x -> h_addr x = Some a -> h_idtor x <> 0 ->
  nth_error (oheap s) a = Some ob -> h_addr x' = None ->
  Inv {| oheap := set_nth a {| o_kind := o_kind ob; o_live := false; o_frees := 1 |} (oheap s); handles := set_nth h x' (handles s) |}.
Proof.
  intros I Hh Ha Hown Hob Hx'. constructor; cbn [oheap handles].
  - intros h' y a' Hh' Ha'. apply set_nth_cases in Hh'. destruct Hh' as [[E1 E2]|[Hne Hold]].
    + subst y. rewrite Hx' in Ha'. discriminate.
    + destruct (inv_target s I h' y a' Hold Ha') as (ob' & Hob' & Hl' & Hk').
      assert (a' <> a). { intros E. subst a'. apply Hne. symmetry. eapply (inv_unique s I h h' x y a); eauto. }
      exists ob'. split; [rewrite nth_set_nth_neq by auto; exact Hob' | auto].
  - intros h1 h2 x1 x2 a' H1 H2 A1 A2 Hown'.
    apply set_nth_cases in H1. apply set_nth_cases in H2.
    destruct H1 as [[E1 E1']|[N1 O1]]; [subst x1; rewrite Hx' in A1; discriminate|].
    destruct H2 as [[E2 E2']|[N2 O2]]; [subst x2; rewrite Hx' in A2; discriminate|].
    eapply (inv_unique s I); eauto.
  - intros a' ob' Hob'. apply set_nth_cases in Hob'. destruct Hob' as [[E1 E2]|[Hne Hold]].
    + subst ob'. cbn. destruct (inv_target s I h x a Hh Ha) as (ob2 & Hob2 & _ & Hk2). rewrite Hob in Hob2. inversion Hob2; subst ob2.
      repeat split; auto; try discriminate. intros H0. lia.
    + exact (inv_objs s I a' ob' Hold).
  - intros a' ob' Hob' Hkd Hl. apply set_nth_cases in Hob'. destruct Hob' as [[E1 E2]|[Hne Hold]].
    + subst ob'. cbn in Hl. discriminate.
    + destruct (inv_reach s I a' ob' Hold Hkd Hl) as (h' & y & Hh' & Ha').
      assert (h' <> h). { intros E. subst h'. rewrite Hh in Hh'. inversion Hh'; subst y. rewrite Ha in Ha'. inversion Ha'. lia. }
      exists h', y. split; [rewrite nth_set_nth_neq by auto; exact Hh' | exact Ha'].
Qed.

Lemma step_dtor s h : Inv s -> (exists x, nth_error (handles s) h = Some x /\ (h_addr x <> None -> h_idtor x <> 0)) ->
  exists s', cstep s (Destroy h) = (s', Done) /\ Inv s'.
Proof.
  intros I (x & Hh & Hc). cbn [cstep]. rewrite Hh. destruct (h_addr x) as [a|] eqn:Ha; [|exists s; auto].
  assert (Hown : h_idtor x <> 0) by (apply Hc; discriminate).
  destruct (free_obj_owned s h x a I Hh Ha Hown) as (ob & Hob & Hfree).
  destruct (inv_target s I h x a Hh Ha) as (ob2 & Hob2 & _ & Hk2). rewrite Hob in Hob2. inversion Hob2; subst ob2.
  rewrite Hob. destruct (Nat.eqb (o_kind ob) 0) eqn:E0; [apply Nat.eqb_eq in E0; lia|].
  rewrite Hk2, Hfree. unfold set_handle; cbn [oheap handles].
  eexists. split; [reflexivity|]. eapply inv_after_free; eauto.
Qed.

(* clearing a handle that owns nothing *)
Lemma inv_clear s h x : Inv s -> nth_error (handles s) h = Some x -> (h_idtor x = 0 \/ h_addr x = None) ->
  Inv {| oheap := oheap s; handles := set_nth h {| h_addr := None; h_idtor := 0 |} (handles s) |}.
Proof.
  intros I Hh Hno. constructor; cbn [oheap handles].
  - intros h' y a' Hh' Ha'. apply set_nth_cases in Hh'. destruct Hh' as [[E1 E2]|[Hne Hold]]; [subst y; discriminate|].
    exact (inv_target s I h' y a' Hold Ha').
  - intros h1 h2 x1 x2 a' H1 H2 A1 A2 Hown'.
    apply set_nth_cases in H1. apply set_nth_cases in H2.
    destruct H1 as [[E1 E1']|[N1 O1]]; [subst x1; discriminate|].
    destruct H2 as [[E2 E2']|[N2 O2]]; [subst x2; discriminate|].
    eapply (inv_unique s I); eauto.
  - exact (inv_objs s I).
  - intros a' ob' Hob' Hkd Hl. destruct (inv_reach s I a' ob' Hob' Hkd Hl) as (h' & y & Hh' & Ha').
    assert (h' <> h).
    { intros E. subst h'. rewrite Hh in Hh'. inversion Hh'; subst y.
      destruct Hno as [H0|H0]; [|rewrite H0 in Ha'; discriminate].
      destruct (inv_target s I h x a' Hh Ha') as (ob2 & Hob2 & _ & Hk2). rewrite Hob' in Hob2. inversion Hob2; subst ob2. lia. }
    exists h', y. split; [rewrite nth_set_nth_neq by auto; exact Hh' | exact Ha'].
Qed.

Lemma step_release s h : Inv s -> (exists x, nth_error (handles s) h = Some x) ->
  exists s', cstep s (Release h) = (s', Done) /\ Inv s'.
Proof.
  intros I (x & Hh). cbn [cstep]. rewrite Hh.
  destruct (h_idtor x) as [|k] eqn:Hk.
  - eexists. split; [reflexivity|]. unfold set_handle. eapply inv_clear; eauto.
  - destruct (h_addr x) as [a|] eqn:Ha.
    + assert (Hown : h_idtor x <> 0) by lia.
      destruct (free_obj_owned s h x a I Hh Ha Hown) as (ob & Hob & Hfree). rewrite Hk in Hfree. rewrite Hfree.
      unfold set_handle; cbn [oheap handles]. eexists. split; [reflexivity|]. eapply inv_after_free; eauto.
    + eexists. split; [reflexivity|]. unfold set_handle. eapply inv_clear; eauto.
Qed.

Theorem step_ok s o : Inv s -> client_ok s o -> exists s', cstep s o = (s', Done) /\ Inv s'.
Proof.
  intros I Hc. destruct o; cbn [client_ok] in Hc.
  - apply step_new; auto.
  - apply step_borrow; auto.
  - apply step_libobject; auto.
  - apply step_method; auto.
  - apply step_dtor; auto.
  - apply step_release; auto.
  - contradiction.
Qed.

(* ---- every admissible call sequence ---- *)
Fixpoint valid (s : state) (ops : list op) : Prop :=
  match ops with
  | [] => True
  | o :: r => client_ok s o /\ valid (fst (cstep s o)) r
  end.

Theorem run_ok : forall ops s, Inv s -> valid s ops -> snd (crun s ops) = Done /\ Inv (fst (crun s ops)).
Proof.
  induction ops as [|o r IH]; intros s I Hv; cbn [crun]; [auto|].
  destruct Hv as (Hc & Hr). destruct (step_ok s o I Hc) as (s' & Hs & I').
  rewrite Hs in *. cbn [fst] in Hr. apply IH; auto.
Qed.

(* consequences of the invariant for the final oheap *)
Theorem freed_at_most_once s : Inv s -> forall a ob, nth_error (oheap s) a = Some ob -> o_frees ob <= 1.
Proof.
  intros I a ob Hob. destruct (inv_objs s I a ob Hob) as (_ & H1 & H2).
  destruct (o_live ob); [rewrite H1 | rewrite H2]; auto.
Qed.

Theorem library_owned_never_freed s : Inv s -> forall a ob, nth_error (oheap s) a = Some ob -> o_kind ob = 0 ->
  o_live ob = true /\ o_frees ob = 0.
Proof. intros I a ob Hob Hk. destruct (inv_objs s I a ob Hob) as (H0 & H1 & _). split; auto. Qed.

(* when the caller has released (or destroyed) every handle, nothing caller-owned is left alive: no leak *)
Theorem all_released_no_leak s : Inv s -> (forall h x, nth_error (handles s) h = Some x -> h_idtor x = 0 \/ h_addr x = None) ->
  forall a ob, nth_error (oheap s) a = Some ob -> o_kind ob <> 0 -> o_live ob = false /\ o_frees ob = 1.
Proof.
  intros I Hall a ob Hob Hk. destruct (o_live ob) eqn:El.
  - exfalso. destruct (inv_reach s I a ob Hob Hk El) as (h & x & Hh & Ha).
    destruct (Hall h x Hh) as [H0|H0]; [|rewrite H0 in Ha; discriminate].
    destruct (inv_target s I h x a Hh Ha) as (ob2 & Hob2 & _ & Hk2). rewrite Hob in Hob2. inversion Hob2; subst ob2. lia.
  - destruct (inv_objs s I a ob Hob) as (_ & _ & H2). auto.
Qed.

(* releasing a released handle does nothing *)
Theorem release_twice_is_noop s h : Inv s -> (exists x, nth_error (handles s) h = Some x) ->
  let s1 := fst (cstep s (Release h)) in cstep s1 (Release h) = (s1, Done).
Proof.
  intros I (x & Hh). cbn zeta.
  assert (Hs1 : exists hp, fst (cstep s (Release h)) = {| oheap := hp; handles := set_nth h {| h_addr := None; h_idtor := 0 |} (handles s) |}).
  { cbn [cstep]. rewrite Hh. destruct (h_idtor x) as [|k] eqn:Hk; [eexists; reflexivity|].
    destruct (h_addr x) as [a|] eqn:Ha; [|eexists; reflexivity].
    assert (Hown : h_idtor x <> 0) by lia.
    destruct (free_obj_owned s h x a I Hh Ha Hown) as (ob & Hob & Hfree). rewrite Hk in Hfree. rewrite Hfree.
    eexists. reflexivity. }
  destruct Hs1 as (hp & Hs1). rewrite Hs1. cbn [cstep handles].
  rewrite nth_set_nth_eq by (eapply nth_lt; exact Hh). cbn [h_idtor].
  unfold set_handle. cbn [oheap handles]. f_equal. f_equal.
  clear. revert h. induction (handles s) as [|y l IH]; intros [|h]; cbn; auto. f_equal. apply IH.
Qed.

(* ---- with handle copies the statement is false: both copies release the object ---- *)
Theorem copied_handle_refuted : snd (crun init [New 1; Copy 0; Release 0; Release 1]) = DoubleFree.
Proof. vm_compute. reflexivity. Qed.
Theorem copied_handle_use_after_release_refuted : snd (crun init [New 1; Copy 0; Release 0; Method 1]) = UseAfterFree.
Proof. vm_compute. reflexivity. Qed.

(* non-vacuity: a sequence with constructors, borrowed objects, methods, destructor, double release is admissible *)
Example valid_example :
  valid init [LibObject; New 1; New 2; Borrow 0; Method 0; Method 2; Destroy 0; Release 0; Release 0; Release 1; Release 2; Destroy 1] /\
  snd (crun init [LibObject; New 1; New 2; Borrow 0; Method 0; Method 2; Destroy 0; Release 0; Release 0; Release 1; Release 2; Destroy 1]) = Done.
Proof.
  split; [|vm_compute; reflexivity].
  cbn. repeat split; try discriminate; try (eexists; split; [reflexivity|]; cbn; try reflexivity; intros; discriminate);
    try (eexists; eexists; split; reflexivity); try (eexists; reflexivity).
  eexists. split; [reflexivity|]. cbn. intros H; contradiction H; reflexivity.
Qed.
