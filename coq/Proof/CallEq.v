(* Proof/CallEq.v — a wrapper that passes the check delivers to the C++ callee exactly the caller's argument values,
   in declaration order, for every value. *)
From Coq Require Import List NArith ZArith Bool Arith String Lia.
From Shroud Require Import Base.Ustr Model.CallEq.
Import ListNotations.
Open Scope string_scope.

Lemma conv_eqb_eq a b : conv_eqb a b = true -> a = b.
Proof. destruct a, b; cbn; intros H; try discriminate; reflexivity. Qed.

(* each conversion undoes the C representation of a value that fits it *)
Lemma sem_c_form c x : fits c x -> sem c (c_form c x) = x.
Proof.
  destruct c, x; cbn; intros H; try contradiction; try reflexivity;
    try (destruct s; [reflexivity | contradiction]).
Qed.

Lemma sem_compat c e x : conv_compat c e = true -> fits e x -> sem c (c_form e x) = x.
Proof.
  unfold conv_compat. intros H Hf. apply conv_eqb_eq in H. subst. apply sem_c_form; exact Hf.
Qed.

(* the C caller's environment for argument values vs: parameter i is bound to the C form of value i *)
Fixpoint caller_env (ps : list (string * pkind)) (vs : list cxxval) : list (string * cval) :=
  match ps, vs with
  | (n, k) :: ps', v :: vs' =>
      match expected k with
      | Some c => (n, c_form c v) :: caller_env ps' vs'
      | None => caller_env ps' vs'
      end
  | _, _ => []
  end.

Fixpoint all_fit (ps : list (string * pkind)) (vs : list cxxval) : Prop :=
  match ps, vs with
  | [], [] => True
  | (n, k) :: ps', v :: vs' => (match expected k with Some c => fits c v | None => False end) /\ all_fit ps' vs'
  | _, _ => False
  end.

Lemma lookup_skip n k v env : n <> k -> lookup n ((k, v) :: env) = lookup n env.
Proof. intros H. cbn [lookup]. destruct (String.eqb n k) eqn:E; [apply String.eqb_eq in E; contradiction | reflexivity]. Qed.

Lemma lookup_not_in n env : ~ In n (map fst env) -> lookup n env = CNone.
Proof.
  induction env as [|[k v] env IH]; intros H; [reflexivity|].
  cbn [lookup]. destruct (String.eqb n k) eqn:E.
  - apply String.eqb_eq in E. subst. exfalso. apply H. left. reflexivity.
  - apply IH. intros Hin. apply H. right. exact Hin.
Qed.

Lemma caller_env_names ps vs : incl (map fst (caller_env ps vs)) (map fst ps).
Proof.
  revert vs. induction ps as [|[n k] ps IH]; intros vs; cbn [caller_env]; [intros x Hx; exact Hx|].
  destruct vs as [|v vs]; [intros x Hx; contradiction|].
  destruct (expected k).
  - cbn [map fst]. intros x [Hx|Hx]; [left; exact Hx | right; apply (IH vs); exact Hx].
  - intros x Hx. right. apply (IH vs); exact Hx.
Qed.

(* the core: arguments that pass args_ok evaluate, in the caller's environment, to the caller's values *)
Lemma args_deliver : forall ps args vs, NoDup (map fst ps) -> args_ok ps args = true -> all_fit ps vs ->
  map (fun a => sem (fst a) (lookup (snd a) (caller_env ps vs))) args = vs.
Proof.
  induction ps as [|[n k] ps IH]; intros args vs Hnd Hok Hfit.
  - destruct args; [|discriminate]. destruct vs; [reflexivity | contradiction].
  - destruct args as [|[c r] args]; [discriminate|]. destruct vs as [|v vs]; [contradiction|].
    cbn [args_ok] in Hok. cbn [all_fit] in Hfit. destruct (expected k) as [e|] eqn:Ee; [|discriminate].
    apply andb_true_iff in Hok. destruct Hok as [Hok Hrest]. apply andb_true_iff in Hok. destruct Hok as [Hc Hr].
    apply String.eqb_eq in Hr. subst r. destruct Hfit as [Hf Hfit].
    inversion Hnd as [|? ? Hnotin Hnd']; subst.
    cbn [caller_env]. rewrite Ee. cbn [map fst snd]. f_equal.
    + cbn [lookup]. rewrite String.eqb_refl. apply sem_compat; assumption.
    + transitivity (map (fun a : conv * string => sem (fst a) (lookup (snd a) (caller_env ps vs))) args); [|apply IH; assumption].
      apply map_ext_in. intros [c2 r2] Hin. cbn [fst snd].
      (* the remaining arguments name later parameters, never n *)
      assert (Hrn : r2 <> n).
      { intros E. subst r2. apply Hnotin.
        clear - Hrest Hin. revert args Hrest Hin. induction ps as [|[n' k'] ps IHp]; intros args Hrest Hin.
        - destruct args; [contradiction | discriminate].
        - destruct args as [|[c' r'] args]; [contradiction|]. cbn [args_ok] in Hrest.
          destruct (expected k'); [|discriminate]. apply andb_true_iff in Hrest. destruct Hrest as [H1 H2].
          apply andb_true_iff in H1. destruct H1 as [_ H1]. apply String.eqb_eq in H1.
          destruct Hin as [Hin|Hin]; [inversion Hin; subst; left; reflexivity | right; eapply IHp; eauto]. }
      rewrite lookup_skip by exact Hrn. reflexivity.
Qed.

(* every value, every wrapper that passes the check: the callee receives the caller's arguments, in declaration order *)
Theorem checked_wrapper_delivers_arguments : forall w vs,
  wrapper_ok w = true -> NoDup (map fst (w_params w)) -> all_fit (w_params w) vs ->
  received w (caller_env (w_params w) vs) = vs.
Proof.
  intros w vs Hok Hnd Hfit. unfold wrapper_ok in Hok.
  apply andb_true_iff in Hok. destruct Hok as [Hok _]. apply andb_true_iff in Hok. destruct Hok as [Hok Hargs].
  unfold received. apply args_deliver; assumption.
Qed.

(* a checked method wrapper takes the object from the capsule passed as 'self' *)
Theorem checked_method_uses_self : forall w, wrapper_ok w = true -> w_kind w = "method" -> w_this w = "self" /\ w_call w = "method".
Proof.
  intros w Hok Hk. unfold wrapper_ok in Hok.
  apply andb_true_iff in Hok. destruct Hok as [Hok _]. apply andb_true_iff in Hok. destruct Hok as [Hok _].
  apply andb_true_iff in Hok. destruct Hok as [Hok _].
  apply andb_true_iff in Hok. destruct Hok as [_ Hc]. unfold call_ok in Hc. rewrite Hk in Hc. cbn in Hc.
  destruct (String.eqb (w_call w) "method") eqn:E1; cbn in Hc; [|discriminate].
  destruct (String.eqb (w_this w) "self") eqn:E2; cbn in Hc; [|discriminate].
  apply String.eqb_eq in E1. apply String.eqb_eq in E2. auto.
Qed.

(* string reference arguments the callee may change are copied back, and nothing else is *)
Theorem checked_wrapper_copies_out_exactly : forall w, wrapper_ok w = true ->
  str_list_eqb (w_copyouts w) (map fst (filter (fun p => needs_copyout (snd p)) (w_params w))) = true.
Proof. intros w Hok. unfold wrapper_ok in Hok. apply andb_true_iff in Hok. destruct Hok as [_ H]. exact H. Qed.

(* non-vacuity: a wrapper with a reference, an enumeration, a string and a class argument *)
Definition ex_w : wrapper :=
  {| w_name := "EQ_f"; w_kind := "method"; w_call := "method"; w_this := "self";
     w_params := [("a", {| k_group := "native"; k_ptrs := "&"; k_intent := "inout" |}); ("e", {| k_group := "enum"; k_ptrs := ""; k_intent := "in" |});
                  ("s", {| k_group := "string"; k_ptrs := "&"; k_intent := "in" |}); ("t", {| k_group := "shadow"; k_ptrs := "&"; k_intent := "in" |})];
     w_args := [(Deref, "a"); (Cast, "e"); (StringFrom, "s"); (DerefShadow, "t")]; w_copyouts := []; w_unknown := 0;
     w_rkind := {| k_group := "enum"; k_ptrs := ""; k_intent := "result" |}; w_result := RCastBack; w_buf := false; w_this_const := false; w_fconst := false; w_cparams := []; w_lens := [] |}.

(* what the C caller gets for a callee result *)
Definition rsem (r : rconv) (x : cxxval) : cval :=
  match r, x with
  | RDirect, XNum z => CNum z
  | RDirect, XCPtr a => CPtr a
  | RDirect, XStr s => CStr s
  | RCastBack, XEnum z => CNum z
  | RCStr, XStr s => CStr s
  | RShadow, XObjPtr id => CCapsule id
  | _, _ => CNone
  end.

(* the conversions back are the inverses of the conversions in: a value returned and passed again arrives unchanged *)
Theorem result_round_trip : forall z s id,
  sem Cast (rsem RCastBack (XEnum z)) = XEnum z /\ sem StringFrom (rsem RCStr (XStr s)) = XStr s /\
  sem ShadowAddr (rsem RShadow (XObjPtr id)) = XObjPtr id /\ sem Direct (rsem RDirect (XNum z)) = XNum z.
Proof. intros; repeat split; reflexivity. Qed.
Example ex_w_delivers :
  wrapper_ok ex_w = true /\
  received ex_w (caller_env (w_params ex_w) [XNum 7; XEnum 5; XStr [104%N; 105%N]; XObj 3]) = [XNum 7; XEnum 5; XStr [104%N; 105%N]; XObj 3].
Proof. split; vm_compute; reflexivity. Qed.


(* a checked wrapper builds a std::string with the trimmed length exactly when its prototype carries that length *)
Theorem checked_string_uses_its_length : forall w c r, wrapper_ok w = true -> In (c, r) (w_args w) -> c = StringFrom ->
  smem (String.append "L" r) (w_cparams w) = smem r (w_lens w).
Proof.
  intros w c r Hok Hin ->. unfold wrapper_ok in Hok.
  apply andb_true_iff in Hok. destruct Hok as [Hok _]. apply andb_true_iff in Hok. destruct Hok as [Hok _].
  apply andb_true_iff in Hok. destruct Hok as [_ Hl]. unfold lens_ok in Hl. rewrite forallb_forall in Hl.
  specialize (Hl _ Hin). cbn in Hl. apply Bool.eqb_prop in Hl. exact Hl.
Qed.
